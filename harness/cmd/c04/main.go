// Command c04 traces the non-indexed heaps of moorara/algo (binary, binomial, Fibonacci).
//
//	header:  <BIN|BNM|FIB> <min|max> <size0> <size1> ...   one initial size per heap of the pool
//	         MAXDEG                                         ops "<n> -> <maxDegree(n)>"
//	ops:     <i> I k v -> -    <i> D -> k,v|none   <i> P -> k,v|none   <i> X -> -    <i> S -> n
//	         <i> E -> t|f      <i> CK k -> t|f     <i> CV v -> t|f     <i> M j -> -
//	         <i> DUMP -> layout (hook VerifC04Dump)               <i> V -> t|f (hook: verify())
//
// A heap that was the argument of Merge, or that panicked, is dead: later ops on it are not
// executed and are traced with the result "skip".  A panic inside an op is recovered and traced as
// PANIC; an op that does not return within the deadline is traced as HANG and the process exits
// after flushing (the goroutine cannot be killed).
package main

import (
	"bufio"
	"flag"
	"fmt"
	"os"
	"strconv"
	"strings"
	"sync"
	"time"

	"github.com/moorara/algo/generic"
	"github.com/moorara/algo/heap"

	"verif/harness/internal/rng"
	"verif/harness/internal/tr"
)

var impls = []string{"BIN", "BNM", "FIB"}
// Comparators.  generic.CompareFunc promises negative / zero / positive, not -1 / 0 / +1, so
// besides the library's own (+-1) comparators the heaps are driven with comparators that return
// magnitudes: a-b, b-a, 3*(a-b), 3*(b-a).  Code that tests `== 1` or `== -1` instead of the sign
// behaves differently under them.
var orients = []string{"min", "max", "minm", "maxm", "min3", "max3"}

func cmpOf(orient string) generic.CompareFunc[int] {
	switch orient {
	case "max":
		return generic.NewReverseCompareFunc[int]()
	case "minm":
		return func(a, b int) int { return a - b }
	case "maxm":
		return func(a, b int) int { return b - a }
	case "min3":
		return func(a, b int) int { return 3 * (a - b) }
	case "max3":
		return func(a, b int) int { return 3 * (b - a) }
	}
	return generic.NewCompareFunc[int]()
}

func mk(impl, orient string, size int) heap.Heap[int, int] {
	cmp := cmpOf(orient)
	eq := generic.NewEqualFunc[int]()
	switch impl {
	case "BIN":
		return heap.NewBinary[int, int](size, cmp, eq)
	case "BNM":
		return heap.NewBinomial[int, int](cmp, eq)
	}
	return heap.NewFibonacci[int, int](cmp, eq)
}

func b(x bool) string {
	if x {
		return "t"
	}
	return "f"
}

// sw is a streaming trace writer: a case line is written piece by piece, and the text of an
// operation that recurses over the structure (verify, traversals, dumps) is flushed BEFORE the
// operation runs.  If the Go runtime then dies with an unrecoverable fatal error (stack overflow
// on a cyclic structure), the unfinished line on disk still names the history and the operation
// that killed the process, so the failure can be shrunk and replayed.
type sw struct {
	w      *bufio.Writer
	inOp   bool // " | op" written, result pending
	inCase bool
}

func newSW() *sw { return &sw{w: bufio.NewWriterSize(os.Stdout, 1<<20)} }

func (t *sw) Begin(format string, a ...any) {
	fmt.Fprintf(t.w, format, a...)
	t.inCase = true
}
func (t *sw) Start(op string, risky bool) {
	t.w.WriteString(" | ")
	t.w.WriteString(op)
	t.inOp = true
	if risky {
		t.w.Flush()
	}
}
func (t *sw) Finish(res string) {
	t.w.WriteString(" -> ")
	t.w.WriteString(res)
	t.inOp = false
}
func (t *sw) Op(op, res string) { t.Start(op, false); t.Finish(res) }
func (t *sw) End() {
	t.w.WriteByte('\n')
	t.inCase = false
}
func (t *sw) Flush() {
	if t.inCase {
		t.End()
	}
	t.w.Flush()
}

// ---- watchdog: one op at a time; if it does not finish within the deadline the trace is flushed
// with the result HANG and the process exits.
var (
	wmu      sync.Mutex
	wStart   time.Time
	wActive  bool
	wOp      string
	deadline = 1500 * time.Millisecond
)

func watchdog(w *sw) {
	for {
		time.Sleep(100 * time.Millisecond)
		wmu.Lock()
		if wActive && time.Since(wStart) > deadline {
			if w.inOp {
				w.Finish("HANG")
			} else {
				w.Op(wOp, "HANG")
			}
			w.Flush()
			os.Exit(0)
		}
		wmu.Unlock()
	}
}

// guarded runs f, converting a panic into the result PANIC.
func guarded(op string, f func() string) (res string, panicked bool) {
	wmu.Lock()
	wStart, wActive, wOp = time.Now(), true, op
	wmu.Unlock()
	defer func() {
		wmu.Lock()
		wActive = false
		wmu.Unlock()
		if r := recover(); r != nil {
			res, panicked = "PANIC", true
		}
	}()
	return f(), false
}

type pool struct {
	hs   []heap.Heap[int, int]
	live []bool
}

func newPool(impl, orient string, sizes []int) *pool {
	p := &pool{}
	for _, s := range sizes {
		p.hs = append(p.hs, mk(impl, orient, s))
		p.live = append(p.live, true)
	}
	return p
}

func exec(w *sw, p *pool, op string) {
	f := strings.Fields(op)
	a := func(i int) int { v, _ := strconv.Atoi(f[i]); return v }
	i := a(0)
	if i < 0 || i >= len(p.hs) || !p.live[i] {
		w.Op(op, "skip")
		return
	}
	h := p.hs[i]
	kv := func(k, v int, ok bool) string {
		if !ok {
			return "none"
		}
		return fmt.Sprintf("%d,%d", k, v)
	}
	var run func() string
	switch f[1] {
	case "I":
		run = func() string { h.Insert(a(2), a(3)); return "-" }
	case "D":
		run = func() string { return kv(h.Delete()) }
	case "P":
		run = func() string { return kv(h.Peek()) }
	case "X":
		run = func() string { h.DeleteAll(); return "-" }
	case "S":
		run = func() string { return strconv.Itoa(h.Size()) }
	case "E":
		run = func() string { return b(h.IsEmpty()) }
	case "CK":
		run = func() string { return b(h.ContainsKey(a(2))) }
	case "CV":
		run = func() string { return b(h.ContainsValue(a(2))) }
	case "DUMP":
		run = func() string { return heap.VerifC04Dump(h) }
	case "V":
		run = func() string { return b(heap.VerifC04Verify(h)) }
	case "IB":
		// bulk insert: <i> IB a cnt mult mod vbase : for j in 0..cnt-1 Insert(((a+j)*mult) % mod, vbase+a+j)
		run = func() string {
			st, cnt, mult, mod, vb := a(2), a(3), a(4), a(5), a(6)
			for j := 0; j < cnt; j++ {
				h.Insert(((st+j)*mult)%mod, vb+st+j)
			}
			return "-"
		}
	case "DB":
		// bulk delete: <i> DB cnt : cnt Deletes, results joined by ';'
		run = func() string {
			cnt := a(2)
			var sb strings.Builder
			for j := 0; j < cnt; j++ {
				if j > 0 {
					sb.WriteByte(';')
				}
				sb.WriteString(kv(h.Delete()))
			}
			return sb.String()
		}
	case "M":
		j := a(2)
		mh, ok := h.(heap.MergeableHeap[int, int])
		if !ok || j == i || j < 0 || j >= len(p.hs) || !p.live[j] {
			w.Op(op, "skip")
			return
		}
		arg, _ := p.hs[j].(heap.MergeableHeap[int, int])
		run = func() string { mh.Merge(arg); return "-" }
		p.live[j] = false
	default:
		w.Op(op, "skip")
		return
	}
	// operations that recurse over the structure can die with a fatal stack overflow: flush first
	risky := f[1] == "V" || f[1] == "CK" || f[1] == "CV" || f[1] == "DUMP"
	w.Start(op, risky)
	res, panicked := guarded(op, run)
	if panicked {
		p.live[i] = false
	}
	w.Finish(res)
}

func header(impl, orient string, sizes []int) string {
	s := impl + " " + orient
	for _, z := range sizes {
		s += " " + strconv.Itoa(z)
	}
	return s
}

func runCase(w *sw, head string, ops []string) {
	h := strings.Fields(head)
	if h[0] == "MAXDEG" {
		w.Begin("MAXDEG")
		for _, op := range ops {
			n, _ := strconv.Atoi(strings.TrimSpace(op))
			w.Op(op, strconv.Itoa(heap.VerifC04MaxDegree(n)))
		}
		w.End()
		return
	}
	var sizes []int
	for _, s := range h[2:] {
		z, _ := strconv.Atoi(s)
		sizes = append(sizes, z)
	}
	w.Begin("%s", head)
	p := newPool(strings.TrimSuffix(h[0], "*"), h[1], sizes)
	for _, op := range ops {
		exec(w, p, op)
	}
	w.End()
}

// battery: every query on heap i; vals: a held and an absent value to ask for.
func battery(i int, keys []int, vals []int) []string {
	ops := []string{fmt.Sprintf("%d S", i), fmt.Sprintf("%d E", i), fmt.Sprintf("%d P", i)}
	for _, k := range keys {
		ops = append(ops, fmt.Sprintf("%d CK %d", i, k))
	}
	for _, v := range vals {
		ops = append(ops, fmt.Sprintf("%d CV %d", i, v))
	}
	ops = append(ops, fmt.Sprintf("%d V", i), fmt.Sprintf("%d DUMP", i))
	return ops
}

// exhaustive: every history of exactly `length` steps over the alphabet, the full battery after every step.
// One heap: Insert key 1 / key 2 (fresh values), Delete, DeleteAll.
// Two heaps (mergeable): the same on both heaps plus Merge 0<-1 and 1<-0.
func exhaustive(w *sw, impl, orient string, sizes []int, length int, withDeleteAll bool, keys int) {
	nh := len(sizes)
	var alphabet []string
	for i := 0; i < nh; i++ {
		for k := 1; k <= keys; k++ {
			alphabet = append(alphabet, fmt.Sprintf("%d I %d", i, k))
		}
		alphabet = append(alphabet, fmt.Sprintf("%d D", i))
		if withDeleteAll {
			alphabet = append(alphabet, fmt.Sprintf("%d X", i))
		}
	}
	if nh == 2 && impl != "BIN" {
		alphabet = append(alphabet, "0 M 1", "1 M 0")
	}
	head := header(impl, orient, sizes)
	var rec func(prefix []string, dead []bool, nextVal int)
	rec = func(prefix []string, dead []bool, nextVal int) {
		if countSteps(prefix) == length {
			runCase(w, head, clean(prefix))
			return
		}
		for _, a := range alphabet {
			f := strings.Fields(a)
			i, _ := strconv.Atoi(f[0])
			if dead[i] {
				continue
			}
			nd := append([]bool(nil), dead...)
			op := a
			nv := nextVal
			if f[1] == "I" {
				op = fmt.Sprintf("%s %d", a, nextVal)
				nv++
			}
			if f[1] == "M" {
				j, _ := strconv.Atoi(f[2])
				if dead[j] {
					continue
				}
				nd[j] = true
			}
			step := append(prefix[:len(prefix):len(prefix)], "#", op)
			step = append(step, battery(i, []int{1, 2, 3}, []int{nextVal - 1, nextVal, 100})...)
			rec(step, nd, nv)
		}
	}
	rec(nil, make([]bool, nh), 100)
}

func countSteps(ops []string) int {
	n := 0
	for _, o := range ops {
		if o == "#" {
			n++
		}
	}
	return n
}

// strip the "#" step markers used by exhaustive
func clean(ops []string) []string {
	out := ops[:0:0]
	for _, o := range ops {
		if o != "#" {
			out = append(out, o)
		}
	}
	return out
}

// random: long structured histories on a pool of heaps.
func random(w *sw, r *rng.R, cases, maxSteps int) {
	for c := 0; c < cases; c++ {
		nh := r.Range(1, 4)
		if r.Chance(1, 5) {
			nh = r.Range(5, 8)
		}
		sizes := make([]int, nh)
		for i := range sizes {
			sizes[i] = r.Range(0, 4)
			if r.Chance(1, 10) {
				sizes[i] = r.Range(5, 40)
			}
		}
		steps := r.Range(1, maxSteps)
		if r.Chance(1, 3) {
			steps = r.Range(1, 40)
		}
		// key distribution: duplicate-heavy
		keyRange := []int{1, 2, 3, 5, 16, 64, 1000}[r.Intn(7)]
		shape := r.Intn(6) // 0 mixed, 1 grow-then-drain, 2 ascending, 3 descending, 4 saw-tooth around resize boundaries, 5 equal keys
		dupVals := r.Chance(1, 6)
		val := 1000
		var held []int // some values that were inserted (for ContainsValue)
		var ops []string
		live := make([]bool, nh)
		for i := range live {
			live[i] = true
		}
		nlive := nh
		pick := func() int {
			for {
				i := r.Intn(nh)
				if live[i] {
					return i
				}
			}
		}
		key := func(step int) int {
			switch shape {
			case 2:
				return step / 2
			case 3:
				return 100000 - step/2
			case 5:
				return 7
			}
			return r.Range(1, keyRange)
		}
		ins := func(i, step int) {
			v := val
			if dupVals {
				v = 1000 + r.Intn(5)
			} else {
				val++
			}
			held = append(held, v)
			ops = append(ops, fmt.Sprintf("%d I %d %d", i, key(step), v))
		}
		phaseGrow := true
		for s := 0; s < steps; s++ {
			i := pick()
			x := r.Intn(100)
			switch shape {
			case 1:
				if s > steps/2 {
					phaseGrow = false
				}
				if phaseGrow && x < 85 {
					x = 0
				} else if !phaseGrow && x < 85 {
					x = 50
				}
			case 4:
				// runs of inserts and deletes of random lengths: crosses resize thresholds back and forth
				if s%16 == 0 {
					phaseGrow = r.Bool()
				}
				if phaseGrow && x < 90 {
					x = 0
				} else if !phaseGrow && x < 90 {
					x = 50
				}
			}
			switch {
			case x < 45:
				ins(i, s)
			case x < 80:
				ops = append(ops, fmt.Sprintf("%d D", i))
			case x < 84:
				ops = append(ops, fmt.Sprintf("%d P", i))
			case x < 86:
				ops = append(ops, fmt.Sprintf("%d S", i), fmt.Sprintf("%d E", i))
			case x < 89:
				ops = append(ops, fmt.Sprintf("%d CK %d", i, key(s)))
			case x < 92:
				v := 999
				if len(held) > 0 && r.Bool() {
					v = held[r.Intn(len(held))]
				}
				ops = append(ops, fmt.Sprintf("%d CV %d", i, v))
			case x < 93:
				ops = append(ops, fmt.Sprintf("%d X", i))
			case x < 97:
				if nlive >= 2 {
					j := pick()
					if j != i {
						// give the ARGUMENT of Merge a history right before the merge: cleared by
						// DeleteAll, drained by Deletes, or just queried
						switch r.Intn(6) {
						case 0:
							ops = append(ops, fmt.Sprintf("%d X", j))
						case 1:
							ops = append(ops, fmt.Sprintf("%d I %d %d", j, key(s), 999), fmt.Sprintf("%d X", j))
						case 2:
							for d := 0; d < 12; d++ {
								ops = append(ops, fmt.Sprintf("%d D", j))
							}
						case 3:
							ops = append(ops, fmt.Sprintf("%d P", j), fmt.Sprintf("%d CK %d", j, key(s)), fmt.Sprintf("%d CV %d", j, 999), fmt.Sprintf("%d S", j))
						}
						ops = append(ops, fmt.Sprintf("%d M %d", i, j))
						live[j] = false
						nlive--
						// ... and look at the receiver BEFORE any Delete repairs anything
						hv := 999
						if len(held) > 0 {
							hv = held[r.Intn(len(held))]
						}
						ops = append(ops, fmt.Sprintf("%d P", i), fmt.Sprintf("%d S", i), fmt.Sprintf("%d E", i),
							fmt.Sprintf("%d CK %d", i, key(s)), fmt.Sprintf("%d CV %d", i, hv), fmt.Sprintf("%d CV 999", i))
					}
				}
			default:
				ops = append(ops, fmt.Sprintf("%d V", i), fmt.Sprintf("%d DUMP", i))
			}
		}
		// drain every live heap completely, looking at the layout now and then
		for i := 0; i < nh; i++ {
			if !live[i] {
				continue
			}
			ops = append(ops, fmt.Sprintf("%d S", i), fmt.Sprintf("%d V", i), fmt.Sprintf("%d DUMP", i))
			for d := 0; d < steps+2; d++ {
				ops = append(ops, fmt.Sprintf("%d D", i))
				if d%7 == 0 {
					ops = append(ops, fmt.Sprintf("%d P", i), fmt.Sprintf("%d S", i), fmt.Sprintf("%d DUMP", i))
				}
			}
			ops = append(ops, fmt.Sprintf("%d E", i), fmt.Sprintf("%d D", i))
		}
		for _, impl := range impls {
			o := ops
			if impl == "BIN" {
				o = nil
				for _, op := range ops {
					if f := strings.Fields(op); f[1] != "M" {
						o = append(o, op)
					}
				}
			}
			runCase(w, header(impl, orients[c%len(orients)], sizes), o)
		}
	}
}

// mergeHistories: Merge whose ARGUMENT (and receiver) has a history: never used, cleared by
// DeleteAll after inserts, refilled after a DeleteAll, drained to empty by Deletes, queried, itself
// the result of an earlier Merge (then possibly cleared or drained) - with keys better than, worse
// than or tying with the receiver's, followed by the full query battery on the receiver BEFORE any
// Delete, then one Delete, the battery again, and a drain.
func mergeHistories(w *sw, r *rng.R) {
	type hist func(h int, keys []int, v *int) []string
	ins := func(h int, keys []int, v *int) []string {
		var ops []string
		for _, k := range keys {
			ops = append(ops, fmt.Sprintf("%d I %d %d", h, k, *v))
			*v++
		}
		return ops
	}
	drain := func(h, n int) []string {
		var ops []string
		for i := 0; i < n; i++ {
			ops = append(ops, fmt.Sprintf("%d D", h))
		}
		return ops
	}
	query := func(h int, keys []int) []string {
		ops := []string{fmt.Sprintf("%d P", h), fmt.Sprintf("%d S", h), fmt.Sprintf("%d E", h)}
		for _, k := range keys {
			ops = append(ops, fmt.Sprintf("%d CK %d", h, k))
		}
		return append(ops, fmt.Sprintf("%d CV 500", h), fmt.Sprintf("%d CV 501", h))
	}
	// histories of a heap h; heap 2 is a helper for "result of an earlier Merge"
	hists := []hist{
		func(h int, keys []int, v *int) []string { return nil },
		func(h int, keys []int, v *int) []string { return ins(h, keys, v) },
		func(h int, keys []int, v *int) []string { return append(ins(h, keys, v), fmt.Sprintf("%d X", h)) },
		func(h int, keys []int, v *int) []string {
			return append(append(ins(h, keys, v), fmt.Sprintf("%d X", h)), ins(h, keys[:1], v)...)
		},
		func(h int, keys []int, v *int) []string { return append(ins(h, keys, v), drain(h, len(keys))...) },
		func(h int, keys []int, v *int) []string {
			return append(append(ins(h, keys, v), drain(h, len(keys)+1)...), fmt.Sprintf("%d X", h))
		},
		func(h int, keys []int, v *int) []string { return append(ins(h, keys, v), query(h, keys)...) },
		func(h int, keys []int, v *int) []string { return append(ins(h, keys, v), drain(h, 1)...) },
		func(h int, keys []int, v *int) []string {
			return append(append(ins(h, keys, v), ins(2, keys, v)...), fmt.Sprintf("%d M 2", h))
		},
		func(h int, keys []int, v *int) []string {
			return append(append(ins(h, keys, v), ins(2, keys, v)...), fmt.Sprintf("%d M 2", h), fmt.Sprintf("%d X", h))
		},
		func(h int, keys []int, v *int) []string {
			o := append(append(ins(h, keys, v), ins(2, keys, v)...), fmt.Sprintf("%d M 2", h))
			return append(o, drain(h, 2*len(keys))...)
		},
		func(h int, keys []int, v *int) []string {
			return append(append(ins(2, keys, v), fmt.Sprintf("%d M 2", h)), fmt.Sprintf("%d X", h))
		},
	}
	argKeys := [][]int{{1}, {1, 2, 1}, {30, 40}, {10}, {10, 20, 5, 10}, {3, 1, 4, 1, 5, 9, 2}}
	recvKeys := [][]int{{}, {10}, {10, 20, 5}, {10, 10, 10}, {7, 3, 9, 3, 8, 12, 3}}
	n := 0
	for _, impl := range []string{"BNM", "FIB"} {
		for ri, rk := range recvKeys {
			for rh := 0; rh < 4; rh++ { // receiver: plain, cleared-and-refilled, after one Delete, queried
				for ai, ak := range argKeys {
					for hi, ah := range hists {
						orient := orients[n%len(orients)]
						n++
						v := 500
						var ops []string
						switch rh {
						case 0:
							ops = ins(0, rk, &v)
						case 1:
							ops = append(append(ins(0, []int{1, 2}, &v), "0 X"), ins(0, rk, &v)...)
						case 2:
							ops = append(ins(0, append([]int{1}, rk...), &v), "0 D")
						case 3:
							ops = append(ins(0, rk, &v), query(0, rk)...)
						}
						ops = append(ops, ah(1, ak, &v)...)
						ops = append(ops, "0 M 1")
						all := append(append([]int{}, rk...), ak...)
						ops = append(ops, query(0, all)...)
						for val := 500; val < v; val++ { // every value ever inserted, discarded ones included
							ops = append(ops, fmt.Sprintf("0 CV %d", val))
						}
						ops = append(ops, "0 V", "0 DUMP", "0 D")
						ops = append(ops, query(0, all)...)
						ops = append(ops, "0 V", "0 DUMP")
						ops = append(ops, drain(0, len(rk)+3*len(ak)+2)...)
						ops = append(ops, "0 E", "0 S", "0 P")
						_ = ri
						_ = ai
						_ = hi
						runCase(w, header(impl, orient, []int{0, 0, 0}), ops)
					}
				}
			}
		}
	}
	_ = r
}

// big: heaps of 3000..6000 entries, driven with bulk operations (chunks of a few hundred inserts
// or deletes) so that the trace and the shrinker stay small; these cases (impl marked with '*')
// are judged by the extracted bag-specification acceptor only (the list-based exact model is
// quadratic at this size).  (1) insert a shuffled permutation (or a duplicate-heavy sequence),
// delete everything; (2) hover around the sizes 2207, 3571 and 5778 (phi^16, phi^17, phi^18, where
// the Fibonacci heap's maxDegree() steps 16 -> 17 -> 18 -> 19) with interleaved insert/delete runs.
func gcd(a, b int) int {
	for b != 0 {
		a, b = b, a%b
	}
	return a
}

func big(w *sw, r *rng.R, thorough bool) {
	const chunk = 250
	bulkIns := func(from, cnt, mult, mod, vbase int) []string {
		var ops []string
		for cnt > 0 {
			c := cnt
			if c > chunk {
				c = chunk
			}
			ops = append(ops, fmt.Sprintf("0 IB %d %d %d %d %d", from, c, mult, mod, vbase))
			from += c
			cnt -= c
		}
		return ops
	}
	bulkDel := func(cnt int) []string {
		var ops []string
		for cnt > 0 {
			c := cnt
			if c > chunk {
				c = chunk
			}
			ops = append(ops, fmt.Sprintf("0 DB %d", c))
			cnt -= c
		}
		return ops
	}
	coprime := func(mod int) int {
		for {
			m := r.Range(mod/3, mod-1)
			if gcd(m, mod) == 1 {
				return m
			}
		}
	}
	n := 0
	nextOrient := func() string { n++; return orients[n%len(orients)] }
	// (1) fill with a permutation / duplicate-heavy keys, then drain
	for _, impl := range impls {
		for _, N := range []int{6000, 3200} {
			for _, dup := range []bool{false, true} {
				if dup && N == 6000 && !thorough {
					continue
				}
				mod := N
				if dup {
					mod = N / 16
				}
				ops := bulkIns(0, N, coprime(mod), mod, 10000)
				ops = append(ops, "0 S", "0 V", "0 P", "0 D", "0 P", "0 S")
				ops = append(ops, bulkDel(N/2)...)
				ops = append(ops, "0 P", "0 S", "0 V", fmt.Sprintf("0 CK %d", mod-1), "0 CV 10000")
				ops = append(ops, bulkDel(N/2+5)...)
				ops = append(ops, "0 E", "0 S", "0 P")
				runCase(w, header(impl+"*", nextOrient(), []int{n % 5}), ops)
			}
		}
	}
	// (2) hover around the thresholds
	for _, impl := range impls {
		for _, T := range []int{2207, 3571, 5778} {
			if impl != "FIB" && T == 3571 && !thorough {
				continue
			}
			mod := 7919 // prime > every size used
			mult := coprime(mod)
			ops := bulkIns(0, T+40, mult, mod, 20000)
			ops = append(ops, "0 S", "0 D", "0 P", "0 V")
			from := T + 40
			for round := 0; round < 4; round++ {
				ops = append(ops, bulkDel(90)...)
				ops = append(ops, "0 P", "0 S")
				ops = append(ops, bulkIns(from, 90, mult, mod, 20000)...)
				from += 90
				ops = append(ops, "0 D", "0 P", "0 I 0 1", "0 P", "0 D", "0 S")
			}
			// single steps across the threshold
			for k := 0; k < 45; k++ {
				ops = append(ops, "0 D", "0 P")
			}
			ops = append(ops, "0 V")
			ops = append(ops, bulkDel(T+100)...)
			ops = append(ops, "0 E", "0 S")
			runCase(w, header(impl+"*", nextOrient(), []int{0}), ops)
		}
	}
}

// shapes: adversarial structures: merges of heaps of chosen sizes (carry chains, three trees of one
// order), power-of-two fills, resize boundaries of the binary heap for every initial size.
func shapes(w *sw, r *rng.R, thorough bool) {
	maxN := 20
	if thorough {
		maxN = 70
	}
	for _, orient := range orients {
		// binary heap: fill to n and drain, for every initial size 0..4 (+ larger), layout after every op
		for size := 0; size <= 6; size++ {
			for _, n := range []int{1, 2, 3, 4, 5, 7, 8, 9, 15, 16, 17, 33} {
				var ops []string
				for k := 0; k < n; k++ {
					ops = append(ops, fmt.Sprintf("0 I %d %d", r.Range(1, 4), 500+k), "0 DUMP", "0 V")
				}
				for k := 0; k <= n; k++ {
					ops = append(ops, "0 D", "0 DUMP", "0 V", "0 S")
				}
				ops = append(ops, "0 I 1 1", "0 X", "0 DUMP", "0 I 2 2", "0 I 1 3", "0 P", "0 DUMP")
				runCase(w, header("BIN", orient, []int{size}), ops)
			}
		}
		// mergeable heaps: sizes a and b, merge, then drain
		for _, impl := range []string{"BNM", "FIB"} {
			for a := 0; a <= maxN; a++ {
				for _, bb := range []int{0, 1, 2, 3, 4, 5, 7, 8, a, a + 1} {
					var ops []string
					v := 100
					keyOf := func() int { return r.Range(1, 6) }
					for k := 0; k < a; k++ {
						ops = append(ops, fmt.Sprintf("0 I %d %d", keyOf(), v))
						v++
					}
					for k := 0; k < bb; k++ {
						ops = append(ops, fmt.Sprintf("1 I %d %d", keyOf(), v))
						v++
					}
					// one delete on each side first, sometimes: consolidated forests instead of plain lists
					if a%2 == 1 {
						ops = append(ops, "0 D", "1 D")
					}
					ops = append(ops, "0 DUMP", "1 DUMP", "0 M 1", "0 S", "0 V", "0 DUMP", "0 P")
					for k := 0; k <= a+bb; k++ {
						ops = append(ops, "0 D")
						if k%3 == 0 {
							ops = append(ops, "0 DUMP", "0 V")
						}
					}
					ops = append(ops, "0 E")
					runCase(w, header(impl, orient, []int{0, 0}), ops)
				}
			}
		}
	}
	// tall trees: 2^k+1 inserts and one Delete leave a single tree of degree k (Fibonacci) / order k
	// (binomial): the degree table is used up to its highest index that any run reaches
	maxK := 9
	if thorough {
		maxK = 12
	}
	for half := 0; half < 2; half++ {
		for ii, impl := range impls {
			for k := 1; k <= maxK; k++ {
				for _, keyShape := range []int{0, 1, 2, 3} { // ascending, descending, equal, random small range
					orient := orients[(2*(k+keyShape+ii)+half)%len(orients)] // min-like for half 0, max-like for half 1
					var ops []string
					nIns := (1 << k) + 1
					for x := 0; x < nIns; x++ {
						key := x
						switch keyShape {
						case 1:
							key = nIns - x
						case 2:
							key = 5
						case 3:
							key = r.Range(1, 4)
						}
						ops = append(ops, fmt.Sprintf("0 I %d %d", key, 100+x))
					}
					ops = append(ops, "0 D", "0 S", "0 V", "0 DUMP", "0 P")
					for x := 0; x < nIns/2; x++ {
						ops = append(ops, "0 D")
					}
					ops = append(ops, "0 S", "0 V", "0 DUMP", "0 I 0 1", "0 I 9 2", "0 D", "0 DUMP")
					runCase(w, header(impl, orient, []int{k % 5}), ops)
				}
			}
		}
	}
	// the float64 maxDegree against the exact definition
	top := 20000
	if thorough {
		top = 1000000
	}
	var ns []string
	for n := 1; n <= top; n++ {
		ns = append(ns, strconv.Itoa(n))
	}
	// around φ^d for larger d
	phi := 1.618033988749895
	x := 1.0
	for d := 1; d < 80; d++ {
		x *= phi
		if x > float64(top) && x < 2e7 {
			for dd := -2; dd <= 2; dd++ {
				ns = append(ns, strconv.FormatInt(int64(x)+int64(dd), 10))
			}
		}
	}
	for len(ns) > 0 { // chunks: one case line stays of moderate length
		k := len(ns)
		if k > 5000 {
			k = 5000
		}
		runCase(w, "MAXDEG", ns[:k])
		ns = ns[k:]
	}
}

func main() {
	mode := flag.String("mode", "exhaustive", "exhaustive|random|shapes|big")
	tier := flag.String("tier", "quick", "quick|thorough")
	replay := flag.String("replay", "", "case file to re-execute")
	flag.Parse()
	w := newSW()
	defer w.Flush()
	if *replay != "" {
		deadline = 300 * time.Millisecond // replayed cases are small; keeps shrinking of a hang fast
	}
	go watchdog(w)
	if *replay != "" {
		cs, err := tr.ReadCases(*replay)
		if err != nil {
			fmt.Fprintln(os.Stderr, err)
			os.Exit(3)
		}
		for _, c := range cs {
			runCase(w, c.Head, c.Ops)
		}
		return
	}
	thorough := *tier == "thorough"
	switch *mode {
	case "exhaustive":
		l1, l2 := 6, 4
		if thorough {
			l1, l2 = 7, 5
		}
		for _, orient := range orients {
			// full depth under a +-1 comparator (min) and under a magnitude comparator (max3);
			// one step less under the other four
			d := 1
			if orient == "min" || orient == "max3" {
				d = 0
			}
			for _, impl := range impls {
				exhaustive(w, impl, orient, []int{0}, l1-d, true, 2)
				exhaustive(w, impl, orient, []int{0}, l1-1-d, false, 3)
				if impl != "BIN" {
					exhaustive(w, impl, orient, []int{0, 0}, l2-d, true, 2) // DeleteAll too: a cleared heap as Merge argument
					// deeper, without DeleteAll: consolidation of forests with mixed degrees needs
					// Deletes between the Inserts
					exhaustive(w, impl, orient, []int{0}, l1+2-d, false, 2)
				}
			}
			for size := 1; size <= 4; size++ {
				exhaustive(w, "BIN", orient, []int{size}, l1-1-d, false, 2)
			}
		}
	case "random":
		r := rng.FromEnv(4)
		if thorough {
			random(w, r, 2000, 2000)
		} else {
			random(w, r, 700, 1200)
		}
	case "big":
		big(w, rng.FromEnv(406), thorough)
	case "shapes":
		shapes(w, rng.FromEnv(404), thorough)
		mergeHistories(w, rng.FromEnv(405))
	}
}
