// Command c02 traces the four hash tables of symboltable (C02: map behaviour, C03: termination).
//
//	header:  <chain|linear|quadratic|double> cap=<c> min=<a>/<b> max=<a>/<b> hf=<name> [zero=1] H=<k>:<h>,...
//	         two tables (0 and 1) are created with these settings; H gives the hash of every key used;
//	         zero=1: the options are passed as zero values (the constructor's defaults must equal the header)
//	ops (X = 0|1):  PX k v -> -    GX k -> v|none    DX k -> v|none    CX -> -    SX -> n    ZX -> t|f
//	                AX -> k:v,...  EX -> t|f  (tX.Equal(t(1-X)))      XX -> m=.. n=.. t=.. layout
//	every op runs under a watchdog: result HANG when it does not return within the deadline
//	(the instance is then abandoned and the case ends), PANIC when it panics.
package main

import (
	"flag"
	"fmt"
	"os"
	"sort"
	"strconv"
	"strings"
	"sync/atomic"
	"time"

	"github.com/moorara/algo/generic"
	"github.com/moorara/algo/grammar"
	"github.com/moorara/algo/hash"
	"github.com/moorara/algo/parser/lr"
	st "github.com/moorara/algo/symboltable"

	"verif/harness/internal/rng"
	"verif/harness/internal/tr"
)

var kinds = []string{"chain", "linear", "quadratic", "double"}

type cfg struct {
	kind                   string
	cap                    int
	minN, minD, maxN, maxD int
	hf                     string
	zero                   bool
	kt                     string // key type: "" (int), "string", "ints" ([]int of mixed lengths); the table then uses the library's own hash function
}

func (c cfg) head(h map[int]uint64) string {
	keys := make([]int, 0, len(h))
	for k := range h {
		keys = append(keys, k)
	}
	sort.Ints(keys)
	var b strings.Builder
	for i, k := range keys {
		if i > 0 {
			b.WriteByte(',')
		}
		fmt.Fprintf(&b, "%d:%d", k, h[k])
	}
	z := ""
	if c.zero {
		z = " zero=1"
	}
	if c.kt != "" {
		z += " kt=" + c.kt
	}
	if c.cap >= 2048 { // big tables: the driver compares with the extracted abstract map only (the list-based model is too slow)
		z += " big=1"
	}
	return fmt.Sprintf("%s cap=%d min=%d/%d max=%d/%d hf=%s%s H=%s", c.kind, c.cap, c.minN, c.minD, c.maxN, c.maxD, c.hf, z, b.String())
}

func parseHead(s string) (cfg, map[int]uint64) {
	f := strings.Fields(s)
	c := cfg{kind: f[0]}
	h := map[int]uint64{}
	for _, t := range f[1:] {
		k, v, _ := strings.Cut(t, "=")
		switch k {
		case "cap":
			c.cap, _ = strconv.Atoi(v)
		case "min":
			a, b, _ := strings.Cut(v, "/")
			c.minN, _ = strconv.Atoi(a)
			c.minD, _ = strconv.Atoi(b)
		case "max":
			a, b, _ := strings.Cut(v, "/")
			c.maxN, _ = strconv.Atoi(a)
			c.maxD, _ = strconv.Atoi(b)
		case "hf":
			c.hf = v
		case "zero":
			c.zero = v == "1"
		case "kt":
			c.kt = v
		case "H":
			for _, kh := range strings.Split(v, ",") {
				a, b, ok := strings.Cut(kh, ":")
				if !ok {
					continue
				}
				ki, _ := strconv.Atoi(a)
				hv, _ := strconv.ParseUint(b, 10, 64)
				h[ki] = hv
			}
		}
	}
	return c, h
}

func defaults(kind string) cfg {
	switch kind {
	case "chain":
		return cfg{kind: kind, cap: 4, minN: 2, minD: 1, maxN: 10, maxD: 1}
	case "linear":
		return cfg{kind: kind, cap: 32, minN: 1, minD: 8, maxN: 1, maxD: 2}
	}
	return cfg{kind: kind, cap: 31, minN: 1, minD: 8, maxN: 1, maxD: 2}
}

// tabI is what the traced operations need; gtab implements it for any key type through an injective
// encoding of the keys into the integers used by the trace.
type tabI interface {
	Put(k, v int)
	Get(k int) (int, bool)
	Delete(k int) (int, bool)
	DeleteAll()
	Size() int
	IsEmpty() bool
	AllString() string
	EqualTo(o tabI) bool
	Dump() string
}

type gtab[K any] struct {
	t    st.SymbolTable[K, int]
	key  func(int) K
	id   func(K) int
	dump bool
}

func (g *gtab[K]) Put(k, v int)             { g.t.Put(g.key(k), v) }
func (g *gtab[K]) Get(k int) (int, bool)    { return g.t.Get(g.key(k)) }
func (g *gtab[K]) Delete(k int) (int, bool) { return g.t.Delete(g.key(k)) }
func (g *gtab[K]) DeleteAll()               { g.t.DeleteAll() }
func (g *gtab[K]) Size() int                { return g.t.Size() }
func (g *gtab[K]) IsEmpty() bool            { return g.t.IsEmpty() }
func (g *gtab[K]) EqualTo(o tabI) bool      { return g.t.Equal(o.(*gtab[K]).t) }
func (g *gtab[K]) AllString() string {
	var b strings.Builder
	first := true
	for k, v := range g.t.All() {
		if !first {
			b.WriteByte(',')
		}
		first = false
		fmt.Fprintf(&b, "%d:%d", g.id(k), v)
	}
	return b.String()
}
func (g *gtab[K]) Dump() string {
	if !g.dump {
		return "?"
	}
	_, m, n, tb, lay := st.VerifHashDump[K, int](g.t)
	return strings.TrimSpace(fmt.Sprintf("m=%d n=%d t=%d %s", m, n, tb, lay))
}

func newTab[K any](c cfg, hf hash.HashFunc[K], eq generic.EqualFunc[K], key func(int) K, id func(K) int, dump bool) tabI {
	eqv := generic.NewEqualFunc[int]()
	o := st.HashOpts{InitialCap: c.cap, MinLoadFactor: float32(c.minN) / float32(c.minD), MaxLoadFactor: float32(c.maxN) / float32(c.maxD)}
	if c.zero {
		o = st.HashOpts{}
	}
	var t st.SymbolTable[K, int]
	switch c.kind {
	case "chain":
		t = st.NewChainHashTable[K, int](hf, eq, eqv, o)
	case "linear":
		t = st.NewLinearHashTable[K, int](hf, eq, eqv, o)
	case "quadratic":
		t = st.NewQuadraticHashTable[K, int](hf, eq, eqv, o)
	default:
		t = st.NewDoubleHashTable[K, int](hf, eq, eqv, o)
	}
	return &gtab[K]{t: t, key: key, id: id, dump: dump}
}

// the injective encodings: string keys "k<id>" padded to mixed lengths, []int keys of length 1 + id%4 starting with id
func keyString(k int) string { return "k" + strconv.Itoa(k) + strings.Repeat("x", k%5) }
func idString(s string) int {
	v, _ := strconv.Atoi(strings.TrimRight(s[1:], "x"))
	return v
}
func keyInts(k int) []int {
	out := []int{k}
	for j := 1; j < 1+k%4; j++ {
		out = append(out, k*7+j)
	}
	return out
}

func mk(c cfg, hf hash.HashFunc[int]) tabI {
	switch c.kt {
	case "string": // the table gets its own instance of the library's hash function, as a user's table would
		return newTab[string](c, hash.HashFuncForString[string](nil), generic.NewEqualFunc[string](), keyString, idString, false)
	case "ints":
		eq := func(a, b []int) bool {
			if len(a) != len(b) {
				return false
			}
			for i := range a {
				if a[i] != b[i] {
					return false
				}
			}
			return true
		}
		return newTab[[]int](c, hash.HashFuncForIntSlice[[]int](nil), eq, keyInts, func(k []int) int { return k[0] }, false)
	}
	return newTab[int](c, hf, generic.NewEqualFunc[int](), func(k int) int { return k }, func(k int) int { return k }, true)
}

// ---------------------------------------------------------------- hash families

func mix(h uint64) uint64 { return h ^ (h >> 20) ^ (h >> 12) ^ (h >> 7) ^ (h >> 4) }

// unmix inverts mix (a unitriangular GF(2)-linear map): fixpoint iteration settles the bits from the top.
func unmix(y uint64) uint64 {
	h := y
	for i := 0; i < 70; i++ {
		h = y ^ (h >> 20) ^ (h >> 12) ^ (h >> 7) ^ (h >> 4)
	}
	return h
}

var fnvInt = hash.HashFuncForInt[int](nil)

// classModulus: a number divisible by every table size the resize policy reaches from the smallest
// capacities, so that keys hashed to multiples of it share one probe class at every size.
func classModulus(kind string) uint64 {
	if kind == "chain" || kind == "linear" {
		return 1 << 24
	}
	return 31 * 37 * 67 * 79 * 137 * 163 // 31->67->137 and 37->79->163
}

func hashOf(c cfg, k int) uint64 {
	switch c.kt { // the header records the library's hash of the key, computed by a fresh function instance
	case "string":
		return hash.HashFuncForString[string](nil)(keyString(k))
	case "ints":
		return hash.HashFuncForIntSlice[[]int](nil)(keyInts(k))
	}
	switch c.hf {
	case "fnv":
		return fnvInt(k)
	case "id":
		return uint64(k)
	case "const":
		return 0
	case "const7":
		return 7
	case "mod3":
		return uint64(k % 3)
	case "class": // all keys in one probe class (index 0) at every capacity
		return unmix(uint64(k) * classModulus(c.kind))
	case "class5": // five probe classes
		return unmix(uint64(k)*classModulus(c.kind) + uint64(k%5))
	case "high": // only high bits differ
		return uint64(k) << 40
	}
	return uint64(k)
}

func degenerate(hf string) bool {
	return hf == "const" || hf == "const7" || hf == "mod3" || hf == "class" || hf == "class5"
}

var hashFamilies = []string{"fnv", "id", "const", "mod3", "class", "const7", "class5", "high"}

// ---------------------------------------------------------------- execution under a watchdog

var (
	deadline = 500 * time.Millisecond
	hung     = 0
	maxHung  = 3
	w        *tr.W
)

// safely runs f, turning a panic into the result PANIC.
func safely(f func() string) (res string) {
	defer func() {
		if r := recover(); r != nil {
			res = "PANIC"
		}
	}()
	return f()
}

// guardedSeq runs step(0), step(1), ... step(n-1) in a worker goroutine and watches its progress: when the
// worker stays inside one step for longer than the deadline, that step's result is HANG and the worker is
// abandoned (it may spin forever).  A step returning HANG/PANIC ends the sequence.  Returns the results.
func guardedSeq(n int, step func(i int) string) []string {
	results := make([]string, n)
	var prog atomic.Int64
	done := make(chan struct{})
	go func() {
		defer close(done)
		for i := 0; i < n; i++ {
			r := safely(func() string { return step(i) })
			results[i] = r
			prog.Store(int64(i + 1))
			if r == "PANIC" {
				return
			}
		}
	}()
	tick := time.NewTicker(deadline / 5)
	defer tick.Stop()
	last, since := int64(0), time.Now()
	for {
		select {
		case <-done:
			return results[:prog.Load()]
		case <-tick.C:
			if cur := prog.Load(); cur != last {
				last, since = cur, time.Now()
			} else if time.Since(since) >= deadline {
				hung++
				out := append([]string{}, results[:cur]...)
				return append(out, "HANG")
			}
		}
	}
}

func b2s(x bool) string {
	if x {
		return "t"
	}
	return "f"
}

func opt(v int, ok bool) string {
	if ok {
		return strconv.Itoa(v)
	}
	return "none"
}

type inst struct {
	tabs [2]tabI
	dead bool
}

func (in *inst) exec(op string) string {
	f := strings.Fields(op)
	x := int(f[0][1] - '0')
	t, o := in.tabs[x], in.tabs[1-x]
	a := func(i int) int { v, _ := strconv.Atoi(f[i]); return v }
	{
		switch f[0][0] {
		case 'P':
			t.Put(a(1), a(2))
			return "-"
		case 'G':
			return opt(t.Get(a(1)))
		case 'D':
			return opt(t.Delete(a(1)))
		case 'C':
			t.DeleteAll()
			return "-"
		case 'S':
			return strconv.Itoa(t.Size())
		case 'Z':
			return b2s(t.IsEmpty())
		case 'A':
			return t.AllString()
		case 'E':
			return b2s(t.EqualTo(o))
		case 'X':
			return t.Dump()
		}
		return "?"
	}
}

func opKeys(ops []string) []int {
	seen := map[int]bool{}
	var ks []int
	for _, op := range ops {
		f := strings.Fields(op)
		if len(f) >= 2 && (f[0][0] == 'P' || f[0][0] == 'G' || f[0][0] == 'D') {
			k, _ := strconv.Atoi(f[1])
			if !seen[k] {
				seen[k] = true
				ks = append(ks, k)
			}
		}
	}
	return ks
}

// runCase executes one case; h == nil means: compute the hash table of the case from c.hf.
func runCase(c cfg, h map[int]uint64, ops []string) {
	if h == nil {
		h = map[int]uint64{}
		for _, k := range opKeys(ops) {
			h[k] = hashOf(c, k)
		}
	}
	hf := func(k int) uint64 { return h[k] }
	// "N" is the pseudo-op that reports a failed construction; it is never executed
	var real []string
	for _, op := range ops {
		if op != "N" {
			real = append(real, op)
		}
	}
	ops = real
	w.Begin("%s", c.head(h))
	var in inst
	// step 0 creates the tables; step i+1 executes ops[i].  After HANG/PANIC the instance is abandoned
	// (it may be corrupt, and a goroutine may still be spinning on it) and the case ends.
	res := guardedSeq(len(ops)+1, func(i int) string {
		if i == 0 {
			in.tabs[0], in.tabs[1] = mk(c, hf), mk(c, hf)
			return "-"
		}
		return in.exec(ops[i-1])
	})
	if res[0] != "-" {
		w.Op("N", res[0])
	}
	for i, r := range res[1:] {
		w.Op(ops[i], r)
	}
	w.End()
	if hung >= maxHung {
		w.Flush()
		fmt.Fprintf(os.Stderr, "c02: %d operations hung; giving up\n", hung)
		os.Exit(4)
	}
}

// ---------------------------------------------------------------- generators

func p(x, k, v int) string { return fmt.Sprintf("P%d %d %d", x, k, v) }
func g(x, k int) string    { return fmt.Sprintf("G%d %d", x, k) }
func d(x, k int) string    { return fmt.Sprintf("D%d %d", x, k) }
func un(c string, x int) string {
	return fmt.Sprintf("%s%d", c, x)
}

// battery: every property-level observable of table x over the keys ks plus the layout.
func battery(x int, ks []int) []string {
	ops := []string{un("S", x), un("Z", x)}
	for _, k := range ks {
		ops = append(ops, g(x, k))
	}
	return append(ops, un("A", x), un("X", x))
}

// sibling: rebuild the content `ref` in table 1 (reverse key order), compare both ways, then perturb.
func sibling(ref map[int]int, perturb int) []string {
	ks := make([]int, 0, len(ref))
	for k := range ref {
		ks = append(ks, k)
	}
	sort.Sort(sort.Reverse(sort.IntSlice(ks)))
	ops := []string{"C1"}
	for _, k := range ks {
		ops = append(ops, p(1, k, ref[k]))
	}
	ops = append(ops, "E0", "E1")
	if len(ks) > 0 {
		k := ks[perturb%len(ks)]
		switch perturb % 3 {
		case 0:
			ops = append(ops, p(1, k, ref[k]+1), "E0", "E1", p(1, k, ref[k]), "E0")
		case 1:
			ops = append(ops, d(1, k), "E0", "E1", p(1, k, ref[k]), "E1")
		case 2:
			ops = append(ops, p(1, 1000003, 1), "E0", "E1", d(1, 1000003), "E0")
		}
		// same size, different key set, the differing entries carrying the zero value (and a non-zero one):
		// Equal must be false in both directions
		ops = append(ops, p(0, k, 0), d(1, k), p(1, 1000003, 0), "S0", "S1", "E0", "E1",
			p(1, 1000003, 5), "E0", "E1", p(0, k, 7), "E0", "E1", d(1, 1000003), p(1, k, 7), "E0", "E1")
	} else {
		ops = append(ops, p(1, 1000003, 1), "E0", "E1")
		// two one-entry tables with different keys, both mapped to the zero value
		ops = append(ops, p(0, 0, 0), "C1", p(1, 1000003, 0), "E0", "E1", "C1", p(1, 0, 0), "E0", "E1", d(0, 0), "C1")
	}
	return ops
}

func variants(kind string, tier string) []cfg {
	d := defaults(kind)
	z := d
	z.zero = true
	vs := []cfg{z, d}
	add := func(cap, a, b, e, f int) {
		vs = append(vs, cfg{kind: kind, cap: cap, minN: a, minD: b, maxN: e, maxD: f})
	}
	switch kind {
	case "chain":
		add(8, 2, 1, 10, 1)
		add(4, 2, 1, 4, 1)
		add(16, 4, 1, 8, 1)
		add(64, 5, 2, 5, 1)
		// maxLF < 2*minLF: the table rebuilt by a shrink grows again while entries are re-inserted (nested resize)
		add(16, 4, 1, 6, 1)
		add(4, 3, 1, 5, 1)
	case "linear":
		add(64, 1, 8, 1, 2)
		add(32, 1, 8, 1, 4)
		add(128, 1, 4, 1, 2)
		add(32, 3, 16, 3, 8)
		add(32, 1, 4, 3, 8) // nested resize on shrink
		add(64, 3, 8, 1, 2)
	default:
		add(37, 1, 8, 1, 2)
		add(31, 1, 8, 1, 4)
		add(67, 1, 4, 1, 2)
		add(101, 3, 16, 3, 8)
		add(127, 1, 8, 1, 2)
		add(31, 1, 8, 3, 8)
		add(67, 1, 16, 1, 4)
		add(31, 1, 4, 3, 8) // nested resize on shrink
		add(67, 3, 8, 1, 2)
	}
	return vs
}

// growLimit: number of keys after which the table of config c has certainly grown once.
func growLimit(c cfg) int { return c.cap*c.maxN/c.maxD + 2 }

// exhaustive: every history over the alphabet {Put k, Delete k, DeleteAll} on 3 keys up to maxLen, after a
// prefix that brings the table next to a resize threshold; observables after every step.
func exhaustive(c cfg, prefill int, maxLen int) {
	uni := []int{0, 1, 2} // key 0 and value 0 are first-class
	var pre []string
	ref0 := map[int]int{}
	for i := 0; i < prefill; i++ {
		pre = append(pre, p(0, 100+i, i))
		ref0[100+i] = i
	}
	qs := append([]int{}, uni...)
	qs = append(qs, 3)
	if prefill > 0 {
		qs = append(qs, 100, 100+prefill-1)
	}
	type step struct {
		op  string
		key int
	}
	var alphabet []step
	for _, k := range uni {
		alphabet = append(alphabet, step{"P", k}, step{"D", k})
	}
	alphabet = append(alphabet, step{"C", 0})
	if prefill > 0 {
		alphabet = append(alphabet, step{"D", 100}) // shrink path: delete a prefilled key
	}
	var rec func(hist []step)
	emit := func(hist []step) {
		ops := append([]string{}, pre...)
		ref := map[int]int{}
		for k, v := range ref0 {
			ref[k] = v
		}
		for i, s := range hist {
			switch s.op {
			case "P":
				ops = append(ops, p(0, s.key, 2*i))
				ref[s.key] = 2 * i
			case "D":
				ops = append(ops, d(0, s.key))
				delete(ref, s.key)
			case "C":
				ops = append(ops, "C0")
				ref = map[int]int{}
			}
			if i == len(hist)-1 {
				ops = append(ops, battery(0, qs)...)
			} else {
				ops = append(ops, "S0", g(0, s.key))
			}
		}
		ops = append(ops, sibling(ref, len(hist))...)
		runCase(c, nil, ops)
	}
	rec = func(hist []step) {
		if len(hist) == maxLen {
			emit(hist)
			return
		}
		if len(hist) > 0 && len(hist) < maxLen && len(hist)%2 == 1 {
			emit(hist) // also some shorter histories with the full battery
		}
		for _, s := range alphabet {
			rec(append(hist[:len(hist):len(hist)], s))
		}
	}
	rec(nil)
}

// random: structured churn with phases, mirrored on the sibling table.
func random(r *rng.R, c cfg, steps int, uni int) {
	ref := [2]map[int]int{{}, {}}
	var ops []string
	keyOf := func() int { return r.Intn(uni) }
	phase, left := 0, 0
	val := 0
	mirror := r.Chance(2, 3)
	for i := 0; i < steps; i++ {
		if left == 0 {
			phase = r.Intn(5)
			left = r.Range(5, 3*uni+10)
		}
		left--
		k := keyOf()
		var kindOp int // 0 put, 1 delete, 2 get, 3 clear
		switch phase {
		case 0: // grow
			kindOp = []int{0, 0, 0, 0, 0, 1, 2, 2}[r.Intn(8)]
		case 1: // shrink
			kindOp = []int{1, 1, 1, 1, 1, 0, 2, 2}[r.Intn(8)]
		case 2: // churn on a small subset (revival of deleted keys)
			k = r.Intn(min(uni, 4))
			kindOp = []int{0, 1, 0, 1, 2}[r.Intn(5)]
		case 3: // mixed
			kindOp = []int{0, 1, 2}[r.Intn(3)]
		case 4: // put-then-delete of the same key (fresh-key churn)
			ops = append(ops, p(0, k, val))
			ref[0][k] = val
			val++
			kindOp = 1
		}
		if r.Chance(1, 400) {
			kindOp = 3
		}
		xs := []int{0}
		if mirror && !r.Chance(1, 50) {
			xs = []int{0, 1}
		}
		for _, x := range xs {
			switch kindOp {
			case 0:
				v := val
				if val%4 == 0 {
					v = 0 // the zero value of V is a legitimate value
				}
				ops = append(ops, p(x, k, v))
				ref[x][k] = v
			case 1:
				ops = append(ops, d(x, k))
				delete(ref[x], k)
			case 2:
				ops = append(ops, g(x, k))
			case 3:
				ops = append(ops, un("C", x))
				ref[x] = map[int]int{}
			}
		}
		val++
		if r.Chance(1, 6) {
			ops = append(ops, "S0")
		}
		if r.Chance(1, 40) {
			ops = append(ops, "X0", "E0", "E1", "Z0")
		}
		if r.Chance(1, 150) {
			ops = append(ops, "A0", "A1", "X1")
		}
	}
	ks := make([]int, 0, uni+1)
	for k := 0; k <= uni; k++ {
		ks = append(ks, k)
	}
	if len(ks) > 60 {
		ks = ks[:60]
	}
	ops = append(ops, battery(0, ks)...)
	ops = append(ops, "S1", "A1", "X1", "E0", "E1")
	ops = append(ops, sibling(ref[0], r.Intn(6))...)
	runCase(c, nil, ops)
}

// churn (C03): bring the table to its level-th capacity, then insert-and-delete fresh keys many times the
// capacity, looking up absent and resident keys on the way; nothing may hang.
func churn(r *rng.R, c cfg, level int, rounds int) {
	var ops []string
	base := 0
	m := c.cap
	for l := 0; l < level; l++ { // grow `level` times
		lim := m*c.maxN/c.maxD + 2
		for ; base < lim; base++ {
			ops = append(ops, p(0, base, base))
		}
		m *= 2
	}
	ops = append(ops, "X0")
	fresh := 1 << 20
	style := r.Intn(3)
	for i := 0; i < rounds; i++ {
		k := fresh + i
		switch style {
		case 0:
			ops = append(ops, p(0, k, i), d(0, k))
		case 1: // two in flight
			ops = append(ops, p(0, k, i), p(0, k+1<<19, i), d(0, k), d(0, k+1<<19))
		case 2: // delete, look up the deleted and an absent key
			ops = append(ops, p(0, k, i), d(0, k), g(0, k), g(0, k+1<<19))
		}
		if r.Chance(1, 16) {
			ops = append(ops, g(0, r.Intn(base+1)), d(0, 1<<22+i), "S0")
		}
		if r.Chance(1, 64) && (m < 600 || r.Chance(1, 8)) {
			ops = append(ops, "X0")
		}
	}
	for k := 0; k < base && k < 80; k++ {
		ops = append(ops, g(0, k))
	}
	ops = append(ops, "S0", "A0", "X0")
	runCase(c, nil, ops)
}

// adversarial shapes named in DESIGN §4 C02/C03 and the witnesses of D02/D03.
func adversarial(r *rng.R, c cfg, thorough bool) {
	lim := growLimit(c)
	// (a) fill to every size around the first growth, querying an absent key of the same class each time
	var ops []string
	for i := 0; i < lim+3; i++ {
		ops = append(ops, p(0, i, i), g(0, 500+i), d(0, 600+i), "S0")
	}
	ops = append(ops, battery(0, []int{0, 1, lim, lim + 2, 999})...)
	runCase(c, nil, ops)
	// (b) delete and re-insert every key (revival), sizes checked
	ops = nil
	n := r.Range(2, lim-1)
	for i := 0; i < n; i++ {
		ops = append(ops, p(0, i, i))
	}
	for i := 0; i < n; i++ {
		ops = append(ops, d(0, i), "S0", p(0, i, i+100), "S0", g(0, i))
	}
	for i := 0; i < n; i += 2 {
		ops = append(ops, d(0, i))
	}
	for i := 0; i < n; i += 2 {
		ops = append(ops, p(0, i, i+200), "S0")
	}
	ops = append(ops, battery(0, []int{0, 1, 2, n - 1, n})...)
	runCase(c, nil, ops)
	// (d) operations on an empty table (Delete of absent keys shrinks an over-sized chaining table)
	ops = []string{d(0, 1), "X0", d(0, 2), "X0", g(0, 1), "S0", "Z0", "A0", "E0", "C0", d(0, 3), "X0", p(0, 1, 1), d(0, 1), d(0, 1), "X0", "S0", "Z0"}
	runCase(c, nil, ops)
	// (c) oscillate around the grow and shrink thresholds
	if degenerate(c.hf) && c.cap > 37 && !thorough {
		return
	}
	ops = nil
	for i := 0; i < 2*lim+4; i++ {
		ops = append(ops, p(0, i, i))
	}
	for rep := 0; rep < 3; rep++ {
		for i := 2*lim + 3; i >= 0; i-- {
			ops = append(ops, d(0, i))
			if i%5 == 0 {
				ops = append(ops, "S0", "X0", g(0, i/2))
			}
		}
		for i := 0; i < 2*lim+4; i++ {
			ops = append(ops, p(0, i, i+rep))
			if i%7 == 0 {
				ops = append(ops, "S0", g(0, i))
			}
		}
	}
	ops = append(ops, "S0", "A0", "X0", "C0", "S0", "X0", p(0, 1, 1), g(0, 1), "S0", "X0")
	runCase(c, nil, ops)
}

// clients (C03): the quadratic table inside grammar.Productions under head churn. No model of the client:
// the driver only requires that no operation hangs or panics and that Get answers as a map of heads would.
//
//	header: client productions      ops: A i -> ok   R i -> ok   X i -> ok (RemoveAll)   G i -> <number of bodies>
func runClient(kind string, ops []string) {
	w.Begin("client %s", kind)
	ps := grammar.NewProductions()
	var first grammar.FIRST
	var follow grammar.FOLLOW
	var pt *lr.ParsingTable
	nt := func(i int) grammar.NonTerminal { return grammar.NonTerminal("N" + strconv.Itoa(i)) }
	tm := func(i int) grammar.Terminal { return grammar.Terminal("t" + strconv.Itoa(i)) }
	prod := func(i int) *grammar.Production {
		return &grammar.Production{Head: grammar.NonTerminal("N" + strconv.Itoa(i)), Body: grammar.String[grammar.Symbol]{grammar.Terminal("t")}}
	}
	res := guardedSeq(len(ops), func(j int) string {
		f := strings.Fields(ops[j])
		i, _ := strconv.Atoi(f[1])
		a := func(x int) int { v, _ := strconv.Atoi(f[x]); return v }
		switch kind {
		case "firstfollow":
			// B n: the chain grammar N0 -> t0 N1 | t0, ..., N(n-1) -> t(n-1); FIRST and FOLLOW tables are built
			// F i: |FIRST(Ni)| (= 1)    W i: |FOLLOW(Ni)| terminals (= 0, only the endmarker follows)
			switch f[0] {
			case "C": // C i1,i2,...: the chain grammar over the non-terminals N<i1>, N<i2>, ... (chosen to collide)
				var idx []int
				for _, x := range strings.Split(f[1], ",") {
					v, _ := strconv.Atoi(x)
					idx = append(idx, v)
				}
				var terms []grammar.Terminal
				var nts []grammar.NonTerminal
				var prods []*grammar.Production
				for j, x := range idx {
					terms = append(terms, tm(x))
					nts = append(nts, nt(x))
					prods = append(prods, &grammar.Production{Head: nt(x), Body: grammar.String[grammar.Symbol]{tm(x)}})
					if j+1 < len(idx) {
						prods = append(prods, &grammar.Production{Head: nt(x), Body: grammar.String[grammar.Symbol]{tm(x), nt(idx[j+1])}})
					}
				}
				g := grammar.NewCFG(terms, nts, prods, nt(idx[0]))
				first = g.ComputeFIRST()
				follow = g.ComputeFOLLOW(first)
				return "ok"
			case "B":
				var terms []grammar.Terminal
				var nts []grammar.NonTerminal
				var prods []*grammar.Production
				for x := 0; x < i; x++ {
					terms = append(terms, tm(x))
					nts = append(nts, nt(x))
					prods = append(prods, &grammar.Production{Head: nt(x), Body: grammar.String[grammar.Symbol]{tm(x)}})
					if x+1 < i {
						prods = append(prods, &grammar.Production{Head: nt(x), Body: grammar.String[grammar.Symbol]{tm(x), nt(x + 1)}})
					}
				}
				g := grammar.NewCFG(terms, nts, prods, nt(0))
				first = g.ComputeFIRST()
				follow = g.ComputeFOLLOW(first)
				return "ok"
			case "F":
				return strconv.Itoa(first(grammar.String[grammar.Symbol]{nt(i)}).Terminals.Size())
			case "W":
				return strconv.Itoa(follow(nt(i)).Terminals.Size())
			}
			return "?"
		case "lrtable":
			// N n: new table   A s a x: AddACTION(s, ta, SHIFT x) -> t|f   S s A x: SetGOTO -> ok
			// Q s a: ACTION -> shift target | err      G s A: GOTO -> state | err
			switch f[0] {
			case "N":
				pt = lr.NewParsingTable(nil, nil, nil, nil)
				return "ok"
			case "A":
				return b2s(pt.AddACTION(lr.State(i), tm(a(2)), &lr.Action{Type: lr.SHIFT, State: lr.State(a(3))}))
			case "S":
				pt.SetGOTO(lr.State(i), nt(a(2)), lr.State(a(3)))
				return "ok"
			case "Q":
				act, err := pt.ACTION(lr.State(i), tm(a(2)))
				if err != nil {
					return "err"
				}
				return strconv.Itoa(int(act.State))
			case "G":
				st, err := pt.GOTO(lr.State(i), nt(a(2)))
				if err != nil {
					return "err"
				}
				return strconv.Itoa(int(st))
			}
			return "?"
		}
		switch f[0] {
		case "A":
			ps.Add(prod(i))
			return "ok"
		case "R":
			ps.Remove(prod(i))
			return "ok"
		case "X":
			ps.RemoveAll(grammar.NonTerminal("N" + strconv.Itoa(i)))
			return "ok"
		case "G":
			l := ps.Get(grammar.NonTerminal("N" + strconv.Itoa(i)))
			if l == nil {
				return "0"
			}
			return strconv.Itoa(l.Size())
		}
		return "?"
	})
	for i, r := range res {
		w.Op(ops[i], r)
	}
	w.End()
	if hung >= maxHung {
		w.Flush()
		fmt.Fprintf(os.Stderr, "c02: %d operations hung; giving up\n", hung)
		os.Exit(4)
	}
}

func clients(r *rng.R, rounds int) {
	var ops []string
	resident := r.Range(0, 12)
	for i := 0; i < resident; i++ {
		ops = append(ops, fmt.Sprintf("A %d", i))
	}
	for i := 0; i < rounds; i++ {
		k := 1000 + i
		ops = append(ops, fmt.Sprintf("A %d", k))
		if r.Chance(1, 2) {
			ops = append(ops, fmt.Sprintf("R %d", k))
		} else {
			ops = append(ops, fmt.Sprintf("X %d", k))
		}
		if r.Chance(1, 4) {
			ops = append(ops, fmt.Sprintf("G %d", k), fmt.Sprintf("G %d", r.Intn(resident+1)))
		}
	}
	for i := 0; i <= resident; i++ {
		ops = append(ops, fmt.Sprintf("G %d", i))
	}
	runClient("productions", ops)
}

// collide returns the first `count` indices i >= from such that the key built from i has home slot `cls` in a
// table of m slots (home = mix(hash) % m, the index computation of the quadratic table).
func collide(hashOf func(i int) uint64, m, cls, count, from int) []int {
	var out []int
	for i := from; len(out) < count && i < from+4000000; i++ {
		if int(mix(hashOf(i))%uint64(m)) == cls {
			out = append(out, i)
		}
	}
	return out
}

// clientsAdversarial: head names chosen through the public hash function so that one whole quadratic probe
// cycle of the client's table (16 slots of 31; 34 of 67 after one growth) is filled with live entries, or with
// soft-deleted ones, while an absent head of the same class is looked up / added / removed after every step.
func clientsAdversarial(r *rng.R) {
	hn := func(i int) uint64 { return grammar.HashNonTerminal(grammar.NonTerminal("N" + strconv.Itoa(i))) }
	for _, cls := range []int{r.Intn(31), r.Intn(31)} {
		l := collide(hn, 31, cls, 24, 0)
		// live entries
		var ops []string
		for j := 0; j < 20; j++ {
			ops = append(ops, fmt.Sprintf("A %d", l[j]), fmt.Sprintf("G %d", l[22]), fmt.Sprintf("R %d", l[23]), fmt.Sprintf("X %d", l[23]))
		}
		ops = append(ops, fmt.Sprintf("A %d", l[22]), fmt.Sprintf("G %d", l[22]), fmt.Sprintf("G %d", l[0]))
		runClient("productions", ops)
		// soft-deleted entries
		ops = nil
		for j := 0; j < 22; j++ {
			ops = append(ops, fmt.Sprintf("A %d", l[j]))
			if j%3 != 2 {
				ops = append(ops, fmt.Sprintf("R %d", l[j]))
			}
			ops = append(ops, fmt.Sprintf("G %d", l[22]), fmt.Sprintf("X %d", l[23]))
		}
		ops = append(ops, fmt.Sprintf("A %d", l[22]), fmt.Sprintf("G %d", l[22]))
		runClient("productions", ops)
	}
	// after one growth (67 slots: 34 slots per probe cycle)
	cls := r.Intn(67)
	l := collide(hn, 67, cls, 48, 0)
	var ops []string
	for j := 0; j < 16; j++ { // arbitrary heads: the table grows to 67
		ops = append(ops, fmt.Sprintf("A %d", 3000000+j))
	}
	for j := 0; j < 44; j++ {
		ops = append(ops, fmt.Sprintf("A %d", l[j]), fmt.Sprintf("G %d", l[46]), fmt.Sprintf("X %d", l[47]))
	}
	runClient("productions", ops)
}

// clientsFirstFollowAdv: a chain grammar whose non-terminals all have one home slot in the FIRST/FOLLOW tables
func clientsFirstFollowAdv(r *rng.R) {
	hs := func(i int) uint64 { return grammar.HashSymbol(grammar.NonTerminal("N" + strconv.Itoa(i))) }
	for _, m := range []int{31, 67} {
		cls := r.Intn(m)
		n := 20
		if m == 67 {
			n = 40
		}
		l := collide(hs, m, cls, n, 0)
		ops := []string{"C " + strings.Trim(strings.Join(strings.Fields(fmt.Sprint(l)), ","), "[]")}
		for j := 0; j < n; j++ {
			ops = append(ops, fmt.Sprintf("F %d", l[j]), fmt.Sprintf("W %d", l[j]))
		}
		runClient("firstfollow", ops)
	}
}

// clientsLRTableAdv: states with one home slot in the ACTION/GOTO tables, terminals with one home slot in a row
func clientsLRTableAdv(r *rng.R) {
	hst := func(i int) uint64 { return lr.HashState(lr.State(i)) }
	ht := func(i int) uint64 { return grammar.HashTerminal(grammar.Terminal("t" + strconv.Itoa(i))) }
	cls := r.Intn(31)
	sts := collide(hst, 31, cls, 22, 0)
	tms := collide(ht, 31, r.Intn(31), 22, 0)
	ops := []string{"N 0"}
	for j := 0; j < 20; j++ {
		ops = append(ops, fmt.Sprintf("A %d %d %d", sts[j], tms[0], j), fmt.Sprintf("S %d %d %d", sts[j], tms[0], j),
			fmt.Sprintf("Q %d %d", sts[21], tms[0]), fmt.Sprintf("G %d %d", sts[21], tms[0]))
	}
	for j := 0; j < 20; j++ { // one row filled along one probe cycle
		ops = append(ops, fmt.Sprintf("A %d %d %d", sts[0], tms[j], j), fmt.Sprintf("S %d %d %d", sts[0], tms[j], j),
			fmt.Sprintf("Q %d %d", sts[0], tms[21]), fmt.Sprintf("G %d %d", sts[0], tms[21]))
	}
	runClient("lrtable", ops)
}

func clientsFirstFollow(r *rng.R, n int) {
	ops := []string{fmt.Sprintf("B %d", n)}
	for i := 0; i < n; i += 1 + r.Intn(3) {
		ops = append(ops, fmt.Sprintf("F %d", i), fmt.Sprintf("W %d", i))
	}
	runClient("firstfollow", ops)
}

func clientsLRTable(r *rng.R, states, syms, cells int) {
	ops := []string{"N 0"}
	for c := 0; c < cells; c++ {
		s, x := r.Intn(states), r.Intn(syms)
		switch r.Intn(4) {
		case 0:
			ops = append(ops, fmt.Sprintf("A %d %d %d", s, x, r.Intn(states)))
		case 1:
			ops = append(ops, fmt.Sprintf("S %d %d %d", s, x, r.Intn(states)))
		case 2:
			ops = append(ops, fmt.Sprintf("Q %d %d", s, x))
		case 3:
			ops = append(ops, fmt.Sprintf("G %d %d", s, x))
		}
	}
	for s := 0; s < states && s < 40; s++ {
		ops = append(ops, fmt.Sprintf("Q %d %d", s, r.Intn(syms)), fmt.Sprintf("G %d %d", s, r.Intn(syms)))
	}
	runClient("lrtable", ops)
}

// large: big valid initial capacities with a few hundred keys; Deletes shrink the table and Puts grow it across
// the 4096 / 8192 / 65536 slot boundaries, under FNV and a hash function that only uses high bits.
func large(kind string, thorough bool) {
	caps := []int{8192, 32768}
	growFrom := 4096
	if kind == "quadratic" || kind == "double" {
		caps = []int{8191, 32771}
		growFrom = 4099
	}
	if thorough {
		if kind == "quadratic" || kind == "double" {
			caps = append(caps, 16381, 65537)
		} else {
			caps = append(caps, 16384, 65536)
		}
	}
	for _, hf := range []string{"fnv", "high"} {
		for _, cap := range caps {
			c := defaults(kind)
			c.cap, c.hf = cap, hf
			n := 300
			var ops []string
			for i := 0; i < n; i++ {
				ops = append(ops, p(0, i, i))
			}
			ops = append(ops, "S0", g(0, 0), g(0, n-1), g(0, n))
			for j := 0; j < 12; j++ { // every Delete (of an absent key for chaining) halves the sparse table
				ops = append(ops, d(0, n+5+j), d(0, j), "S0")
				for i := j; i < n; i += 7 {
					ops = append(ops, g(0, i))
				}
			}
			for i := 0; i < n; i++ {
				ops = append(ops, g(0, i))
			}
			ops = append(ops, "S0", "A0", "X0")
			runCase(c, nil, ops)
		}
		// growth across the 4096 -> 8192 boundary with a maximum load factor at its upper limit
		c := defaults(kind)
		c.cap, c.hf = growFrom, hf
		n := growFrom/2 + 40
		if kind == "chain" {
			c.minN, c.minD, c.maxN, c.maxD = 1, 4, 1, 1
			n = growFrom + 40
		}
		var ops []string
		for i := 0; i < n; i++ {
			ops = append(ops, p(0, i, i))
			if i%97 == 0 {
				ops = append(ops, g(0, i/2), "S0")
			}
		}
		for i := 0; i < n; i += 3 {
			ops = append(ops, g(0, i))
		}
		ops = append(ops, "S0", "X0")
		runCase(c, nil, ops)
	}
}

// hashProbes: every exported hash.HashFuncFor... must be a function: hashing other keys (of other lengths) in
// between must not change the hash of a key, and two instances must agree.
type numT interface {
	~int | ~int8 | ~int16 | ~int32 | ~int64 | ~uint | ~uint8 | ~uint16 | ~uint32 | ~uint64 | ~uintptr | ~float32 | ~float64
}

func numKeys[T numT]() []T { return []T{0, 1, 2, 3, 7, 100, 127, 5, 1} }

func mixedSlices[T any](ks []T) [][]T {
	return [][]T{{}, {ks[0]}, {ks[0], ks[1]}, {ks[0], ks[1], ks[2]}, {ks[1]}, {ks[0], ks[1], ks[2], ks[3], ks[4]},
		{ks[0], ks[1]}, {ks[2], ks[1], ks[0]}, {ks[0]}, {}, {ks[5], ks[6]}, {ks[0], ks[1], ks[2], ks[3]}}
}

func probeHash[T any](name string, f1, f2 hash.HashFunc[T], keys []T) {
	res := safely(func() string {
		first := make([]uint64, len(keys))
		for i, k := range keys {
			first[i] = f1(k)
		}
		for i := len(keys) - 1; i >= 0; i-- {
			if f1(keys[i]) != first[i] {
				return fmt.Sprintf("nondeterministic:key#%d-rehashed-after-other-keys", i)
			}
		}
		for i := 0; i < len(keys); i += 2 {
			if f2(keys[i]) != first[i] {
				return fmt.Sprintf("nondeterministic:key#%d-second-instance", i)
			}
		}
		return "ok"
	})
	w.Op("H "+name, res)
}

func hashProbes() {
	w.Begin("hashdet")
	probeHash("Bool", hash.HashFuncForBool[bool](nil), hash.HashFuncForBool[bool](nil), []bool{true, false, true})
	probeHash("BoolSlice", hash.HashFuncForBoolSlice[[]bool](nil), hash.HashFuncForBoolSlice[[]bool](nil), mixedSlices([]bool{true, false, true, true, false, false, true}))
	probeHash("Int8", hash.HashFuncForInt8[int8](nil), hash.HashFuncForInt8[int8](nil), numKeys[int8]())
	probeHash("Int8Slice", hash.HashFuncForInt8Slice[[]int8](nil), hash.HashFuncForInt8Slice[[]int8](nil), mixedSlices(numKeys[int8]()))
	probeHash("Int16", hash.HashFuncForInt16[int16](nil), hash.HashFuncForInt16[int16](nil), numKeys[int16]())
	probeHash("Int16Slice", hash.HashFuncForInt16Slice[[]int16](nil), hash.HashFuncForInt16Slice[[]int16](nil), mixedSlices(numKeys[int16]()))
	probeHash("Int32", hash.HashFuncForInt32[int32](nil), hash.HashFuncForInt32[int32](nil), numKeys[int32]())
	probeHash("Int32Slice", hash.HashFuncForInt32Slice[[]int32](nil), hash.HashFuncForInt32Slice[[]int32](nil), mixedSlices(numKeys[int32]()))
	probeHash("Int64", hash.HashFuncForInt64[int64](nil), hash.HashFuncForInt64[int64](nil), numKeys[int64]())
	probeHash("Int64Slice", hash.HashFuncForInt64Slice[[]int64](nil), hash.HashFuncForInt64Slice[[]int64](nil), mixedSlices(numKeys[int64]()))
	probeHash("Int", hash.HashFuncForInt[int](nil), hash.HashFuncForInt[int](nil), numKeys[int]())
	probeHash("IntSlice", hash.HashFuncForIntSlice[[]int](nil), hash.HashFuncForIntSlice[[]int](nil), mixedSlices(numKeys[int]()))
	probeHash("Uint8", hash.HashFuncForUint8[uint8](nil), hash.HashFuncForUint8[uint8](nil), numKeys[uint8]())
	probeHash("Uint8Slice", hash.HashFuncForUint8Slice[[]uint8](nil), hash.HashFuncForUint8Slice[[]uint8](nil), mixedSlices(numKeys[uint8]()))
	probeHash("Uint16", hash.HashFuncForUint16[uint16](nil), hash.HashFuncForUint16[uint16](nil), numKeys[uint16]())
	probeHash("Uint16Slice", hash.HashFuncForUint16Slice[[]uint16](nil), hash.HashFuncForUint16Slice[[]uint16](nil), mixedSlices(numKeys[uint16]()))
	probeHash("Uint32", hash.HashFuncForUint32[uint32](nil), hash.HashFuncForUint32[uint32](nil), numKeys[uint32]())
	probeHash("Uint32Slice", hash.HashFuncForUint32Slice[[]uint32](nil), hash.HashFuncForUint32Slice[[]uint32](nil), mixedSlices(numKeys[uint32]()))
	probeHash("Uint64", hash.HashFuncForUint64[uint64](nil), hash.HashFuncForUint64[uint64](nil), numKeys[uint64]())
	probeHash("Uint64Slice", hash.HashFuncForUint64Slice[[]uint64](nil), hash.HashFuncForUint64Slice[[]uint64](nil), mixedSlices(numKeys[uint64]()))
	probeHash("Uintptr", hash.HashFuncForUintptr[uintptr](nil), hash.HashFuncForUintptr[uintptr](nil), numKeys[uintptr]())
	probeHash("UintptrSlice", hash.HashFuncForUintptrSlice[[]uintptr](nil), hash.HashFuncForUintptrSlice[[]uintptr](nil), mixedSlices(numKeys[uintptr]()))
	probeHash("Uint", hash.HashFuncForUint[uint](nil), hash.HashFuncForUint[uint](nil), numKeys[uint]())
	probeHash("UintSlice", hash.HashFuncForUintSlice[[]uint](nil), hash.HashFuncForUintSlice[[]uint](nil), mixedSlices(numKeys[uint]()))
	probeHash("Float32", hash.HashFuncForFloat32[float32](nil), hash.HashFuncForFloat32[float32](nil), numKeys[float32]())
	probeHash("Float32Slice", hash.HashFuncForFloat32Slice[[]float32](nil), hash.HashFuncForFloat32Slice[[]float32](nil), mixedSlices(numKeys[float32]()))
	probeHash("Float64", hash.HashFuncForFloat64[float64](nil), hash.HashFuncForFloat64[float64](nil), numKeys[float64]())
	probeHash("Float64Slice", hash.HashFuncForFloat64Slice[[]float64](nil), hash.HashFuncForFloat64Slice[[]float64](nil), mixedSlices(numKeys[float64]()))
	c64 := []complex64{0, 1, complex(1, 2), complex(0, 1), 3, complex(2, 2), 7}
	c128 := []complex128{0, 1, complex(1, 2), complex(0, 1), 3, complex(2, 2), 7}
	probeHash("Complex64", hash.HashFuncForComplex64[complex64](nil), hash.HashFuncForComplex64[complex64](nil), c64)
	probeHash("Complex64Slice", hash.HashFuncForComplex64Slice[[]complex64](nil), hash.HashFuncForComplex64Slice[[]complex64](nil), mixedSlices(c64))
	probeHash("Complex128", hash.HashFuncForComplex128[complex128](nil), hash.HashFuncForComplex128[complex128](nil), c128)
	probeHash("Complex128Slice", hash.HashFuncForComplex128Slice[[]complex128](nil), hash.HashFuncForComplex128Slice[[]complex128](nil), mixedSlices(c128))
	strs := []string{"", "a", "ab", "abc", "b", "abcdefgh", "ab", "cba", "a", "", "xy", "abcd"}
	probeHash("String", hash.HashFuncForString[string](nil), hash.HashFuncForString[string](nil), strs)
	probeHash("StringSlice", hash.HashFuncForStringSlice[[]string](nil), hash.HashFuncForStringSlice[[]string](nil), mixedSlices([]string{"a", "bc", "", "def", "a", "zz", "q"}))
	w.End()
}

// invalidCaps: capacities the constructor must reject (not a prime / power of two, or below the minimum),
// among them squares of primes; the case is the construction alone (result PANIC) or a trivial history.
func invalidCaps(kind string) {
	caps := []int{121, 169, 289, 961, 30, 33, 49, 1, 2, 3, 29, 64, 100}
	for _, cap := range caps {
		c := defaults(kind)
		c.cap = cap
		c.hf = "id"
		runCase(c, nil, []string{p(0, 1, 1), g(0, 1), "S0", "X0"})
	}
}

// squares: initial capacities whose growth or shrink targets lie next to squares of primes and other
// composites with a large least prime factor (59 -> 118: 121 = 11^2 is skipped for 127; 131 -> 263 -> 526:
// 529 = 23^2; 239 -> 479 -> 958: 961 = 31^2; 229/233/241 shrink to 114..120: 121).  Under hash functions
// that put every key into one probe class the table is filled to the limit of every size it reaches, with
// Get/Delete of an absent colliding key after every Put; a wrong size shows as a hang or a layout mismatch.
func squares(kind string, thorough bool) {
	type sc struct{ cap, keys int }
	grow := []sc{{59, 75}, {131, 300}}
	shrink := []int{229, 241}
	if thorough {
		grow = append(grow, sc{239, 520}, sc{263, 300}, sc{83, 100}, sc{179, 200})
		shrink = append(shrink, 233, 239, 337, 347)
	}
	for _, hf := range []string{"const", "class"} {
		for _, gc := range grow {
			c := defaults(kind)
			c.cap, c.hf = gc.cap, hf
			var ops []string
			for i := 0; i < gc.keys; i++ {
				ops = append(ops, p(0, i, i), g(0, 100000+i), d(0, 200000+i))
				if i%16 == 0 {
					ops = append(ops, "X0", "S0")
				}
			}
			ops = append(ops, "X0", "S0", g(0, 0), g(0, gc.keys-1))
			runCase(c, nil, ops)
		}
		for _, cap := range shrink {
			c := defaults(kind)
			c.cap, c.hf = cap, hf
			var ops []string
			n := cap/8 + 6
			for i := 0; i < n; i++ {
				ops = append(ops, p(0, i, i))
			}
			for i := 0; i < 8; i++ { // delete down across the shrink threshold
				ops = append(ops, d(0, i), "X0")
			}
			for i := 0; i < cap/2; i++ { // fill the shrunken table to its limit
				ops = append(ops, p(0, 1000+i, i), g(0, 100000+i), d(0, 200000+i))
				if i%16 == 0 {
					ops = append(ops, "X0")
				}
			}
			ops = append(ops, "X0", "S0")
			runCase(c, nil, ops)
		}
	}
}

func main() {
	mode := flag.String("mode", "exhaustive", "exhaustive|random|churn|adversarial|clients")
	tier := flag.String("tier", "quick", "quick|thorough")
	replay := flag.String("replay", "", "case file to re-execute")
	only := flag.String("kind", "", "restrict to one table kind")
	flag.Parse()
	if v, err := strconv.Atoi(os.Getenv("VERIF_C02_DEADLINE_MS")); err == nil && v > 0 {
		deadline = time.Duration(v) * time.Millisecond
	}
	st.VerifIdentityShuffle()
	w = tr.NewW()
	defer w.Flush()
	if *replay != "" {
		cs, err := tr.ReadCases(*replay)
		if err != nil {
			fmt.Fprintln(os.Stderr, err)
			os.Exit(3)
		}
		maxHung = 1
		for _, c := range cs {
			if strings.HasPrefix(c.Head, "hashdet") {
				hashProbes()
				continue
			}
			if strings.HasPrefix(c.Head, "client") {
				runClient(strings.Fields(c.Head)[1], c.Ops)
				continue
			}
			cf, h := parseHead(c.Head)
			runCase(cf, h, c.Ops)
		}
		return
	}
	thorough := *tier == "thorough"
	ks := kinds
	if *only != "" {
		ks = []string{*only}
	}
	switch *mode {
	case "exhaustive":
		for _, kind := range ks {
			dflt := defaults(kind)
			lim := growLimit(dflt)
			for _, hf := range []string{"const", "id", "mod3"} {
				c := dflt
				c.hf = hf
				n := 4
				if thorough {
					n = 6
				}
				if hf == "mod3" || (thorough && hf == "id") {
					n--
				}
				exhaustive(c, 0, n)
				if hf != "mod3" {
					exhaustive(c, lim-4, n-1) // histories that cross the first growth
				}
			}
			// shrink boundary: a grown table emptied to just above the shrink threshold is produced by the
			// adversarial generator; here a tight configuration whose thresholds are a few keys apart
			vs := variants(kind, *tier)
			c := vs[3]
			c.hf = "id"
			if thorough {
				exhaustive(c, growLimit(c)-3, 5)
			} else {
				exhaustive(c, growLimit(c)-3, 3)
			}
			for _, kt := range []string{"string", "ints"} {
				c = dflt
				c.hf, c.kt = "lib", kt
				exhaustive(c, 0, 3)
			}
			// a configuration with maxLF < 2*minLF, prefilled beyond its first growth so that deletes shrink it
			c = vs[len(vs)-2]
			c.hf = "id"
			exhaustive(c, growLimit(c)+2, 3)
		}
	case "random":
		r := rng.FromEnv(2)
		cases := 260
		if thorough {
			cases = 1400
		}
		for i := 0; i < cases; i++ {
			kind := ks[i%len(ks)]
			vs := variants(kind, *tier)
			c := vs[r.Intn(len(vs))]
			c.hf = hashFamilies[r.Intn(len(hashFamilies))]
			if c.zero && r.Chance(1, 2) {
				c.hf = "fnv"
			}
			if i%5 == 4 { // keys of another type, hashed by the library's own hash function
				c.kt = []string{"string", "ints"}[(i/5)%2]
				c.hf = "lib"
			}
			uni := []int{3, 8, 20, 40, 40, 120, 300}[r.Intn(7)]
			steps := r.Range(20, 400)
			if r.Chance(1, 8) {
				steps = r.Range(1000, 5000)
				if !thorough {
					steps = r.Range(800, 2500)
				}
			}
			if kind == "chain" && r.Chance(1, 2) {
				uni *= 4 // chaining grows at 10 keys per bucket
			}
			if degenerate(c.hf) { // long probe chains on the model side: keep the tiers within budget
				if thorough {
					uni = min(uni, 120)
					steps = min(steps, 2500)
				} else {
					uni = min(uni, 40)
					steps = min(steps, 800)
				}
			}
			random(r, c, steps, uni)
		}
	case "churn":
		r := rng.FromEnv(3)
		levels := 4
		if thorough {
			levels = 7
		}
		for _, kind := range ks {
			for _, hf := range []string{"fnv", "id", "const", "mod3", "class"} {
				for lvl := 0; lvl < levels; lvl++ {
					c := defaults(kind)
					c.hf = hf
					if kind == "chain" && lvl > 5 {
						continue
					}
					m := c.cap << lvl
					rounds := 3*m + 40
					if (hf == "const" || hf == "class" || hf == "mod3") && (lvl > 2 && !thorough || lvl > 4) {
						continue // quadratic-time probe chains on the model side: keep the tiers within budget
					}
					churn(r, c, lvl, rounds)
				}
				for _, c := range variants(kind, *tier)[2:] {
					c.hf = hf
					churn(r, c, 0, 3*c.cap+40)
					if thorough {
						churn(r, c, 1, 6*c.cap+40)
					}
				}
			}
		}
		if thorough {
			for _, kind := range ks {
				c := defaults(kind)
				c.hf = "fnv"
				churn(r, c, 0, 40000)
			}
		}
	case "clients":
		r := rng.FromEnv(5)
		n := 12
		if thorough {
			n = 60
		}
		for i := 0; i < n; i++ {
			clients(r, r.Range(40, 400))
		}
		clientsAdversarial(r)
		clientsFirstFollowAdv(r)
		clientsLRTableAdv(r)
		for i := 0; i < n/2; i++ {
			clientsFirstFollow(r, r.Range(20, 300))
			clientsLRTable(r, r.Range(5, 200), r.Range(3, 120), r.Range(200, 3000))
		}
	case "adversarial":
		r := rng.FromEnv(4)
		hashProbes()
		for _, kind := range ks {
			// VERIF_C02_NO_SQUARES=1 switches these two generators off (used to self-test the directed search of checks/C02.py)
			large(kind, thorough)
			if os.Getenv("VERIF_C02_NO_SQUARES") == "" {
				if kind == "quadratic" || kind == "double" {
					squares(kind, thorough)
				}
				invalidCaps(kind)
			}
			for _, c := range variants(kind, *tier) {
				for _, hf := range hashFamilies {
					c.hf = hf
					if c.zero && hf != "fnv" && hf != "const" {
						continue
					}
					adversarial(r, c, thorough)
				}
			}
		}
	}
}
