// Command c18 traces list.Queue, list.Stack and list.SoftQueue.
//
//	header:     Q <nodeSize> <eq>  |  S <nodeSize> <eq>  |  SQ <eq>       eq in {eq, m3, le}
//	ops (Q,S):  E v -> -     D -> v,t|0,f     P -> v,t|0,f     C v -> t|f     N -> size     Z -> t|f
//	ops (SQ):   E v -> idx   D -> v,idx|0,-1  P -> v,idx       C v -> idx     N -> size     Z -> t|f     V -> v0,v1,..|-
//	W (SQ):     aliasing probe of Values(): take Values(), report it, then scribble over the returned slice (every
//	            cell overwritten with a sentinel, reversed, one element appended into any spare capacity) and keep
//	            it; result "v0,v1,..|-" + "/" + t|f, the flag saying whether the slice kept by the PREVIOUS probe is
//	            still exactly what the harness left in it (the queue must not write into a slice it handed out).
//	            On the model Values returns a value, so W is Values and the flag is always t.
//	X (all):    representation snapshot through the verif hook (fidelity observable):
//	            Q: nodeSize,listSize,frontIndex,rearIndex,rearPos;block;block...   (cells separated by blanks,
//	               rearPos = position of rearNode among the blocks reachable from frontNode, -1 nil, -2 stale)
//	            S: nodeSize,listSize,topIndex;block;block...        SQ: front,rear,len(list)
//
// A panic inside an operation is reported as PANIC and ends the case; a case that does not finish
// within the deadline (2 s per case) is cut with HANG for the operation in flight and the process exits 4.
package main

import (
	"flag"
	"fmt"
	"os"
	"strconv"
	"strings"
	"sync"
	"time"

	"github.com/moorara/algo/list"

	"verif/harness/internal/rng"
	"verif/harness/internal/tr"
)

func b(x bool) string {
	if x {
		return "t"
	}
	return "f"
}

func eqFunc(kind string) func(a, b int) bool {
	switch kind {
	case "m3":
		return func(a, b int) bool { return ((a%3)+3)%3 == ((b%3)+3)%3 }
	case "le":
		// deliberately asymmetric: pins the argument order equal(stored element, searched value)
		return func(a, b int) bool { return a <= b }
	}
	return func(a, b int) bool { return a == b }
}

// inst is one live structure of any of the three kinds.
type inst struct {
	kind string
	q    list.Queue[int]
	s    list.Stack[int]
	sq   list.SoftQueue[int]
	// aliasing probe: the scribbled slice obtained from Values() by the last W, and what it must still hold
	held, heldWant []int
}

func mk(head string) (*inst, error) {
	h := strings.Fields(head)
	if len(h) < 2 {
		return nil, fmt.Errorf("bad header %q", head)
	}
	in := &inst{kind: h[0]}
	switch h[0] {
	case "Q", "S":
		if len(h) < 3 {
			return nil, fmt.Errorf("bad header %q", head)
		}
		ns, err := strconv.Atoi(h[1])
		if err != nil {
			return nil, err
		}
		if h[0] == "Q" {
			in.q = list.NewQueue[int](ns, eqFunc(h[2]))
		} else {
			in.s = list.NewStack[int](ns, eqFunc(h[2]))
		}
	case "SQ":
		in.sq = list.NewSoftQueue[int](eqFunc(h[1]))
	default:
		return nil, fmt.Errorf("bad header %q", head)
	}
	return in, nil
}

func blocks(bs [][]int) string {
	var sb strings.Builder
	for _, b := range bs {
		sb.WriteByte(';')
		for i, c := range b {
			if i > 0 {
				sb.WriteByte(' ')
			}
			sb.WriteString(strconv.Itoa(c))
		}
	}
	return sb.String()
}

func (in *inst) dump() string {
	switch in.kind {
	case "Q":
		st, ok := list.VerifQueueDump[int](in.q)
		if !ok {
			return "NOHOOK"
		}
		return fmt.Sprintf("%d,%d,%d,%d,%d", st.NodeSize, st.ListSize, st.FrontIndex, st.RearIndex, st.RearPos) + blocks(st.Blocks)
	case "S":
		st, ok := list.VerifStackDump[int](in.s)
		if !ok {
			return "NOHOOK"
		}
		return fmt.Sprintf("%d,%d,%d", st.NodeSize, st.ListSize, st.TopIndex) + blocks(st.Blocks)
	}
	f, r, n, ok := list.VerifSoftQueueDump[int](in.sq)
	if !ok {
		return "NOHOOK"
	}
	return fmt.Sprintf("%d,%d,%d", f, r, n)
}

func vals(vs []int) string {
	if len(vs) == 0 {
		return "-"
	}
	ss := make([]string, len(vs))
	for i, v := range vs {
		ss[i] = strconv.Itoa(v)
	}
	return strings.Join(ss, ",")
}

func (in *inst) exec(op string) (res string) {
	defer func() {
		if r := recover(); r != nil {
			res = "PANIC"
		}
	}()
	f := strings.Fields(op)
	if f[0] == "X" {
		return in.dump()
	}
	a := func(i int) int { v, _ := strconv.Atoi(f[i]); return v }
	vb := func(v int, ok bool) string { return fmt.Sprintf("%d,%s", v, b(ok)) }
	switch in.kind {
	case "Q":
		switch f[0] {
		case "E":
			in.q.Enqueue(a(1))
			return "-"
		case "D":
			return vb(in.q.Dequeue())
		case "P":
			return vb(in.q.Peek())
		case "C":
			return b(in.q.Contains(a(1)))
		case "N":
			return strconv.Itoa(in.q.Size())
		case "Z":
			return b(in.q.IsEmpty())
		}
	case "S":
		switch f[0] {
		case "E":
			in.s.Push(a(1))
			return "-"
		case "D":
			return vb(in.s.Pop())
		case "P":
			return vb(in.s.Peek())
		case "C":
			return b(in.s.Contains(a(1)))
		case "N":
			return strconv.Itoa(in.s.Size())
		case "Z":
			return b(in.s.IsEmpty())
		}
	case "SQ":
		vi := func(v, i int) string { return fmt.Sprintf("%d,%d", v, i) }
		switch f[0] {
		case "E":
			return strconv.Itoa(in.sq.Enqueue(a(1)))
		case "D":
			return vi(in.sq.Dequeue())
		case "P":
			return vi(in.sq.Peek())
		case "C":
			return strconv.Itoa(in.sq.Contains(a(1)))
		case "N":
			return strconv.Itoa(in.sq.Size())
		case "Z":
			return b(in.sq.IsEmpty())
		case "V":
			return vals(in.sq.Values())
		case "W":
			intact := len(in.held) == len(in.heldWant)
			for i := 0; intact && i < len(in.held); i++ {
				intact = in.held[i] == in.heldWant[i]
			}
			vs := in.sq.Values()
			seen := vals(vs)
			for i := range vs {
				vs[i] = -1000 - i
			}
			for i, j := 0, len(vs)-1; i < j; i, j = i+1, j-1 {
				vs[i], vs[j] = vs[j], vs[i]
			}
			vs = append(vs, -4242) // lands in the queue's own spare capacity if the slice is shared
			in.held = vs
			in.heldWant = append([]int(nil), vs...)
			return seen + "/" + b(intact)
		}
	}
	return "BADOP"
}

var w *tr.W

// runCase executes one case under a watchdog.
func runCase(head string, ops []string) {
	in, err := mk(head)
	if err != nil {
		fmt.Fprintln(os.Stderr, err)
		return
	}
	w.Begin("%s", head)
	// results of the finished ops and the op in flight, shared with the watchdog
	type item struct{ op, res string }
	var mu sync.Mutex
	var out []item
	cur := ""
	done := make(chan struct{}, 1)
	go func() {
		for _, op := range ops {
			mu.Lock()
			cur = op
			mu.Unlock()
			r := in.exec(op)
			mu.Lock()
			out = append(out, item{op, r})
			cur = ""
			mu.Unlock()
			if r == "PANIC" {
				break
			}
		}
		done <- struct{}{}
	}()
	select {
	case <-done:
		for _, it := range out {
			w.Op(it.op, it.res)
		}
		w.End()
	case <-time.After(2 * time.Second):
		// the worker is stuck inside an operation (it does not hold the lock there)
		mu.Lock()
		for _, it := range out {
			w.Op(it.op, it.res)
		}
		if cur != "" {
			w.Op(cur, "HANG")
		}
		w.Flush()
		os.Exit(4)
	}
}

var sizes = []int{1, 2, 3, 4, 5, 64}

// battery: every observer, Contains for every value of 0..maxv.
func battery(kind string, maxv int) []string {
	var ops []string
	if kind == "SQ" {
		// scribble over a Values() result first; every observer below must be unaffected
		ops = append(ops, "W")
	}
	ops = append(ops, "N", "Z", "P")
	for v := 0; v <= maxv; v++ {
		ops = append(ops, fmt.Sprintf("C %d", v))
	}
	if kind == "SQ" {
		ops = append(ops, "V")
	}
	ops = append(ops, "X")
	return ops
}

func heads(kind string, eq string) []string {
	if kind == "SQ" {
		return []string{"SQ " + eq}
	}
	var hs []string
	for _, ns := range sizes {
		hs = append(hs, fmt.Sprintf("%s %d %s", kind, ns, eq))
	}
	return hs
}

// exhaustiveFresh: every history of exactly n mutators over {add a fresh value, remove}; the full
// battery after every step (so every shorter history is covered as a prefix); finally the structure
// is drained two steps past empty.  Fresh values are 1,2,3,... so that a removed value can never be
// legitimately contained again, and 0 (Go's zero value, the content of never-written cells) and
// next+1 are always asked for, too.
func exhaustiveFresh(n int) {
	for _, kind := range []string{"Q", "S", "SQ"} {
		for _, head := range heads(kind, "eq") {
			for mask := 0; mask < 1<<n; mask++ {
				var ops []string
				next, live := 1, 0
				for i := 0; i < n; i++ {
					if mask>>i&1 == 1 {
						ops = append(ops, fmt.Sprintf("E %d", next))
						next++
						live++
					} else {
						ops = append(ops, "D")
						if live > 0 {
							live--
						}
					}
					ops = append(ops, battery(kind, next)...)
				}
				for i := 0; i < live+2; i++ {
					ops = append(ops, "D", "N")
				}
				ops = append(ops, fmt.Sprintf("E %d", next))
				ops = append(ops, battery(kind, next+1)...)
				runCase(head, ops)
			}
		}
	}
}

// exhaustiveDup: every history of exactly n mutators over {add 0, add 1, add 2, remove} (duplicates,
// the zero value as a payload), under each EqualFunc, battery after every step.
func exhaustiveDup(n int) {
	alpha := []string{"E 0", "E 1", "E 2", "D"}
	total := 1
	for i := 0; i < n; i++ {
		total *= len(alpha)
	}
	for _, kind := range []string{"Q", "S", "SQ"} {
		for ei, eq := range []string{"eq", "m3", "le"} {
			for _, head := range heads(kind, eq) {
				for code := 0; code < total; code++ {
					// the three EqualFuncs share the enumeration: each takes every third history,
					// "eq" additionally takes all of them for the small block sizes
					if eq != "eq" && code%3 != ei {
						continue
					}
					var ops []string
					c := code
					for i := 0; i < n; i++ {
						ops = append(ops, alpha[c%len(alpha)])
						c /= len(alpha)
						ops = append(ops, battery(kind, 3)...)
					}
					runCase(head, ops)
				}
			}
		}
	}
}

// exhaustiveLiteral: every history of length <= n over the literal alphabet of the property text,
// enqueue x | dequeue | peek | contains x  (x in {1,2}), followed by a final battery.
func exhaustiveLiteral(n int) {
	alpha := []string{"E 1", "E 2", "D", "P", "C 1", "C 2"}
	for _, kind := range []string{"Q", "S", "SQ"} {
		for _, head := range heads(kind, "eq") {
			var rec func(prefix []string)
			rec = func(prefix []string) {
				if len(prefix) == n {
					ops := append(prefix[:len(prefix):len(prefix)], battery(kind, 2)...)
					runCase(head, ops)
					return
				}
				for _, a := range alpha {
					rec(append(prefix[:len(prefix):len(prefix)], a))
				}
			}
			rec(nil)
		}
	}
}

func rep(ops []string, op string, n int) []string {
	for i := 0; i < n; i++ {
		ops = append(ops, op)
	}
	return ops
}

// refill: drain-and-refill at every offset.  For every block size: add a values, remove d of them
// (d = a is the full drain; the cursor then sits at offset a mod nodeSize, on the block boundary
// when nodeSize divides a), refill with r values, drain completely, refill once more across a
// block boundary; battery at every turning point and after each refill step.
func refill(thorough bool) {
	for _, kind := range []string{"Q", "S", "SQ"} {
		for _, head := range heads(kind, "eq") {
			ns := 1
			if kind != "SQ" {
				ns, _ = strconv.Atoi(strings.Fields(head)[1])
			}
			lim := 2*ns + 2
			step := 1
			if ns > 8 {
				// around the boundaries only: 0..2, ns-1..ns+1, 2ns-1..2ns+1
				step = 0
			}
			var offs []int
			if step == 1 {
				for a := 0; a <= lim; a++ {
					offs = append(offs, a)
				}
			} else {
				offs = []int{0, 1, 2, ns - 1, ns, ns + 1, 2*ns - 1, 2 * ns, 2*ns + 1}
			}
			for _, a := range offs {
				for _, back := range []int{0, 1, 2} { // remove a, a-1, a-2 of the a values
					d := a - back
					if d < 0 {
						continue
					}
					for _, r := range offs {
						if !thorough && ns > 8 && r > ns+1 {
							continue
						}
						var ops []string
						next := 1
						add := func(n int, bat bool) {
							for i := 0; i < n; i++ {
								ops = append(ops, fmt.Sprintf("E %d", next))
								next++
								if bat {
									ops = append(ops, "N", "P", fmt.Sprintf("C %d", next-1), fmt.Sprintf("C %d", next), "C 0", "C 1")
								}
							}
						}
						add(a, false)
						ops = append(ops, battery(kind, 2)...)
						ops = rep(ops, "D", d)
						ops = append(ops, battery(kind, a+1)...)
						add(r, true)
						ops = append(ops, battery(kind, a+r+1)...)
						ops = rep(ops, "D", a-d+r+1)
						ops = append(ops, battery(kind, a+r+1)...)
						add(ns+1, true)
						ops = rep(ops, "D", ns+2)
						ops = append(ops, "N", "Z")
						runCase(head, ops)
					}
				}
			}
		}
	}
}

// random: long histories in phases (grow / shrink / oscillate around a block boundary / drain to
// empty), so that block boundaries are crossed in both directions many times; small value universe
// (including 0) so that Contains is frequently true, plus fresh values so that stale cells differ.
func random(r *rng.R, cases, maxOps int) {
	eqs := []string{"eq", "eq", "m3", "le"}
	rsizes := []int{1, 2, 3, 4, 5, 7, 8, 64, 17, 20, 33, 48, 100}
	for c := 0; c < cases; c++ {
		kind := []string{"Q", "S", "SQ"}[r.Intn(3)]
		if r.Chance(1, 4) {
			kind = "Q"
		}
		ns := rsizes[r.Intn(len(rsizes))]
		eq := eqs[r.Intn(len(eqs))]
		head := fmt.Sprintf("%s %d %s", kind, ns, eq)
		if kind == "SQ" {
			head = "SQ " + eq
		}
		n := r.Range(1, maxOps)
		if r.Chance(1, 3) {
			n = r.Range(1, 40)
		}
		var ops []string
		live, fresh := 0, 100
		val := func() int {
			switch r.Intn(4) {
			case 0:
				return r.Intn(4) // small universe incl. the zero value
			case 1:
				return r.Range(-3, 12)
			}
			fresh++
			return fresh
		}
		phase, left := 0, 0
		for len(ops) < n {
			if left == 0 {
				phase = r.Intn(5)
				left = r.Range(1, 3*ns+6)
				if phase == 3 {
					left = live + r.Range(0, 2) // drain to empty (and a bit beyond)
				}
			}
			left--
			pAdd := 50
			switch phase {
			case 0:
				pAdd = 85
			case 1:
				pAdd = 20
			case 2:
				pAdd = 50
			case 3:
				pAdd = 0
			case 4:
				pAdd = 65
			}
			if r.Intn(100) < pAdd {
				ops = append(ops, fmt.Sprintf("E %d", val()))
				live++
			} else {
				ops = append(ops, "D")
				if live > 0 {
					live--
				}
			}
			switch r.Intn(8) {
			case 0:
				ops = append(ops, "P")
			case 1:
				ops = append(ops, fmt.Sprintf("C %d", r.Intn(4)))
			case 2:
				ops = append(ops, fmt.Sprintf("C %d", r.Range(fresh-6, fresh+1)))
			case 3:
				ops = append(ops, "N", "Z")
			case 4:
				if kind == "SQ" && r.Chance(1, 2) {
					ops = append(ops, []string{"V", "W"}[r.Intn(2)])
				}
			case 5:
				if ns <= 8 || r.Chance(1, 4) {
					ops = append(ops, "X")
				}
			}
		}
		ops = append(ops, battery(kind, 4)...)
		ops = rep(ops, "D", live+1)
		ops = append(ops, "N", "Z", "P", "C 0", "X")
		if kind == "SQ" {
			ops = append(ops, "W", "E 5", "W", "V", "C 5")
		}
		runCase(head, ops)
	}
}

// big: block sizes that are neither tiny nor a power of two (17, 20, 33, 48, 100; 1000 in the thorough tier), so
// that a block whose physical length differs from nodeSize (lazy / geometric allocation, recycling) shows.
// Per size and structure: a run of 2*nodeSize+50 fresh values with Peek/Size on the way, a Contains sweep over
// every value ever added plus 0 and the next one, a complete drain checking every value handed out; then
// drain-and-refill patterns around the nodeSize boundaries (a in nodeSize-1..nodeSize+1 and 2*nodeSize-1..2*nodeSize+1,
// remove a or a-1, refill 1 | nodeSize | nodeSize+1, sweep, drain).
func big(thorough bool) {
	bsizes := []int{17, 20, 33, 48, 100}
	if thorough {
		bsizes = append(bsizes, 1000)
	}
	for _, kind := range []string{"Q", "S"} {
		for _, ns := range bsizes {
			head := fmt.Sprintf("%s %d eq", kind, ns)
			sweep := func(ops []string, maxv int) []string {
				if ns < 1000 {
					for v := 0; v <= maxv; v++ {
						ops = append(ops, fmt.Sprintf("C %d", v))
					}
					return ops
				}
				// nodeSize 1000: a sparse sweep (every 41st value and everything near a multiple of
				// nodeSize or of a power of two) keeps the unary-indexed model affordable
				for v := 0; v <= maxv; v++ {
					near := false
					for _, m := range []int{ns, 2 * ns, 3 * ns, 16, 32, 64, 128, 256, 512, 1024, 2048, 4096} {
						if v >= m-3 && v <= m+3 {
							near = true
						}
					}
					if near || v%41 == 0 || v >= maxv-2 {
						ops = append(ops, fmt.Sprintf("C %d", v))
					}
				}
				return ops
			}
			// long run, sweep, complete drain
			n := 2*ns + 50
			var ops []string
			for v := 1; v <= n; v++ {
				ops = append(ops, fmt.Sprintf("E %d", v))
				if v%7 == 0 || v >= ns-1 && v <= ns+1 || v >= 2*ns-1 && v <= 2*ns+1 {
					ops = append(ops, "P", "N")
				}
			}
			ops = append(ops, "N", "Z", "P")
			ops = sweep(ops, n+1)
			ops = append(ops, "X")
			for i := 0; i < n+1; i++ {
				ops = append(ops, "D")
				if i%5 == 0 {
					ops = append(ops, "N", "P")
				}
			}
			ops = append(ops, "N", "Z", "P", "C 0", "C 1", fmt.Sprintf("C %d", n), "X")
			// and once more on the drained structure
			for v := n + 1; v <= n+ns+2; v++ {
				ops = append(ops, fmt.Sprintf("E %d", v))
			}
			ops = sweep(ops, n+ns+3)
			ops = rep(ops, "D", ns+3)
			ops = append(ops, "N", "Z")
			runCase(head, ops)
			// partial drains in the middle of a long run: remove down to a block boundary, continue
			for _, keep := range []int{0, 1, ns - 1, ns, ns + 1} {
				var ops []string
				next := 1
				for ; next <= n; next++ {
					ops = append(ops, fmt.Sprintf("E %d", next))
				}
				ops = rep(ops, "D", n-keep)
				ops = append(ops, "N", "P")
				ops = sweep(ops, n+1)
				for i := 0; i < ns+2; i++ {
					ops = append(ops, fmt.Sprintf("E %d", next))
					next++
				}
				ops = append(ops, "N", "P")
				ops = sweep(ops, next)
				ops = rep(ops, "D", keep+ns+3)
				ops = append(ops, "N", "Z")
				runCase(head, ops)
			}
			// refill patterns around the nodeSize boundaries
			if ns >= 1000 {
				continue
			}
			for _, a := range []int{ns - 1, ns, ns + 1, 2*ns - 1, 2 * ns, 2*ns + 1} {
				for _, back := range []int{0, 1} {
					for _, r := range []int{1, ns, ns + 1} {
						var ops []string
						next := 1
						add := func(k int) {
							for i := 0; i < k; i++ {
								ops = append(ops, fmt.Sprintf("E %d", next))
								next++
							}
						}
						add(a)
						ops = rep(ops, "D", a-back)
						ops = append(ops, "N", "Z", "P")
						add(r)
						ops = append(ops, "N", "P")
						ops = sweep(ops, next)
						ops = append(ops, "X")
						ops = rep(ops, "D", back+r+1)
						ops = append(ops, "N", "Z", "P")
						add(ns + 1)
						ops = append(ops, "P", fmt.Sprintf("C %d", next-1), fmt.Sprintf("C %d", next-ns-1), fmt.Sprintf("C %d", next-ns-2))
						ops = rep(ops, "D", ns+2)
						ops = append(ops, "N", "Z")
						runCase(head, ops)
					}
				}
			}
		}
	}
}

func main() {
	mode := flag.String("mode", "exhaustive", "exhaustive|dup|literal|refill|big|random")
	tier := flag.String("tier", "quick", "quick|thorough")
	replay := flag.String("replay", "", "case file to re-execute")
	flag.Parse()
	w = tr.NewW()
	defer w.Flush()
	if *replay != "" {
		cs, err := tr.ReadCases(*replay)
		if err != nil {
			fmt.Fprintln(os.Stderr, err)
			os.Exit(3)
		}
		for _, c := range cs {
			runCase(c.Head, c.Ops)
		}
		return
	}
	thorough := *tier == "thorough"
	switch *mode {
	case "exhaustive":
		if thorough {
			exhaustiveFresh(13)
		} else {
			exhaustiveFresh(11)
		}
	case "dup":
		if thorough {
			exhaustiveDup(7)
		} else {
			exhaustiveDup(5)
		}
	case "literal":
		if thorough {
			exhaustiveLiteral(7)
		} else {
			exhaustiveLiteral(5)
		}
	case "refill":
		refill(thorough)
	case "big":
		big(thorough)
	case "random":
		r := rng.FromEnv(18)
		if thorough {
			random(r, 30000, 1500)
		} else {
			random(r, 4000, 600)
		}
	}
}
