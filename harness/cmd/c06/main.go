// Command c06 traces the binary trie and the Patricia trie of /repo/trie.
//
//	header:  BIN | PAT
//	keys, prefixes and patterns are hex encoded byte strings ("_" is the empty string)
//	ops:     P k v -> -            G k -> v|none        D k -> v|none
//	         DMIN / DMAX -> k:v|none      DALL -> -     SZ -> n
//	         MIN / MAX / FL k / CE k / LP k / SEL i -> k:v|none
//	         RK k -> n     RS lo hi -> n     RG lo hi / ALL / MA pat / WP p -> k:v,k:v,...|[]
//	         VF -> t|f (verify hook)          DUMP -> canonical structure (hook)
//	a panic inside an op is reported as PANIC, a case that does not finish in time as HANG.
package main

import (
	"encoding/hex"
	"flag"
	"fmt"
	"os"
	"runtime/debug"
	"sort"
	"strconv"
	"strings"
	"sync"
	"time"

	"github.com/moorara/algo/generic"
	"github.com/moorara/algo/trie"

	"verif/harness/internal/rng"
	"verif/harness/internal/tr"
)

var impls = []string{"BIN", "PAT"}

func mk(impl string) trie.Trie[int] {
	if impl == "BIN" {
		return trie.NewBinary[int](nil)
	}
	return trie.NewPatricia[int](nil)
}

func hx(s string) string {
	if s == "" {
		return "_"
	}
	return hex.EncodeToString([]byte(s))
}

func unhx(s string) string {
	if s == "_" {
		return ""
	}
	b, err := hex.DecodeString(s)
	if err != nil {
		fmt.Fprintln(os.Stderr, "bad hex token:", s)
		os.Exit(3)
	}
	return string(b)
}

func kv(k string, v int, ok bool) string {
	if !ok {
		return "none"
	}
	return hx(k) + ":" + strconv.Itoa(v)
}

func kvs(l []generic.KeyValue[string, int]) string {
	if len(l) == 0 {
		return "[]"
	}
	s := make([]string, len(l))
	for i, e := range l {
		s[i] = hx(e.Key) + ":" + strconv.Itoa(e.Val)
	}
	return strings.Join(s, ",")
}

func exec1(t trie.Trie[int], op string) (res string) {
	defer func() {
		if r := recover(); r != nil {
			res = "PANIC"
		}
	}()
	f := strings.Fields(op)
	k := func(i int) string { return unhx(f[i]) }
	n := func(i int) int { v, _ := strconv.Atoi(f[i]); return v }
	opt := func(v int, ok bool) string {
		if !ok {
			return "none"
		}
		return strconv.Itoa(v)
	}
	switch f[0] {
	case "P":
		t.Put(k(1), n(2))
		return "-"
	case "G":
		return opt(t.Get(k(1)))
	case "D":
		return opt(t.Delete(k(1)))
	case "DMIN":
		return kv(t.DeleteMin())
	case "DMAX":
		return kv(t.DeleteMax())
	case "DALL":
		t.DeleteAll()
		return "-"
	case "SZ":
		return strconv.Itoa(t.Size())
	case "MIN":
		return kv(t.Min())
	case "MAX":
		return kv(t.Max())
	case "FL":
		return kv(t.Floor(k(1)))
	case "CE":
		return kv(t.Ceiling(k(1)))
	case "LP":
		return kv(t.LongestPrefixOf(k(1)))
	case "SEL":
		return kv(t.Select(n(1)))
	case "RK":
		return strconv.Itoa(t.Rank(k(1)))
	case "RS":
		return strconv.Itoa(t.RangeSize(k(1), k(2)))
	case "RG":
		return kvs(t.Range(k(1), k(2)))
	case "ALL":
		var l []generic.KeyValue[string, int]
		for key, val := range t.All() {
			l = append(l, generic.KeyValue[string, int]{Key: key, Val: val})
		}
		return kvs(l)
	case "MA":
		return kvs(t.Match(k(1)))
	case "WP":
		return kvs(t.WithPrefix(k(1)))
	case "VF":
		if trie.VerifyInvariants(t) {
			return "t"
		}
		return "f"
	case "DUMP":
		return trie.VerifDump(t)
	}
	return "?"
}

var hung = 0
var replayMode = false

// runCase executes one case under a watchdog and writes its trace line.
func runCase(w *tr.W, impl string, ops []string) {
	if impl == "PAT" {
		// A corrupted threaded tree can recurse without bound; the resulting stack overflow is fatal
		// (not recoverable).  The case is therefore announced and flushed before it runs, so that the
		// last line of the trace is the culprit; the driver skips PENDING lines.
		w.Begin("PENDING %s", impl)
		for _, op := range ops {
			w.Op(op, "?")
		}
		w.End()
		w.Flush()
	}
	var mu sync.Mutex
	res := make([]string, 0, len(ops))
	done := make(chan struct{})
	go func() {
		t := mk(impl)
		for _, op := range ops {
			r := exec1(t, op)
			mu.Lock()
			res = append(res, r)
			mu.Unlock()
		}
		close(done)
	}()
	deadline := 2*time.Second + 2*time.Duration(len(ops))*time.Millisecond
	if replayMode { // shrinking replays many small cases: cut a hang quickly
		deadline = 400*time.Millisecond + 100*time.Duration(len(ops))*time.Microsecond
	}
	timedOut := false
	select {
	case <-done:
	case <-time.After(deadline):
		timedOut = true
	}
	mu.Lock()
	got := append([]string(nil), res...)
	mu.Unlock()
	w.Begin("%s", impl)
	for i, r := range got {
		w.Op(ops[i], r)
	}
	if timedOut {
		if len(got) < len(ops) {
			w.Op(ops[len(got)], "HANG")
		}
		w.End()
		hung++
		if hung >= 2 {
			w.Flush()
			os.Exit(4)
		}
		return
	}
	w.End()
}

func both(w *tr.W, ops []string) {
	for _, impl := range impls {
		runCase(w, impl, ops)
	}
}

// ---------------------------------------------------------------- key universes

// words over alphabet of length 1..maxLen in lexicographic order of (length, word)
func words(alpha string, maxLen int) []string {
	var out []string
	cur := []string{""}
	for l := 1; l <= maxLen; l++ {
		var next []string
		for _, p := range cur {
			for i := 0; i < len(alpha); i++ {
				next = append(next, p+string([]byte{alpha[i]}))
			}
		}
		out = append(out, next...)
		cur = next
	}
	return out
}

// patterns: every string of length 1..maxLen over alpha+"*" with at most maxStars stars
func patterns(alpha string, maxLen, maxStars int) []string {
	var out []string
	for _, p := range words(alpha+"*", maxLen) {
		if strings.Count(p, "*") <= maxStars {
			out = append(out, p)
		}
	}
	return out
}

func uniq(xs []string) []string {
	seen := map[string]bool{}
	var out []string
	for _, x := range xs {
		if !seen[x] {
			seen[x] = true
			out = append(out, x)
		}
	}
	return out
}

// neighbours of a key: proper prefixes, one-byte extensions, predecessor/successor by last byte
func neighbours(k string, ext []byte) []string {
	out := []string{k}
	for i := 0; i < len(k); i++ {
		out = append(out, k[:i])
	}
	for _, e := range ext {
		out = append(out, k+string([]byte{e}))
	}
	if len(k) > 0 {
		b := []byte(k)
		last := b[len(b)-1]
		if last > 0 {
			b[len(b)-1] = last - 1
			out = append(out, string(b))
		}
		if last < 255 {
			b[len(b)-1] = last + 1
			out = append(out, string(b))
		}
	}
	return out
}

// battery: the query set over the given arguments; lean: fewer range pairs
func battery(args []string, pats []string, maxSel int, dump bool, lean bool) []string {
	ops := []string{"SZ", "ALL", "MIN", "MAX", "VF"}
	if dump {
		ops = append(ops, "DUMP")
	}
	for _, a := range args {
		h := hx(a)
		if a != "" {
			ops = append(ops, "G "+h)
		}
		ops = append(ops, "FL "+h, "CE "+h, "RK "+h, "WP "+h, "LP "+h)
	}
	for i := -1; i <= maxSel; i++ {
		ops = append(ops, "SEL "+strconv.Itoa(i))
	}
	for i, a := range args {
		for j, b := range args {
			if lean && (i*7+j*3)%11 != 0 {
				continue
			}
			if (i+j)%3 == 0 || len(args) <= 8 {
				ops = append(ops, "RG "+hx(a)+" "+hx(b), "RS "+hx(a)+" "+hx(b))
			}
		}
	}
	for _, p := range pats {
		ops = append(ops, "MA "+hx(p))
	}
	return ops
}

// ---------------------------------------------------------------- generators

// exhaustive: every history of length <= maxLen over the mutator alphabet, each followed by the battery.
// shard/nshards: the histories are split by their first mutator (index mod nshards); the empty
// history belongs to shard 0.  nshards <= 1: everything.
var shard, nshards int

func exhaustive(w *tr.W, keys []string, withBulk bool, maxLen int, args, pats []string, lean bool) {
	var alpha []string
	for _, k := range keys {
		alpha = append(alpha, "P "+hx(k))
	}
	for _, k := range keys {
		alpha = append(alpha, "D "+hx(k))
	}
	alpha = append(alpha, "DMIN", "DMAX")
	if withBulk {
		alpha = append(alpha, "DALL")
	}
	bat := battery(args, pats, len(keys), true, lean)
	var rec func(prefix []string)
	rec = func(prefix []string) {
		if len(prefix) > 0 || nshards <= 1 || shard == 0 {
			ops := append(append([]string(nil), prefix...), bat...)
			both(w, ops)
		}
		if len(prefix) == maxLen {
			return
		}
		for ai, a := range alpha {
			if len(prefix) == 0 && nshards > 1 && ai%nshards != shard {
				continue
			}
			op := a
			if strings.HasPrefix(a, "P ") {
				op = a + " " + strconv.Itoa(len(prefix)+1)
			}
			rec(append(prefix[:len(prefix):len(prefix)], op))
		}
	}
	rec(nil)
}

type gen struct {
	r       *rng.R
	keys    []string // key universe for mutators
	args    []string // query arguments
	pats    []string
	counter int
}

func (g *gen) key() string { return g.keys[g.r.Intn(len(g.keys))] }
func (g *gen) arg() string { return g.args[g.r.Intn(len(g.args))] }

func (g *gen) query() string {
	switch g.r.Intn(16) {
	case 0:
		return "SZ"
	case 1:
		return "MIN"
	case 2:
		return "MAX"
	case 3:
		return "FL " + hx(g.arg())
	case 4:
		return "CE " + hx(g.arg())
	case 5:
		return "RK " + hx(g.arg())
	case 6:
		return "SEL " + strconv.Itoa(g.r.Range(-1, 12))
	case 7:
		return "RG " + hx(g.arg()) + " " + hx(g.arg())
	case 8:
		return "RS " + hx(g.arg()) + " " + hx(g.arg())
	case 9:
		return "ALL"
	case 10:
		return "WP " + hx(g.arg())
	case 11:
		return "LP " + hx(g.arg())
	case 12:
		return "MA " + hx(g.pats[g.r.Intn(len(g.pats))])
	case 13:
		return "VF"
	case 14:
		return "DUMP"
	}
	a := g.arg()
	if a == "" {
		return "SZ"
	}
	return "G " + hx(a)
}

func (g *gen) mutator(pPut int) string {
	x := g.r.Intn(100)
	switch {
	case x < pPut:
		g.counter++
		return "P " + hx(g.key()) + " " + strconv.Itoa(g.counter)
	case x < pPut+(100-pPut)*6/10:
		return "D " + hx(g.key())
	case x < pPut+(100-pPut)*8/10:
		return "DMIN"
	case x < pPut+(100-pPut)*99/100:
		return "DMAX"
	}
	return "DALL"
}

// random history: phases of growth and shrinkage, queries interleaved, a sampled battery at the end.
func (g *gen) history(steps int, qEvery int) []string {
	var ops []string
	g.counter = 0
	pPut := 70
	for i := 0; i < steps; i++ {
		if i%17 == 16 {
			pPut = []int{80, 50, 25, 65}[g.r.Intn(4)]
		}
		ops = append(ops, g.mutator(pPut))
		for q := 0; q < qEvery; q++ {
			ops = append(ops, g.query())
		}
	}
	ops = append(ops, "SZ", "ALL", "VF", "DUMP", "MIN", "MAX")
	for i := 0; i < 24; i++ {
		ops = append(ops, g.query())
	}
	return ops
}

func sample(r *rng.R, xs []string, n int) []string {
	if len(xs) <= n {
		return xs
	}
	var out []string
	for i := 0; i < n; i++ {
		out = append(out, xs[r.Intn(len(xs))])
	}
	return uniq(out)
}

func randomAlpha(w *tr.W, r *rng.R, alpha string, maxLen, cases, steps int, stars int) {
	ks := words(alpha, maxLen)
	args := append([]string{""}, words(alpha, maxLen+1)...)
	args = append(args, "`", "c", "a`", "ac", "\x00", "\xff")
	pats := patterns(alpha, maxLen, stars)
	if !strings.Contains(alpha, "*") {
		pats = append(pats, patterns(alpha, maxLen+1, 2)[len(pats):]...)
	}
	pats = append(pats, "", "c", "a*c", "*****")
	for c := 0; c < cases; c++ {
		g := &gen{r: r, keys: ks, args: args, pats: pats}
		if r.Chance(1, 3) { // a sparse sub-universe: more absent arguments
			g.keys = sample(r, ks, r.Range(2, 8))
		}
		both(w, g.history(r.Range(1, steps), r.Range(1, 3)))
	}
}

var special = []byte{0x00, 0x01, 0x2a, 0x61, 0x62, 0x7f, 0x80, 0x81, 0xc3, 0xe9, 0xfe, 0xff}

func randKey(r *rng.R, maxLen int, noTrailingNUL bool) string {
	n := r.Range(1, maxLen)
	b := make([]byte, n)
	for i := range b {
		if r.Chance(3, 4) {
			b[i] = special[r.Intn(len(special))]
		} else {
			b[i] = byte(r.Intn(256))
		}
	}
	if noTrailingNUL && b[n-1] == 0 {
		b[n-1] = special[1+r.Intn(len(special)-1)]
	}
	return string(b)
}

// arbitrary bytes.  nul=false: no key ends in 0x00 (the Patricia encoding cannot tell "a" from "a\x00": known finding,
// exercised by nul=true and by the corpus).
func randomBytes(w *tr.W, r *rng.R, cases, steps int, nul bool) {
	for c := 0; c < cases; c++ {
		var ks []string
		nk := r.Range(2, 24)
		for i := 0; i < nk; i++ {
			k := randKey(r, 4, !nul)
			ks = append(ks, k)
			if r.Chance(1, 2) { // dense prefix relations
				ks = append(ks, k+randKey(r, 2, !nul))
			}
			if r.Chance(1, 3) && len(k) > 1 && (nul || k[len(k)-2] != 0) {
				ks = append(ks, k[:len(k)-1])
			}
		}
		ks = uniq(ks)
		var args []string
		for _, k := range ks {
			args = append(args, neighbours(k, []byte{0x00, 0x61, 0x80, 0xff})...)
		}
		args = uniq(append(args, "", "\x00", "\x7f", "\x80", "\xff", "\xc3\xa9"))
		var pats []string
		for _, k := range ks {
			pats = append(pats, k)
			for s := 0; s < 2; s++ {
				b := []byte(k)
				for j := 0; j <= s; j++ {
					b[r.Intn(len(b))] = '*'
				}
				pats = append(pats, string(b))
			}
			pats = append(pats, k+"*", "*"+k)
		}
		g := &gen{r: r, keys: ks, args: args, pats: uniq(pats)}
		both(w, g.history(r.Range(1, steps), r.Range(1, 2)))
	}
}

// adversarial shapes: long single chains, full fans, prefix ladders deleted in every direction
func adversarial(w *tr.W, r *rng.R, thorough bool) {
	depth := 24
	if thorough {
		depth = 64
	}
	for _, base := range []string{"a", "\x80", "\xff", "*", "ab"} {
		var ladder []string
		k := ""
		for i := 0; i < depth/len(base); i++ {
			k += base
			ladder = append(ladder, k)
		}
		for variant := 0; variant < 6; variant++ {
			var ops []string
			order := append([]string(nil), ladder...)
			switch variant {
			case 1, 4:
				sort.Sort(sort.Reverse(sort.StringSlice(order)))
			case 2, 5:
				for i := len(order) - 1; i > 0; i-- {
					j := r.Intn(i + 1)
					order[i], order[j] = order[j], order[i]
				}
			}
			for i, x := range order {
				ops = append(ops, "P "+hx(x)+" "+strconv.Itoa(i+1))
			}
			ops = append(ops, "SZ", "ALL", "VF", "DUMP")
			q := ladder[len(ladder)-1]
			ops = append(ops, "LP "+hx(q), "LP "+hx(q+"b"), "WP "+hx(base), "WP "+hx(ladder[len(ladder)/2]),
				"MA "+hx(strings.Repeat("*", len(ladder[2]))), "RK "+hx(q), "RK "+hx(q+"\x00"), "FL "+hx(q+"b"), "CE "+hx(ladder[1]+"\x00"))
			del := append([]string(nil), ladder...)
			switch variant {
			case 0, 1:
				sort.Sort(sort.Reverse(sort.StringSlice(del))) // deepest first
			case 2:
				// shallowest first
			default:
				for i := len(del) - 1; i > 0; i-- {
					j := r.Intn(i + 1)
					del[i], del[j] = del[j], del[i]
				}
			}
			for i, x := range del {
				switch {
				case variant == 4 && i%3 == 0:
					ops = append(ops, "DMIN")
				case variant == 5 && i%3 == 0:
					ops = append(ops, "DMAX")
				default:
					ops = append(ops, "D "+hx(x))
				}
				ops = append(ops, "SZ", "G "+hx(ladder[0]), "G "+hx(q), "LP "+hx(q), "MIN", "MAX", "RK "+hx(ladder[len(ladder)/2]))
				if i%4 == 0 {
					ops = append(ops, "ALL", "VF", "DUMP", "WP "+hx(ladder[1]))
				}
			}
			ops = append(ops, "SZ", "ALL", "VF", "DUMP")
			both(w, ops)
		}
	}
	// full fan of single bytes, then two-byte keys under some of them
	for variant := 0; variant < 3; variant++ {
		var ops []string
		perm := make([]int, 256)
		for i := range perm {
			perm[i] = i
		}
		if variant > 0 {
			for i := 255; i > 0; i-- {
				j := r.Intn(i + 1)
				perm[i], perm[j] = perm[j], perm[i]
			}
		}
		for i, b := range perm {
			if variant == 2 && b == 0 {
				continue
			}
			ops = append(ops, "P "+hx(string([]byte{byte(b)}))+" "+strconv.Itoa(i+1))
			if b%16 == 1 {
				ops = append(ops, "P "+hx(string([]byte{byte(b), byte(255 - b)}))+" "+strconv.Itoa(1000+i))
			}
		}
		ops = append(ops, "SZ", "ALL", "VF", "DUMP", "MA 2a", "MA 2a2a", "MA 2a0e", "WP _", "WP 80", "WP 11", "MIN", "MAX")
		for _, b := range []int{0, 1, 0x2a, 0x7f, 0x80, 0xff} {
			h := hx(string([]byte{byte(b)}))
			ops = append(ops, "RK "+h, "FL "+h, "CE "+h, "G "+h, "LP "+h+"00", "LP "+h+"ee", "RS "+h+" ff", "SEL "+strconv.Itoa(b))
		}
		for i := 0; i < 300; i++ {
			switch r.Intn(4) {
			case 0:
				ops = append(ops, "DMIN")
			case 1:
				ops = append(ops, "DMAX")
			default:
				ops = append(ops, "D "+hx(string([]byte{byte(r.Intn(256))})))
			}
			if i%10 == 0 {
				ops = append(ops, "SZ", "MIN", "MAX", "SEL 3", "RK 80", "RK 7f01")
			}
		}
		ops = append(ops, "SZ", "ALL", "VF", "DUMP")
		both(w, ops)
	}
}

// long keys: lengths 7, 8, 9, 15, 16, 17, 24, 33; clusters that share a prefix of every length
// 0..len-1 with the base key and first differ from it at every bit offset within a byte; clusters of
// all eight one-bit variants at one byte; chains of prefixes of one long key.  Small and arbitrary
// byte alphabets.  (Word-at-a-time fast paths in DiffPos / Equal / HasPrefix only show on such keys.)
var longLens = []int{7, 8, 9, 15, 16, 17, 24, 33}

func longBase(r *rng.R, n int, small bool) []byte {
	b := make([]byte, n)
	for i := range b {
		if small {
			b[i] = "ab"[r.Intn(2)]
		} else if r.Chance(1, 3) {
			b[i] = special[r.Intn(len(special))]
		} else {
			b[i] = byte(r.Intn(256))
		}
	}
	if b[n-1] == 0 {
		b[n-1] = 0x61
	}
	return b
}

// variant: same first p bytes, first difference at bit off (0 = most significant) of byte p
func variant(base []byte, p, off int) (string, bool) {
	v := append([]byte(nil), base...)
	v[p] ^= 0x80 >> uint(off)
	if v[len(v)-1] == 0 { // no trailing NUL (recorded Patricia finding; the nul mode covers it)
		return "", false
	}
	return string(v), true
}

func longCase(r *rng.R, keys []string, absent []string, pat string) []string {
	var ops []string
	order := append([]string(nil), keys...)
	for i := len(order) - 1; i > 0; i-- {
		j := r.Intn(i + 1)
		order[i], order[j] = order[j], order[i]
	}
	for i, k := range order {
		ops = append(ops, "P "+hx(k)+" "+strconv.Itoa(i+1))
		if i%4 == 1 {
			ops = append(ops, "G "+hx(k), "G "+hx(order[0]))
		}
	}
	ops = append(ops, "SZ", "ALL", "VF", "DUMP", "MIN", "MAX")
	for _, k := range keys {
		ops = append(ops, "G "+hx(k))
	}
	for _, k := range absent {
		ops = append(ops, "G "+hx(k), "RK "+hx(k), "FL "+hx(k), "CE "+hx(k), "D "+hx(k))
	}
	for i, k := range keys {
		if i%3 == 0 {
			ops = append(ops, "RK "+hx(k), "FL "+hx(k), "CE "+hx(k), "LP "+hx(k+"z"), "WP "+hx(k[:len(k)/2]))
		}
	}
	ops = append(ops, "MA "+hx(pat), "SEL 0", "SEL "+strconv.Itoa(len(keys)-1), "RG "+hx(keys[0])+" "+hx(keys[len(keys)-1]))
	ops = append(ops, "P "+hx(order[len(order)/2])+" 999", "G "+hx(order[len(order)/2]))
	for i, k := range order {
		switch {
		case i%5 == 3:
			ops = append(ops, "DMIN")
		case i%5 == 4:
			ops = append(ops, "DMAX")
		case i%2 == 0:
			ops = append(ops, "D "+hx(k), "G "+hx(k))
		}
		if i%3 == 0 {
			ops = append(ops, "SZ", "G "+hx(order[len(order)-1]), "MIN", "MAX")
		}
	}
	ops = append(ops, "SZ", "ALL", "VF", "DUMP")
	return ops
}

func longKeys(w *tr.W, r *rng.R, thorough bool) {
	rounds := 1
	if thorough {
		rounds = 6
	}
	for round := 0; round < rounds; round++ {
		for _, n := range longLens {
			for _, small := range []bool{true, false} {
				base := longBase(r, n, small)
				pat := append([]byte(nil), base...)
				pat[r.Intn(n)] = '*'
				// (a) one cluster per bit offset: a variant for every prefix length 0..n-1
				for off := 0; off < 8; off++ {
					keys := []string{string(base)}
					var absent []string
					for p := 0; p < n; p++ {
						if v, ok := variant(base, p, off); ok {
							keys = append(keys, v)
						}
						if p%5 == 2 {
							if v, ok := variant(base, p, (off+3)%8); ok {
								absent = append(absent, v)
							}
						}
					}
					both(w, longCase(r, uniq(keys), absent, string(pat)))
				}
				// (b) all eight one-bit variants at one byte, for bytes around the 8-byte block borders
				for _, p := range uniqInts([]int{0, 6, 7, 8, 9, 15, 16, 17, 23, 24, n - 1, n / 2}) {
					if p >= n {
						continue
					}
					keys := []string{string(base)}
					for off := 0; off < 8; off++ {
						if v, ok := variant(base, p, off); ok {
							keys = append(keys, v)
						}
					}
					absent := []string{string(base[:n-1]), string(base) + "\x01"}
					both(w, longCase(r, uniq(keys), absent, string(pat)))
				}
			}
		}
		// (c) chains of prefixes of one long key, and known word pairs
		for _, small := range []bool{true, false} {
			base := longBase(r, 33, small)
			for i := range base {
				if base[i] == 0 {
					base[i] = 0x62
				}
			}
			var keys []string
			for _, n := range longLens {
				keys = append(keys, string(base[:n]))
			}
			both(w, longCase(r, keys, []string{string(base[:10]), string(base[:32])}, string(base[:16])))
		}
		both(w, longCase(r, []string{"internal", "interval", "internet", "database", "datatype", "databases", "dataset"},
			[]string{"interna", "intervals", "datatyp"}, "inter*al"))
	}
}

// very long keys (63..130 bytes): clusters of keys that differ from a base key in one character at the
// positions around the 64-character border and near the end; Match patterns of the same lengths with
// wildcards at those positions (single, pairs, all); prefix and order queries on those keys.
// (A word-sized bitmap of wildcard positions only shows beyond 64 characters.)
var veryLongLens = []int{63, 64, 65, 66, 96, 130}

func veryLong(w *tr.W, r *rng.R, thorough bool) {
	rounds := 1
	if thorough {
		rounds = 4
	}
	for round := 0; round < rounds; round++ {
		for _, n := range veryLongLens {
			for _, small := range []bool{true, false} {
				base := longBase(r, n, small)
				for i := range base {
					if base[i] == '*' {
						base[i] = 'k'
					}
				}
				pos := uniqInts([]int{0, 31, 62, 63, 64, 65, n - 2, n - 1})
				var ps []int
				for _, p := range pos {
					if p < n {
						ps = append(ps, p)
					}
				}
				keys := []string{string(base)}
				for _, p := range ps {
					v := append([]byte(nil), base...)
					v[p] ^= 0x03
					if v[p] == '*' || v[p] == 0 {
						v[p] ^= 0x0c
					}
					keys = append(keys, string(v))
				}
				keys = uniq(keys)
				var ops []string
				for i, k := range keys {
					ops = append(ops, "P "+hx(k)+" "+strconv.Itoa(i+1))
				}
				ops = append(ops, "SZ", "ALL", "VF", "DUMP")
				star := func(at ...int) string {
					b := append([]byte(nil), base...)
					for _, p := range at {
						b[p] = '*'
					}
					return string(b)
				}
				match := func() {
					ops = append(ops, "MA "+hx(string(base)))
					for _, p := range ps {
						ops = append(ops, "MA "+hx(star(p)))
					}
					for i := 0; i+1 < len(ps); i++ {
						ops = append(ops, "MA "+hx(star(ps[i], ps[i+1])), "MA "+hx(star(ps[0], ps[len(ps)-1-i])))
					}
					ops = append(ops, "MA "+hx(star(ps...)), "MA "+hx(strings.Repeat("*", n)), "MA "+hx(star(ps...)+"*"),
						"MA "+hx(star(ps...)[1:]))
				}
				match()
				for _, k := range keys {
					ops = append(ops, "G "+hx(k), "RK "+hx(k), "FL "+hx(k), "CE "+hx(k), "LP "+hx(k+"zz"))
				}
				for _, c := range []int{1, 31, 62, 63, 64, 65, n - 1} {
					if c <= n {
						ops = append(ops, "WP "+hx(string(base[:c])), "LP "+hx(string(base[:c])), "FL "+hx(string(base[:c])),
							"CE "+hx(string(base[:c])), "RK "+hx(string(base[:c])+"\xff"), "G "+hx(string(base[:c])))
					}
				}
				ops = append(ops, "RG "+hx(keys[1])+" "+hx(keys[len(keys)-1]), "RS "+hx(string(base[:40]))+" "+hx(string(base)+"a"), "MIN", "MAX")
				for i, k := range keys {
					switch i % 4 {
					case 1:
						ops = append(ops, "D "+hx(k), "G "+hx(k))
					case 3:
						ops = append(ops, "DMAX")
					}
					if i%3 == 2 {
						match()
						ops = append(ops, "SZ", "ALL")
					}
				}
				ops = append(ops, "DMIN", "SZ", "ALL", "VF", "DUMP")
				match()
				both(w, ops)
			}
		}
		// the reported shape: 70 x 'k' + "az" / "bz", pattern ending in "*z"
		k70 := strings.Repeat("k", 70)
		both(w, []string{"P " + hx(k70+"az") + " 1", "P " + hx(k70+"bz") + " 2", "MA " + hx(k70+"*z"), "MA " + hx(k70+"**"),
			"MA " + hx("*"+k70[1:]+"*z"), "ALL", "D " + hx(k70+"az"), "MA " + hx(k70+"*z"), "SZ"})
	}
}

func uniqInts(xs []int) []int {
	seen := map[int]bool{}
	var out []int
	for _, x := range xs {
		if x >= 0 && !seen[x] {
			seen[x] = true
			out = append(out, x)
		}
	}
	return out
}

func main() {
	mode := flag.String("mode", "exhaustive", "exhaustive|ab|abstar|bytes|nul|adversarial|long")
	tier := flag.String("tier", "quick", "quick|thorough")
	replay := flag.String("replay", "", "case file to re-execute")
	flag.IntVar(&shard, "shard", 0, "exhaustive mode: which shard")
	flag.IntVar(&nshards, "nshards", 1, "exhaustive mode: number of shards")
	flag.Parse()
	debug.SetMaxStack(64 << 20)
	w := tr.NewW()
	defer w.Flush()
	if *replay != "" {
		replayMode = true
		cs, err := tr.ReadCases(*replay)
		if err != nil {
			fmt.Fprintln(os.Stderr, err)
			os.Exit(3)
		}
		for _, c := range cs {
			h := strings.Fields(c.Head)
			if h[0] == "PENDING" && len(h) > 1 {
				h = h[1:]
			}
			runCase(w, h[0], c.Ops)
		}
		return
	}
	thorough := *tier == "thorough"
	six := []string{"a", "b", "aa", "ab", "ba", "bb"}
	switch *mode {
	case "exhaustive":
		args3 := append([]string{""}, words("ab", 3)...)
		args3 = append(args3, "`", "c", "a`", "ac", "abab")
		pats3 := append(patterns("ab", 2, 2), "a*a", "*b*", "**b", "ab*", "***", "", "c", "*c")
		args2 := append([]string{"", "`", "c", "ac"}, words("ab", 2)...)
		args2 = append(args2, "aba", "abb", "bab")
		pats2 := []string{"*", "a", "b", "**", "a*", "*a", "*b", "b*", "ab", "***", "ab*", ""}
		if thorough {
			exhaustive(w, six, true, 4, args3, pats3, false)
			exhaustive(w, []string{"a", "ab", "aba", "b"}, false, 5, args2, pats2, true)
		} else {
			exhaustive(w, six, true, 3, args3, pats3, false)
			exhaustive(w, []string{"a", "ab", "aba", "b"}, false, 4, args2, pats2, true)
		}
	case "ab":
		r := rng.FromEnv(6)
		n := 600
		if thorough {
			n = 12000
		}
		randomAlpha(w, r, "ab", 4, n, 60, 2)
	case "abstar":
		r := rng.FromEnv(61)
		n := 300
		if thorough {
			n = 6000
		}
		randomAlpha(w, r, "ab*", 3, n, 40, 3)
	case "bytes":
		r := rng.FromEnv(62)
		n := 400
		if thorough {
			n = 8000
		}
		randomBytes(w, r, n, 60, false)
	case "nul":
		r := rng.FromEnv(63)
		n := 40
		if thorough {
			n = 400
		}
		randomBytes(w, r, n, 30, true)
	case "adversarial":
		adversarial(w, rng.FromEnv(64), thorough)
	case "long":
		longKeys(w, rng.FromEnv(65), thorough)
		veryLong(w, rng.FromEnv(66), thorough)
	}
}
