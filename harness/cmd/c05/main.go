// Command c05 traces the indexed heaps (indexed binary, binomial, Fibonacci).
//
//	header:  <B|N|F> <min|max|sub|sub3|rsub> <cap>   (sub: a-b, sub3: 3*(a-b), rsub: b-a)
//	ops:     I i k v -> t|f        Insert            C i k -> t|f      ChangeKey
//	         D -> i,k,v,t|-1,0,0,f Delete            X i -> k,v,t|0,0,f DeleteIndex
//	         A -> -                DeleteAll         P -> i,k,v,t|..   Peek
//	         Q i -> k,v,t|0,0,f    PeekIndex         H i -> t|f        ContainsIndex
//	         K k -> t|f            ContainsKey       W v -> t|f        ContainsValue
//	         S -> n                Size              E -> t|f          IsEmpty
//	         L -> <layout>         hook VerifC05Dump V -> t|f          hook VerifC05Verify
//	         G n -> d              hook VerifC05MaxDegree (float maxDegree of a heap with n entries)
//	a panic inside an op is the result PANIC, a hang (watchdog) is HANG and ends the process.
//
// Cases with a capacity above 300 (mode large) are refereed by the extracted specification only:
// the driver skips the exact model / layout comparison for them (model_cap in ocaml/C05/driver.ml).
package main

import (
	"flag"
	"fmt"
	"os"
	"strconv"
	"strings"
	"sync"
	"time"

	"github.com/moorara/algo/generic"
	"github.com/moorara/algo/heap"

	"verif/harness/internal/rng"
	"verif/harness/internal/tr"
)

var impls = []string{"B", "N", "F"}

func mk(impl, ord string, cap int) heap.IndexedHeap[int, int] {
	// the contract of generic.CompareFunc is negative / zero / positive: besides the library's
	// -1/0/1 comparators, use comparators that return magnitudes
	cmp := generic.NewCompareFunc[int]()
	switch ord {
	case "max":
		cmp = generic.NewReverseCompareFunc[int]()
	case "sub":
		cmp = func(a, b int) int { return a - b }
	case "sub3":
		cmp = func(a, b int) int { return 3 * (a - b) }
	case "rsub":
		cmp = func(a, b int) int { return b - a }
	}
	eq := generic.NewEqualFunc[int]()
	switch impl {
	case "B":
		return heap.NewIndexedBinary[int, int](cap, cmp, eq)
	case "N":
		return heap.NewIndexedBinomial[int, int](cap, cmp, eq)
	}
	return heap.NewIndexedFibonacci[int, int](cap, cmp, eq)
}

func b(x bool) string {
	if x {
		return "t"
	}
	return "f"
}

// watchdog: an op that is still in flight after 60 consecutive watchdog ticks (>= 15 s of time in
// which this process was actually scheduled) is reported as HANG and the process exits.
var (
	wmu      sync.Mutex
	inflight string
	opSeq    int64
)

func watchdog(w *tr.W) {
	last, same := int64(-1), 0
	for {
		time.Sleep(250 * time.Millisecond)
		wmu.Lock()
		if inflight != "" && opSeq == last {
			same++
		} else {
			last, same = opSeq, 0
		}
		if same >= 60 {
			w.Op(inflight, "HANG")
			w.Flush()
			os.Exit(4)
		}
		wmu.Unlock()
	}
}

func exec(w *tr.W, h heap.IndexedHeap[int, int], op string) bool {
	f := strings.Fields(op)
	a := func(i int) int { v, _ := strconv.Atoi(f[i]); return v }
	wmu.Lock()
	inflight = op
	opSeq++
	wmu.Unlock()
	res := "?"
	func() {
		defer func() {
			if r := recover(); r != nil {
				res = "PANIC"
			}
		}()
		switch f[0] {
		case "I":
			res = b(h.Insert(a(1), a(2), a(3)))
		case "C":
			res = b(h.ChangeKey(a(1), a(2)))
		case "D":
			i, k, v, ok := h.Delete()
			res = fmt.Sprintf("%d,%d,%d,%s", i, k, v, b(ok))
		case "X":
			k, v, ok := h.DeleteIndex(a(1))
			res = fmt.Sprintf("%d,%d,%s", k, v, b(ok))
		case "A":
			h.DeleteAll()
			res = "-"
		case "P":
			i, k, v, ok := h.Peek()
			res = fmt.Sprintf("%d,%d,%d,%s", i, k, v, b(ok))
		case "Q":
			k, v, ok := h.PeekIndex(a(1))
			res = fmt.Sprintf("%d,%d,%s", k, v, b(ok))
		case "H":
			res = b(h.ContainsIndex(a(1)))
		case "K":
			res = b(h.ContainsKey(a(1)))
		case "W":
			res = b(h.ContainsValue(a(1)))
		case "S":
			res = strconv.Itoa(h.Size())
		case "E":
			res = b(h.IsEmpty())
		case "L":
			res = heap.VerifC05Dump(h)
		case "V":
			res = b(heap.VerifC05Verify(h))
		case "G":
			res = strconv.Itoa(heap.VerifC05MaxDegree(a(1)))
		}
	}()
	wmu.Lock()
	inflight = ""
	wmu.Unlock()
	w.Op(op, res)
	return res == "PANIC"
}

func runCase(w *tr.W, impl, ord string, cap int, ops []string) {
	w.Begin("%s %s %d", impl, ord, cap)
	h := mk(impl, ord, cap)
	for _, op := range ops {
		if exec(w, h, op) {
			break // a panicking instance may be corrupted: stop using it, the case ends here
		}
	}
	w.End()
}

// battery: every query of the interface over all indices -1..cap+3, the given keys and values.
func battery(cap int, keys, vals []int) []string {
	ops := []string{"S", "E", "P", "L"}
	for i := -1; i <= cap+3; i++ {
		ops = append(ops, fmt.Sprintf("H %d", i), fmt.Sprintf("Q %d", i))
	}
	for _, k := range keys {
		ops = append(ops, fmt.Sprintf("K %d", k))
	}
	for _, v := range vals {
		ops = append(ops, fmt.Sprintf("W %d", v))
	}
	return ops
}

func drain(cap int) []string {
	var ops []string
	for i := 0; i <= cap; i++ {
		ops = append(ops, "D", "L")
	}
	return append(ops, "S", "E", "P")
}

// exhaustive: every history over the alphabet up to maxLen, each followed by the battery and a drain.
func exhaustive(w *tr.W, cap int, alphabet []string, maxLen int, ords []string, keys, vals []int) {
	tail := append(battery(cap, keys, vals), drain(cap)...)
	for _, k := range keys { // nothing may be found after the drain
		tail = append(tail, fmt.Sprintf("K %d", k))
	}
	for _, v := range vals {
		tail = append(tail, fmt.Sprintf("W %d", v))
	}
	var rec func(prefix []string)
	rec = func(prefix []string) {
		ops := append(append([]string{}, prefix...), tail...)
		for _, impl := range impls {
			for _, ord := range ords {
				runCase(w, impl, ord, cap, ops)
			}
		}
		if len(prefix) == maxLen {
			return
		}
		for _, a := range alphabet {
			rec(append(prefix[:len(prefix):len(prefix)], a))
		}
	}
	rec(nil)
}

func alphabet(idx []int, bad []int, keys []int) []string {
	var al []string
	for _, i := range idx {
		for _, k := range keys {
			al = append(al, fmt.Sprintf("I %d %d %d", i, k, 10*k+i), fmt.Sprintf("C %d %d", i, k))
		}
		al = append(al, fmt.Sprintf("X %d", i))
	}
	for _, i := range bad {
		al = append(al, fmt.Sprintf("I %d %d 7", i, keys[0]), fmt.Sprintf("C %d %d", i, keys[0]), fmt.Sprintf("X %d", i))
	}
	return append(al, "D", "A")
}

func noA(al []string) []string { return al[:len(al)-1] }

// random long mixed histories.
func random(w *tr.W, r *rng.R, cases int, bigCaps bool) {
	for c := 0; c < cases; c++ {
		cap := r.Range(1, 10)
		if bigCaps && r.Chance(1, 4) {
			cap = []int{13, 16, 21, 34, 40}[r.Intn(5)]
		}
		// sparse index sets: only a subset of the indices is ever inserted
		var pool []int
		switch r.Intn(4) {
		case 0: // all
			for i := 0; i < cap; i++ {
				pool = append(pool, i)
			}
		case 1: // upper half
			for i := cap / 2; i < cap; i++ {
				pool = append(pool, i)
			}
		case 2: // every other, from the top
			for i := cap - 1; i >= 0; i -= 2 {
				pool = append(pool, i)
			}
		default: // random subset
			for i := 0; i < cap; i++ {
				if r.Chance(1, 2) {
					pool = append(pool, i)
				}
			}
			if len(pool) == 0 {
				pool = []int{cap - 1}
			}
		}
		keyRange := []int{3, 6, 20, 1000}[r.Intn(4)]
		key := func() int { return r.Range(-keyRange/2, keyRange) }
		idx := func() int {
			if r.Chance(1, 14) {
				return []int{-1, cap, cap + 3, -5}[r.Intn(4)]
			}
			if r.Chance(1, 10) {
				return r.Intn(cap)
			}
			return pool[r.Intn(len(pool))]
		}
		steps := r.Range(1, 12*cap+10)
		if steps > 200 {
			steps = 200
		}
		phase := r.Intn(3) // 0 mixed, 1 fill then churn with ChangeKey/DeleteIndex, 2 delete-heavy
		var ops []string
		val := 100
		for s := 0; s < steps; s++ {
			x := r.Intn(100)
			if phase == 1 && s < len(pool) {
				x = 0
			}
			if phase == 1 && s >= len(pool) && x < 30 {
				x = 30 + r.Intn(55)
			}
			if phase == 2 && x < 15 {
				x = 70 + r.Intn(25)
			}
			switch {
			case x < 30:
				val++
				v := val
				if r.Chance(1, 5) {
					v = r.Range(0, 3)
				}
				i := idx()
				if phase == 1 && s < len(pool) {
					i = pool[s]
				}
				ops = append(ops, fmt.Sprintf("I %d %d %d", i, key(), v))
			case x < 58:
				ops = append(ops, fmt.Sprintf("C %d %d", idx(), key()))
			case x < 72:
				ops = append(ops, fmt.Sprintf("X %d", idx()))
			case x < 86:
				ops = append(ops, "D")
			case x < 87:
				ops = append(ops, "A")
			case x < 92:
				ops = append(ops, "P", "S", "L")
			case x < 95:
				ops = append(ops, fmt.Sprintf("K %d", key()), fmt.Sprintf("W %d", r.Range(0, val)))
			default:
				i := idx()
				ops = append(ops, fmt.Sprintf("H %d", i), fmt.Sprintf("Q %d", i))
			}
			if r.Chance(1, 3) {
				ops = append(ops, "P")
			}
			if r.Chance(1, 6) {
				ops = append(ops, "L")
			}
		}
		var keys, vals []int
		for i := 0; i < 6; i++ {
			keys = append(keys, key())
			vals = append(vals, r.Range(0, val))
		}
		ops = append(ops, "V")
		ops = append(ops, battery(cap, keys, vals)...)
		ops = append(ops, drain(cap)...)
		ord := []string{"min", "max", "sub", "sub3", "rsub"}[r.Intn(5)]
		for _, impl := range impls {
			runCase(w, impl, ord, cap, ops)
		}
	}
}

// deepNodes parses a forest layout of VerifC05Dump ("F n;(i,k,d,m(...)...)...") and returns the
// indices of the nodes at depth >= 2 (roots are depth 0), deepest first.
func deepNodes(layout string) []int {
	p := strings.IndexByte(layout, ';')
	if p < 0 {
		return nil
	}
	type nd struct{ idx, depth int }
	var nodes []nd
	depth := 0
	body := layout[p+1:]
	for i := 0; i < len(body); i++ {
		switch body[i] {
		case '(':
			j := i + 1
			for j < len(body) && body[j] != ',' {
				j++
			}
			if v, err := strconv.Atoi(body[i+1 : j]); err == nil {
				nodes = append(nodes, nd{v, depth})
			}
			depth++
		case ')':
			depth--
		}
	}
	var out []int
	for d := 64; d >= 2; d-- {
		for _, n := range nodes {
			if n.depth == d {
				out = append(out, n.idx)
			}
		}
	}
	return out
}

// thinning: build one big tree (2^k+1 inserts and one Delete), then repeatedly DeleteIndex /
// decrease grandchildren-and-deeper nodes chosen from the hook layout of a scratch Fibonacci heap
// (deepest first, never roots or children of roots), with Deletes interleaved to force
// consolidation while the size shrinks: without cascading cuts the trees get too thin for the
// maxDegree()-sized table of consolidate.
func thinning(w *tr.W, r *rng.R, cases int) {
	for c := 0; c < cases; c++ {
		k := 3 + c%4
		cap := 1<<k + 1
		ord := []string{"min", "max", "sub", "sub3", "rsub"}[r.Intn(5)]
		sign := 1
		if ord == "max" || ord == "rsub" {
			sign = -1
		}
		scratch := mk("F", ord, cap)
		var ops []string
		alive := true
		apply := func(op string) {
			ops = append(ops, op)
			if !alive {
				return
			}
			defer func() {
				if recover() != nil {
					alive = false
				}
			}()
			f := strings.Fields(op)
			a := func(i int) int { v, _ := strconv.Atoi(f[i]); return v }
			switch f[0] {
			case "I":
				scratch.Insert(a(1), a(2), a(3))
			case "C":
				scratch.ChangeKey(a(1), a(2))
			case "X":
				scratch.DeleteIndex(a(1))
			case "D":
				scratch.Delete()
			}
		}
		perm := make([]int, cap)
		for i := range perm {
			perm[i] = i
		}
		if c%2 == 1 {
			for i := cap - 1; i > 0; i-- {
				j := r.Intn(i + 1)
				perm[i], perm[j] = perm[j], perm[i]
			}
		}
		for j, i := range perm {
			apply(fmt.Sprintf("I %d %d %d", i, sign*(100+10*j), j))
		}
		apply("D")
		ops = append(ops, "L")
		low := 90
		pDelete := []int{0, 8, 4}[c%3] // per cent of interleaved Deletes
		for step := 0; alive && step < 4*cap; step++ {
			deep := deepNodes(heap.VerifC05Dump(scratch))
			if len(deep) == 0 {
				if scratch.Size() <= 2 {
					break
				}
				apply("D")
				continue
			}
			i := deep[0]
			if len(deep) > 1 && r.Chance(1, 4) {
				i = deep[r.Intn(len(deep))]
			}
			if r.Chance(1, 5) {
				low--
				apply(fmt.Sprintf("C %d %d", i, sign*low))
			} else {
				apply(fmt.Sprintf("X %d", i))
			}
			if r.Intn(100) < pDelete {
				apply("D")
			}
			if r.Chance(1, 6) {
				ops = append(ops, "L", "P")
			}
		}
		ops = append(ops, "V")
		ops = append(ops, battery(cap, []int{sign * low, 100, -100}, []int{0, 1, 2})...)
		ops = append(ops, drain(cap)...)
		for _, impl := range impls {
			runCase(w, impl, ord, cap, ops)
		}
	}
}

// large: nearly full heaps of a few hundred to a few thousand entries under long runs dominated by
// key-lowering ChangeKey (cuts thin the Fibonacci trees), with Delete / DeleteIndex followed by a
// re-Insert of the freed index, so that consolidation meets many thinned roots of high degree.
// A scratch indexed binary heap only tells which index a Delete frees.
func large(w *tr.W, r *rng.R, caps []int, maxSteps int) {
	for ci, cap := range caps {
		ord := []string{"min", "max", "sub", "sub3", "rsub"}[(ci+r.Intn(5))%5]
		sign := 1
		if ord == "max" || ord == "rsub" {
			sign = -1
		}
		nfill := cap * (80 + r.Intn(21)) / 100
		if nfill < 1 {
			nfill = 1
		}
		perm := make([]int, cap)
		for i := range perm {
			perm[i] = i
		}
		for i := cap - 1; i > 0; i-- {
			j := r.Intn(i + 1)
			perm[i], perm[j] = perm[j], perm[i]
		}
		held := perm[:nfill]
		nk := make(map[int]int, nfill) // normalised key: smaller is closer to the root
		scratch := mk("B", ord, cap)
		alive := true
		var ops []string
		val := 0
		low := 0
		ins := func(i, k int) {
			val++
			nk[i] = k
			ops = append(ops, fmt.Sprintf("I %d %d %d", i, sign*k, val))
			if alive {
				func() {
					defer func() {
						if recover() != nil {
							alive = false
						}
					}()
					scratch.Insert(i, sign*k, val)
				}()
			}
		}
		for _, i := range held {
			ins(i, r.Range(1, 2000000))
		}
		steps := 30 * cap
		if steps > maxSteps {
			steps = maxSteps
		}
		if steps < 1500 {
			steps = 1500
		}
		for s := 0; s < steps && alive; s++ {
			x := r.Intn(100)
			switch {
			case x < 85: // lowering ChangeKey
				i := held[r.Intn(len(held))]
				k := nk[i] - r.Range(1, 1000)
				if r.Chance(1, 3) {
					k = low - 1
				}
				if k < low {
					low = k
				}
				nk[i] = k
				ops = append(ops, fmt.Sprintf("C %d %d", i, sign*k))
				func() {
					defer func() {
						if recover() != nil {
							alive = false
						}
					}()
					scratch.ChangeKey(i, sign*k)
				}()
			case x < 95: // Delete, then re-Insert the freed index
				freed, ok := -1, false
				func() {
					defer func() {
						if recover() != nil {
							alive = false
						}
					}()
					freed, _, _, ok = scratch.Delete()
				}()
				ops = append(ops, "D")
				if ok {
					ins(freed, low+r.Range(1, 2000000))
				}
			default: // DeleteIndex, then re-Insert
				i := held[r.Intn(len(held))]
				ops = append(ops, fmt.Sprintf("X %d", i))
				func() {
					defer func() {
						if recover() != nil {
							alive = false
						}
					}()
					scratch.DeleteIndex(i)
				}()
				ins(i, low+r.Range(1, 2000000))
			}
			if r.Chance(1, 40) {
				i := held[r.Intn(len(held))]
				ops = append(ops, "P", "S", fmt.Sprintf("Q %d", i), fmt.Sprintf("K %d", sign*nk[i]))
			}
		}
		ops = append(ops, "V", "S", "E", "P", "L")
		for i := -1; i <= cap+3; i += 1 + cap/64 {
			ops = append(ops, fmt.Sprintf("H %d", i), fmt.Sprintf("Q %d", i))
		}
		for i := 0; i <= nfill; i++ { // drain (no layouts: they are large)
			ops = append(ops, "D")
		}
		ops = append(ops, "S", "E", "P", "L")
		for _, impl := range impls {
			runCase(w, impl, ord, cap, ops)
		}
	}
}

// cascade: fill, one Delete (consolidation builds deep trees), then decrease keys / delete
// indices of deep nodes so that marks, cascading cuts and promote/demote chains occur.
func cascade(w *tr.W, r *rng.R, cases int) {
	for c := 0; c < cases; c++ {
		cap := []int{9, 10, 17, 18, 33, 34}[r.Intn(6)]
		ord := []string{"min", "max", "sub", "sub3", "rsub"}[r.Intn(5)]
		sign := 1
		if ord == "max" || ord == "rsub" {
			sign = -1
		}
		var ops []string
		perm := make([]int, cap)
		for i := range perm {
			perm[i] = i
		}
		for i := cap - 1; i > 0; i-- {
			j := r.Intn(i + 1)
			perm[i], perm[j] = perm[j], perm[i]
		}
		for j, i := range perm {
			ops = append(ops, fmt.Sprintf("I %d %d %d", i, sign*(100+10*j), j))
		}
		ops = append(ops, "D", "L")
		low := 90
		rounds := r.Range(cap, 4*cap)
		for s := 0; s < rounds; s++ {
			i := r.Intn(cap)
			switch x := r.Intn(10); {
			case x < 5: // decrease below everything: always cut from the parent
				low--
				ops = append(ops, fmt.Sprintf("C %d %d", i, sign*low))
			case x < 7:
				ops = append(ops, fmt.Sprintf("X %d", i))
			case x < 8:
				ops = append(ops, fmt.Sprintf("C %d %d", i, sign*r.Range(80, 400)))
			case x < 9:
				ops = append(ops, "D")
			default:
				ops = append(ops, fmt.Sprintf("I %d %d %d", i, sign*r.Range(80, 400), s))
			}
			if r.Chance(1, 3) {
				ops = append(ops, "L", "P")
			}
		}
		ops = append(ops, "V")
		ops = append(ops, battery(cap, []int{sign * low, 100, -100}, []int{0, 1, 2})...)
		ops = append(ops, drain(cap)...)
		for _, impl := range impls {
			runCase(w, impl, ord, cap, ops)
		}
	}
}

// maxdeg: the float expression int(log(n)/log(phi))+1 against the model's exact value.
func maxdeg(w *tr.W, r *rng.R, dense, random int) {
	var ops []string
	flush := func() {
		if len(ops) > 0 {
			runCase(w, "F", "min", 0, ops)
			ops = nil
		}
	}
	add := func(n int) {
		if n >= 1 && n <= 1000000 {
			ops = append(ops, fmt.Sprintf("G %d", n))
			if len(ops) == 500 {
				flush()
			}
		}
	}
	for n := 1; n <= dense; n++ {
		add(n)
	}
	// around Fibonacci and Lucas numbers, where phi^d is closest to an integer
	f0, f1, l0, l1 := 0, 1, 2, 1
	for f1 <= 1000000 {
		for d := -2; d <= 2; d++ {
			add(f1 + d)
			add(l1 + d)
		}
		f0, f1, l0, l1 = f1, f0+f1, l1, l0+l1
	}
	for i := 0; i < random; i++ {
		add(r.Range(1, 1000000))
	}
	flush()
}

func main() {
	mode := flag.String("mode", "exhaustive", "exhaustive|random|cascade|large|maxdeg")
	tier := flag.String("tier", "quick", "quick|thorough")
	replay := flag.String("replay", "", "case file to re-execute")
	flag.Parse()
	w := tr.NewW()
	defer w.Flush()
	go watchdog(w)
	if *replay != "" {
		cs, err := tr.ReadCases(*replay)
		if err != nil {
			fmt.Fprintln(os.Stderr, err)
			os.Exit(3)
		}
		for _, c := range cs {
			h := strings.Fields(c.Head)
			cap, _ := strconv.Atoi(h[2])
			runCase(w, h[0], h[1], cap, c.Ops)
		}
		return
	}
	thorough := *tier == "thorough"
	both := []string{"min", "max"}
	switch *mode {
	case "exhaustive":
		// full alphabet (invalid indices -1, cap, cap+3 included), short
		exhaustive(w, 3, alphabet([]int{0, 1, 2}, []int{-1, 3, 6}, []int{1, 2, 3}), 2, both, []int{1, 2, 3}, []int{10, 11, 12, 21, 32, 7})
		exhaustive(w, 1, alphabet([]int{0}, []int{-1, 1, 4}, []int{1, 2}), 3, both, []int{1, 2}, []int{10, 20, 7})
		// magnitude comparators (a-b, 3*(a-b), b-a): keys 1 and 4 so that results are +-3, +-9
		exhaustive(w, 2, alphabet([]int{0, 1}, []int{2}, []int{1, 4}), 3, []string{"sub", "sub3", "rsub"}, []int{1, 4}, []int{10, 41})
		if thorough {
			exhaustive(w, 3, alphabet([]int{0, 1, 2}, []int{-1, 3}, []int{1, 2, 3}), 3, both, []int{1, 2, 3}, []int{10, 11, 12, 21, 32, 7})
			exhaustive(w, 3, alphabet([]int{0, 1, 2}, nil, []int{1, 2}), 4, []string{"min"}, []int{1, 2}, []int{10, 21})
			exhaustive(w, 4, noA(alphabet([]int{1, 3}, nil, []int{1, 2})), 5, []string{"max"}, []int{1, 2}, []int{11, 23})
			exhaustive(w, 3, alphabet([]int{0, 1, 2}, nil, []int{1, 4}), 3, []string{"sub", "rsub"}, []int{1, 4}, []int{10, 41})
		} else {
			// valid indices only, longer
			exhaustive(w, 3, alphabet([]int{0, 1, 2}, nil, []int{1, 2}), 3, []string{"sub3"}, []int{1, 2}, []int{10, 21})
			exhaustive(w, 4, noA(alphabet([]int{1, 3}, nil, []int{1, 2})), 4, []string{"max"}, []int{1, 2}, []int{11, 23})
		}
	case "random":
		r := rng.FromEnv(5)
		if thorough {
			random(w, r, 40000, true)
		} else {
			random(w, r, 2500, true)
		}
	case "large":
		// the streams of neighbouring VERIF_SEEDs are shifts of each other (SplitMix64 state = seed * gamma):
		// reseed from one mixed output so that every seed gives an unrelated workload
		r := rng.New(rng.FromEnv(50505).U64())
		if thorough {
			large(w, r, []int{15, 31, 63, 127, 255, 500, 1000, 2000, 15, 31, 63, 127, 255, 511, 1023}, 30000)
		} else {
			large(w, r, []int{15, 31, 63, 127, 255, 500, 1000, 15, 31, 63}, 20000)
		}
	case "maxdeg":
		r := rng.FromEnv(555)
		if thorough {
			maxdeg(w, r, 1000000, 0)
		} else {
			maxdeg(w, r, 30000, 20000)
		}
	case "cascade":
		r := rng.FromEnv(55)
		if thorough {
			cascade(w, r, 8000)
			thinning(w, rng.FromEnv(5555), 4000)
		} else {
			cascade(w, r, 600)
			thinning(w, rng.FromEnv(5555), 320)
		}
	}
}
