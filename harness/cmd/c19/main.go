// Command c19 traces lexer/input (the two-buffer input reader).
//
//	header:  n=<N> rd=<decision>,<decision>,...;<default decision> src=<hex of the source bytes>
//	         decision = F (fill p) | H (half of p, rounded up) | <k> (at most k bytes; 0 = (0,nil))
//	                    optionally followed by e: io.EOF is returned together with the last bytes
//	ops:     NEW -> ok | EOF            (always first; New is called even if the op is missing)
//	         N   -> r<hex code point> | EOF | INV@<offset>:<line>:<col>
//	         R   -> -
//	         L   -> <hex of the lexeme>@<offset>:<line>:<col>
//	         S   -> @<offset>:<line>:<col>
//	         any -> PANIC | HANG | NOINPUT (New failed)
package main

import (
	"bytes"
	"encoding/hex"
	"flag"
	"fmt"
	"io"
	"os"
	"runtime"
	"strconv"
	"strings"
	"testing/iotest"
	"time"
	"unicode/utf8"

	"github.com/moorara/algo/lexer"
	"github.com/moorara/algo/lexer/input"

	"verif/harness/internal/rng"
	"verif/harness/internal/tr"
)

// ---------------------------------------------------------------- reader oracle

type decision struct {
	kind byte // 'F', 'H', 'K'
	k    int
	eof  bool
}

func (d decision) String() string {
	s := ""
	switch d.kind {
	case 'F':
		s = "F"
	case 'H':
		s = "H"
	default:
		s = strconv.Itoa(d.k)
	}
	if d.eof {
		s += "e"
	}
	return s
}

func parseDecision(s string) decision {
	s = strings.TrimSpace(s)
	d := decision{}
	if strings.HasSuffix(s, "e") {
		d.eof = true
		s = s[:len(s)-1]
	}
	switch s {
	case "F":
		d.kind = 'F'
	case "H":
		d.kind = 'H'
	default:
		d.kind = 'K'
		d.k, _ = strconv.Atoi(s)
	}
	return d
}

type oracle struct {
	rem  []byte
	decs []decision
	dflt decision
}

func (d decision) want(n int) int {
	switch d.kind {
	case 'F':
		return n
	case 'H':
		return (n + 1) / 2
	}
	if d.k < n {
		return d.k
	}
	return n
}

// Read implements exactly Algo.C19.Model.read.
func (o *oracle) Read(p []byte) (int, error) {
	if len(p) == 0 {
		return 0, nil
	}
	var d decision
	var w int
	if len(o.decs) > 0 {
		d = o.decs[0]
		o.decs = o.decs[1:]
		w = d.want(len(p))
	} else {
		d = o.dflt
		w = d.want(len(p))
		if w < 1 {
			w = 1
		}
	}
	if w == 0 {
		return 0, nil
	}
	if len(o.rem) == 0 {
		return 0, io.EOF
	}
	m := w
	if len(o.rem) < m {
		m = len(o.rem)
	}
	copy(p, o.rem[:m])
	o.rem = o.rem[m:]
	if len(o.rem) == 0 && d.eof {
		return m, io.EOF
	}
	return m, nil
}

// mkReader builds the reader of a spec; the classic shapes use the real readers of the
// standard library, everything else the oracle above.
func mkReader(spec string, src []byte) io.Reader {
	parts := strings.SplitN(spec, ";", 2)
	if len(parts) != 2 {
		fmt.Fprintln(os.Stderr, "bad reader spec", spec)
		os.Exit(3)
	}
	if strings.TrimSpace(parts[0]) == "" && len(src) < 1000 {
		switch strings.TrimSpace(parts[1]) {
		case "F":
			return bytes.NewReader(src)
		case "1":
			return iotest.OneByteReader(bytes.NewReader(src))
		case "H":
			return iotest.HalfReader(bytes.NewReader(src))
		case "Fe":
			return iotest.DataErrReader(bytes.NewReader(src))
		case "1e":
			return iotest.OneByteReader(iotest.DataErrReader(bytes.NewReader(src)))
		case "He":
			return iotest.HalfReader(iotest.DataErrReader(bytes.NewReader(src)))
		}
	}
	o := &oracle{rem: append([]byte(nil), src...), dflt: parseDecision(parts[1])}
	for _, s := range strings.Split(parts[0], ",") {
		if strings.TrimSpace(s) != "" {
			o.decs = append(o.decs, parseDecision(s))
		}
	}
	return o
}

// ---------------------------------------------------------------- running one case

func posS(p lexer.Position) string { return fmt.Sprintf("%d:%d:%d", p.Offset, p.Line, p.Column) }

type caseT struct {
	n   int
	rd  string
	src []byte
	ops []string
}

func (c caseT) head() string {
	return fmt.Sprintf("n=%d rd=%s src=%s", c.n, c.rd, hex.EncodeToString(c.src))
}

// execOps runs in its own goroutine and sends one result per op.
func execOps(c caseT, out chan<- string) {
	var in *input.Input
	state := "" // "", NOINPUT, PANIC
	do := func(op string) (res string) {
		defer func() {
			if r := recover(); r != nil {
				state = "PANIC"
				res = "PANIC"
			}
		}()
		if op == "NEW" {
			i, err := input.New("f", mkReader(c.rd, c.src), c.n)
			if err == io.EOF {
				state = "NOINPUT"
				return "EOF"
			} else if err != nil {
				state = "NOINPUT"
				return "ERR:" + strings.ReplaceAll(err.Error(), " ", "_")
			}
			in = i
			return "ok"
		}
		if state != "" {
			return state
		}
		switch op {
		case "N":
			r, err := in.Next()
			if err == nil {
				return fmt.Sprintf("r%x", r)
			}
			if err == io.EOF {
				return "EOF"
			}
			if ie, ok := err.(*input.InputError); ok {
				return "INV@" + posS(ie.Pos)
			}
			return "ERR:" + strings.ReplaceAll(err.Error(), " ", "_")
		case "R":
			in.Retract()
			return "-"
		case "L":
			l, p := in.Lexeme()
			return hex.EncodeToString([]byte(l)) + "@" + posS(p)
		case "S":
			return "@" + posS(in.Skip())
		}
		return "?"
	}
	out <- do("NEW")
	for _, op := range c.ops {
		out <- do(op)
	}
	close(out)
}

var baseHeap uint64

// runCase executes a case under a watchdog: an op that does not return within the deadline, or
// that allocates without bound (Lexeme's copy loop never meeting forward), is reported as HANG;
// the process then exits because the stuck goroutine cannot be stopped.
func runCase(w *tr.W, c caseT) {
	var ops []string
	for _, op := range c.ops {
		if op != "NEW" {
			ops = append(ops, op)
		}
	}
	c.ops = ops
	w.Begin("%s", c.head())
	ch := make(chan string, len(ops)+2)
	go execOps(c, ch)
	all := append([]string{"NEW"}, ops...)
	for _, op := range all {
		var res string
		select {
		case res = <-ch:
		default:
			start := time.Now()
			tick := time.NewTicker(5 * time.Millisecond)
		wait:
			for {
				select {
				case res = <-ch:
					break wait
				case <-tick.C:
					var ms runtime.MemStats
					runtime.ReadMemStats(&ms)
					if ms.HeapAlloc > baseHeap+(192<<20) || time.Since(start) > 20*time.Second {
						w.Op(op, "HANG")
						w.Flush()
						os.Exit(4)
					}
				}
			}
			tick.Stop()
		}
		w.Op(op, res)
	}
	w.End()
}

// ---------------------------------------------------------------- sources and histories

func enc(rs ...rune) []byte {
	var b []byte
	for _, r := range rs {
		b = utf8.AppendRune(b, r)
	}
	return b
}

// plan is a lexer-like history built against the harness's own decoding of the (valid) source:
// tokens "scan k runes, retract r, then Lexeme or Skip".
type planner struct {
	runes   []rune
	pos     int // rune index of forward
	begin   int // rune index of the lexeme begin
	ops     []string
	atEOF   bool
	maxPend int
}

func (p *planner) pend() int {
	s := 0
	for _, r := range p.runes[p.begin:p.pos] {
		s += utf8.RuneLen(r)
	}
	return s
}

func (p *planner) next() {
	p.ops = append(p.ops, "N")
	if p.pos < len(p.runes) {
		p.pos++
		if x := p.pend(); x > p.maxPend {
			p.maxPend = x
		}
	} else {
		p.atEOF = true
	}
}

func (p *planner) retract() {
	p.ops = append(p.ops, "R")
	if p.pos > p.begin {
		p.pos--
		p.atEOF = false
	}
}

func (p *planner) commit(op string) {
	p.ops = append(p.ops, op)
	p.begin = p.pos
}

func (p *planner) nextSize() int {
	if p.pos < len(p.runes) {
		return utf8.RuneLen(p.runes[p.pos])
	}
	return 0
}

var readersFixed = []string{";F", ";1", ";H", ";Fe", ";1e", ";He", ";2", ";3e"}

func randReader(r *rng.R, srcLen int) string {
	switch r.Intn(10) {
	case 0, 1, 2, 3:
		return readersFixed[r.Intn(len(readersFixed))]
	}
	var ds []string
	k := r.Range(1, srcLen+4)
	for i := 0; i < k; i++ {
		var d decision
		switch r.Intn(8) {
		case 0:
			d = decision{kind: 'F'}
		case 1:
			d = decision{kind: 'H'}
		case 2:
			d = decision{kind: 'K', k: 0}
		default:
			d = decision{kind: 'K', k: r.Range(1, 5)}
		}
		d.eof = r.Chance(1, 3)
		ds = append(ds, d.String())
	}
	return strings.Join(ds, ",") + ";" + []string{"F", "1", "H", "Fe", "2e", "1e", "3"}[r.Intn(7)]
}

var edgeRunes = []rune{0x7f, 0x80, 0x7ff, 0x800, 0xfff, 0x1000, 0xcfff, 0xd000, 0xd7ff, 0xe000, 0xfffd, 0xffff,
	0x10000, 0x3ffff, 0x40000, 0xfffff, 0x100000, 0x10ffff, 0x1}

func randRune(r *rng.R) rune {
	switch r.Intn(12) {
	case 0, 1, 2, 3:
		return rune('a' + r.Intn(26))
	case 4:
		return '\n'
	case 5:
		return rune(r.Range(0x80, 0x7ff))
	case 6:
		x := rune(r.Range(0x800, 0xffff))
		if x >= 0xd800 && x <= 0xdfff {
			x = 0x20ac
		}
		return x
	case 7:
		return rune(r.Range(0x10000, 0x10ffff))
	case 8:
		return edgeRunes[r.Intn(len(edgeRunes))]
	case 9:
		return ' '
	}
	return rune(r.Range(1, 0x7f))
}

// randSource: about target bytes of valid UTF-8 without U+0000.
func randSource(r *rng.R, target int, asciiOnly bool) []rune {
	var rs []rune
	size := 0
	for size < target {
		c := randRune(r)
		if asciiOnly || size+utf8.RuneLen(c) > target {
			c = rune('a' + r.Intn(26))
			if r.Chance(1, 8) {
				c = '\n'
			}
		}
		rs = append(rs, c)
		size += utf8.RuneLen(c)
	}
	return rs
}

// lexerPlan: tokens that keep the pending lexeme within n bytes unless wild is set.
func lexerPlan(r *rng.R, runes []rune, n int, wild bool, maxOps int) []string {
	p := &planner{runes: runes}
	for len(p.ops) < maxOps {
		k := 1 + r.Intn(3)
		if r.Chance(1, 4) {
			k = 1 + r.Intn(n+2)
		}
		scanned := 0
		for j := 0; j < k; j++ {
			if !wild && p.pend()+p.nextSize() > n && p.pend() > 0 {
				break
			}
			p.next()
			scanned++
			if p.atEOF {
				break
			}
		}
		rr := r.Intn(3)
		if r.Chance(1, 2) {
			rr = r.Intn(2)
		}
		for j := 0; j < rr && j < scanned+1; j++ {
			p.retract()
		}
		if r.Chance(1, 6) { // look again after the retract, as a DFA with back-up does
			p.next()
			if r.Chance(1, 2) {
				p.retract()
			}
		}
		if r.Chance(2, 3) {
			p.commit("L")
		} else {
			p.commit("S")
		}
		if p.atEOF && p.pos >= len(p.runes) && r.Chance(2, 3) {
			break
		}
	}
	p.ops = append(p.ops, "N", "L", "N")
	return p.ops
}

func streamOps(k int) []string {
	ops := make([]string, k)
	for i := range ops {
		ops[i] = "N"
	}
	return ops
}

// ---------------------------------------------------------------- generators

var alpha3 = []rune{'a', '\n', 0xe9}

func allSources(maxLen int, f func([]rune)) {
	var rec func(cur []rune)
	rec = func(cur []rune) {
		f(cur)
		if len(cur) == maxLen {
			return
		}
		for _, c := range alpha3 {
			rec(append(cur[:len(cur):len(cur)], c))
		}
	}
	rec(nil)
}

// exhaustive: every source of at most maxLen runes over {a, \n, é}: the plain stream under five
// readers and every n in 1..4, plus random lexer-like histories; and for sources of at most
// seqLen runes every history of the token grammar (scan 1..3, retract 0..2, Lexeme|Skip).
func exhaustive(w *tr.W, r *rng.R, maxLen, seqLen, perSource int) {
	streamReaders := []string{";F", ";1", ";Fe", ";H", "0,1,0,2e;1e"}
	allSources(maxLen, func(rs []rune) {
		src := enc(rs...)
		for n := 1; n <= 4; n++ {
			for _, rd := range streamReaders {
				runCase(w, caseT{n, rd, src, streamOps(len(rs) + 2)})
			}
			for k := 0; k < perSource; k++ {
				runCase(w, caseT{n, randReader(r, len(src)), src, lexerPlan(r, rs, n, k%5 == 4, 24)})
			}
		}
	})
	allSources(seqLen, func(rs []rune) {
		src := enc(rs...)
		maxTokens := 2
		if len(rs) <= seqLen-1 {
			maxTokens = 3
		}
		var plans [][]string
		var rec func(p planner, tokens int)
		rec = func(p planner, tokens int) {
			if tokens == maxTokens || (p.atEOF && p.begin >= len(p.runes)) {
				plans = append(plans, append(append([]string(nil), p.ops...), "N", "L"))
				return
			}
			for k := 1; k <= 3; k++ {
				if k > len(p.runes)-p.pos+1 {
					break
				}
				for rr := 0; rr <= 2 && rr <= k; rr++ {
					for _, c := range []string{"L", "S"} {
						q := p
						q.ops = append([]string(nil), p.ops...)
						for j := 0; j < k; j++ {
							q.next()
						}
						for j := 0; j < rr; j++ {
							q.retract()
						}
						q.commit(c)
						rec(q, tokens+1)
					}
				}
			}
		}
		rec(planner{runes: rs}, 0)
		for n := 1; n <= 3; n++ {
			for i, pl := range plans {
				rd := ";F"
				if i%2 == 1 {
					rd = ";1e"
				}
				runCase(w, caseT{n, rd, src, pl})
			}
		}
	})
}

func random(w *tr.W, r *rng.R, cases int) {
	for c := 0; c < cases; c++ {
		n := r.Range(1, 9)
		if r.Chance(1, 12) {
			n = []int{16, 31, 64}[r.Intn(3)]
		}
		k := r.Intn(6)
		target := k*n + r.Range(-1, 1)
		if r.Chance(1, 5) {
			target = 2 * n * r.Range(1, 3) // exactly a multiple of the whole buffer
		}
		if target < 0 {
			target = 0
		}
		rs := randSource(r, target, r.Chance(1, 6))
		src := enc(rs...)
		rd := randReader(r, len(src))
		switch r.Intn(4) {
		case 0:
			runCase(w, caseT{n, rd, src, streamOps(len(rs) + 2)})
		default:
			runCase(w, caseT{n, rd, src, lexerPlan(r, rs, n, r.Chance(1, 8), 4*len(rs)+12)})
		}
	}
}

// straddle: a rune of 2..4 bytes placed so that j of its bytes lie before a half boundary
// (the first boundary, the wrap-around, the next one), and the same at the very end of the
// source; streams, skip-per-rune, look-ahead-and-retract on every rune, double retracts.
func straddle(w *tr.W, r *rng.R, thorough bool) {
	big := map[int]rune{2: 0xe9, 3: 0x20ac, 4: 0x1f600}
	maxN := 6
	if thorough {
		maxN = 9
	}
	for n := 1; n <= maxN; n++ {
		for s := 2; s <= 4; s++ {
			for j := 1; j < s; j++ {
				for bd := 1; bd <= 3; bd++ {
					pad := bd*n - j
					if pad < 0 {
						continue
					}
					for _, tail := range []string{"", "x", "xy\nz"} {
						var rs []rune
						for i := 0; i < pad; i++ {
							c := rune('a' + i%26)
							if i%5 == 3 {
								c = '\n'
							}
							rs = append(rs, c)
						}
						rs = append(rs, big[s])
						rs = append(rs, []rune(tail)...)
						src := enc(rs...)
						for _, rd := range []string{";F", ";1", ";Fe", randReader(r, len(src))} {
							runCase(w, caseT{n, rd, src, streamOps(len(rs) + 2)})
							var a, b, c []string
							for range rs {
								a = append(a, "N", "S")
								b = append(b, "N", "R", "N", "L")
								c = append(c, "N", "N", "R", "R", "N", "S")
							}
							runCase(w, caseT{n, rd, src, append(a, "N", "R", "N", "L")})
							runCase(w, caseT{n, rd, src, append(b, "N", "R", "N", "N", "L")})
							runCase(w, caseT{n, rd, src, append(c, "N", "L")})
						}
					}
				}
			}
		}
	}
}

var badSeqs = [][]byte{
	{0x80}, {0xbf}, {0xc0, 0x80}, {0xc1, 0xbf}, {0xc2, 0x41}, {0xc2, 0xc0}, {0xdf, 0x7f},
	{0xe0, 0x80, 0x80}, {0xe0, 0x9f, 0xbf}, {0xe1, 0x80, 0x41}, {0xe1, 0x41, 0x80}, {0xe1, 0x80, 0xc0},
	{0xed, 0xa0, 0x80}, {0xed, 0xbf, 0xbf}, {0xef, 0xbf, 0x7f},
	{0xf0, 0x80, 0x80, 0x80}, {0xf0, 0x8f, 0xbf, 0xbf}, {0xf1, 0x80, 0x80, 0x41}, {0xf1, 0x80, 0x41, 0x80},
	{0xf1, 0x41, 0x80, 0x80}, {0xf4, 0x90, 0x80, 0x80}, {0xf4, 0x8f, 0xbf, 0xc0}, {0xf5, 0x80, 0x80, 0x80},
	{0xf8, 0x88, 0x80, 0x80, 0x80}, {0xfe}, {0xff},
}

// invalid: a valid prefix, an ill-formed sequence, an ASCII suffix (so that the source never
// merely ends inside a sequence: that is the known finding kept in the corpus).
func invalid(w *tr.W, r *rng.R, cases int) {
	for c := 0; c < cases; c++ {
		n := r.Range(1, 9)
		bad := badSeqs[c%len(badSeqs)]
		target := r.Intn(3)*n + r.Range(-2, 2)
		if target < 0 {
			target = 0
		}
		rs := randSource(r, target, false)
		src := append(enc(rs...), bad...)
		src = append(src, "ab\ncd"[:r.Range(1, 5)]...)
		ops := streamOps(len(rs) + 1)
		if r.Chance(1, 2) {
			ops = nil
			for range rs {
				ops = append(ops, "N", "S")
			}
			ops = append(ops, "N")
		}
		ops = append(ops, "N", "L", "N", "R", "N")
		runCase(w, caseT{n, randReader(r, len(src)), src, ops})
	}
}

// utf8sweep: one to four bytes followed by "a", decoded by the first call of Next.
func utf8sweep(w *tr.W, thorough bool) {
	b1set := []byte{0x01, 0x7f, 0x80, 0x8f, 0x90, 0x9f, 0xa0, 0xbf, 0xc0, 0xff}
	cset := []byte{0x7f, 0x80, 0xbf, 0xc0}
	if thorough {
		b1set = nil
		for b := 1; b < 256; b++ {
			b1set = append(b1set, byte(b))
		}
	}
	one := func(seq ...byte) {
		src := append(append([]byte(nil), seq...), 'a')
		runCase(w, caseT{8, ";F", src, []string{"N", "N", "L"}})
	}
	for b0 := 1; b0 < 0x80; b0++ {
		one(byte(b0))
	}
	for b0 := 0x80; b0 < 0x100; b0++ {
		one(byte(b0))
		for b1 := 1; b1 < 0x100; b1++ {
			one(byte(b0), byte(b1))
		}
		for _, b1 := range b1set {
			if b0 < 0xe0 {
				continue
			}
			for _, b2 := range cset {
				if b0 < 0xf0 {
					one(byte(b0), b1, b2)
					continue
				}
				for _, b3 := range cset {
					one(byte(b0), b1, b2, b3)
				}
			}
		}
	}
}

func parseHead(h string) (caseT, error) {
	c := caseT{}
	for _, f := range strings.Fields(h) {
		kv := strings.SplitN(f, "=", 2)
		if len(kv) != 2 {
			continue
		}
		switch kv[0] {
		case "n":
			c.n, _ = strconv.Atoi(kv[1])
		case "rd":
			c.rd = kv[1]
		case "src":
			b, err := hex.DecodeString(kv[1])
			if err != nil {
				return c, err
			}
			c.src = b
		}
	}
	if c.rd == "" {
		c.rd = ";F"
	}
	return c, nil
}

func main() {
	mode := flag.String("mode", "exhaustive", "exhaustive|random|straddle|invalid|utf8")
	tier := flag.String("tier", "quick", "quick|thorough")
	replay := flag.String("replay", "", "case file to re-execute")
	flag.Parse()
	var ms runtime.MemStats
	runtime.ReadMemStats(&ms)
	baseHeap = ms.HeapAlloc
	w := tr.NewW()
	defer w.Flush()
	if *replay != "" {
		cs, err := tr.ReadCases(*replay)
		if err != nil {
			fmt.Fprintln(os.Stderr, err)
			os.Exit(3)
		}
		for _, c := range cs {
			ct, err := parseHead(c.Head)
			if err != nil {
				fmt.Fprintln(os.Stderr, err)
				os.Exit(3)
			}
			ct.ops = c.Ops
			runCase(w, ct)
		}
		return
	}
	thorough := *tier == "thorough"
	switch *mode {
	case "exhaustive":
		r := rng.FromEnv(1901)
		if thorough {
			exhaustive(w, r, 7, 4, 8)
		} else {
			exhaustive(w, r, 6, 3, 4)
		}
	case "random":
		r := rng.FromEnv(1902)
		if thorough {
			random(w, r, 300000)
		} else {
			random(w, r, 15000)
		}
	case "straddle":
		straddle(w, rng.FromEnv(1903), thorough)
	case "invalid":
		r := rng.FromEnv(1904)
		if thorough {
			invalid(w, r, 60000)
		} else {
			invalid(w, r, 6000)
		}
	case "utf8":
		utf8sweep(w, thorough)
	}
}
