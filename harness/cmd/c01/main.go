// Command c01 traces the ordered symbol tables (BST, AVL, Red-Black) for properties C01 and C15.
//
//	header:  <BST|AVL|RB> <asc|desc|diff|rdiff|diff3|half>
//	mutators: P k v -> -      D k -> v|none      Dm / DM -> k:v|none      DA -> -
//	queries:  Sz E H G k  Mn Mx  F k  C k  Sel i  R k  Rg lo hi  RS lo hi  All  T o  TS o j  AS j   (TS/AS -> list;calls=<visitor calls>)
//	          Any p  Allm p  Fm p  Sm p  Pm p  Eq <hist>  EqO <impl>
//	          SW p / SWP p 0|1 -> list   (the history continues ON the SelectMatch / PartitionMatch result)
//	          RgK lo hi / SmK p / PmK p (answer kept)   Chk -> kept answers re-read, joined by /   Scr -> - (kept answers overwritten)
//	          K -> h=<Height()>;vlr=<Traverse VLR>;lvr=<Traverse LVR>;dump=<hook: pre-order nodes k:v:size:height:colour:LR>
//	lists are k:v,k:v,... ([] when empty); p is a predicate id (see pred); hist is P2:20,D4,Dm,DM,DA
package main

import (
	"flag"
	"fmt"
	"os"
	"strconv"
	"strings"
	"sync"
	"syscall"
	"time"

	"github.com/moorara/algo/generic"
	"github.com/moorara/algo/symboltable"

	"verif/harness/internal/rng"
	"verif/harness/internal/tr"
)

type table = symboltable.OrderedSymbolTable[int, int]

var impls = []string{"BST", "AVL", "RB"}

func cmpOf(name string) generic.CompareFunc[int] {
	switch name {
	case "desc":
		return generic.NewReverseCompareFunc[int]()
	case "diff": // magnitudes other than 1: the contract is negative / zero / positive
		return func(a, b int) int { return a - b }
	case "rdiff":
		return func(a, b int) int { return b - a }
	case "diff3":
		return func(a, b int) int { return 3 * (a - b) }
	case "half": // a total preorder: keys with the same floor(k/2) are the same key
		return func(a, b int) int {
			x, y := a>>1, b>>1
			switch {
			case x < y:
				return -1
			case x > y:
				return 1
			}
			return 0
		}
	}
	return generic.NewCompareFunc[int]()
}

func mk(impl, cmp string) table {
	c, e := cmpOf(cmp), generic.NewEqualFunc[int]()
	switch impl {
	case "BST":
		return symboltable.NewBST[int, int](c, e)
	case "AVL":
		return symboltable.NewAVL[int, int](c, e)
	}
	return symboltable.NewRedBlack[int, int](c, e)
}

func pred(id int) generic.Predicate2[int, int] {
	switch id {
	case 0:
		return func(k, v int) bool { return false }
	case 1:
		return func(k, v int) bool { return true }
	case 2:
		return func(k, v int) bool { return k&1 == 0 }
	case 3:
		return func(k, v int) bool { return k >= 5 }
	case 4:
		return func(k, v int) bool { return v%3 == 0 }
	case 5:
		return func(k, v int) bool { return (k+v)&1 == 1 }
	case 6:
		return func(k, v int) bool { return k&3 == 0 }
	}
	if id >= 1000 { // threshold predicates: the selection is the keys below id-1000
		return func(k, v int) bool { return k < id-1000 }
	}
	return func(k, v int) bool { return k < 4 }
}

const nPreds = 8

func b(x bool) string {
	if x {
		return "t"
	}
	return "f"
}

func kv(k, v int, ok bool) string {
	if !ok {
		return "none"
	}
	return strconv.Itoa(k) + ":" + strconv.Itoa(v)
}

type lst struct{ sb strings.Builder }

func (l *lst) add(k, v int) {
	if l.sb.Len() > 0 {
		l.sb.WriteByte(',')
	}
	l.sb.WriteString(strconv.Itoa(k))
	l.sb.WriteByte(':')
	l.sb.WriteString(strconv.Itoa(v))
}
func (l *lst) String() string {
	if l.sb.Len() == 0 {
		return "[]"
	}
	return l.sb.String()
}

func listOf(c generic.Collection2[int, int]) string {
	var l lst
	for k, v := range c.All() {
		l.add(k, v)
	}
	return l.String()
}

func trav(t table, o int) string {
	var l lst
	t.Traverse(generic.TraverseOrder(o), func(k, v int) bool { l.add(k, v); return true })
	return l.String()
}

func dump(t table) string {
	_, ns := symboltable.VerifTreeDump[int, int](t)
	if len(ns) == 0 {
		return "[]"
	}
	var sb strings.Builder
	for i, n := range ns {
		if i > 0 {
			sb.WriteByte(',')
		}
		c, l, r := byte('b'), byte('-'), byte('-')
		if n.Red {
			c = 'r'
		}
		if n.HasLeft {
			l = 'L'
		}
		if n.HasRight {
			r = 'R'
		}
		fmt.Fprintf(&sb, "%d:%d:%d:%d:%c:%c%c", n.Key, n.Val, n.Size, n.Height, c, l, r)
	}
	return sb.String()
}

// applyHist runs a comma-separated mutator history (P2:20,D4,Dm,DM,DA) on t.
func applyHist(t table, h string) {
	if h == "-" || h == "" {
		return
	}
	for _, m := range strings.Split(h, ",") {
		switch {
		case m == "Dm":
			t.DeleteMin()
		case m == "DM":
			t.DeleteMax()
		case m == "DA":
			t.DeleteAll()
		case m[0] == 'P':
			p := strings.Split(m[1:], ":")
			k, _ := strconv.Atoi(p[0])
			v, _ := strconv.Atoi(p[1])
			t.Put(k, v)
		case m[0] == 'D':
			k, _ := strconv.Atoi(m[1:])
			t.Delete(k)
		}
	}
}

// kept is what one case retains from earlier answers: readers re-read a returned slice or
// collection later, scribblers overwrite it.
type kept struct {
	read     []func() string
	scribble []func()
}

func pairsOf(kvs []generic.KeyValue[int, int]) string {
	var l lst
	for _, e := range kvs {
		l.add(e.Key, e.Val)
	}
	return l.String()
}

func exec(tp *table, ks *kept, impl, cmp, op string) (res string) {
	defer func() {
		if r := recover(); r != nil {
			res = "PANIC"
		}
	}()
	t := *tp
	f := strings.Fields(op)
	a := func(i int) int { v, _ := strconv.Atoi(f[i]); return v }
	switch f[0] {
	case "P":
		t.Put(a(1), a(2))
		return "-"
	case "D":
		v, ok := t.Delete(a(1))
		if !ok {
			if v != 0 {
				return "none!" + strconv.Itoa(v)
			}
			return "none"
		}
		return strconv.Itoa(v)
	case "Dm":
		return kv(t.DeleteMin())
	case "DM":
		return kv(t.DeleteMax())
	case "DA":
		t.DeleteAll()
		return "-"
	case "Sz":
		return strconv.Itoa(t.Size())
	case "E":
		return b(t.IsEmpty())
	case "H":
		return strconv.Itoa(t.Height())
	case "G":
		v, ok := t.Get(a(1))
		if !ok {
			return "none"
		}
		return strconv.Itoa(v)
	case "Mn":
		return kv(t.Min())
	case "Mx":
		return kv(t.Max())
	case "F":
		return kv(t.Floor(a(1)))
	case "C":
		return kv(t.Ceiling(a(1)))
	case "Sel":
		return kv(t.Select(a(1)))
	case "R":
		return strconv.Itoa(t.Rank(a(1)))
	case "Rg":
		var l lst
		for _, e := range t.Range(a(1), a(2)) {
			l.add(e.Key, e.Val)
		}
		return l.String()
	case "RS":
		return strconv.Itoa(t.RangeSize(a(1), a(2)))
	case "RgK": // Range whose returned slice is kept, re-read by Chk and overwritten by Scr
		kvs := t.Range(a(1), a(2))
		ks.read = append(ks.read, func() string { return pairsOf(kvs) })
		ks.scribble = append(ks.scribble, func() {
			for i := range kvs {
				kvs[i] = generic.KeyValue[int, int]{Key: -999, Val: -999}
			}
			if cap(kvs) > len(kvs) { // also the spare capacity a later answer might be built in
				ext := kvs[:cap(kvs)]
				for i := len(kvs); i < len(ext); i++ {
					ext[i] = generic.KeyValue[int, int]{Key: -998, Val: -998}
				}
			}
		})
		return pairsOf(kvs)
	case "SmK": // SelectMatch whose returned collection is kept
		c := t.SelectMatch(pred(a(1)))
		ks.read = append(ks.read, func() string { return listOf(c) })
		ks.scribble = append(ks.scribble, func() { c.Put(-999, -999); c.Delete(2); c.Delete(4) })
		return listOf(c)
	case "PmK":
		m, u := t.PartitionMatch(pred(a(1)))
		ks.read = append(ks.read, func() string { return listOf(m) + ";" + listOf(u) })
		ks.scribble = append(ks.scribble, func() { m.DeleteAll(); u.Put(-999, -999) })
		return listOf(m) + ";" + listOf(u)
	case "SW": // continue the history ON the result of SelectMatch (a table of its own)
		c, ok := t.SelectMatch(pred(a(1))).(table)
		if !ok {
			return "not-an-ordered-table"
		}
		*tp = c
		return listOf(c)
	case "SWP": // ... on the matched (0) / unmatched (1) result of PartitionMatch
		m, u := t.PartitionMatch(pred(a(1)))
		c, ok := m.(table)
		if a(2) == 1 {
			c, ok = u.(table)
		}
		if !ok {
			return "not-an-ordered-table"
		}
		*tp = c
		return listOf(c)
	case "Chk": // every kept answer, re-read now: an answer already given cannot change
		if len(ks.read) == 0 {
			return "-"
		}
		var parts []string
		for _, rd := range ks.read {
			parts = append(parts, rd())
		}
		return strings.Join(parts, "/")
	case "Scr": // overwrite every kept answer; later answers of the table must not be affected
		for _, sc := range ks.scribble {
			sc()
		}
		ks.read, ks.scribble = nil, nil
		return "-"
	case "All":
		return listOf(t)
	case "T":
		return trav(t, a(1))
	case "TS": // public Traverse with a visitor that accepts j pairs and then returns false
		var l lst
		j, calls := a(2), 0
		t.Traverse(generic.TraverseOrder(a(1)), func(k, v int) bool {
			calls++
			if j == 0 {
				return false
			}
			j--
			l.add(k, v)
			return true
		})
		return l.String() + ";calls=" + strconv.Itoa(calls)
	case "AS": // All() driven by hand: the yield function accepts j pairs and then returns false
		var l lst
		j, calls := a(1), 0
		t.All()(func(k, v int) bool {
			calls++
			if j == 0 {
				return false
			}
			j--
			l.add(k, v)
			return true
		})
		return l.String() + ";calls=" + strconv.Itoa(calls)
	case "Any":
		return b(t.AnyMatch(pred(a(1))))
	case "Allm":
		return b(t.AllMatch(pred(a(1))))
	case "Fm":
		return kv(t.FirstMatch(pred(a(1))))
	case "Sm":
		return listOf(t.SelectMatch(pred(a(1))))
	case "Pm":
		m, u := t.PartitionMatch(pred(a(1)))
		return listOf(m) + ";" + listOf(u)
	case "Eq":
		s := mk(impl, cmp)
		applyHist(s, f[1])
		return b(t.Equal(s))
	case "EqO":
		s := mk(f[1], cmp)
		for k, v := range t.All() {
			s.Put(k, v)
		}
		return b(t.Equal(s))
	case "K":
		return "h=" + strconv.Itoa(t.Height()) + ";vlr=" + trav(t, 0) + ";lvr=" + trav(t, 2) + ";dump=" + dump(t)
	}
	return "?"
}

// ---------------------------------------------------------------- case runner with watchdog

var (
	hung        int
	cpuDeadline = 10 * time.Second // CPU time the process may burn inside one case before it is declared hung
	wallCap     = 15 * time.Minute // absolute cap (a goroutine blocked without burning CPU)
	firstWait   = 2 * time.Second  // wall time before the slow path starts charging CPU time
)

// cpuTime is the CPU time (user+system) consumed by this process so far. The watchdog counts CPU
// time, not wall time: a descheduled process or a jump of the clock must not look like a hang,
// whereas a genuinely spinning operation burns one core continuously.
func cpuTime() time.Duration {
	var ru syscall.Rusage
	if err := syscall.Getrusage(syscall.RUSAGE_SELF, &ru); err != nil {
		return 0
	}
	return time.Duration(ru.Utime.Nano() + ru.Stime.Nano())
}

// tryRun executes ops on a fresh table under the watchdog. It returns the results obtained and
// whether the operation after them hung.
func tryRun(impl, cmp string, ops []string) ([]string, bool) {
	var mu sync.Mutex
	var res []string
	done := make(chan struct{})
	go func() {
		defer close(done)
		t := mk(impl, cmp)
		ks := &kept{}
		for _, op := range ops {
			r := exec(&t, ks, impl, cmp, op)
			mu.Lock()
			res = append(res, r)
			mu.Unlock()
			if r == "PANIC" {
				return // the instance may be half-updated: stop using it
			}
		}
	}()
	timedOut := false
	select {
	case <-done:
	case <-time.After(firstWait):
		// slow path: poll, charging CPU time (already hung goroutines keep burning their share)
		c0, t0 := cpuTime(), time.Now()
		tick := time.NewTicker(250 * time.Millisecond)
	wait:
		for {
			select {
			case <-done:
				break wait
			case <-tick.C:
				if cpuTime()-c0 > time.Duration(hung+1)*cpuDeadline || time.Since(t0) > wallCap {
					timedOut = true
					break wait
				}
			}
		}
		tick.Stop()
	}
	mu.Lock()
	got := append([]string(nil), res...)
	mu.Unlock()
	return got, timedOut && len(got) < len(ops)
}

func runCase(w *tr.W, impl, cmp string, ops []string) {
	got, hungNow := tryRun(impl, cmp, ops)
	writeCase(w, impl, cmp, ops, got, hungNow)
}

func writeCase(w *tr.W, impl, cmp string, ops, got []string, hungNow bool) {
	w.Begin("%s %s", impl, cmp)
	for i, r := range got {
		w.Op(ops[i], r)
	}
	if hungNow {
		w.Op(ops[len(got)], "HANG")
		hung++
	}
	w.End()
	if hung >= 3 {
		w.Flush()
		fmt.Fprintln(os.Stderr, "too many hung operations")
		os.Exit(4)
	}
}

// ---------------------------------------------------------------- batteries

func fullBattery(keys []int, probes []int, sz int, sib string) []string {
	ops := []string{"Sz", "E", "H", "Mn", "Mx", "All", "K"}
	for _, p := range probes {
		ops = append(ops, fmt.Sprintf("G %d", p), fmt.Sprintf("F %d", p), fmt.Sprintf("C %d", p), fmt.Sprintf("R %d", p))
	}
	for i := -1; i <= sz+1; i++ {
		ops = append(ops, fmt.Sprintf("Sel %d", i))
	}
	for _, lo := range probes {
		for _, hi := range probes {
			ops = append(ops, fmt.Sprintf("Rg %d %d", lo, hi), fmt.Sprintf("RS %d %d", lo, hi))
		}
	}
	// retention: keep two ranges and two collections, ask more, re-read; scribble, ask again
	ops = append(ops, "RgK 1 5", "RgK 5 9", "SmK 2", "Chk", "RgK 2 4", "PmK 3", "Rg 1 9", "Chk", "Scr", "Rg 1 9", "All", "RgK 1 9")
	for o := 0; o <= 8; o++ {
		ops = append(ops, fmt.Sprintf("T %d", o))
	}
	// early exit through the public API: every order, visitors stopping after 0..n+1 pairs
	for o := 0; o <= 8; o++ {
		for j := 0; j <= sz+1; j++ {
			ops = append(ops, fmt.Sprintf("TS %d %d", o, j))
		}
	}
	for j := 0; j <= sz+1; j++ {
		ops = append(ops, fmt.Sprintf("AS %d", j))
	}
	for p := 0; p < nPreds; p++ {
		ops = append(ops, fmt.Sprintf("Any %d", p), fmt.Sprintf("Allm %d", p), fmt.Sprintf("Fm %d", p),
			fmt.Sprintf("Sm %d", p), fmt.Sprintf("Pm %d", p))
	}
	ops = append(ops, "Chk", "Eq "+sib, "Eq -", "EqO BST", "EqO AVL", "EqO RB")
	// siblings that differ in one value / miss one key / have one more key
	if len(keys) > 0 {
		ops = append(ops, fmt.Sprintf("Eq %s,P%d:%d", sib, keys[0], 999), fmt.Sprintf("Eq %s,D%d", sib, keys[0]),
			fmt.Sprintf("Eq %s,P%d:%d", sib, 1000, 1))
	}
	return ops
}

// parsePairs parses a list result k:v,k:v,... ([] when empty).
func parsePairs(l string) (keys, vals []int) {
	if l == "[]" || l == "" {
		return nil, nil
	}
	for _, e := range strings.Split(l, ",") {
		p := strings.Split(e, ":")
		k, _ := strconv.Atoi(p[0])
		v, _ := strconv.Atoi(p[1])
		keys = append(keys, k)
		vals = append(vals, v)
	}
	return keys, vals
}

func histOf(muts []string) string {
	if len(muts) == 0 {
		return "-"
	}
	var p []string
	for _, m := range muts {
		f := strings.Fields(m)
		switch f[0] {
		case "P":
			p = append(p, "P"+f[1]+":"+f[2])
		case "D":
			p = append(p, "D"+f[1])
		default:
			p = append(p, f[0])
		}
	}
	return strings.Join(p, ",")
}

// exhaustive: every mutator history of length <= maxLen over the key universe. Every prefix is a
// case of its own (prefix sharing); it ends with a light battery, or with the full battery the
// first time the implementation reaches that state (state = hook dump).
func exhaustive(w *tr.W, cmps []string, universe, probes []int, maxLen int, full bool) {
	for _, impl := range impls {
		for _, cmp := range cmps {
			seen := map[string]bool{}
			var rec func(prefix []string)
			rec = func(prefix []string) {
				ops := append([]string(nil), prefix...)
				// the state reached by the prefix, computed under the watchdog
				probe := append(append([]string(nil), prefix...), "K", "All")
				got, hungNow := tryRun(impl, cmp, probe)
				if hungNow || len(got) < len(probe) {
					// a mutator hung or panicked: report the case and do not extend this history
					writeCase(w, impl, cmp, probe, got, hungNow)
					return
				}
				st := got[len(prefix)]
				if full && !seen[st] {
					seen[st] = true
					keys, vals := parsePairs(got[len(prefix)+1])
					// the sibling is rebuilt by re-putting the final content in reverse order
					var sib []string
					for i := len(keys) - 1; i >= 0; i-- {
						sib = append(sib, fmt.Sprintf("P%d:%d", keys[i], vals[i]))
					}
					s := "-"
					if len(sib) > 0 {
						s = strings.Join(sib, ",")
					}
					ops = append(ops, fullBattery(keys, probes, len(keys), s)...)
				} else {
					ops = append(ops, "Sz", "K")
				}
				runCase(w, impl, cmp, ops)
				if len(prefix) == maxLen {
					return
				}
				i := len(prefix)
				for _, k := range universe {
					rec(append(prefix[:i:i], fmt.Sprintf("P %d %d", k, k*10+i%3)))
				}
				for _, k := range universe {
					rec(append(prefix[:i:i], fmt.Sprintf("D %d", k)))
				}
				rec(append(prefix[:i:i], "Dm"))
				rec(append(prefix[:i:i], "DM"))
				rec(append(prefix[:i:i], "DA"))
			}
			rec(nil)
		}
	}
}

// compact battery used between the mutators of one long-lived instance
func compactBattery(universe, probes []int) []string {
	ops := []string{"Chk", "Sz", "E", "Mn", "Mx", "All"}
	for _, k := range probes {
		ops = append(ops, fmt.Sprintf("G %d", k), fmt.Sprintf("F %d", k), fmt.Sprintf("C %d", k), fmt.Sprintf("R %d", k))
	}
	for i := -1; i <= len(universe); i++ {
		ops = append(ops, fmt.Sprintf("Sel %d", i))
	}
	lo, hi := probes[0], probes[len(probes)-1]
	mid := probes[len(probes)/2]
	ops = append(ops, fmt.Sprintf("RS %d %d", lo, hi), fmt.Sprintf("RS %d %d", mid, mid),
		fmt.Sprintf("RgK %d %d", lo, mid), fmt.Sprintf("RgK %d %d", mid, hi), fmt.Sprintf("Rg %d %d", lo, hi),
		"SmK 2", "Any 1", "Fm 1", "TS 6 1", "Chk")
	return ops
}

// interleave: every mutator history of exactly maxLen letters on ONE long-lived instance, with the
// compact battery immediately before and after every mutator (DeleteAll included, and re-use after
// it); answers kept from earlier batteries are re-read after every later query and mutation.
func interleave(w *tr.W, cmps []string, universe, probes []int, maxLen int) {
	bat := compactBattery(universe, probes)
	for _, impl := range impls {
		for _, cmp := range cmps {
			var rec func(muts []string)
			rec = func(muts []string) {
				if len(muts) == maxLen {
					ops := append([]string(nil), bat...)
					for _, m := range muts {
						ops = append(ops, m)
						ops = append(ops, bat...)
					}
					ops = append(ops, "Scr", "All", "Sz", "K")
					runCase(w, impl, cmp, ops)
					return
				}
				i := len(muts)
				for _, k := range universe {
					rec(append(muts[:i:i], fmt.Sprintf("P %d %d", k, k*10+i%3)))
				}
				for _, k := range universe {
					rec(append(muts[:i:i], fmt.Sprintf("D %d", k)))
				}
				rec(append(muts[:i:i], "Dm"))
				rec(append(muts[:i:i], "DM"))
				rec(append(muts[:i:i], "DA"))
			}
			rec(nil)
		}
	}
}

// ---------------------------------------------------------------- adversarial AVL shapes

// shp is a target shape; keys are assigned in order.
type shp struct {
	l, r *shp
	key  int
}

func (s *shp) height() int {
	if s == nil {
		return 0
	}
	return 1 + max(s.l.height(), s.r.height())
}

func (s *shp) count() int {
	if s == nil {
		return 0
	}
	return 1 + s.l.count() + s.r.count()
}

func mirror(s *shp) *shp {
	if s == nil {
		return nil
	}
	return &shp{l: mirror(s.r), r: mirror(s.l)}
}

// complete tree of height h
func complete(h int) *shp {
	if h <= 0 {
		return nil
	}
	return &shp{l: complete(h - 1), r: complete(h - 1)}
}

// minimal (Fibonacci) AVL tree of height h whose shorter side is always the left one
func fib(h int) *shp {
	if h <= 0 {
		return nil
	}
	return &shp{l: fib(h - 2), r: fib(h - 1)}
}

// heavy(h): root with balance -1 over two complete trees (many keys, height drops after a rotation)
func heavy(h int) *shp {
	if h <= 0 {
		return nil
	}
	return &shp{l: complete(h - 2), r: complete(h - 1)}
}

// sparse left spine of height h: every spine node leans right over a key-rich right subtree, so
// that removing the minimum cascades rotations to the top and the height drops
func sparseSpine(h int) *shp {
	if h <= 0 {
		return nil
	}
	return &shp{l: sparseSpine(h - 2), r: heavy(h - 1)}
}

var shapeKinds = []struct {
	name string
	mk   func(h int) *shp
}{
	{"fibL", fib},
	{"fibR", func(h int) *shp { return mirror(fib(h)) }},
	{"spineL", sparseSpine},
	{"spineR", func(h int) *shp { return mirror(sparseSpine(h)) }},
	{"heavyL", heavy},
}

func number(s *shp, next *int) {
	if s == nil {
		return
	}
	number(s.l, next)
	s.key = *next
	*next += 2
	number(s.r, next)
}

// level-order insertion realises the target shape in an AVL tree without any rotation
func levelOrder(s *shp) []int {
	var ks []int
	q := []*shp{s}
	for len(q) > 0 {
		n := q[0]
		q = q[1:]
		if n == nil {
			continue
		}
		ks = append(ks, n.key)
		q = append(q, n.l, n.r)
	}
	return ks
}

func minOf(s *shp) *shp {
	for s.l != nil {
		s = s.l
	}
	return s
}
func maxOf(s *shp) *shp {
	for s.r != nil {
		s = s.r
	}
	return s
}

// avlShapes: a node X whose subtrees are adversarial AVL shapes of heights hl and hr (X at the
// root, or as a child of a root whose other side is a Fibonacci tree), then one deletion that must
// rebalance on the way up, followed by a few more, with K after every step.
func avlShapes(w *tr.W, heights []int, embeds, maxNodes int, allK bool, cmps []string, implsUsed []string) {
	n := 0
	for _, hl := range heights {
		for _, dh := range []int{-1, 0, 1} {
			hr := hl + dh
			for _, lk := range shapeKinds {
				for _, rk := range shapeKinds {
					for embed := 0; embed < embeds; embed++ {
						x := &shp{l: lk.mk(hl), r: rk.mk(hr)}
						root := x
						switch embed {
						case 1:
							root = &shp{l: x, r: mirror(fib(x.height() - 1))}
						case 2:
							root = &shp{l: fib(x.height() - 1), r: x}
						}
						if root.count() > maxNodes {
							continue
						}
						next := 0
						number(root, &next)
						var build []string
						for i, k := range levelOrder(root) {
							build = append(build, fmt.Sprintf("P %d %d", k, k+i%3))
						}
						build = append(build, "K")
						succ := minOf(x.r)
						pred := maxOf(x.l)
						var succParent *shp
						for p := x.r; p != nil && p.l != nil; p = p.l {
							succParent = p
						}
						targets := [][]string{
							{fmt.Sprintf("D %d", x.key)},
							{"Dm"}, {"DM"},
							{fmt.Sprintf("D %d", succ.key)},
							{fmt.Sprintf("D %d", pred.key)},
							{fmt.Sprintf("D %d", root.key)},
						}
						if succParent != nil {
							targets = append(targets, []string{fmt.Sprintf("D %d", succParent.key)})
						}
						for _, tg := range targets {
							ops := append([]string(nil), build...)
							ops = append(ops, tg...)
							if allK {
								ops = append(ops, "K", fmt.Sprintf("D %d", x.key), "K", "Dm", "K", "DM", "K", fmt.Sprintf("D %d", succ.key), "K", "Sz", "H")
							} else {
								ops = append(ops, "K", fmt.Sprintf("D %d", x.key), "Dm", "DM", fmt.Sprintf("D %d", succ.key), "K", "Sz", "H")
							}
							cmp := cmps[n%len(cmps)]
							n++
							for _, impl := range implsUsed {
								runCase(w, impl, cmp, ops)
							}
						}
					}
				}
			}
		}
	}
}

// selections: the result of SelectMatch / PartitionMatch is a table of its own; continue the
// history on it (DeleteMin runs, Puts below the minimum, Delete in the upper half then Put in the
// lower half), with queries and K after every step, for selection sizes 1..maxSel.
func selections(w *tr.W, r *rng.R, maxSel int, cmps []string) {
	n := 0
	for s := 1; s <= maxSel; s++ {
		for variant := 0; variant < 4; variant++ {
			total := s + r.Range(0, 6)
			var ops []string
			for i, k := range insertionOrder(r, []int{4, 0, 1, 2}[variant], total) {
				ops = append(ops, fmt.Sprintf("P %d %d", 2*k, 2*k+i%3))
			}
			switch variant {
			case 3:
				ops = append(ops, fmt.Sprintf("SWP %d 0", 1000+2*s))
			case 2: // the unmatched half of a partition: keys >= threshold, s of them
				ops = append(ops[:0:0], ops...)
				ops = append(ops, fmt.Sprintf("SWP %d 1", 1000+2*(total-s)))
			default:
				ops = append(ops, fmt.Sprintf("SW %d", 1000+2*s))
			}
			ops = append(ops, "K", "Sz", "H", "Mn", "Mx")
			lo := 0
			if variant == 2 {
				lo = 2 * (total - s)
			}
			hi := lo + 2*s
			probe := func(k int) {
				ops = append(ops, "K", fmt.Sprintf("G %d", k), fmt.Sprintf("R %d", k), fmt.Sprintf("F %d", k), fmt.Sprintf("Sel %d", s/2), "Sz", "H")
			}
			switch (s + variant) % 3 {
			case 0: // DeleteMin run, then Puts below the minimum
				for i := 0; i < min(s, 12); i++ {
					ops = append(ops, "Dm")
					probe(lo + 2*i)
				}
				for i := 1; i <= 6; i++ {
					ops = append(ops, fmt.Sprintf("P %d %d", lo-2*i, i))
					probe(lo - 2*i)
				}
			case 1: // Puts below the minimum, then DeleteMax / DeleteMin
				for i := 1; i <= 8; i++ {
					ops = append(ops, fmt.Sprintf("P %d %d", lo-2*i, i))
					probe(lo - 2*i)
				}
				for i := 0; i < min(s, 6); i++ {
					ops = append(ops, "DM", "K", "Dm")
					probe(hi)
				}
			default: // Delete in the upper half, then Put in the lower half (odd keys)
				for i := 0; i < min(s/2+1, 8); i++ {
					k := hi - 2 - 2*i
					ops = append(ops, fmt.Sprintf("D %d", k))
					probe(k)
				}
				for i := 0; i < 8; i++ {
					k := lo + 1 + 2*i
					ops = append(ops, fmt.Sprintf("P %d %d", k, i))
					probe(k)
				}
			}
			ops = append(ops, "K", "All", "T 7", "Rg -20 400")
			cmp := cmps[n%len(cmps)]
			n++
			for _, impl := range impls {
				runCase(w, impl, cmp, ops)
			}
		}
	}
}

// scale: a few hundred keys inserted in sorted / reverse / zig-zag order (a degenerate BST), then
// every kind of query near both ends and in the middle, under the watchdog.
func scale(w *tr.W, r *rng.R, sizes []int, cmps []string) {
	n := 0
	for _, sz := range sizes {
		for kind := 0; kind < 4; kind++ {
			var ops []string
			for i, k := range insertionOrder(r, kind, sz) {
				ops = append(ops, fmt.Sprintf("P %d %d", 2*k, 2*k+i%3))
			}
			ops = append(ops, "Sz", "H", "Mn", "Mx")
			for _, k := range []int{-1, 0, 1, 2, sz - 1, sz, sz + 1, 2*sz - 4, 2*sz - 3, 2*sz - 2, 2*sz - 1, 2 * sz} {
				ops = append(ops, fmt.Sprintf("F %d", k), fmt.Sprintf("C %d", k), fmt.Sprintf("G %d", k), fmt.Sprintf("R %d", k))
			}
			for _, i := range []int{-1, 0, 1, sz / 2, sz - 2, sz - 1, sz} {
				ops = append(ops, fmt.Sprintf("Sel %d", i))
			}
			ops = append(ops, fmt.Sprintf("Rg %d %d", 2*sz-7, 2*sz+3), fmt.Sprintf("RS %d %d", 2*sz-7, 2*sz+3), "Rg -3 5", fmt.Sprintf("RS 3 %d", 2*sz-3),
				"TS 6 3", "TS 7 3", "AS 2", "Any 1", "Allm 1", "Fm 3", fmt.Sprintf("Sm %d", 1000+6), "Dm", "DM", fmt.Sprintf("D %d", sz),
				fmt.Sprintf("F %d", 2*sz-1), "C 1", "Mn", "Mx", "Sz")
			cmp := cmps[n%len(cmps)]
			n++
			for _, impl := range impls {
				runCase(w, impl, cmp, ops)
			}
		}
	}
}

// insertion orders: 0 sorted, 1 reverse-sorted, 2 zig-zag (outside-in), 3 zig-zag (inside-out), 4 random
func insertionOrder(r *rng.R, kind, n int) []int {
	ks := make([]int, 0, n)
	switch kind {
	case 0:
		for i := 0; i < n; i++ {
			ks = append(ks, i)
		}
	case 1:
		for i := n - 1; i >= 0; i-- {
			ks = append(ks, i)
		}
	case 2:
		for lo, hi := 0, n-1; lo <= hi; lo, hi = lo+1, hi-1 {
			ks = append(ks, lo)
			if hi != lo {
				ks = append(ks, hi)
			}
		}
	case 3:
		for d := 0; d <= n/2; d++ {
			if n/2+d < n {
				ks = append(ks, n/2+d)
			}
			if d > 0 && n/2-d >= 0 {
				ks = append(ks, n/2-d)
			}
		}
	default:
		for i := 0; i < n; i++ {
			ks = append(ks, i)
		}
		for i := n - 1; i > 0; i-- {
			j := r.Intn(i + 1)
			ks[i], ks[j] = ks[j], ks[i]
		}
	}
	return ks
}

func randomQuery(r *rng.R, u int, muts []string) string {
	k := func() int { return r.Range(-1, 2*u+1) }
	switch r.Intn(26) {
	case 0:
		return "Sz"
	case 1:
		return "E"
	case 2:
		return "H"
	case 3:
		return fmt.Sprintf("G %d", k())
	case 4:
		return "Mn"
	case 5:
		return "Mx"
	case 6:
		return fmt.Sprintf("F %d", k())
	case 7:
		return fmt.Sprintf("C %d", k())
	case 8:
		return fmt.Sprintf("Sel %d", r.Range(-2, u+2))
	case 9:
		return fmt.Sprintf("R %d", k())
	case 10:
		return fmt.Sprintf("Rg %d %d", k(), k())
	case 11:
		return fmt.Sprintf("RS %d %d", k(), k())
	case 12:
		return "All"
	case 13:
		return fmt.Sprintf("T %d", r.Intn(9))
	case 14:
		if r.Chance(1, 4) {
			return fmt.Sprintf("AS %d", r.Intn(u+2))
		}
		return fmt.Sprintf("TS %d %d", r.Intn(9), r.Intn(u+2))
	case 15:
		return fmt.Sprintf("Any %d", r.Intn(nPreds))
	case 16:
		return fmt.Sprintf("Allm %d", r.Intn(nPreds))
	case 17:
		return fmt.Sprintf("Fm %d", r.Intn(nPreds))
	case 18:
		return fmt.Sprintf("Sm %d", r.Intn(nPreds))
	case 19:
		return fmt.Sprintf("Pm %d", r.Intn(nPreds))
	case 20:
		return "Eq " + histOf(muts)
	case 21:
		if len(muts) > 1 {
			return "Eq " + histOf(muts[:len(muts)-1])
		}
		return "Eq -"
	case 22:
		return "EqO " + impls[r.Intn(3)]
	}
	switch r.Intn(6) {
	case 0:
		return fmt.Sprintf("RgK %d %d", k(), k())
	case 1:
		return fmt.Sprintf("SmK %d", r.Intn(nPreds))
	case 2:
		return fmt.Sprintf("PmK %d", r.Intn(nPreds))
	case 3, 4:
		return "Chk"
	}
	return "K"
}

// random: structured random histories over universes of up to maxU keys (keys are 2*i so that
// every gap holds an absent probe), with an insertion prefix of a given shape, a churn phase with
// interleaved queries, and a DeleteMin / DeleteMax / alternating drain at the end.
func random(w *tr.W, r *rng.R, cases, maxU, steps int, cmps []string, queries bool) {
	for c := 0; c < cases; c++ {
		u := r.Range(1, maxU)
		if r.Chance(1, 3) {
			u = r.Range(1, 9)
		}
		cmp := cmps[r.Intn(len(cmps))]
		var ops, muts []string
		mut := func(s string) { ops = append(ops, s); muts = append(muts, s) }
		stepNo := 0
		val := func(k int) int { stepNo++; return k*7 + stepNo%5 }
		kind := r.Intn(6)
		if kind < 5 {
			pre := r.Range(0, u)
			for _, i := range insertionOrder(r, kind, u)[:pre] {
				mut(fmt.Sprintf("P %d %d", 2*i, val(2*i)))
				if r.Chance(1, 6) {
					ops = append(ops, "K")
				}
			}
		}
		n := r.Range(0, steps)
		for s := 0; s < n; s++ {
			x := r.Intn(100)
			key := 2 * r.Intn(u)
			if r.Chance(1, 10) {
				key = r.Range(-1, 2*u+1) // odd keys are never stored under asc/desc/diff: absent
			}
			around := queries && x < 76 && r.Chance(1, 3)
			probe := func() {
				if around {
					ops = append(ops, fmt.Sprintf("G %d", key), fmt.Sprintf("F %d", key), fmt.Sprintf("C %d", key),
						fmt.Sprintf("R %d", key), "Mn", "Mx", fmt.Sprintf("RS %d %d", key, key), fmt.Sprintf("RgK %d %d", key-2, key+2), "Chk")
				}
			}
			probe()
			switch {
			case x < 38:
				mut(fmt.Sprintf("P %d %d", key, val(key)))
			case x < 62:
				mut(fmt.Sprintf("D %d", key))
			case x < 68:
				mut("Dm")
			case x < 74:
				mut("DM")
			case x < 76 && r.Chance(1, 2):
				mut("DA")
			default:
				if queries {
					ops = append(ops, randomQuery(r, u, muts))
				} else {
					ops = append(ops, "K")
				}
			}
			probe()
			if s%16 == 15 {
				ops = append(ops, "K")
			}
		}
		ops = append(ops, "K", "All")
		switch r.Intn(4) {
		case 0:
			for i := 0; i <= u; i++ {
				ops = append(ops, "Dm", "K")
			}
		case 1:
			for i := 0; i <= u; i++ {
				ops = append(ops, "DM", "K")
			}
		case 2:
			for i := 0; i <= u/2+1; i++ {
				ops = append(ops, "Dm", "K", "DM", "K")
			}
		}
		for _, impl := range impls {
			runCase(w, impl, cmp, ops)
		}
	}
}

// shapes: long sorted / reverse / zig-zag / random insertions, then drains; K (height, traversals,
// cached fields) after every step for small tables and periodically for big ones.
func shapes(w *tr.W, r *rng.R, sizes []int, cmps []string) {
	for _, n := range sizes {
		for kind := 0; kind < 5; kind++ {
			for drain := 0; drain < 4; drain++ {
				every := 1
				if n > 64 {
					every = 1 + n/24
				}
				cmp := cmps[(kind+drain)%len(cmps)]
				var ops []string
				for i, k := range insertionOrder(r, kind, n) {
					ops = append(ops, fmt.Sprintf("P %d %d", k, k+i%3))
					if i%every == 0 {
						ops = append(ops, "K")
					}
				}
				ops = append(ops, "K", "Sz", "H")
				for i := 0; i <= n; i++ {
					switch drain {
					case 0:
						ops = append(ops, "Dm")
					case 1:
						ops = append(ops, "DM")
					case 2:
						if i%2 == 0 {
							ops = append(ops, "Dm")
						} else {
							ops = append(ops, "DM")
						}
					default:
						ops = append(ops, fmt.Sprintf("D %d", (i*7919)%n))
					}
					if i%every == 0 {
						ops = append(ops, "K")
					}
				}
				ops = append(ops, "K", "Sz")
				for _, impl := range impls {
					runCase(w, impl, cmp, ops)
				}
			}
		}
	}
}

func main() {
	mode := flag.String("mode", "exhaustive", "exhaustive|interleave|scale|selections|avlshapes|random|churn|shapes")
	tier := flag.String("tier", "quick", "quick|thorough")
	full := flag.Bool("full", true, "full query battery on every new state (exhaustive mode)")
	replay := flag.String("replay", "", "case file to re-execute")
	flag.Parse()
	w := tr.NewW()
	defer w.Flush()
	if *replay != "" {
		// single small cases (milliseconds of CPU on the unchanged tree): a spinning operation is evident quickly
		cpuDeadline, firstWait = 600*time.Millisecond, 100*time.Millisecond
		cs, err := tr.ReadCases(*replay)
		if err != nil {
			fmt.Fprintln(os.Stderr, err)
			os.Exit(3)
		}
		for _, c := range cs {
			h := strings.Fields(c.Head)
			if len(h) < 2 {
				continue
			}
			runCase(w, h[0], h[1], c.Ops)
		}
		return
	}
	thorough := *tier == "thorough"
	ad := []string{"asc", "desc"}
	mag := []string{"diff3", "rdiff"} // never return +-1 on distinct even keys
	all := []string{"asc", "desc", "diff", "rdiff", "diff3", "half"}
	switch *mode {
	case "exhaustive":
		probes := []int{1, 2, 3, 4, 5, 8, 9}
		if thorough {
			exhaustive(w, append(ad, "diff3"), []int{2, 4, 6, 8}, probes, 5, *full)
			exhaustive(w, []string{"rdiff"}, []int{2, 4, 6}, probes, 6, *full)
			exhaustive(w, []string{"half", "diff"}, []int{2, 3, 6, 7}, probes, 4, *full)
		} else {
			exhaustive(w, append(ad, "diff3"), []int{2, 4, 6, 8}, probes, 4, *full)
			exhaustive(w, mag, []int{2, 4, 6}, probes, 5, *full)
			exhaustive(w, []string{"half"}, []int{2, 3, 6}, probes, 3, *full)
		}
	case "avlshapes": // C15
		if thorough {
			avlShapes(w, []int{3, 4, 5, 6, 7, 8, 9}, 3, 1200, true, append(ad, mag...), []string{"AVL"})
		} else {
			avlShapes(w, []int{5, 7, 8}, 2, 300, false, []string{"asc", "rdiff"}, []string{"AVL"})
		}
	case "selections": // C01 and C15
		r := rng.FromEnv(77)
		if thorough {
			selections(w, r, 200, all)
		} else {
			selections(w, r, 100, []string{"asc", "diff3", "desc"})
		}
	case "scale": // C01
		r := rng.FromEnv(31)
		if thorough {
			scale(w, r, []int{150, 400, 1000}, append(ad, mag...))
		} else {
			scale(w, r, []int{120, 400}, []string{"asc", "rdiff"})
		}
	case "interleave":
		probes := []int{1, 2, 4, 5, 6, 7}
		if thorough {
			interleave(w, []string{"asc", "diff3", "rdiff"}, []int{2, 4, 6}, probes, 5)
		} else {
			interleave(w, []string{"asc", "rdiff"}, []int{2, 4, 6}, probes, 4)
		}
	case "random":
		r := rng.FromEnv(101)
		if thorough {
			random(w, r, 6000, 64, 400, all, true)
		} else {
			random(w, r, 500, 64, 400, all, true)
		}
	case "churn": // mutators and K only (C15)
		r := rng.FromEnv(115)
		if thorough {
			random(w, r, 5000, 64, 400, all, false)
		} else {
			random(w, r, 400, 64, 400, all, false)
		}
	case "shapes":
		r := rng.FromEnv(15)
		if thorough {
			shapes(w, r, []int{1, 2, 3, 5, 8, 13, 21, 34, 64, 100, 257, 1000}, append(ad, mag...))
		} else {
			shapes(w, r, []int{1, 2, 3, 5, 8, 13, 33, 64, 160}, append(ad, mag...))
		}
	}
}
