// Command c13 traces the finite-automata package (automata.go, nfa.go, dfa.go, partition.go).
//
//	header:  <N|D> <W6|WL> <aut> <aut> ...        operands, all NFAs (N) or all DFAs (D)
//	aut:     <start>/<f1,f2,..>/<s:a:t1.t2,..>   built with NewNFA/NewDFA + Add in the listed order
//	ops (N): acc i | clone i | todfa i | star i | union i j.. | concat i j.. | iso i j | isoren i m0,m1,..
//	ops (D): acc i | clone i | tonfa i | min i | elim i | reindex i | combine i j.. | iso i j | isoren i m0,..
//	results: k=v fields: o=<operand Accept vectors> r=<result dump> bits=<result Accept vector>
//	         n=<states> fm=<final map> fmbits=<vectors>, or t/f, or PANIC / HANG.
//
// Accept vectors are taken on every word over {a,b} of length <= 6 (W6) plus a^7..a^80 (WL),
// always with the Go objects' own Accept, so that the language equations are checked on the
// implementation itself.
package main

import (
	"bufio"
	"flag"
	"fmt"
	"os"
	"runtime"
	"sort"
	"strconv"
	"strings"
	"sync"
	"sync/atomic"
	"time"

	"github.com/moorara/algo/automata"

	"verif/harness/internal/rng"
	"verif/harness/internal/tr"
)

type aut struct {
	start int
	fin   []int
	adds  [][]int // s, a, targets...
}

func (a aut) String() string {
	var fs, ts []string
	for _, f := range a.fin {
		fs = append(fs, strconv.Itoa(f))
	}
	for _, t := range a.adds {
		if len(t) == 1 { // a probe: queries interleaved with the construction
			ts = append(ts, fmt.Sprintf("Q%d", t[0]))
			continue
		}
		var tg []string
		for _, x := range t[2:] {
			tg = append(tg, strconv.Itoa(x))
		}
		ts = append(ts, fmt.Sprintf("%d:%d:%s", t[0], t[1], strings.Join(tg, ".")))
	}
	return fmt.Sprintf("%d/%s/%s", a.start, strings.Join(fs, ","), strings.Join(ts, ","))
}

func parseAut(s string) aut {
	p := strings.Split(s, "/")
	a := aut{}
	if len(p) != 3 {
		return a
	}
	a.start, _ = strconv.Atoi(p[0])
	if p[1] != "" {
		for _, f := range strings.Split(p[1], ",") {
			v, _ := strconv.Atoi(f)
			a.fin = append(a.fin, v)
		}
	}
	if p[2] != "" {
		for _, t := range strings.Split(p[2], ",") {
			if strings.HasPrefix(t, "Q") {
				m, _ := strconv.Atoi(t[1:])
				a.adds = append(a.adds, []int{m})
				continue
			}
			q := strings.Split(t, ":")
			if len(q) != 3 {
				continue
			}
			s0, _ := strconv.Atoi(q[0])
			a0, _ := strconv.Atoi(q[1])
			row := []int{s0, a0}
			if q[2] != "" {
				for _, x := range strings.Split(q[2], ".") {
					v, _ := strconv.Atoi(x)
					row = append(row, v)
				}
			}
			a.adds = append(a.adds, row)
		}
	}
	return a
}

func states(xs []int) []automata.State {
	r := make([]automata.State, len(xs))
	for i, x := range xs {
		r[i] = automata.State(x)
	}
	return r
}

// probe words for the interleaved Accept queries
var probeWords = []automata.String{{}, {'a'}, {'b'}, {'a', 'b'}, {'b', 'a', 'a'}}

// probeNFA queries / converts the automaton in the middle of its construction (results are
// discarded: a query must never change a later answer; the model is pure, so it ignores probes).
func probeNFA(n *automata.NFA, mask int) {
	if mask&1 != 0 {
		_ = n.Symbols()
	}
	if mask&2 != 0 {
		_ = n.States()
	}
	if mask&4 != 0 {
		_ = n.String()
	}
	if mask&8 != 0 {
		for _, w := range probeWords {
			_ = n.Accept(w)
		}
	}
	if mask&16 != 0 {
		_ = n.ToDFA()
	}
	if mask&32 != 0 {
		_ = n.Star()
		_ = n.Union(n)
	}
	if mask&64 != 0 {
		_ = n.Isomorphic(n.Clone())
	}
	if mask&128 != 0 {
		_ = n.Equal(n.Clone())
		for range n.Transitions() {
		}
	}
}

func probeDFA(d *automata.DFA, mask int) {
	if mask&1 != 0 {
		_ = d.Symbols()
	}
	if mask&2 != 0 {
		_ = d.States()
	}
	if mask&4 != 0 {
		_ = d.String()
	}
	if mask&8 != 0 {
		for _, w := range probeWords {
			_ = d.Accept(w)
		}
	}
	if mask&16 != 0 {
		_ = d.ToNFA()
	}
	if mask&32 != 0 {
		_ = d.Minimize()
		_ = d.EliminateDeadStates()
		_ = d.ReindexStates()
	}
	if mask&64 != 0 {
		_ = d.Isomorphic(d.Clone())
	}
	if mask&128 != 0 {
		_ = d.Equal(d.Clone())
		_, _ = automata.CombineDFA(d, d)
	}
}

func (a aut) nfa() *automata.NFA {
	n := automata.NewNFA(automata.State(a.start), states(a.fin))
	for _, t := range a.adds {
		if len(t) == 1 {
			probeNFA(n, t[0])
			continue
		}
		n.Add(automata.State(t[0]), automata.Symbol(t[1]), states(t[2:]))
	}
	return n
}

func (a aut) dfa() *automata.DFA {
	d := automata.NewDFA(automata.State(a.start), states(a.fin))
	for _, t := range a.adds {
		if len(t) == 1 {
			probeDFA(d, t[0])
			continue
		}
		if len(t) >= 3 {
			d.Add(automata.State(t[0]), automata.Symbol(t[1]), automata.State(t[2]))
		}
	}
	return d
}

func dumpFinal(f automata.States) string {
	var fs []string
	for s := range f.All() {
		fs = append(fs, strconv.Itoa(int(s)))
	}
	return strings.Join(fs, ",")
}

func dumpNFA(n *automata.NFA) string {
	var ts []string
	for t := range n.Transitions() {
		var tg []string
		for _, x := range t.Next {
			tg = append(tg, strconv.Itoa(int(x)))
		}
		ts = append(ts, fmt.Sprintf("%d:%d:%s", t.State, t.Symbol, strings.Join(tg, ".")))
	}
	return fmt.Sprintf("%d/%s/%s", n.Start, dumpFinal(n.Final), strings.Join(ts, ","))
}

func dumpDFA(d *automata.DFA) string {
	var ts []string
	for t := range d.Transitions() {
		ts = append(ts, fmt.Sprintf("%d:%d:%d", t.State, t.Symbol, t.Next))
	}
	return fmt.Sprintf("%d/%s/%s", d.Start, dumpFinal(d.Final), strings.Join(ts, ","))
}

// ---------------------------------------------------------------- word sets

var w6, wl []automata.String

func init() {
	var gen func(k int) []automata.String
	gen = func(k int) []automata.String {
		if k == 0 {
			return []automata.String{{}}
		}
		prev := gen(k - 1)
		var r []automata.String
		for _, a := range []automata.Symbol{'a', 'b'} {
			for _, w := range prev {
				r = append(r, append(automata.String{a}, w...))
			}
		}
		return r
	}
	for k := 0; k <= 6; k++ {
		w6 = append(w6, gen(k)...)
	}
	wl = append(wl, w6...)
	for k := 7; k <= 80; k++ {
		w := make(automata.String, k)
		for i := range w {
			w[i] = 'a'
		}
		wl = append(wl, w)
	}
}

func hexBits(b []bool) string {
	var sb strings.Builder
	for d := 0; d*4 < len(b); d++ {
		v := 0
		for k := 0; k < 4; k++ {
			v *= 2
			if i := 4*d + k; i < len(b) && b[i] {
				v++
			}
		}
		sb.WriteByte("0123456789abcdef"[v])
	}
	return sb.String()
}

type acceptor interface{ Accept(automata.String) bool }

func vec(a acceptor, ws []automata.String) string {
	b := make([]bool, len(ws))
	for i, w := range ws {
		b[i] = a.Accept(w)
	}
	return hexBits(b)
}

// ---------------------------------------------------------------- executing ops

var hung atomic.Int32

// guarded runs f with panic recovery and a deadline.
func guarded(f func() string) string {
	ch := make(chan string, 1)
	go func() {
		defer func() {
			if r := recover(); r != nil {
				msg := strings.NewReplacer("|", "/", "->", "=>", "\n", " ").Replace(fmt.Sprint(r))
				if len(msg) > 60 {
					msg = msg[:60]
				}
				ch <- "PANIC:" + strings.ReplaceAll(msg, " ", "_")
			}
		}()
		ch <- f()
	}()
	select {
	case r := <-ch:
		return r
	case <-time.After(20 * time.Second):
		hung.Add(1)
		return "HANG"
	}
}

func atoi(s string) int { v, _ := strconv.Atoi(s); return v }

func idxs(f []string) []int {
	r := make([]int, len(f))
	for i, x := range f {
		r[i] = atoi(x)
	}
	return r
}

func tf(b bool) string {
	if b {
		return "t"
	}
	return "f"
}

func renamed(a aut, sts []automata.State, img []int) aut {
	m := map[int]int{}
	for i, s := range sts {
		if i < len(img) {
			m[int(s)] = img[i]
		}
	}
	f := func(x int) int {
		if y, ok := m[x]; ok {
			return y
		}
		return x
	}
	b := aut{start: f(a.start)}
	for _, x := range a.fin {
		b.fin = append(b.fin, f(x))
	}
	for _, t := range a.adds {
		if len(t) == 1 {
			b.adds = append(b.adds, t)
			continue
		}
		row := []int{f(t[0]), t[1]}
		for _, x := range t[2:] {
			row = append(row, f(x))
		}
		b.adds = append(b.adds, row)
	}
	return b
}

// ---------------------------------------------------------------- independence of results

// mutable wraps an NFA or a DFA for the aliasing probes: snapshot = Accept vector + structure.
type mutable interface {
	snap(ws []automata.String) string
	extend()
}

type nfaW struct{ n *automata.NFA }
type dfaW struct{ d *automata.DFA }

func (x nfaW) snap(ws []automata.String) string { return vec(x.n, ws) + "#" + dumpNFA(x.n) }
func (x dfaW) snap(ws []automata.String) string { return vec(x.d, ws) + "#" + dumpDFA(x.d) }

func pick3(n int) []int {
	if n == 0 {
		return nil
	}
	m := map[int]bool{0: true, n / 2: true, n - 1: true}
	var r []int
	for i := 0; i < n; i++ {
		if m[i] {
			r = append(r, i)
		}
	}
	return r
}

// extend adds transitions on (state, symbol) pairs that already exist (towards the final states and
// a new state), on a new symbol and from a new state: everything an object that shares a row or
// a target set with another automaton would leak into it.
func (x nfaW) extend() {
	n := x.n
	var trs []*automata.Transition[[]automata.State]
	for t := range n.Transitions() {
		trs = append(trs, t)
	}
	var fin []automata.State
	for f := range n.Final.All() {
		fin = append(fin, f)
	}
	mx := automata.State(0)
	for _, s := range n.States() {
		if s > mx {
			mx = s
		}
	}
	for _, i := range pick3(len(trs)) {
		n.Add(trs[i].State, trs[i].Symbol, append(append([]automata.State{}, fin...), mx+1+automata.State(i)))
	}
	n.Add(n.Start, 'a', fin)
	n.Add(n.Start, 'c', []automata.State{n.Start})
	n.Add(mx+50, 'b', []automata.State{n.Start})
}

func (x dfaW) extend() {
	d := x.d
	var trs []*automata.Transition[automata.State]
	for t := range d.Transitions() {
		trs = append(trs, t)
	}
	var fin []automata.State
	for f := range d.Final.All() {
		fin = append(fin, f)
	}
	mx := automata.State(0)
	for _, s := range d.States() {
		if s > mx {
			mx = s
		}
	}
	for _, i := range pick3(len(trs)) {
		tgt := mx + 1 + automata.State(i)
		if len(fin) > 0 && fin[0] != trs[i].Next {
			tgt = fin[0]
		}
		d.Add(trs[i].State, trs[i].Symbol, tgt)
	}
	if len(fin) > 0 && d.Next(d.Start, 'a') == -1 {
		d.Add(d.Start, 'a', fin[0])
	}
	d.Add(d.Start, 'c', d.Start)
	d.Add(mx+50, 'b', d.Start)
}

// aliasOp: "alias <op> i j..": run <op>, then extend the result and re-read every operand
// (Accept vector and structure must not move), then extend each operand in turn and re-read the
// result.  Returns a=ok or a=<what changed>.
func aliasOp(kind string, ws []automata.String, auts []aut, f []string) string {
	if len(f) < 2 {
		return "a=ok"
	}
	ix := idxs(f[1:])
	for _, i := range ix {
		if i < 0 || i >= len(auts) {
			return "a=ok"
		}
	}
	var ops []mutable
	var res mutable
	if kind == "N" {
		ns := make([]*automata.NFA, len(ix))
		for k, i := range ix {
			ns[k] = auts[i].nfa()
			ops = append(ops, nfaW{ns[k]})
		}
		switch f[0] {
		case "clone":
			res = nfaW{ns[0].Clone()}
		case "todfa":
			res = dfaW{ns[0].ToDFA()}
		case "star":
			res = nfaW{ns[0].Star()}
		case "union":
			res = nfaW{ns[0].Union(ns[1:]...)}
		case "concat":
			res = nfaW{ns[0].Concat(ns[1:]...)}
		default:
			return "a=ok"
		}
	} else {
		ds := make([]*automata.DFA, len(ix))
		for k, i := range ix {
			ds[k] = auts[i].dfa()
			ops = append(ops, dfaW{ds[k]})
		}
		switch f[0] {
		case "clone":
			res = dfaW{ds[0].Clone()}
		case "tonfa":
			res = nfaW{ds[0].ToNFA()}
		case "min":
			res = dfaW{ds[0].Minimize()}
		case "elim":
			res = dfaW{ds[0].EliminateDeadStates()}
		case "reindex":
			res = dfaW{ds[0].ReindexStates()}
		case "combine":
			r, _ := automata.CombineDFA(ds...)
			res = dfaW{r}
		default:
			return "a=ok"
		}
	}
	before := make([]string, len(ops))
	for k, o := range ops {
		before[k] = o.snap(ws)
	}
	res.extend()
	for k, o := range ops {
		if o.snap(ws) != before[k] {
			return fmt.Sprintf("a=operand-%d-changed-when-the-result-was-extended", k)
		}
	}
	for k, o := range ops {
		rs := res.snap(ws)
		o.extend()
		if res.snap(ws) != rs {
			return fmt.Sprintf("a=result-changed-when-operand-%d-was-extended", k)
		}
		for j, p := range ops {
			if j != k && p.snap(ws) != before[j] {
				return fmt.Sprintf("a=operand-%d-changed-when-operand-%d-was-extended", j, k)
			}
		}
		before[k] = o.snap(ws)
	}
	return "a=ok"
}

// exec runs one op; ovCache holds, per case, the Accept vector of each operand (taken once on a fresh object).
func exec(ovCache map[int]string, kind string, ws []automata.String, auts []aut, op string) string {
	f := strings.Fields(op)
	if len(f) < 2 {
		return "f"
	}
	if f[0] == "alias" {
		return guarded(func() string { return aliasOp(kind, ws, auts, f[1:]) })
	}
	return guarded(func() string {
		ix := idxs(f[1:])
		if f[0] == "isoren" {
			ix = ix[:1]
		}
		for _, i := range ix {
			if i < 0 || i >= len(auts) {
				return "f"
			}
		}
		if kind == "N" {
			ns := make([]*automata.NFA, len(ix))
			var ov []string
			for k, i := range ix {
				ns[k] = auts[i].nfa()
				if _, ok := ovCache[i]; !ok {
					ovCache[i] = vec(auts[i].nfa(), ws)
				}
				ov = append(ov, ovCache[i])
			}
			o := "o=" + strings.Join(ov, ",")
			switch f[0] {
			case "acc":
				return "bits=" + ov[0]
			case "clone":
				r := ns[0].Clone()
				return fmt.Sprintf("%s r=%s bits=%s", o, dumpNFA(r), vec(r, ws))
			case "todfa":
				r := ns[0].ToDFA()
				return fmt.Sprintf("%s r=%s bits=%s", o, dumpDFA(r), vec(r, ws))
			case "star":
				r := ns[0].Star()
				return fmt.Sprintf("%s r=%s bits=%s", o, dumpNFA(r), vec(r, ws))
			case "union":
				r := ns[0].Union(ns[1:]...)
				return fmt.Sprintf("%s r=%s bits=%s", o, dumpNFA(r), vec(r, ws))
			case "concat":
				r := ns[0].Concat(ns[1:]...)
				return fmt.Sprintf("%s r=%s bits=%s", o, dumpNFA(r), vec(r, ws))
			case "iso":
				return tf(ns[0].Isomorphic(ns[1]))
			case "isoren":
				c := renamed(auts[ix[0]], ns[0].States(), idxs(strings.Split(f[2], ","))).nfa()
				return tf(ns[0].Isomorphic(c))
			}
			return "f"
		}
		ds := make([]*automata.DFA, len(ix))
		var ov []string
		for k, i := range ix {
			ds[k] = auts[i].dfa()
			if _, ok := ovCache[i]; !ok {
				ovCache[i] = vec(auts[i].dfa(), ws)
			}
			ov = append(ov, ovCache[i])
		}
		o := "o=" + strings.Join(ov, ",")
		switch f[0] {
		case "acc":
			return "bits=" + ov[0]
		case "clone":
			r := ds[0].Clone()
			return fmt.Sprintf("%s r=%s bits=%s", o, dumpDFA(r), vec(r, ws))
		case "tonfa":
			r := ds[0].ToNFA()
			return fmt.Sprintf("%s r=%s bits=%s", o, dumpNFA(r), vec(r, ws))
		case "min":
			r := ds[0].Minimize()
			return fmt.Sprintf("%s r=%s bits=%s n=%d", o, dumpDFA(r), vec(r, ws), len(r.States()))
		case "elim":
			r := ds[0].EliminateDeadStates()
			return fmt.Sprintf("%s r=%s bits=%s", o, dumpDFA(r), vec(r, ws))
		case "reindex":
			r := ds[0].ReindexStates()
			return fmt.Sprintf("%s r=%s bits=%s", o, dumpDFA(r), vec(r, ws))
		case "combine":
			r, fm := automata.CombineDFA(ds...)
			var fms, fmb []string
			for _, l := range fm {
				var xs []string
				in := map[automata.State]bool{}
				for _, s := range l {
					xs = append(xs, strconv.Itoa(int(s)))
					in[s] = true
				}
				fms = append(fms, strings.Join(xs, "."))
				b := make([]bool, len(ws))
				for i, wd := range ws {
					cur := r.Start
					for _, a := range wd {
						cur = r.Next(cur, a)
					}
					b[i] = in[cur]
				}
				fmb = append(fmb, hexBits(b))
			}
			return fmt.Sprintf("%s r=%s bits=%s fm=%s fmbits=%s", o, dumpDFA(r), vec(r, ws), strings.Join(fms, ";"), strings.Join(fmb, ","))
		case "iso":
			return tf(ds[0].Isomorphic(ds[1]))
		case "isoren":
			c := renamed(auts[ix[0]], ds[0].States(), idxs(strings.Split(f[2], ","))).dfa()
			return tf(ds[0].Isomorphic(c))
		}
		return "f"
	})
}

// W queues cases and executes them on a small worker pool; lines are written in queue order, so
// the trace is a function of VERIF_SEED only.
type job struct {
	kind, wsn string
	auts      []aut
	ops       []string
}

type W struct {
	jobs []job
	out  *bufio.Writer
}

func NewW() *W { return &W{out: bufio.NewWriterSize(os.Stdout, 1<<20)} }

func doCase(j job) string {
	hs := []string{j.kind, j.wsn}
	for _, a := range j.auts {
		hs = append(hs, a.String())
	}
	parts := []string{strings.Join(hs, " ")}
	ws := w6
	if j.wsn == "WL" {
		ws = wl
	}
	ovCache := map[int]string{}
	for _, op := range j.ops {
		if hung.Load() > 2 {
			break
		}
		parts = append(parts, op+" -> "+exec(ovCache, j.kind, ws, j.auts, op))
	}
	return strings.Join(parts, " | ")
}

func (w *W) Flush() {
	lines := make([]string, len(w.jobs))
	nw := runtime.NumCPU()
	if nw > 8 {
		nw = 8
	}
	var next atomic.Int64
	var wg sync.WaitGroup
	for k := 0; k < nw; k++ {
		wg.Add(1)
		go func() {
			defer wg.Done()
			for {
				i := int(next.Add(1)) - 1
				if i >= len(w.jobs) {
					return
				}
				lines[i] = doCase(w.jobs[i])
			}
		}()
	}
	wg.Wait()
	for _, l := range lines {
		w.out.WriteString(l)
		w.out.WriteByte('\n')
	}
	w.out.Flush()
	w.jobs = w.jobs[:0]
	if hung.Load() > 2 {
		os.Exit(4)
	}
}

func runCase(w *W, kind, wsn string, auts []aut, ops []string) {
	w.jobs = append(w.jobs, job{kind, wsn, auts, ops})
	if len(w.jobs) >= 2048 {
		w.Flush()
	}
}

// ---------------------------------------------------------------- generators

// stateIDs of an automaton description, sorted (what States() returns).
func stateIDs(a aut, isN bool) []int {
	m := map[int]bool{a.start: true}
	for _, f := range a.fin {
		m[f] = true
	}
	for _, t := range a.adds {
		if len(t) == 1 {
			continue
		}
		m[t[0]] = true // Add(s, a, nil) still creates the (empty) entry of s
		for _, x := range t[2:] {
			m[x] = true
		}
	}
	var r []int
	for s := range m {
		r = append(r, s)
	}
	sort.Ints(r)
	return r
}

// renameOp builds an "isoren" op with an injective image chosen by r.
func renameOp(r *rng.R, a aut, i int, isN bool) string {
	ids := stateIDs(a, isN)
	img := make([]int, len(ids))
	switch r.Intn(4) {
	case 0: // a permutation of the same ids
		copy(img, ids)
		for k := len(img) - 1; k > 0; k-- {
			j := r.Intn(k + 1)
			img[k], img[j] = img[j], img[k]
		}
	case 1: // shifted
		off := r.Range(1, 50)
		for k := range ids {
			img[k] = ids[k] + off
		}
	case 2: // sparse, order reversed
		for k := range ids {
			img[k] = 10 * (len(ids) - k)
		}
	default: // random distinct ids
		used := map[int]bool{}
		for k := range ids {
			for {
				v := r.Intn(40)
				if !used[v] {
					used[v] = true
					img[k] = v
					break
				}
			}
		}
	}
	var xs []string
	for _, v := range img {
		xs = append(xs, strconv.Itoa(v))
	}
	return fmt.Sprintf("isoren %d %s", i, strings.Join(xs, ","))
}

var syms = []int{'a', 'b'}

func subsetsOf(n int, mask int) []int {
	var r []int
	for i := 0; i < n; i++ {
		if mask&(1<<i) != 0 {
			r = append(r, i)
		}
	}
	return r
}

// dfaByCode: digit d of code in base n+1 is the target (+1) of (state, symbol) pair number d; 0 = none.
func dfaByCode(n, start, finMask, code int) aut {
	a := aut{start: start, fin: subsetsOf(n, finMask)}
	for s := 0; s < n; s++ {
		for _, c := range syms {
			d := code % (n + 1)
			code /= n + 1
			if d > 0 {
				a.adds = append(a.adds, []int{s, c, d - 1})
			}
		}
	}
	return a
}

// nfaByCode: for each (state, symbol in ε,a,b) a subset of the n states.
func nfaByCode(n, start, finMask, code int) aut {
	a := aut{start: start, fin: subsetsOf(n, finMask)}
	for s := 0; s < n; s++ {
		for _, c := range []int{0, 'a', 'b'} {
			m := code % (1 << n)
			code /= 1 << n
			if m > 0 {
				a.adds = append(a.adds, append([]int{s, c}, subsetsOf(n, m)...))
			}
		}
	}
	return a
}

func ipow(b, e int) int {
	r := 1
	for i := 0; i < e; i++ {
		r *= b
	}
	return r
}

var dfaOps = []string{"acc 0", "clone 0", "tonfa 0", "min 0", "elim 0", "reindex 0", "alias clone 0", "alias tonfa 0"}
var nfaOps = []string{"acc 0", "clone 0", "todfa 0", "star 0", "alias clone 0", "alias star 0"}

func exhaustive(w *W, r *rng.R, thorough bool) {
	// DFAs
	for n := 1; n <= 3; n++ {
		total := ipow(n+1, 2*n)
		for code := 0; code < total; code++ {
			for start := 0; start < n; start++ {
				for fm := 0; fm < 1<<n; fm++ {
					if n == 3 && !thorough && !r.Chance(1, 110) {
						continue
					}
					a := dfaByCode(n, start, fm, code)
					pn := r.Range(1, 2)
					p := dfaByCode(pn, 0, r.Intn(1<<pn), r.Intn(ipow(pn+1, 2*pn)))
					ops := append([]string{}, dfaOps...)
					ops = append(ops, "combine 0 1", "combine 1 0 0", renameOp(r, a, 0, false), "iso 0 1")
					runCase(w, "D", "W6", []aut{a, p}, ops)
				}
			}
		}
	}
	// NFAs
	for n := 1; n <= 3; n++ {
		total := ipow(1<<n, 3*n)
		if n == 3 {
			// sampled only: 2^27 automata
			cnt := 600
			if thorough {
				cnt = 20000
			}
			for i := 0; i < cnt; i++ {
				a := nfaByCode(3, r.Intn(3), r.Intn(8), r.Intn(total))
				p := nfaByCode(2, r.Intn(2), r.Intn(4), r.Intn(4096))
				ops := append([]string{}, nfaOps...)
				ops = append(ops, "union 0 1", "concat 0 1", "concat 1 0", renameOp(r, a, 0, true))
				runCase(w, "N", "W6", []aut{a, p}, ops)
			}
			continue
		}
		for code := 0; code < total; code++ {
			for start := 0; start < n; start++ {
				for fm := 0; fm < 1<<n; fm++ {
					if n == 2 && !thorough && !r.Chance(1, 40) {
						continue
					}
					a := nfaByCode(n, start, fm, code)
					pn := r.Range(1, 2)
					p := nfaByCode(pn, r.Intn(pn), r.Intn(1<<pn), r.Intn(ipow(1<<pn, 3*pn)))
					ops := append([]string{}, nfaOps...)
					ops = append(ops, "union 0 1", "union 1 0 0", "concat 0 1", "concat 1 0", renameOp(r, a, 0, true), "iso 0 1")
					runCase(w, "N", "W6", []aut{a, p}, ops)
				}
			}
		}
	}
}

// randIDs picks n distinct non-negative state ids: contiguous from 0, shifted, or sparse.
func randIDs(r *rng.R, n int) []int {
	ids := make([]int, n)
	switch r.Intn(3) {
	case 0:
		for i := range ids {
			ids[i] = i
		}
	case 1:
		off := r.Range(1, 30)
		for i := range ids {
			ids[i] = off + i
		}
	default:
		used := map[int]bool{}
		for i := range ids {
			for {
				v := r.Intn(60)
				if !used[v] {
					used[v] = true
					ids[i] = v
					break
				}
			}
		}
	}
	return ids
}

// randNFA: n states, ε-moves, optional accepting start / transitions into start; safe=true asks
// for an operand on which Concat's start/final merging is sound (start not accepting, nothing
// enters the start state).
func randNFA(r *rng.R, maxN int, safe bool) aut {
	n := r.Range(1, maxN)
	ids := randIDs(r, n)
	a := aut{start: ids[r.Intn(n)]}
	for _, s := range ids {
		if r.Chance(1, 3) && !(safe && s == a.start) {
			a.fin = append(a.fin, s)
		}
	}
	if len(a.fin) == 0 && r.Chance(3, 4) {
		s := ids[r.Intn(n)]
		if !(safe && s == a.start) {
			a.fin = append(a.fin, s)
		}
	}
	nt := r.Range(0, 2*n+1)
	for i := 0; i < nt; i++ {
		s := ids[r.Intn(n)]
		c := []int{0, 'a', 'b', 'a', 'b'}[r.Intn(5)]
		row := []int{s, c}
		k := r.Range(1, 2)
		if r.Chance(1, 25) {
			k = 0 // Add with no targets creates an empty entry
		}
		for j := 0; j < k; j++ {
			t := ids[r.Intn(n)]
			if safe && t == a.start {
				continue
			}
			row = append(row, t)
		}
		a.adds = append(a.adds, row)
	}
	return a
}

func randDFA(r *rng.R, maxN int) aut {
	n := r.Range(1, maxN)
	ids := randIDs(r, n)
	a := aut{start: ids[r.Intn(n)]}
	for _, s := range ids {
		if r.Chance(1, 3) {
			a.fin = append(a.fin, s)
		}
	}
	if len(a.fin) == 0 && r.Chance(3, 4) {
		a.fin = append(a.fin, ids[r.Intn(n)])
	}
	dens := r.Range(1, 4)
	for _, s := range ids {
		for _, c := range syms {
			if r.Intn(4) < dens {
				a.adds = append(a.adds, []int{s, c, ids[r.Intn(n)]})
			}
		}
	}
	// shuffle the Add order and sometimes overwrite a transition
	for k := len(a.adds) - 1; k > 0; k-- {
		j := r.Intn(k + 1)
		a.adds[k], a.adds[j] = a.adds[j], a.adds[k]
	}
	if len(a.adds) > 0 && r.Chance(1, 5) {
		t := a.adds[r.Intn(len(a.adds))]
		a.adds = append(a.adds, []int{t[0], t[1], ids[r.Intn(n)]})
	}
	return a
}

// withProbes inserts 1..3 probe rows (queries / conversions, mask 1..255) at random positions of
// the Add sequence, so that the automaton is inspected before its construction is finished.
func withProbes(r *rng.R, a aut) aut {
	b := aut{start: a.start, fin: a.fin}
	k := r.Range(1, 3)
	pos := map[int]int{}
	for i := 0; i < k; i++ {
		pos[r.Intn(len(a.adds)+1)] = r.Range(1, 255)
	}
	for i, t := range a.adds {
		if m, ok := pos[i]; ok {
			b.adds = append(b.adds, []int{m})
		}
		b.adds = append(b.adds, t)
	}
	if m, ok := pos[len(a.adds)]; ok {
		b.adds = append(b.adds, []int{m})
	}
	return b
}

// staged builds an automaton in two stages separated by a probe: the first stage only uses symbol
// 'a' (and ε for NFAs) on a few states, the second adds transitions on the new symbol 'b' and on
// new states.  A stale cache filled by the probe (alphabet, state set, closure ...) shows up in
// the op battery that follows.
func staged(r *rng.R, isN bool) aut {
	n1 := r.Range(1, 3)
	n2 := r.Range(0, 2)
	ids := randIDs(r, n1+n2)
	a := aut{start: ids[r.Intn(n1)]}
	for _, s := range ids {
		if r.Chance(1, 3) {
			a.fin = append(a.fin, s)
		}
	}
	if len(a.fin) == 0 {
		a.fin = append(a.fin, ids[r.Intn(len(ids))])
	}
	add := func(lo, hi int, symsOK []int) {
		cnt := r.Range(1, 4)
		for i := 0; i < cnt; i++ {
			s := ids[r.Intn(hi)]
			c := symsOK[r.Intn(len(symsOK))]
			if isN {
				row := []int{s, c}
				for j := r.Range(1, 2); j > 0; j-- {
					row = append(row, ids[lo+r.Intn(hi-lo)])
				}
				a.adds = append(a.adds, row)
			} else if c != 0 {
				a.adds = append(a.adds, []int{s, c, ids[lo+r.Intn(hi-lo)]})
			}
		}
	}
	if isN {
		add(0, n1, []int{'a', 'a', 0})
	} else {
		add(0, n1, []int{'a'})
	}
	a.adds = append(a.adds, []int{r.Range(1, 255)})
	add(0, n1+n2, []int{'b', 'b', 'a'})
	if r.Chance(1, 3) {
		a.adds = append(a.adds, []int{r.Range(1, 255)})
		add(0, n1+n2, []int{'a', 'b'})
	}
	return a
}

func random(w *W, r *rng.R, cases int) {
	for c := 0; c < cases; c++ {
		if c%2 == 0 {
			k := r.Range(1, 3)
			safe := r.Chance(3, 5)
			var as []aut
			for i := 0; i < k; i++ {
				a := randNFA(r, 8, safe && r.Chance(9, 10))
				if r.Chance(1, 3) {
					a = withProbes(r, a)
				}
				as = append(as, a)
			}
			var ops []string
			for i := range as {
				ops = append(ops, fmt.Sprintf("acc %d", i), fmt.Sprintf("todfa %d", i), fmt.Sprintf("star %d", i), fmt.Sprintf("clone %d", i))
				if len(stateIDs(as[i], true)) <= 6 {
					ops = append(ops, renameOp(r, as[i], i, true))
				}
			}
			all := ""
			for i := range as {
				all += fmt.Sprintf(" %d", i)
			}
			ops = append(ops, "alias clone 0", "alias todfa 0", "alias star 0", "alias union"+all, "alias concat"+all)
			ops = append(ops, "union"+all, "concat"+all)
			if k >= 2 {
				ops = append(ops, "concat 1 0", "union 1 1 0")
				if len(stateIDs(as[0], true)) <= 6 {
					ops = append(ops, "iso 0 1")
				}
			}
			runCase(w, "N", "W6", as, ops)
		} else {
			k := r.Range(1, 3)
			var as []aut
			for i := 0; i < k; i++ {
				a := randDFA(r, 8)
				if r.Chance(1, 3) {
					a = withProbes(r, a)
				}
				as = append(as, a)
			}
			var ops []string
			for i := range as {
				ops = append(ops, fmt.Sprintf("acc %d", i), fmt.Sprintf("tonfa %d", i), fmt.Sprintf("min %d", i),
					fmt.Sprintf("elim %d", i), fmt.Sprintf("reindex %d", i), fmt.Sprintf("clone %d", i))
				if len(stateIDs(as[i], false)) <= 6 {
					ops = append(ops, renameOp(r, as[i], i, false))
				}
			}
			all := ""
			for i := range as {
				all += fmt.Sprintf(" %d", i)
			}
			ops = append(ops, "alias clone 0", "alias tonfa 0", "alias min 0", "alias elim 0", "alias reindex 0", "alias combine"+all)
			ops = append(ops, "combine"+all)
			if k >= 2 {
				ops = append(ops, "combine 1 0")
				if len(stateIDs(as[0], false)) <= 6 {
					ops = append(ops, "iso 0 1")
				}
			}
			runCase(w, "D", "W6", as, ops)
		}
	}
}

// trimDFA: a random DFA in which every state is reachable and co-reachable (the domain of the
// minimality claim): a spanning tree from the start, extra edges, and every leaf of the
// "can reach a final state" relation made final.
func trimDFA(r *rng.R, maxN int) aut {
	n := r.Range(2, maxN)
	ids := randIDs(r, n)
	a := aut{start: ids[0]}
	used := map[[2]int]bool{}
	for i := 1; i < n; i++ { // state i gets a parent among 0..i-1 with a free symbol
		for try := 0; try < 20; try++ {
			p := r.Intn(i)
			c := syms[r.Intn(2)]
			if !used[[2]int{p, c}] {
				used[[2]int{p, c}] = true
				a.adds = append(a.adds, []int{ids[p], c, ids[i]})
				break
			}
		}
	}
	for s := 0; s < n; s++ {
		for _, c := range syms {
			if !used[[2]int{s, c}] && r.Chance(1, 2) {
				used[[2]int{s, c}] = true
				a.adds = append(a.adds, []int{ids[s], c, ids[r.Intn(n)]})
			}
		}
	}
	// finals: random, then fix co-reachability by making stuck states final
	fin := map[int]bool{}
	for _, s := range ids {
		if r.Chance(1, 3) {
			fin[s] = true
		}
	}
	for {
		can := map[int]bool{}
		for s := range fin {
			can[s] = true
		}
		for ch := true; ch; {
			ch = false
			for _, t := range a.adds {
				if can[t[2]] && !can[t[0]] {
					can[t[0]] = true
					ch = true
				}
			}
		}
		bad := -1
		for _, s := range ids {
			if !can[s] {
				bad = s
			}
		}
		if bad < 0 {
			break
		}
		fin[bad] = true
	}
	for _, s := range ids {
		if fin[s] {
			a.fin = append(a.fin, s)
		}
	}
	return a
}

// inflate duplicates states of a trim DFA: every copy gets the outgoing transitions of its
// original and takes over some of its incoming transitions (at least one), so the result is
// still trim, accepts the same language and has many equivalent states.
func inflate(r *rng.R, a aut) aut {
	ids := stateIDs(a, false)
	next := ids[len(ids)-1] + 1
	b := aut{start: a.start, fin: append([]int{}, a.fin...)}
	for _, t := range a.adds {
		b.adds = append(b.adds, append([]int{}, t...))
	}
	k := r.Range(1, 4)
	for c := 0; c < k; c++ {
		var incoming []int
		orig := ids[r.Intn(len(ids))]
		for i, t := range b.adds {
			if t[2] == orig && t[0] != orig {
				incoming = append(incoming, i)
			}
		}
		if len(incoming) == 0 || (len(incoming) < 2 && orig != a.start) {
			continue
		}
		cp := next
		next++
		for _, f := range b.fin {
			if f == orig {
				b.fin = append(b.fin, cp)
				break
			}
		}
		for _, t := range append([][]int{}, b.adds...) {
			if t[0] == orig {
				tgt := t[2]
				b.adds = append(b.adds, []int{cp, t[1], tgt})
			}
		}
		b.adds[incoming[0]][2] = cp // the copy is reachable; the original keeps its last incoming edge
		for k := 1; k+1 < len(incoming); k++ {
			if r.Chance(1, 2) {
				b.adds[incoming[k]][2] = cp
			}
		}
		if orig == a.start && len(incoming) > 1 && r.Chance(1, 2) {
			b.adds[incoming[len(incoming)-1]][2] = cp
		}
		ids = append(ids, cp)
	}
	return b
}

func chainDFA(r *rng.R, n int) aut {
	// ids: a random permutation of a sparse range so that ReindexStates has work to do
	ids := make([]int, n)
	for i := range ids {
		ids[i] = 3*i + r.Intn(3)
	}
	for k := n - 1; k > 0; k-- {
		j := r.Intn(k + 1)
		ids[k], ids[j] = ids[j], ids[k]
	}
	a := aut{start: ids[0]}
	for i := 0; i+1 < n; i++ {
		a.adds = append(a.adds, []int{ids[i], 'a', ids[i+1]})
		if r.Chance(1, 6) {
			a.adds = append(a.adds, []int{ids[i], 'b', ids[r.Intn(n)]})
		}
	}
	a.fin = []int{ids[n-1]}
	if r.Chance(1, 2) {
		a.fin = append(a.fin, ids[r.Intn(n)])
	}
	return a
}

func treeDFA(depth int) aut {
	// complete binary tree over {a,b}: node k has children 2k+1, 2k+2; leaves at even positions final
	a := aut{start: 0}
	n := 1<<(depth+1) - 1
	for k := 0; 2*k+2 < n; k++ {
		a.adds = append(a.adds, []int{k, 'a', 2*k + 1}, []int{k, 'b', 2*k + 2})
	}
	for k := n / 2; k < n; k += 2 {
		a.fin = append(a.fin, k)
	}
	return a
}

func shapes(w *W, r *rng.R, thorough bool) {
	reps := 1
	if thorough {
		reps = 6
	}
	for rep := 0; rep < reps; rep++ {
		// chains of 60..70 states: ReindexStates / CombineDFA cross the queue's block size 64
		for n := 60; n <= 70; n++ {
			a := chainDFA(r, n)
			ops := []string{"acc 0", "reindex 0", "elim 0", "clone 0", "tonfa 0"}
			if n%3 == 0 || thorough {
				ops = append(ops, "min 0")
			}
			runCase(w, "D", "WL", []aut{a}, ops)
			if n%4 == 0 {
				b := chainDFA(r, r.Range(3, 9))
				runCase(w, "D", "WL", []aut{a, b}, []string{"combine 0 1"})
			}
		}
		runCase(w, "D", "W6", []aut{treeDFA(6)}, []string{"acc 0", "reindex 0", "elim 0", "min 0"})
		runCase(w, "D", "W6", []aut{treeDFA(6), treeDFA(2)}, []string{"combine 0 1"})
		// trim DFAs: the minimality claim
		cnt := 250
		for i := 0; i < cnt; i++ {
			a := trimDFA(r, 8)
			ops := []string{"min 0", "acc 0", "elim 0", "reindex 0"}
			if len(stateIDs(a, false)) <= 6 {
				ops = append(ops, renameOp(r, a, 0, false))
			}
			runCase(w, "D", "W6", []aut{a}, ops)
		}
		// trim DFAs with duplicated (equivalent) states: Minimize has to merge them all
		for i := 0; i < 200; i++ {
			a := inflate(r, trimDFA(r, 6))
			runCase(w, "D", "W6", []aut{a}, []string{"min 0", "acc 0"})
		}
		// construction interleaved with queries and conversions, new symbols / states afterwards
		for i := 0; i < 150; i++ {
			a := staged(r, true)
			b := staged(r, true)
			ops := []string{"acc 0", "todfa 0", "star 0", "clone 0", "union 0 1", "concat 0 1", "todfa 1", "alias clone 0", "alias union 0 1", "alias todfa 1"}
			if len(stateIDs(a, true)) <= 6 {
				ops = append(ops, renameOp(r, a, 0, true))
			}
			runCase(w, "N", "W6", []aut{a, b}, ops)
			d := staged(r, false)
			e := staged(r, false)
			dops := []string{"acc 0", "tonfa 0", "min 0", "elim 0", "reindex 0", "clone 0", "combine 0 1", "combine 1 0", "alias clone 0", "alias elim 0", "alias reindex 1", "alias min 0"}
			if len(stateIDs(d, false)) <= 6 {
				dops = append(dops, renameOp(r, d, 0, false))
			}
			runCase(w, "D", "W6", []aut{d, e}, dops)
		}
		// NFAs with an accepting start state, transitions into the start state, sparse ids
		for i := 0; i < 150; i++ {
			a := randNFA(r, 6, false)
			a.fin = append(a.fin, a.start)
			b := randNFA(r, 6, false)
			if len(b.adds) > 0 {
				b.adds = append(b.adds, []int{b.adds[0][0], 'b', b.start})
			}
			runCase(w, "N", "W6", []aut{a, b}, []string{"acc 0", "acc 1", "star 0", "star 1", "todfa 0", "todfa 1", "union 0 1", "union 1 0", "clone 0"})
		}
		// Concat on its sound domain, three operands
		for i := 0; i < 150; i++ {
			as := []aut{randNFA(r, 5, true), randNFA(r, 5, true), randNFA(r, 4, true)}
			runCase(w, "N", "W6", as, []string{"concat 0 1 2", "concat 2 1", "concat 1 0"})
		}
	}
	// fixtures of the Dragon book used by the package's own tests
	n1 := parseAut("0/10/0:0:1.7,1:0:2.4,2:97:3,3:0:6,4:98:5,5:0:6,6:0:1.7,7:97:8,8:98:9,9:98:10")
	n2 := parseAut("0/2,4/0:97:1,1:98:2,2:98:2,0:98:3,3:97:4,4:97:4")
	n3 := parseAut("0/2/0:97:1,1:98:2,2:97:1")
	runCase(w, "N", "W6", []aut{n1, n2, n3}, []string{"acc 0", "todfa 0", "star 1", "union 1 2", "concat 1 2", "clone 0", "todfa 1", "todfa 2"})
	d1 := parseAut("0/4/0:97:1,0:98:2,1:97:1,1:98:3,2:97:1,2:98:2,3:97:1,3:98:4,4:97:1,4:98:2")
	runCase(w, "D", "W6", []aut{d1, d1}, []string{"acc 0", "min 0", "tonfa 0", "elim 0", "reindex 0", "combine 0 1", "isoren 0 4,3,2,1,0", "isoren 0 10,20,30,40,50", "iso 0 1"})
}

func main() {
	mode := flag.String("mode", "exhaustive", "exhaustive|random|shapes")
	tier := flag.String("tier", "quick", "quick|thorough")
	replay := flag.String("replay", "", "case file to re-execute")
	flag.Parse()
	w := NewW()
	defer w.Flush()
	if *replay != "" {
		cs, err := tr.ReadCases(*replay)
		if err != nil {
			fmt.Fprintln(os.Stderr, err)
			os.Exit(3)
		}
		for _, c := range cs {
			h := strings.Fields(c.Head)
			if len(h) < 2 {
				continue
			}
			var as []aut
			for _, s := range h[2:] {
				as = append(as, parseAut(s))
			}
			runCase(w, h[0], h[1], as, c.Ops)
		}
		return
	}
	thorough := *tier == "thorough"
	switch *mode {
	case "exhaustive":
		exhaustive(w, rng.FromEnv(131), thorough)
	case "random":
		n := 1200
		if thorough {
			n = 25000
		}
		random(w, rng.FromEnv(132), n)
	case "shapes":
		shapes(w, rng.FromEnv(133), thorough)
	}
}
