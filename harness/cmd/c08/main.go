// Command c08 traces the grammar transformations of grammar/cfg.go for C08 (language
// preservation) and C09 (normal forms, Verify, receiver not mutated), plus the
// "input is never mutated" part for predictive.BuildParsingTable and the LR constructors.
//
//	header:  S=<hex start> [T=<hex>,<hex>,...]        (T: extra declared terminals)
//	ops:     P <hexhead>:<sym>.<sym>...  -> -         (a production of the input grammar; sym = t<hex> | n<hex>)
//	         DEL|UNIT|UNREACH|CYCLES|ELR|LF|CNF|START|TERM|BIN
//	             -> ok T=.. N=.. S=.. P=<prod>,<prod>.. eq=<t|f> v=<t|f> [cnf=<t|f>] [order=<hex>,..]
//	             -> PANIC:<reason> | HANG | TIMEOUT (ELR only: exponential case cut by the watchdog) | INVALID | LARGE n=<productions> eq=<t|f>   (output too large to compare)
//	         NULLABLE -> ok N=<hex>,..
//	         PBT|LR0|LR1|LR0K|LR1K|LRS|LRL|LRC -> ok eq=<t|f>      (LRS/LRL/LRC: simple/lookahead/canonical.BuildParsingTable)
//	header M=s: the bodies of the receiver share backing arrays / have spare capacity (buildLayout)
//	         SUFFIXES -> ok prime=<hex>,.. alpha=.. numeric=..
//
// All transformation ops of a case are applied to the same input grammar (all P ops of the
// case, wherever they stand).  INVALID: the input fails Verify() (only after shrinking).
package main

import (
	"encoding/hex"
	"flag"
	"fmt"
	"os"
	"sort"
	"strings"
	"time"

	"github.com/moorara/algo/grammar"
	"github.com/moorara/algo/parser/lr"
	"github.com/moorara/algo/parser/lr/canonical"
	"github.com/moorara/algo/parser/lr/lookahead"
	"github.com/moorara/algo/parser/lr/simple"
	"github.com/moorara/algo/parser/predictive"

	"verif/harness/internal/rng"
	"verif/harness/internal/tr"
)

type prod struct {
	head string
	body []sym
}
type sym struct {
	term bool
	name string
}

func hx(s string) string {
	if s == "" {
		return "-"
	}
	return hex.EncodeToString([]byte(s))
}
func unhx(s string) string {
	if s == "-" {
		return ""
	}
	b, err := hex.DecodeString(s)
	if err != nil {
		return "?"
	}
	return string(b)
}

func encSym(s sym) string {
	if s.term {
		return "t" + hx(s.name)
	}
	return "n" + hx(s.name)
}

func encProd(p prod) string {
	ss := make([]string, len(p.body))
	for i, s := range p.body {
		ss[i] = encSym(s)
	}
	return hx(p.head) + ":" + strings.Join(ss, ".")
}

func decProd(s string) (prod, bool) {
	hb := strings.SplitN(s, ":", 2)
	if len(hb) != 2 {
		return prod{}, false
	}
	p := prod{head: unhx(hb[0])}
	if hb[1] != "" {
		for _, x := range strings.Split(hb[1], ".") {
			if len(x) < 2 {
				return prod{}, false
			}
			p.body = append(p.body, sym{term: x[0] == 't', name: unhx(x[1:])})
		}
	}
	return p, true
}

func hxList(ss []string) string {
	sort.Strings(ss)
	out := make([]string, len(ss))
	for i, s := range ss {
		out[i] = hx(s)
	}
	return strings.Join(out, ",")
}

func encGrammar(g *grammar.CFG) string {
	var ts, ns, ps []string
	for t := range g.Terminals.All() {
		ts = append(ts, string(t))
	}
	for n := range g.NonTerminals.All() {
		ns = append(ns, string(n))
	}
	for p := range g.Productions.All() {
		q := prod{head: string(p.Head)}
		for _, s := range p.Body {
			q.body = append(q.body, sym{term: s.IsTerminal(), name: rawName(s)})
		}
		ps = append(ps, encProd(q))
	}
	sort.Strings(ps)
	return fmt.Sprintf("T=%s N=%s S=%s P=%s", hxList(ts), hxList(ns), hx(string(g.Start)), strings.Join(ps, ","))
}

func rawName(s grammar.Symbol) string {
	switch v := s.(type) {
	case grammar.Terminal:
		return string(v)
	case grammar.NonTerminal:
		return string(v)
	}
	return s.Name()
}

func build(start string, extraT []string, ps []prod) *grammar.CFG {
	return buildLayout(start, extraT, ps, false)
}

// buildLayout builds the grammar; with shared = true the bodies are laid out the way client code
// may legitimately hold them: a body that is a prefix of a longer body is a prefix SLICE of that
// body's backing array (cap > len, the next cells belong to the longer body), and every other body
// has spare capacity behind it (as after append).  Writing behind len then corrupts another body
// or goes unnoticed by Clone (which shares the arrays): results are compared with a grammar
// rebuilt independently from the case text.
func buildLayout(start string, extraT []string, ps []prod, shared bool) *grammar.CFG {
	var terms []grammar.Terminal
	var nts []grammar.NonTerminal
	for _, t := range extraT {
		terms = append(terms, grammar.Terminal(t))
	}
	nts = append(nts, grammar.NonTerminal(start))
	conv := func(p prod) grammar.String[grammar.Symbol] {
		body := grammar.String[grammar.Symbol]{}
		for _, s := range p.body {
			if s.term {
				body = append(body, grammar.Terminal(s.name))
			} else {
				body = append(body, grammar.NonTerminal(s.name))
			}
		}
		return body
	}
	bodies := make([]grammar.String[grammar.Symbol], len(ps))
	if !shared {
		for i, p := range ps {
			bodies[i] = conv(p)
		}
	} else {
		// longest first, so that a shorter body can be carved out of an already placed longer one
		idx := make([]int, len(ps))
		for i := range idx {
			idx[i] = i
		}
		sort.SliceStable(idx, func(a, b int) bool { return len(ps[idx[a]].body) > len(ps[idx[b]].body) })
		var placed []grammar.String[grammar.Symbol]
		for _, i := range idx {
			b := conv(ps[i])
			done := false
			for _, l := range placed {
				if len(l) > len(b) && l[:len(b)].Equal(b) {
					bodies[i] = l[:len(b)] // prefix slice: cap(l) > len
					done = true
					break
				}
			}
			if !done {
				nb := make(grammar.String[grammar.Symbol], len(b), len(b)+2) // spare capacity
				copy(nb, b)
				bodies[i] = nb
				placed = append(placed, nb)
			}
		}
	}
	var prods []*grammar.Production
	for i, p := range ps {
		nts = append(nts, grammar.NonTerminal(p.head))
		for _, s := range p.body {
			if s.term {
				terms = append(terms, grammar.Terminal(s.name))
			} else {
				nts = append(nts, grammar.NonTerminal(s.name))
			}
		}
		prods = append(prods, &grammar.Production{Head: grammar.NonTerminal(p.head), Body: bodies[i]})
	}
	return grammar.NewCFG(terms, nts, prods, grammar.NonTerminal(start))
}

// frameOps: also build the LR parsing tables (flag -frame, used by C09)
var frameOps bool

// lrEvery: in the exhaustive batch the LR tables are built for every lrEvery-th grammar only
var lrEvery, emitted = 1, 0

// guarded runs f under recover and a watchdog.
var hung int

func guarded(f func() string) string { return guardedT(f, 10*time.Second) }

func guardedT(f func() string, limit time.Duration) string {
	ch := make(chan string, 1)
	go func() {
		defer func() {
			if r := recover(); r != nil {
				msg := fmt.Sprint(r)
				switch {
				case strings.Contains(msg, "Failed to generate a new non-terminal"):
					msg = "out-of-names"
				case strings.Contains(msg, "nil pointer"):
					msg = "nil-dereference"
				case strings.Contains(msg, "index out of range"), strings.Contains(msg, "slice bounds"):
					msg = "index-out-of-range"
				default:
					msg = strings.Map(func(r rune) rune {
						if r == '|' || r == '>' || r == ' ' || r == '\n' {
							return '_'
						}
						return r
					}, msg)
					if len(msg) > 60 {
						msg = msg[:60]
					}
				}
				ch <- "PANIC:" + msg
			}
		}()
		ch <- f()
	}()
	select {
	case r := <-ch:
		return r
	case <-time.After(limit):
		hung++
		return "HANG"
	}
}

func b(x bool) string {
	if x {
		return "t"
	}
	return "f"
}

func transform(g, ref *grammar.CFG, op string) string {
	extra := ""
	res := transform1(g, ref, op, &extra)
	if op == "ELR" && res == "HANG" {
		// Paull's algorithm is exponential in the worst case even on small cycle-free grammars: the
		// watchdog firing here is a time-out of this harness, not a hang (C08/C09 do not bound time)
		hung--
		return "TIMEOUT" + extra
	}
	if strings.HasPrefix(res, "PANIC") || res == "HANG" {
		// keep what was observed before the failure (the order used by EliminateLeftRecursion)
		return res + extra
	}
	return res
}

func transform1(g, clone *grammar.CFG, op string, extraOut *string) string {
	limit := 10 * time.Second
	if op == "ELR" {
		limit = 3 * time.Second // exponential cases are cut early (reported as TIMEOUT)
	}
	return guardedT(func() string {
		var out *grammar.CFG
		extra := ""
		switch op {
		case "DEL":
			out = g.EliminateEmptyProductions()
		case "UNIT":
			out = g.EliminateSingleProductions()
		case "UNREACH":
			out = g.EliminateUnreachableProductions()
		case "CYCLES":
			out = g.EliminateCycles()
		case "ELR":
			// the order EliminateLeftRecursion will use: OrderNonTerminals of the cycle-free grammar
			_, _, ord := g.EliminateCycles().OrderNonTerminals()
			os := make([]string, len(ord))
			for i, n := range ord {
				os[i] = hx(string(n))
			}
			extra = " order=" + strings.Join(os, ",")
			*extraOut = extra
			out = g.EliminateLeftRecursion()
		case "LF":
			out = g.LeftFactor()
		case "CNF":
			out = g.ChomskyNormalForm()
			extra = " cnf=" + b(out.IsCNF() == nil)
		case "START":
			out = grammar.VerifEliminateStartSymbolFromRight(g)
		case "TERM":
			out = grammar.VerifEliminateNonSolitaryTerminals(g)
		case "BIN":
			out = grammar.VerifEliminateNonBinaryProductions(g)
		default:
			return "?"
		}
		// outputs of exponential size (EliminateLeftRecursion, ε-elimination) are not compared:
		// neither C08 nor C09 bounds the size, and the list-based model would take minutes
		np := 0
		for range out.Productions.All() {
			np++
		}
		if np > 2500 {
			return fmt.Sprintf("LARGE n=%d eq=%s", np, b(g.Equal(clone) && clone.Equal(g)))
		}
		return "ok " + encGrammar(out) + " eq=" + b(g.Equal(clone) && clone.Equal(g)) + " v=" + b(out.Verify() == nil) + extra
	}, limit)
}

func other(g, clone *grammar.CFG, op string) string {
	res := other1(g, clone, op)
	if (op == "LRC" || op == "LRL" || op == "LRS") && res == "HANG" {
		hung-- // LR(1) automata can be large: a time-out of this harness, not a hang
		return "TIMEOUT"
	}
	return res
}

func other1(g, clone *grammar.CFG, op string) string {
	return guarded(func() string {
		switch op {
		case "NULLABLE":
			var ns []string
			for n := range g.NullableNonTerminals().All() {
				ns = append(ns, string(n))
			}
			return "ok N=" + hxList(ns)
		case "PBT":
			_, _ = predictive.BuildParsingTable(g)
		case "LR0":
			_ = lr.NewGrammarWithLR0(g)
		case "LR1":
			_ = lr.NewGrammarWithLR1(g)
		case "LR0K":
			_ = lr.NewGrammarWithLR0Kernel(g)
		case "LR1K":
			_ = lr.NewGrammarWithLR1Kernel(g)
		case "LRC":
			_, _ = canonical.BuildParsingTable(g, lr.PrecedenceLevels{})
		case "LRL":
			_, _ = lookahead.BuildParsingTable(g, lr.PrecedenceLevels{})
		case "LRS":
			_, _ = simple.BuildParsingTable(g, lr.PrecedenceLevels{})
		default:
			return "?"
		}
		return "ok eq=" + b(g.Equal(clone) && clone.Equal(g))
	})
}

func suffixes() string {
	p, a, n := grammar.VerifSuffixes()
	f := func(ss []string) string {
		out := make([]string, len(ss))
		for i, s := range ss {
			out[i] = hx(s)
		}
		return strings.Join(out, ",")
	}
	return "ok prime=" + f(p) + " alpha=" + f(a) + " numeric=" + f(n)
}

var allOps = []string{"NULLABLE", "DEL", "UNIT", "UNREACH", "CYCLES", "ELR", "LF", "START", "TERM", "BIN", "CNF", "PBT", "LR0", "LR1", "LR0K", "LR1K", "LRS", "LRL", "LRC"}

type gcase struct {
	shared bool // bodies share backing arrays / have spare capacity (header M=s)
	start  string
	extraT []string
	prods  []prod
}

func header(c gcase) string {
	h := "S=" + hx(c.start)
	if c.shared {
		h += " M=s"
	}
	if len(c.extraT) > 0 {
		h += " T=" + hxList(append([]string(nil), c.extraT...))
	}
	return h
}

// runCase executes ops (P ops and transformation ops in any order) on the real code.
func runCase(w *tr.W, head string, ops []string) {
	c := gcase{}
	for _, f := range strings.Fields(head) {
		if strings.HasPrefix(f, "S=") {
			c.start = unhx(f[2:])
		} else if f == "M=s" {
			c.shared = true
		} else if strings.HasPrefix(f, "T=") && len(f) > 2 {
			for _, t := range strings.Split(f[2:], ",") {
				c.extraT = append(c.extraT, unhx(t))
			}
		}
	}
	for _, op := range ops {
		if strings.HasPrefix(op, "P ") {
			if p, ok := decProd(strings.TrimSpace(op[2:])); ok {
				c.prods = append(c.prods, p)
			}
		}
	}
	// ref is never handed to the code under test: it is the "clone taken before the call", built
	// independently so that it shares no backing array with the receiver
	ref := build(c.start, c.extraT, c.prods)
	valid := ref.Verify() == nil
	w.Begin("%s", header(c))
	for _, op := range ops {
		name := strings.Fields(op)[0]
		switch {
		case name == "P":
			w.Op(op, "-")
		case name == "SUFFIXES":
			w.Op(op, suffixes())
		case !valid:
			w.Op(name, "INVALID")
		case name == "NULLABLE" || name == "PBT" || strings.HasPrefix(name, "LR"):
			w.Op(name, other(buildLayout(c.start, c.extraT, c.prods, c.shared), ref, name))
		default:
			w.Op(name, transform(buildLayout(c.start, c.extraT, c.prods, c.shared), ref, name))
		}
		if hung > 3 {
			w.Flush()
			os.Exit(4)
		}
	}
	w.End()
}

// tooBig: the ε-elimination of this grammar has more than limit productions (2^k bodies for a
// body with k nullable positions); such inputs only measure the exponential size of the output.
func delSize(g *grammar.CFG) int {
	nl := g.NullableNonTerminals()
	total := 0
	for p := range g.Productions.All() {
		n := 1
		for _, s := range p.Body {
			if v, ok := s.(grammar.NonTerminal); ok && nl.Contains(v) {
				n *= 2
			}
		}
		total += n
	}
	return total
}

func emit(w *tr.W, c gcase, ops []string) bool {
	g := build(c.start, c.extraT, c.prods)
	if g.Verify() != nil {
		return false
	}
	if delSize(g) > 400 {
		return false
	}
	var all []string
	for _, p := range c.prods {
		all = append(all, "P "+encProd(p))
	}
	for _, op := range ops {
		if op == "ELR" {
			// Paull's algorithm is exponential in the worst case: run it only on inputs whose
			// cycle-free form is small (the time bound is not part of C08/C09)
			cf := g.EliminateCycles()
			n, l := 0, 0
			for p := range cf.Productions.All() {
				n++
				l += len(p.Body)
			}
			if n > 40 || l > 160 {
				continue
			}
		}
		if op == "LRC" || op == "LRL" || op == "LRS" {
			// LR automata (canonical LR(1) in particular) are built only in the frame batches of C09
			// (-frame) and only for small grammars
			l := 0
			for _, p := range c.prods {
				l += len(p.body) + 1
			}
			if !frameOps || len(c.prods) > 8 || l > 30 || (lrEvery > 1 && emitted%lrEvery != 0) {
				continue
			}
		}
		all = append(all, op)
	}
	emitted++
	runCase(w, header(c), all)
	return true
}

// ---------------------------------------------------------------- generators

func T(n string) sym { return sym{true, n} }
func NT(n string) sym { return sym{false, n} }

// all bodies of length <= maxLen over the alphabet
func bodies(alpha []sym, maxLen int) [][]sym {
	res := [][]sym{{}}
	prev := [][]sym{{}}
	for l := 1; l <= maxLen; l++ {
		var cur [][]sym
		for _, b := range prev {
			for _, s := range alpha {
				nb := append(append([]sym{}, b...), s)
				cur = append(cur, nb)
			}
		}
		res = append(res, cur...)
		prev = cur
	}
	return res
}

// alternatives: every set of 1..maxAlt distinct bodies (as index lists)
func altSets(n, maxAlt int) [][]int {
	var res [][]int
	for i := 0; i < n; i++ {
		res = append(res, []int{i})
	}
	if maxAlt >= 2 {
		for i := 0; i < n; i++ {
			for j := i + 1; j < n; j++ {
				res = append(res, []int{i, j})
			}
		}
	}
	return res
}

// exhaustive: every grammar with the given non-terminals (first = start), terminals,
// <= maxAlt alternatives per non-terminal, bodies of length <= maxLen; stride > 1 samples
// every stride-th grammar of the enumeration (offset from the seed).
func exhaustive(w *tr.W, nts []string, terms []string, maxAlt, maxLen int, stride, offset int, ops []string) {
	var alpha []sym
	for _, t := range terms {
		alpha = append(alpha, T(t))
	}
	for _, n := range nts {
		alpha = append(alpha, NT(n))
	}
	bs := bodies(alpha, maxLen)
	as := altSets(len(bs), maxAlt)
	idx := make([]int, len(nts))
	count := 0
	for {
		if count%stride == offset%stride {
			c := gcase{start: nts[0]}
			for k, n := range nts {
				for _, bi := range as[idx[k]] {
					c.prods = append(c.prods, prod{n, bs[bi]})
				}
			}
			emit(w, c, ops)
		}
		count++
		k := 0
		for k < len(idx) {
			idx[k]++
			if idx[k] < len(as) {
				break
			}
			idx[k] = 0
			k++
		}
		if k == len(idx) {
			return
		}
	}
}

var ntNames = []string{"S", "A", "B", "C", "D", "E"}
var odd = []string{"S′", "A₁", "Aₙ", "S″", "B′", "A₁₂", "\"a\"", "$"}

func randomGrammar(r *rng.R) gcase {
	nn := r.Range(1, 5)
	if r.Chance(1, 10) {
		nn = 6
	}
	nts := append([]string{}, ntNames[:nn]...)
	if r.Chance(1, 8) {
		// names that concatenate ambiguously (A B vs AB, AB A vs A BA ...): anything keyed by the
		// concatenated renderings of a body confuses different bodies
		pool := []string{"S", "A", "B", "AB", "BA", "ABA"}
		if nn > len(pool) {
			nn = len(pool)
		}
		nts = append([]string{}, pool[:nn]...)
		if nn >= 4 && r.Bool() {
			nts[1], nts[3] = nts[3], nts[1]
		}
	} else if r.Chance(1, 6) { // names that already carry a suffix: exercises the suffix trimming / collisions
		for i := range nts {
			if r.Chance(1, 3) {
				nts[i] = odd[r.Intn(len(odd))]
			}
		}
		seen := map[string]bool{}
		var u []string
		for _, n := range nts {
			if !seen[n] {
				seen[n] = true
				u = append(u, n)
			}
		}
		nts = u
		nn = len(nts)
	}
	nt := r.Range(1, 3)
	terms := append([]string{}, []string{"a", "b", "c"}[:nt]...)
	if r.Chance(1, 5) {
		// terminals spelled like non-terminals of this grammar (also like suffixed names): a terminal
		// "A" is not the non-terminal A (IsLeftRecursive, starts-with tests, TERM's NonTerminal(t))
		for i := range terms {
			if r.Chance(1, 2) {
				if r.Chance(2, 3) {
					terms[i] = nts[r.Intn(nn)]
				} else {
					terms[i] = nts[r.Intn(nn)] + []string{"′", "₁", "ₙ"}[r.Intn(3)]
				}
			}
		}
		seenT := map[string]bool{}
		var ut []string
		for _, t := range terms {
			if !seenT[t] {
				seenT[t] = true
				ut = append(ut, t)
			}
		}
		terms = ut
		nt = len(terms)
	}
	if r.Chance(1, 12) {
		// the endmarker used as an ordinary terminal of the caller's grammar, half of the time together
		// with the distinct ordinary terminal "$" (both render as $ through Name())
		if nt >= 2 && r.Bool() {
			terms[0] = "$"
		}
		terms[nt-1] = string(grammar.Endmarker)
		seenT := map[string]bool{}
		var ut []string
		for _, t := range terms {
			if !seenT[t] {
				seenT[t] = true
				ut = append(ut, t)
			}
		}
		terms = ut
		nt = len(terms)
	}
	maxBody := []int{2, 3, 4, 6, 8}[r.Intn(5)]
	pNull := r.Intn(4)   // weight of ε alternatives
	pUnit := r.Intn(4)   // weight of unit alternatives
	pLeft := r.Intn(4)   // weight of left-recursive alternatives
	pPrefix := r.Intn(4) // weight of alternatives sharing a prefix with an earlier one
	pNT := r.Range(2, 7) // out of 10: a body symbol is a non-terminal
	randSym := func() sym {
		if r.Intn(10) < pNT {
			return NT(nts[r.Intn(nn)])
		}
		return T(terms[r.Intn(nt)])
	}
	randBody := func(n int) []sym {
		b := make([]sym, n)
		for i := range b {
			b[i] = randSym()
		}
		return b
	}
	c := gcase{start: nts[0]}
	for i, A := range nts {
		alts := r.Range(1, 4)
		if r.Chance(1, 4) {
			alts = r.Range(4, 6)
		}
		var mine [][]sym
		for k := 0; k < alts; k++ {
			var body []sym
			x := r.Intn(12)
			switch {
			case x < pNull:
				body = []sym{}
			case x < pNull+pUnit:
				body = []sym{NT(nts[r.Intn(nn)])}
			case x < pNull+pUnit+pLeft:
				// direct (A -> A α) or indirect (A -> B α with B earlier or later) left recursion
				first := A
				if r.Bool() {
					first = nts[r.Intn(nn)]
				}
				body = append([]sym{NT(first)}, randBody(r.Range(0, maxBody-1))...)
			case x < pNull+pUnit+pLeft+pPrefix && len(mine) > 0:
				base := mine[r.Intn(len(mine))]
				keep := 0
				if len(base) > 0 {
					keep = r.Range(1, len(base))
				}
				body = append(append([]sym{}, base[:keep]...), randBody(r.Range(0, 2))...)
			default:
				body = randBody(r.Range(1, maxBody))
			}
			mine = append(mine, body)
			c.prods = append(c.prods, prod{A, body})
		}
		_ = i
	}
	if r.Chance(1, 6) {
		// ε + a factorable group + an alternative with a first symbol of its own, on one head
		// (LeftFactor clears the head and rebuilds it from the groups: nothing may get lost)
		A := nts[r.Intn(nn)]
		x := T(terms[r.Intn(nt)])
		y := NT(nts[r.Intn(nn)])
		c.prods = append(c.prods, prod{A, []sym{}},
			prod{A, append([]sym{x}, randBody(r.Range(0, 2))...)},
			prod{A, append([]sym{x}, randBody(r.Range(1, 3))...)},
			prod{A, []sym{y, T(terms[r.Intn(nt)])}})
	}
	if r.Chance(1, 8) {
		c.extraT = []string{"z"}
	}
	// one third of the receivers hold bodies that share backing arrays / have spare capacity
	c.shared = r.Chance(1, 3)
	if r.Chance(1, 8) {
		// endmarker declared (unused) among the caller's terminals
		c.extraT = append(c.extraT, string(grammar.Endmarker))
	}
	return c
}

// adversarial shapes named in DESIGN §4 C08/C09 and §5
func adversarial(w *tr.W, r *rng.R, n int, ops []string) {
	for i := 0; i < n; i++ {
		var c gcase
		switch i % 14 {
		case 0: // long body, every position nullable (D08a)
			k := r.Range(4, 8)
			c.start = "S"
			body := []sym{}
			for j := 0; j < k; j++ {
				A := ntNames[1+j%5]
				body = append(body, NT(A))
			}
			if r.Bool() {
				body = append(body, T("c"))
			}
			c.prods = append(c.prods, prod{"S", body})
			for j := 1; j <= 5 && j <= k; j++ {
				c.prods = append(c.prods, prod{ntNames[j], []sym{}})
				if r.Bool() {
					c.prods = append(c.prods, prod{ntNames[j], []sym{T([]string{"a", "b"}[r.Intn(2)])}})
				}
			}
		case 1: // unit cycle with exits
			k := r.Range(2, 4)
			c.start = "S"
			for j := 0; j < k; j++ {
				c.prods = append(c.prods, prod{ntNames[j], []sym{NT(ntNames[(j+1)%k])}})
				if r.Bool() || j == 0 {
					c.prods = append(c.prods, prod{ntNames[j], []sym{T("a"), NT(ntNames[r.Intn(k)])}})
				}
			}
			c.prods = append(c.prods, prod{ntNames[r.Intn(k)], []sym{T("b")}})
		case 2: // indirect left recursion through a chain S -> A .., A -> B .., B -> S ..
			k := r.Range(2, 4)
			c.start = "S"
			for j := 0; j < k; j++ {
				c.prods = append(c.prods, prod{ntNames[j], []sym{NT(ntNames[(j+1)%k]), T([]string{"a", "b"}[j%2])}})
				c.prods = append(c.prods, prod{ntNames[j], []sym{T([]string{"b", "a", "c"}[j%3])}})
			}
		case 3: // nested common prefixes
			c.start = "S"
			pre := []sym{}
			k := r.Range(2, 5)
			for j := 0; j < k; j++ {
				pre = append(pre, T([]string{"a", "b"}[r.Intn(2)]))
				alt := append(append([]sym{}, pre...), T("c"))
				c.prods = append(c.prods, prod{"S", alt})
			}
			if r.Bool() {
				c.prods = append(c.prods, prod{"S", []sym{T("c"), NT("S")}})
			}
		case 4: // ε-only, unit-only and purely left-recursive non-terminals (D09c, D08b)
			c.start = "S"
			c.prods = append(c.prods, prod{"S", []sym{NT("A"), T("b")}}, prod{"S", []sym{T("b"), NT("B")}}, prod{"S", []sym{T("a")}})
			switch r.Intn(3) {
			case 0:
				c.prods = append(c.prods, prod{"A", []sym{}}, prod{"B", []sym{T("b")}})
			case 1:
				c.prods = append(c.prods, prod{"A", []sym{T("a")}}, prod{"B", []sym{NT("B")}})
			default:
				c.prods = append(c.prods, prod{"A", []sym{NT("A"), T("a")}}, prod{"B", []sym{}})
			}
		case 6: // two or three distinct factorable prefixes per head plus singleton alternatives (LeftFactor)
			c.start = "S"
			tn := []string{"if", "id", "x", "y"}
			groups := r.Range(2, 3)
			for gi := 0; gi < groups; gi++ {
				pre := []sym{T(tn[gi])}
				if r.Bool() {
					pre = append(pre, T("e"))
				}
				k := r.Range(2, 3)
				for j := 0; j < k; j++ {
					suf := []sym{}
					for l := 0; l <= j; l++ {
						suf = append(suf, T([]string{"a", "b", "c", "d"}[(gi*2+j+l)%4]))
					}
					if r.Chance(1, 3) {
						suf = append(suf, NT("S"))
					}
					c.prods = append(c.prods, prod{"S", append(append([]sym{}, pre...), suf...)})
				}
			}
			c.prods = append(c.prods, prod{"S", []sym{T("skip")}})
			if r.Bool() {
				c.prods = append(c.prods, prod{"S", []sym{}}) // ε next to the groups and the singleton
			}
			if r.Bool() {
				c.prods = append(c.prods, prod{"S", []sym{T("z"), NT("S")}})
			}
		case 7: // terminals spelled like non-terminals, at body position 0 and elsewhere
			c.start = "L"
			c.prods = append(c.prods,
				prod{"L", []sym{T("L"), T("("), NT("I"), T(")")}}, prod{"L", []sym{T("nil")}},
				prod{"I", []sym{NT("L")}}, prod{"I", []sym{NT("L"), T(","), NT("I")}}, prod{"I", []sym{T("n")}})
			switch r.Intn(3) {
			case 0:
				c.prods = append(c.prods, prod{"I", []sym{T("I"), NT("I")}})
			case 1:
				c.prods = append(c.prods, prod{"L", []sym{NT("L"), T("L")}})
			default:
				c.prods = append(c.prods, prod{"I", []sym{T("L′"), T("I")}})
			}
		case 8: // the endmarker as a terminal of the caller's grammar, used in a body or only declared
			c.start = "P"
			em := string(grammar.Endmarker)
			if r.Bool() {
				c.prods = append(c.prods, prod{"P", []sym{NT("S"), T(em)}})
			} else {
				c.prods = append(c.prods, prod{"P", []sym{NT("S")}})
				c.extraT = []string{em}
			}
			c.prods = append(c.prods, prod{"S", []sym{T("a"), NT("S")}}, prod{"S", []sym{T("b")}})
			if r.Bool() {
				c.prods = append(c.prods, prod{"S", []sym{}})
			}
		case 9: // bodies that are prefix slices of a longer body and end in a non-terminal (shared layout)
			c.start = "S"
			c.shared = true
			long := []sym{T("a"), NT("B"), T("c")}
			if r.Bool() {
				long = []sym{NT("B"), T("a"), NT("B"), T("c"), T("a")}
			}
			k := r.Range(1, len(long)-1)
			c.prods = append(c.prods, prod{"S", append([]sym{}, long[:k]...)}, prod{"S", long}, prod{"B", []sym{T("b")}})
			if r.Bool() {
				c.prods = append(c.prods, prod{"B", append([]sym{}, long[:r.Range(1, len(long)-1)]...)})
			}
		case 10: // two distinct terminals with the same Name(): the endmarker and "$", non-solitary
			c.start = "S"
			em := string(grammar.Endmarker)
			c.prods = append(c.prods, prod{"S", []sym{T("a"), T("$")}}, prod{"S", []sym{T("b"), T(em)}})
			if r.Bool() {
				c.prods = append(c.prods, prod{"S", []sym{T("$"), NT("S"), T(em)}})
			}
		case 11: // a single-production non-terminal whose body starts with an earlier one, used by a later one (ELR)
			c.start = "S"
			x, y := "a", "b"
			c.prods = append(c.prods, prod{"S", []sym{NT("A"), NT("B")}}, prod{"S", []sym{T("c")}},
				prod{"A", []sym{NT("S"), T(x)}},
				prod{"B", []sym{NT("A"), T(y)}}, prod{"B", []sym{T("c")}})
			switch r.Intn(3) {
			case 0:
				c.prods = append(c.prods, prod{"C", []sym{NT("B"), T(x)}}, prod{"S", []sym{NT("C")}})
			case 1:
				c.prods = append(c.prods, prod{"B", []sym{NT("S"), T(y), NT("A")}})
			}
		case 12: // non-terminal names that concatenate ambiguously, all nullable, in one body (DEL variants)
			c.start = "S"
			names := []string{"A", "B", "AB", "BA", "ABA"}
			k := r.Range(3, 5)
			body := []sym{}
			for j := 0; j < k; j++ {
				body = append(body, NT(names[j]))
			}
			if r.Bool() {
				body[0], body[k-1] = body[k-1], body[0]
			}
			c.prods = append(c.prods, prod{"S", body})
			for j := 0; j < k; j++ {
				c.prods = append(c.prods, prod{names[j], []sym{}}, prod{names[j], []sym{T([]string{"a", "b", "c"}[j%3])}})
			}
		case 13: // wide grammars: 14-16, 32-34, 67-69 heads (hash-table resize thresholds), one factorable head
			sizes := []int{14, 15, 16, 32, 33, 34, 67, 68, 69}
			k := sizes[(i/14)%len(sizes)]
			c.start = "S"
			c.shared = r.Bool()
			c.prods = append(c.prods, prod{"S", []sym{T("a"), NT("H1")}}, prod{"S", []sym{T("a"), NT("H2"), T("b")}}, prod{"S", []sym{T("c")}})
			for j := 1; j < k; j++ {
				h := fmt.Sprintf("H%d", j)
				if j+1 < k && r.Chance(1, 3) {
					c.prods = append(c.prods, prod{h, []sym{NT(fmt.Sprintf("H%d", j+1)), T("b")}})
				}
				c.prods = append(c.prods, prod{h, []sym{T([]string{"a", "b", "c"}[j%3])}})
			}
		default: // long bodies mixing terminals and non-terminals (TERM/BIN chains)
			c.start = "S"
			k := r.Range(3, 8)
			body := []sym{}
			for j := 0; j < k; j++ {
				if r.Bool() {
					body = append(body, T([]string{"a", "b", "c"}[r.Intn(3)]))
				} else {
					body = append(body, NT([]string{"S", "A"}[r.Intn(2)]))
				}
			}
			c.prods = append(c.prods, prod{"S", body}, prod{"S", []sym{T("a")}}, prod{"A", []sym{T("b")}}, prod{"A", []sym{}})
		}
		emit(w, c, ops)
	}
}

func main() {
	mode := flag.String("mode", "exhaustive", "exhaustive|random|adversarial")
	tier := flag.String("tier", "quick", "quick|thorough")
	replay := flag.String("replay", "", "case file to re-execute")
	flag.BoolVar(&frameOps, "frame", false, "also build the LR parsing tables (C09 frame checks)")
	flag.Parse()
	w := tr.NewW()
	defer w.Flush()
	if *replay != "" {
		cs, err := tr.ReadCases(*replay)
		if err != nil {
			fmt.Fprintln(os.Stderr, err)
			os.Exit(3)
		}
		for _, c := range cs {
			runCase(w, c.Head, c.Ops)
		}
		return
	}
	thorough := *tier == "thorough"
	r := rng.FromEnv(8)
	switch *mode {
	case "exhaustive":
		lrEvery = 5
		// the suffix lists of cfg.go, compared with the model's on every run
		runCase(w, "S="+hx("S"), []string{"P " + encProd(prod{"S", []sym{T("a")}}), "SUFFIXES"})
		off := r.Intn(1 << 20)
		if thorough {
			exhaustive(w, []string{"S"}, []string{"a", "b"}, 2, 3, 1, 0, allOps)
			exhaustive(w, []string{"S", "A"}, []string{"a"}, 2, 2, 1, 0, allOps)
			exhaustive(w, []string{"S", "A"}, []string{"a", "b"}, 2, 2, 23, off, allOps)
			exhaustive(w, []string{"S", "A", "B"}, []string{"a"}, 2, 2, 1499, off, allOps)
			exhaustive(w, []string{"S", "A", "B"}, []string{"a", "b"}, 1, 3, 2003, off, allOps)
		} else {
			exhaustive(w, []string{"S"}, []string{"a", "b"}, 2, 3, 1, 0, allOps)
			exhaustive(w, []string{"S", "A"}, []string{"a"}, 2, 2, 3, off, allOps)
			exhaustive(w, []string{"S", "A"}, []string{"a", "b"}, 2, 2, 101, off, allOps)
			exhaustive(w, []string{"S", "A", "B"}, []string{"a"}, 2, 2, 20011, off, allOps)
			exhaustive(w, []string{"S", "A", "B"}, []string{"a", "b"}, 1, 3, 30011, off, allOps)
		}
	case "random":
		n := 1000
		if thorough {
			n = 4000
		}
		for i := 0; i < n; {
			if emit(w, randomGrammar(r), allOps) {
				i++
			}
		}
	case "adversarial":
		n := 480
		if thorough {
			n = 1500
		}
		adversarial(w, r, n, allOps)
	}
}
