// Command c14 traces the graph package (Undirected, Directed, WeightedUndirected, WeightedDirected).
//
//	header:  <U|D|WU|WD> <n>
//	ops:     E v w [wt] -> -                     AddEdge (out-of-range end points are ignored by the library)
//	         TRAV <DFS|DFSi|BFS> s -> events     Traverse with recording visitors: p<v> pre, q<v> post, e<v>.<w> edge
//	         PATHS <strat> s -> p0;p1;...        Paths(s,strat).To(v) for every v: a.b.c or - (none)
//	         PATH <strat> s v -> a.b.c | - | PANIC
//	         ORD <strat> -> pre;post;rpost;prerank;postrank
//	         CC | SCC -> count;ids;components    (components: a.b/c/d)
//	         CYC -> a.b.c.a | -                  DirectedCycle().Cycle()
//	         TOPO -> order;rank | -
//	         MST -> edges;weight                 edges: v.w.wt,v.w.wt
//	         SPT s -> o0;o1;...                  PathTo(v) for every v: dist:from.to.wt,... or - ; PANIC
//	lists: "_" is the empty list, "-" is "absent".
package main

import (
	"flag"
	"fmt"
	"math"
	"os"
	"strconv"
	"strings"
	"time"

	"github.com/moorara/algo/graph"

	"verif/harness/internal/rng"
	"verif/harness/internal/tr"
)

type G struct {
	kind string
	n    int
	u    *graph.Undirected
	d    *graph.Directed
	wu   *graph.WeightedUndirected
	wd   *graph.WeightedDirected

	holds []*holdT

	// scale: every weight k of the trace is the float64 k*2^scale in the Go graph (exact), and every weight,
	// distance and total printed is multiplied back by 2^-scale (exact), so the integer model predicts it exactly
	scale int
}

func (g *G) up(k float64) float64 { return math.Ldexp(k, g.scale) }
func (g *G) dn(x float64) string  { return ff(math.Ldexp(x, -g.scale)) }

func newG(kind string, n int) *G {
	g := &G{kind: kind, n: n}
	switch kind {
	case "U":
		g.u = graph.NewUndirected(n)
	case "D":
		g.d = graph.NewDirected(n)
	case "WU":
		g.wu = graph.NewWeightedUndirected(n)
	case "WD":
		g.wd = graph.NewWeightedDirected(n)
	}
	return g
}

func strat(s string) graph.TraversalStrategy {
	switch s {
	case "DFS":
		return graph.DFS
	case "DFSi":
		return graph.DFSi
	}
	return graph.BFS
}

func ff(x float64) string { return strconv.FormatFloat(x, 'f', -1, 64) }

func dotted(xs []int) string {
	if len(xs) == 0 {
		return "_"
	}
	var b strings.Builder
	for i, x := range xs {
		if i > 0 {
			b.WriteByte('.')
		}
		b.WriteString(strconv.Itoa(x))
	}
	return b.String()
}

type pather interface{ To(int) ([]int, bool) }

func (g *G) paths(s int, st graph.TraversalStrategy) *graph.Paths {
	switch g.kind {
	case "U":
		return g.u.Paths(s, st)
	case "D":
		return g.d.Paths(s, st)
	case "WU":
		return g.wu.Paths(s, st)
	}
	return g.wd.Paths(s, st)
}

func (g *G) orders(st graph.TraversalStrategy) *graph.Orders {
	switch g.kind {
	case "U":
		return g.u.Orders(st)
	case "D":
		return g.d.Orders(st)
	case "WU":
		return g.wu.Orders(st)
	}
	return g.wd.Orders(st)
}

func (g *G) traverse(s int, st graph.TraversalStrategy, vis *graph.Visitors) {
	switch g.kind {
	case "U":
		g.u.Traverse(s, st, vis)
	case "D":
		g.d.Traverse(s, st, vis)
	case "WU":
		g.wu.Traverse(s, st, vis)
	default:
		g.wd.Traverse(s, st, vis)
	}
}

func comps(count int, id func(int) int, n int, cs [][]int) string {
	ids := make([]int, n)
	for v := 0; v < n; v++ {
		ids[v] = id(v)
	}
	var parts []string
	for _, c := range cs {
		parts = append(parts, dotted(c))
	}
	cstr := strings.Join(parts, "/")
	if len(parts) == 0 {
		cstr = "_"
	}
	return fmt.Sprintf("%d;%s;%s", count, dotted(ids), cstr)
}

type holdT struct {
	f    []string
	obj  any
	used bool
	out  string
}

func atoi(s string) int { v, _ := strconv.Atoi(s); return v }

// build creates the result object of a query op (nil, false when the op does not apply to this graph kind).
func (g *G) build(f []string) (any, bool) {
	switch f[0] {
	case "PATHS":
		return g.paths(atoi(f[2]), strat(f[1])), true
	case "ORD":
		return g.orders(strat(f[1])), true
	case "CC":
		if g.kind == "U" {
			return g.u.ConnectedComponents(), true
		} else if g.kind == "WU" {
			return g.wu.ConnectedComponents(), true
		}
	case "SCC":
		if g.kind == "D" {
			return g.d.StronglyConnectedComponents(), true
		} else if g.kind == "WD" {
			return g.wd.StronglyConnectedComponents(), true
		}
	case "CYC":
		if g.kind == "D" {
			return g.d.DirectedCycle(), true
		}
	case "TOPO":
		if g.kind == "D" {
			return g.d.Topological(), true
		}
	case "MST":
		if g.kind == "WU" {
			return g.wu.MinimumSpanningTree(), true
		}
	case "SPT":
		if g.kind == "WD" {
			return g.wd.ShortestPathTree(atoi(f[1])), true
		}
	}
	return nil, false
}

// render queries a result object completely and prints it.
func (g *G) render(f []string, obj any) string {
	switch f[0] {
	case "PATHS":
		p := obj.(*graph.Paths)
		out := make([]string, 0, g.n)
		for v := 0; v < g.n; v++ {
			if path, ok := p.To(v); ok {
				out = append(out, dotted(path))
			} else {
				out = append(out, "-")
			}
		}
		if len(out) == 0 {
			return "_"
		}
		return strings.Join(out, ";")
	case "ORD":
		o := obj.(*graph.Orders)
		pr, po := make([]int, g.n), make([]int, g.n)
		for v := 0; v < g.n; v++ {
			pr[v], po[v] = o.PreRank(v), o.PostRank(v)
		}
		return strings.Join([]string{dotted(o.PreOrder()), dotted(o.PostOrder()), dotted(o.ReversePostOrder()), dotted(pr), dotted(po)}, ";")
	case "CC":
		c := obj.(*graph.ConnectedComponents)
		cs := c.Components()
		return comps(len(cs), c.ID, g.n, cs)
	case "SCC":
		c := obj.(*graph.StronglyConnectedComponents)
		cs := c.Components()
		return comps(len(cs), c.ID, g.n, cs)
	case "CYC":
		if c, ok := obj.(*graph.DirectedCycle).Cycle(); ok {
			return dotted(c)
		}
		return "-"
	case "TOPO":
		t := obj.(*graph.Topological)
		order, ok := t.Order()
		if !ok {
			if _, ok2 := t.Rank(0); ok2 {
				return "INCONSISTENT"
			}
			return "-"
		}
		rank := make([]int, g.n)
		for v := 0; v < g.n; v++ {
			rank[v], _ = t.Rank(v)
		}
		return dotted(order) + ";" + dotted(rank)
	case "MST":
		m := obj.(*graph.MinimumSpanningTree)
		var es []string
		for _, e := range m.Edges() {
			v := e.Either()
			w := e.Other(v)
			es = append(es, fmt.Sprintf("%d.%d.%s", v, w, g.dn(e.Weight())))
		}
		s := strings.Join(es, ",")
		if len(es) == 0 {
			s = "_"
		}
		return s + ";" + g.dn(m.Weight())
	case "SPT":
		t := obj.(*graph.ShortestPathTree)
		out := make([]string, 0, g.n)
		for v := 0; v < g.n; v++ {
			path, dist, ok := t.PathTo(v)
			if !ok {
				out = append(out, "-")
				continue
			}
			var es []string
			for _, e := range path {
				es = append(es, fmt.Sprintf("%d.%d.%s", e.From(), e.To(), g.dn(e.Weight())))
			}
			s := strings.Join(es, ",")
			if len(es) == 0 {
				s = "_"
			}
			out = append(out, g.dn(dist)+":"+s)
		}
		if len(out) == 0 {
			return "_"
		}
		return strings.Join(out, ";")
	}
	return "?"
}

func parseEdges(s string) []edge {
	var es []edge
	if s == "_" || s == "" {
		return es
	}
	for _, t := range strings.Split(s, ";") {
		p := strings.Split(t, ",")
		e := edge{v: atoi(p[0]), w: atoi(p[1])}
		if len(p) > 2 {
			e.wt = atoi(p[2])
		}
		es = append(es, e)
	}
	return es
}

// adj dumps E() and every adjacency list as the library returns them.
func (g *G) adj() string {
	out := []string{}
	wl := func(es []string) string {
		if len(es) == 0 {
			return "_"
		}
		return strings.Join(es, ",")
	}
	ecount := 0
	for v := 0; v < g.n; v++ {
		var es []string
		switch g.kind {
		case "U":
			out = append(out, dotted(g.u.Adj(v)))
			continue
		case "D":
			out = append(out, dotted(g.d.Adj(v)))
			continue
		case "WU":
			for _, e := range g.wu.Adj(v) {
				a := e.Either()
				es = append(es, fmt.Sprintf("%d.%d.%s", a, e.Other(a), g.dn(e.Weight())))
			}
		case "WD":
			for _, e := range g.wd.Adj(v) {
				es = append(es, fmt.Sprintf("%d.%d.%s", e.From(), e.To(), g.dn(e.Weight())))
			}
		}
		out = append(out, wl(es))
	}
	switch g.kind {
	case "U":
		ecount = g.u.E()
	case "D":
		ecount = g.d.E()
	case "WU":
		ecount = g.wu.E()
	case "WD":
		ecount = g.wd.E()
	}
	return strings.Join(append([]string{strconv.Itoa(ecount)}, out...), ";")
}

// run executes one op on the real implementation and returns the observed result.
func (g *G) run(op string) string {
	f := strings.Fields(op)
	a := func(i int) int { return atoi(f[i]) }
	switch f[0] {
	case "NEW":
		// construction through the variadic constructor
		var es []edge
		if len(f) > 1 {
			es = parseEdges(f[1])
		}
		switch g.kind {
		case "U":
			l := make([][2]int, len(es))
			for i, e := range es {
				l[i] = [2]int{e.v, e.w}
			}
			g.u = graph.NewUndirected(g.n, l...)
		case "D":
			l := make([][2]int, len(es))
			for i, e := range es {
				l[i] = [2]int{e.v, e.w}
			}
			g.d = graph.NewDirected(g.n, l...)
		case "WU":
			l := make([]graph.UndirectedEdge, len(es))
			for i, e := range es {
				l[i] = graph.VerifUndirectedEdge(e.v, e.w, g.up(float64(e.wt)))
			}
			g.wu = graph.NewWeightedUndirected(g.n, l...)
		case "WD":
			l := make([]graph.DirectedEdge, len(es))
			for i, e := range es {
				l[i] = graph.VerifDirectedEdge(e.v, e.w, g.up(float64(e.wt)))
			}
			g.wd = graph.NewWeightedDirected(g.n, l...)
		}
		return "-"
	case "ADJ":
		return g.adj()
	case "HOLD":
		obj, ok := g.build(f[1:])
		if !ok {
			return "NA"
		}
		g.holds = append(g.holds, &holdT{f: append([]string(nil), f[1:]...), obj: obj})
		return "-"
	case "USE":
		i := a(1)
		if i < 0 || i >= len(g.holds) {
			return "NA"
		}
		h := g.holds[i]
		h.out = g.render(h.f, h.obj)
		h.used = true
		return h.out
	case "E":
		wt := 0.0
		if len(f) > 3 {
			wt, _ = strconv.ParseFloat(f[3], 64)
			wt = g.up(wt)
		}
		switch g.kind {
		case "U":
			g.u.AddEdge(a(1), a(2))
		case "D":
			g.d.AddEdge(a(1), a(2))
		case "WU":
			g.wu.AddEdge(graph.VerifUndirectedEdge(a(1), a(2), wt))
		case "WD":
			g.wd.AddEdge(graph.VerifDirectedEdge(a(1), a(2), wt))
		}
		return "-"
	case "TRAV":
		var ev []string
		vis := &graph.Visitors{
			VertexPreOrder:  func(v int) bool { ev = append(ev, "p"+strconv.Itoa(v)); return true },
			VertexPostOrder: func(v int) bool { ev = append(ev, "q"+strconv.Itoa(v)); return true },
			EdgePreOrder: func(v, w int, _ float64) bool {
				ev = append(ev, "e"+strconv.Itoa(v)+"."+strconv.Itoa(w))
				return true
			},
		}
		g.traverse(a(2), strat(f[1]), vis)
		if len(ev) == 0 {
			return "_"
		}
		return strings.Join(ev, ",")
	case "PLEN":
		// number of edges of Paths(s,strat).To(v) for every v (-1: no path); for graphs too large to print all paths
		p := g.paths(a(2), strat(f[1]))
		ls := make([]int, g.n)
		for v := 0; v < g.n; v++ {
			if path, ok := p.To(v); ok {
				ls[v] = len(path) - 1
			} else {
				ls[v] = -1
			}
		}
		return dotted(ls)
	case "PATH":
		p := g.paths(a(2), strat(f[1]))
		if path, ok := p.To(a(3)); ok {
			return dotted(path)
		}
		return "-"
	}
	obj, ok := g.build(f)
	if !ok {
		return "NA"
	}
	return g.render(f, obj)
}

var stuck int

// guarded runs one op under recover and a watchdog.
func (g *G) guarded(op string) string {
	ch := make(chan string, 1)
	go func() {
		defer func() {
			if r := recover(); r != nil {
				msg := fmt.Sprint(r)
				msg = strings.NewReplacer("|", "/", "->", "=>", "\n", " ").Replace(msg)
				if len(msg) > 60 {
					msg = msg[:60]
				}
				ch <- "PANIC:" + msg
			}
		}()
		ch <- g.run(op)
	}()
	select {
	case r := <-ch:
		return r
	case <-time.After(3 * time.Second):
		stuck++
		return "HANG"
	}
}

func runCase(w *tr.W, kind string, n int, ops []string) { runCaseS(w, kind, n, 0, ops) }

// runCaseS: header "<kind> <n> [s<exp>]"; with s<exp> all weights are scaled by 2^exp inside the Go graph.
func runCaseS(w *tr.W, kind string, n int, scale int, ops []string) {
	if scale != 0 {
		w.Begin("%s %d s%d", kind, n, scale)
	} else {
		w.Begin("%s %d", kind, n)
	}
	g := newG(kind, n)
	g.scale = scale
	for _, op := range ops {
		r := g.guarded(op)
		w.Op(op, r)
		if r == "HANG" {
			break
		}
	}
	w.End()
	if stuck > 0 {
		// the stuck goroutine keeps spinning (and possibly allocating): stop here, the last traced case is the culprit
		w.Flush()
		os.Exit(4)
	}
}

var strats = []string{"DFS", "DFSi", "BFS"}

func weighted(kind string) bool  { return kind == "WU" || kind == "WD" }
func directedK(kind string) bool { return kind == "D" || kind == "WD" }

type edge struct{ v, w, wt int }

func edgeOps(kind string, es []edge) []string {
	ops := make([]string, 0, len(es)+16)
	for _, e := range es {
		if weighted(kind) {
			ops = append(ops, fmt.Sprintf("E %d %d %d", e.v, e.w, e.wt))
		} else {
			ops = append(ops, fmt.Sprintf("E %d %d", e.v, e.w))
		}
	}
	return ops
}

// battery: every query of the property on the current graph: all sources x all strategies.
func battery(kind string, n int, sources []int, trav bool) []string {
	var ops []string
	for _, s := range sources {
		for _, st := range strats {
			ops = append(ops, fmt.Sprintf("PATHS %s %d", st, s))
			if trav {
				ops = append(ops, fmt.Sprintf("TRAV %s %d", st, s))
			}
		}
	}
	for _, st := range strats {
		ops = append(ops, "ORD "+st)
	}
	if directedK(kind) {
		ops = append(ops, "SCC")
	} else {
		ops = append(ops, "CC")
	}
	if kind == "D" {
		ops = append(ops, "CYC", "TOPO")
	}
	if kind == "WU" {
		ops = append(ops, "MST")
	}
	if kind == "WD" {
		for _, s := range sources {
			if s >= 0 && s < n {
				ops = append(ops, fmt.Sprintf("SPT %d", s))
			}
		}
	}
	return ops
}

func allSources(n int) []int {
	s := make([]int, n)
	for i := range s {
		s[i] = i
	}
	return s
}

// exhaustive: every multiset of at most maxE edges over n vertices (self-loops and parallel edges included),
// weights from ws; each multiset is kept with probability keepNum/keepDen (1/1 = exhaustive).
func exhaustive(w *tr.W, r *rng.R, kind string, n, maxE int, ws []int, keepNum, keepDen int) {
	var alphabet []edge
	for v := 0; v < n; v++ {
		for x := 0; x < n; x++ {
			if !directedK(kind) && x < v {
				continue
			}
			if weighted(kind) {
				for _, wt := range ws {
					alphabet = append(alphabet, edge{v, x, wt})
				}
			} else {
				alphabet = append(alphabet, edge{v, x, 0})
			}
		}
	}
	src := allSources(n)
	var rec func(start int, cur []edge)
	rec = func(start int, cur []edge) {
		if keepDen == 1 || r.Chance(keepNum, keepDen) {
			es := cur
			if r.Chance(1, 2) { // adjacency order matters for tie-breaking only: vary it
				es = append([]edge(nil), cur...)
				for i := len(es) - 1; i > 0; i-- {
					j := r.Intn(i + 1)
					es[i], es[j] = es[j], es[i]
				}
				if !directedK(kind) {
					for i := range es {
						if r.Bool() {
							es[i].v, es[i].w = es[i].w, es[i].v
						}
					}
				}
			}
			runCaseS(w, kind, n, pickScale(r, kind), append(edgeOps(kind, es), battery(kind, n, src, len(cur)%2 == 1)...))
		}
		if len(cur) == maxE {
			return
		}
		for i := start; i < len(alphabet); i++ {
			rec(i, append(cur[:len(cur):len(cur)], alphabet[i]))
		}
	}
	rec(0, nil)
}

func randomGraphs(w *tr.W, r *rng.R, kind string, cases, maxN int) {
	for c := 0; c < cases; c++ {
		n := r.Range(1, maxN)
		if r.Chance(1, 5) {
			n = r.Range(0, 6)
		}
		shape := r.Intn(7)
		m := 0
		switch r.Intn(4) {
		case 0:
			m = r.Range(0, n) // sparse: disconnected
		case 1:
			m = r.Range(n, 2*n+1)
		case 2:
			m = r.Range(0, 4*n+2)
		case 3:
			m = r.Range(0, n*n/3+2)
		}
		if m > 200 {
			m = 200
		}
		wmode := r.Intn(6)
		scale := pickScale(r, kind)
		if wmode == 5 && weighted(kind) {
			scale = -40 // mixed magnitudes: k*2^-40 together with k*2^-10 (sums stay exact in float64)
		}
		wt := func() int {
			switch wmode {
			case 5:
				if r.Bool() {
					return r.Intn(1000)
				}
				return r.Intn(1000) << 30
			case 0:
				return 0 // all zero
			case 1:
				return 7 // all equal
			case 2:
				return r.Intn(3) // many ties, zeros
			case 3:
				return r.Intn(20)
			}
			if r.Chance(1, 6) {
				return 1 << 20
			}
			return r.Intn(1 << 12)
		}
		perm := make([]int, n)
		for i := range perm {
			perm[i] = i
		}
		for i := n - 1; i > 0; i-- {
			j := r.Intn(i + 1)
			perm[i], perm[j] = perm[j], perm[i]
		}
		var es []edge
		for i := 0; i < m && n > 0; i++ {
			v, x := r.Intn(n), r.Intn(n)
			switch shape {
			case 0: // DAG: forward in a random permutation
				if v == x {
					continue
				}
				if v > x {
					v, x = x, v
				}
				v, x = perm[v], perm[x]
			case 1: // two islands
				h := n / 2
				if h > 0 && n-h > 0 {
					if r.Bool() {
						v, x = r.Intn(h), r.Intn(h)
					} else {
						v, x = h+r.Intn(n-h), h+r.Intn(n-h)
					}
				}
			case 2: // near-DAG: one back edge at the end
				if v > x {
					v, x = x, v
				}
				if i == m-1 {
					v, x = x, v
				}
			case 3: // ring + chords
				if i < n {
					v, x = perm[i], perm[(i+1)%n]
				}
			case 4: // self-loops and parallel edges frequent
				if r.Chance(1, 4) {
					x = v
				} else if len(es) > 0 && r.Chance(1, 3) {
					e := es[r.Intn(len(es))]
					v, x = e.v, e.w
				}
			case 5: // a few invalid end points (ignored by AddEdge)
				if r.Chance(1, 8) {
					x = []int{-1, n, n + 5}[r.Intn(3)]
				}
				if r.Chance(1, 16) {
					v = []int{-1, n}[r.Intn(2)]
				}
			}
			es = append(es, edge{v, x, wt()})
		}
		src := allSources(n)
		if n > 12 {
			// all sources for PATHS is affordable, but keep the case lines moderate: 12 random sources + one invalid
			src = src[:0]
			for i := 0; i < 12; i++ {
				src = append(src, r.Intn(n))
			}
		}
		if r.Chance(1, 6) {
			src = append(src, []int{-1, n, n + 3}[r.Intn(3)])
		}
		ops := edgeOps(kind, es)
		if r.Chance(1, 3) && len(es) > 0 && shape != 5 { // a prefix through the variadic constructor
			k := r.Intn(len(es) + 1)
			ops = append([]string{"NEW " + edgeList(kind, es[:k])}, edgeOps(kind, es[k:])...)
		}
		if r.Chance(1, 4) && len(ops) > 2 { // queries on an intermediate graph, then more edges
			k := r.Intn(len(ops))
			mid := battery(kind, n, src[:1], false)
			ops = append(append(append([]string(nil), ops[:k]...), mid...), ops[k:]...)
		}
		ops = append(ops, battery(kind, n, src, r.Chance(1, 3))...)
		if n > 0 && r.Chance(1, 10) {
			ops = append(ops, fmt.Sprintf("PATH BFS 0 %d", n)) // To(v) out of range panics
		}
		if kind == "WD" && r.Chance(1, 10) {
			ops = append(ops, fmt.Sprintf("SPT %d", n))
		}
		runCaseS(w, kind, n, scale, ops)
	}
}

// pickScale: weighted graphs get their integer weights scaled by an exact power of two in half of the cases
func pickScale(r *rng.R, kind string) int {
	if !weighted(kind) {
		return 0
	}
	return []int{0, 0, -40, -60}[r.Intn(4)]
}

func edgeList(kind string, es []edge) string {
	if len(es) == 0 {
		return "_"
	}
	parts := make([]string, len(es))
	for i, e := range es {
		if weighted(kind) {
			parts[i] = fmt.Sprintf("%d,%d,%d", e.v, e.w, e.wt)
		} else {
			parts[i] = fmt.Sprintf("%d,%d", e.v, e.w)
		}
	}
	return strings.Join(parts, ";")
}

func smallGraph(r *rng.R, maxN, maxM int) (int, []edge) {
	n := r.Range(2, maxN)
	m := r.Range(1, maxM)
	es := make([]edge, 0, m)
	for i := 0; i < m; i++ {
		v, x := r.Intn(n), r.Intn(n)
		if r.Chance(1, 3) && v+1 < n { // consecutive sources: neighbouring adjacency lists both non-empty
			x = r.Intn(n)
			if i%2 == 1 {
				v = v + 1
			}
		}
		es = append(es, edge{v, x, r.Intn(6)})
	}
	return n, es
}

// ctor: the graph is built by the variadic constructor from a prefix of the edge list and extended by AddEdge
// (every split point); the adjacency lists are re-read after every AddEdge.
func ctor(w *tr.W, r *rng.R, graphs int) {
	for _, kind := range []string{"U", "D", "WU", "WD"} {
		for c := 0; c < graphs; c++ {
			n, es := smallGraph(r, 6, 7)
			if c%10 == 9 {
				n, es = smallGraph(r, 30, 60)
			}
			splits := make([]int, 0, len(es)+1)
			for k := 0; k <= len(es); k++ {
				splits = append(splits, k)
			}
			if len(es) > 8 {
				splits = []int{0, 1, len(es) / 2, len(es) - 1, len(es)}
			}
			src := allSources(n)
			if n > 6 {
				src = []int{0, n / 2, n - 1}
			}
			for _, k := range splits {
				ops := []string{"NEW " + edgeList(kind, es[:k]), "ADJ"}
				for _, e := range es[k:] {
					ops = append(ops, edgeOps(kind, []edge{e})[0], "ADJ")
				}
				ops = append(ops, battery(kind, n, src, false)...)
				runCaseS(w, kind, n, pickScale(r, kind), ops)
			}
		}
	}
}

// retain: several result objects of one graph object are kept, further queries (and AddEdge) follow, then the
// EARLIER objects are read; the driver checks them against the graph as it was when they were created.
func retain(w *tr.W, r *rng.R, graphs int) {
	for _, kind := range []string{"U", "D", "WU", "WD"} {
		for c := 0; c < graphs; c++ {
			n, es := smallGraph(r, 9, 14)
			late := 0
			if len(es) > 2 {
				late = r.Intn(3)
			}
			k := r.Intn(len(es) - late + 1)
			var ops []string
			if r.Bool() {
				ops = append(ops, "NEW "+edgeList(kind, es[:k]))
				ops = append(ops, edgeOps(kind, es[k:len(es)-late])...)
			} else {
				ops = edgeOps(kind, es[:len(es)-late])
			}
			holds := 0
			hold := func(q string) { ops = append(ops, "HOLD "+q); holds++ }
			for i := 0; i < 3; i++ {
				hold(fmt.Sprintf("PATHS %s %d", strats[r.Intn(3)], r.Intn(n)))
			}
			hold("ORD " + strats[r.Intn(3)])
			if directedK(kind) {
				hold("SCC")
			} else {
				hold("CC")
			}
			if kind == "D" {
				hold("CYC")
				hold("TOPO")
			}
			if kind == "WU" {
				hold("MST")
			}
			if kind == "WD" {
				hold(fmt.Sprintf("SPT %d", r.Intn(n)))
				hold(fmt.Sprintf("SPT %d", r.Intn(n)))
			}
			interfere := func() {
				for i := 0; i < 3; i++ {
					ops = append(ops, fmt.Sprintf("PATHS %s %d", strats[r.Intn(3)], r.Intn(n)))
				}
				ops = append(ops, fmt.Sprintf("TRAV %s %d", strats[r.Intn(3)], r.Intn(n)), "ORD "+strats[r.Intn(3)])
				ops = append(ops, battery(kind, n, []int{r.Intn(n)}, false)...)
			}
			useAll := func() {
				perm := make([]int, holds)
				for i := range perm {
					perm[i] = i
				}
				for i := holds - 1; i > 0; i-- {
					j := r.Intn(i + 1)
					perm[i], perm[j] = perm[j], perm[i]
				}
				for _, i := range perm {
					ops = append(ops, fmt.Sprintf("USE %d", i))
				}
			}
			interfere()
			useAll()
			ops = append(ops, edgeOps(kind, es[len(es)-late:])...)
			if r.Bool() {
				ops = append(ops, edgeOps(kind, []edge{{r.Intn(n), r.Intn(n), r.Intn(4)}})...)
			}
			hold(fmt.Sprintf("PATHS %s %d", strats[r.Intn(3)], r.Intn(n)))
			interfere()
			useAll()
			runCaseS(w, kind, n, pickScale(r, kind), ops)
		}
	}
}

// big: chains, stars, combs around the list block size 1024.
func big(w *tr.W, r *rng.R, thorough bool) {
	sizes := []int{1020, 1024, 1025, 1026, 1030}
	if thorough {
		sizes = []int{1020, 1021, 1022, 1023, 1024, 1025, 1026, 1027, 1028, 1029, 1030, 2049, 2050}
	}
	kinds := []string{"U", "D", "WU", "WD"}
	shapes := []string{"chain", "star", "instar", "revchain", "twochains"}
	for ci, n := range sizes {
		for si, shape := range shapes {
			kind := kinds[(ci+si)%4]
			if thorough {
				kind = kinds[r.Intn(4)]
			} else if si != (2*ci)%5 && si != (2*ci+1)%5 {
				continue // quick tier: two shapes per size (every shape x kind pair comes up over the sizes)
			}
			var es []edge
			switch shape {
			case "chain":
				for v := 0; v+1 < n; v++ {
					es = append(es, edge{v, v + 1, 1 + v%3})
				}
			case "revchain":
				for v := n - 1; v > 0; v-- {
					es = append(es, edge{v, v - 1, 2})
				}
			case "star":
				for v := 1; v < n; v++ {
					es = append(es, edge{0, v, v % 5})
				}
			case "instar":
				for v := 1; v < n; v++ {
					es = append(es, edge{v, 0, 1})
				}
			case "twochains":
				h := n / 2
				for v := 0; v+1 < h; v++ {
					es = append(es, edge{v, v + 1, 1})
				}
				for v := h; v+1 < n; v++ {
					es = append(es, edge{v + 1, v, 0})
				}
			}
			ops := edgeOps(kind, es)
			srcs := []int{0, n - 1}
			if thorough {
				srcs = append(srcs, n/2)
			}
			for _, s := range srcs {
				for _, st := range strats {
					for _, v := range []int{0, n - 1, n/2 + 1, 1023 % n, 1024 % n} {
						ops = append(ops, fmt.Sprintf("PATH %s %d %d", st, s, v))
					}
				}
			}
			for _, st := range strats {
				ops = append(ops, fmt.Sprintf("TRAV %s %d", st, []int{0, n - 1}[si%2]))
				ops = append(ops, "ORD "+st)
			}
			if directedK(kind) {
				ops = append(ops, "SCC")
			} else {
				ops = append(ops, "CC")
			}
			if kind == "D" {
				ops = append(ops, "CYC", "TOPO")
				// close the chain into one big cycle
				ops = append(ops, fmt.Sprintf("E %d %d", es[len(es)-1].w, es[0].v), "CYC", "TOPO", "SCC")
			}
			if kind == "WU" {
				ops = append(ops, "MST")
			}
			if kind == "WD" {
				ops = append(ops, "SPT 0", fmt.Sprintf("SPT %d", n-1))
			}
			runCase(w, kind, n, ops)
		}
	}
}

// huge: 5000..9000 vertices: wide BFS frontiers (several list blocks of 1024 in flight) followed by long thin
// tails, lollipops, grids, random graphs with a tail; validated natively by the driver (independent BFS).
func huge(w *tr.W, r *rng.R, thorough bool) {
	type shape struct {
		name string
		gen  func() (int, []edge, int) // n, edges (oriented away from vertex 0), a vertex far down the tail
	}
	path := func(es []edge, from, start, k int) []edge {
		prev := from
		for i := 0; i < k; i++ {
			es = append(es, edge{prev, start + i, r.Intn(5)})
			prev = start + i
		}
		return es
	}
	shapes := []shape{
		{"fanpath", func() (int, []edge, int) {
			f1, f2, tail := 50+r.Intn(20), 45+r.Intn(15), 3000+r.Intn(500)
			var es []edge
			id := 1
			l1 := make([]int, f1)
			for i := range l1 {
				l1[i] = id
				es = append(es, edge{0, id, r.Intn(5)})
				id++
			}
			last := 0
			for _, p := range l1 {
				for j := 0; j < f2; j++ {
					es = append(es, edge{p, id, r.Intn(5)})
					last = id
					id++
				}
			}
			es = path(es, last, id, tail)
			return id + tail, es, id + tail - 1
		}},
		{"lollipop", func() (int, []edge, int) {
			b, tail := 5500+r.Intn(700), 2800+r.Intn(400)
			var es []edge
			for i := 1; i < b; i++ {
				es = append(es, edge{r.Intn(i), i, r.Intn(5)})
			}
			for i := 0; i < b; i++ {
				es = append(es, edge{r.Intn(b), r.Intn(b), r.Intn(5)})
			}
			es = path(es, b-1, b, tail)
			return b + tail, es, b + tail - 1
		}},
		{"grid", func() (int, []edge, int) {
			rows, cols := 65+r.Intn(15), 75+r.Intn(15)
			var es []edge
			for i := 0; i < rows; i++ {
				for j := 0; j < cols; j++ {
					v := i*cols + j
					if j+1 < cols {
						es = append(es, edge{v, v + 1, r.Intn(5)})
					}
					if i+1 < rows {
						es = append(es, edge{v, v + cols, r.Intn(5)})
					}
				}
			}
			return rows * cols, es, rows*cols - 1
		}},
		{"randtail", func() (int, []edge, int) {
			b, tail := 3500+r.Intn(1000), 2200+r.Intn(600)
			var es []edge
			for i := 1; i < b; i++ {
				lo := i - 40
				if lo < 0 {
					lo = 0
				}
				es = append(es, edge{lo + r.Intn(i-lo), i, r.Intn(5)})
			}
			for i := 0; i < 2*b; i++ {
				es = append(es, edge{r.Intn(b), r.Intn(b), r.Intn(5)})
			}
			es = path(es, b/2, b, tail)
			return b + tail, es, b + tail - 1
		}},
	}
	kinds := []string{"U", "D", "WU", "WD"}
	rounds := 1
	if thorough {
		rounds = 4
	}
	for round := 0; round < rounds; round++ {
		for si, sh := range shapes {
			for ki, kind := range kinds {
				n, es, far := sh.gen()
				var ops []string
				if (si+ki+round)%2 == 0 {
					ops = []string{"NEW " + edgeList(kind, es)}
				} else {
					ops = edgeOps(kind, es)
				}
				mid := es[len(es)/2].w
				ops = append(ops,
					"PLEN BFS 0", fmt.Sprintf("PLEN BFS %d", mid), "PLEN DFSi 0",
					fmt.Sprintf("PATH BFS 0 %d", far), fmt.Sprintf("PATH BFS 0 %d", n/2), fmt.Sprintf("PATH DFSi 0 %d", far),
					fmt.Sprintf("PATH BFS %d %d", mid, far),
					"TRAV BFS 0", fmt.Sprintf("TRAV BFS %d", mid), "ORD BFS", "ORD DFSi")
				if !directedK(kind) {
					ops = append(ops, "CC", fmt.Sprintf("PATH DFS %d 0", far))
				}
				runCase(w, kind, n, ops)
			}
		}
	}
}

func main() {
	mode := flag.String("mode", "exhaustive", "exhaustive|random|big|ctor|retain|huge")
	tier := flag.String("tier", "quick", "quick|thorough")
	replay := flag.String("replay", "", "case file to re-execute")
	flag.Parse()
	w := tr.NewW()
	defer w.Flush()
	if *replay != "" {
		cs, err := tr.ReadCases(*replay)
		if err != nil {
			fmt.Fprintln(os.Stderr, err)
			os.Exit(3)
		}
		for _, c := range cs {
			h := strings.Fields(c.Head)
			n, _ := strconv.Atoi(h[1])
			scale := 0
			if len(h) > 2 && strings.HasPrefix(h[2], "s") {
				scale, _ = strconv.Atoi(h[2][1:])
			}
			runCaseS(w, h[0], n, scale, c.Ops)
		}
		return
	}
	thorough := *tier == "thorough"
	switch *mode {
	case "exhaustive":
		r := rng.FromEnv(1401)
		for _, kind := range []string{"U", "D", "WU", "WD"} {
			exhaustive(w, r, kind, 0, 1, []int{0}, 1, 1)
			exhaustive(w, r, kind, 1, 3, []int{0, 1}, 1, 1)
			exhaustive(w, r, kind, 2, 4, []int{0, 1, 2}, 1, 1+map[bool]int{true: 0, false: 3}[thorough])
		}
		if thorough {
			exhaustive(w, r, "U", 3, 5, nil, 1, 1)
			exhaustive(w, r, "D", 3, 5, nil, 1, 1)
			exhaustive(w, r, "U", 4, 5, nil, 1, 1)
			exhaustive(w, r, "D", 4, 5, nil, 1, 1)
			exhaustive(w, r, "WU", 3, 4, []int{0, 1, 2}, 1, 1)
			exhaustive(w, r, "WD", 3, 4, []int{0, 1, 2}, 1, 1)
			exhaustive(w, r, "WU", 4, 5, []int{0, 1}, 1, 1)
			exhaustive(w, r, "WD", 4, 5, []int{0, 1}, 1, 8)
		} else {
			exhaustive(w, r, "U", 3, 5, nil, 1, 2)
			exhaustive(w, r, "D", 3, 5, nil, 1, 6)
			exhaustive(w, r, "U", 4, 5, nil, 1, 6)
			exhaustive(w, r, "D", 4, 5, nil, 1, 24)
			exhaustive(w, r, "WU", 3, 4, []int{0, 1, 2}, 1, 8)
			exhaustive(w, r, "WD", 3, 4, []int{0, 1, 2}, 1, 30)
			exhaustive(w, r, "WU", 4, 5, []int{0, 1}, 1, 60)
			exhaustive(w, r, "WD", 4, 5, []int{0, 1}, 1, 500)
		}
	case "random":
		r := rng.FromEnv(1402)
		k := 60
		if thorough {
			k = 1500
		}
		for _, kind := range []string{"U", "D", "WU", "WD"} {
			randomGraphs(w, r, kind, k, 40)
		}
	case "big":
		big(w, rng.FromEnv(1403), thorough)
	case "huge":
		huge(w, rng.FromEnv(1406), thorough)
	case "ctor":
		k := 40
		if thorough {
			k = 600
		}
		ctor(w, rng.FromEnv(1404), k)
	case "retain":
		k := 150
		if thorough {
			k = 3000
		}
		retain(w, rng.FromEnv(1405), k)
	}
}
