// Command c20 is the race search of property C20: k goroutines, each working only on instances it
// created itself, under several GOMAXPROCS settings; every goroutine's digest is compared with the
// digest the same workload produces when it runs alone.  Built with -race the Go race detector
// reports any unsynchronised access to state shared between the goroutines (stderr, exit code 66).
//
//	c20 -mode race -tier quick|thorough [-procs 2,4,16] [-k 4] [-budget seconds] [-wl a,b,c]
//	c20 --replay <file>      lines: race procs=<p> k=<k> rounds=<r> | wl <name> | wl <name> ...
//	c20 -mode cold -wl a[,b] -procs 4 -k 4       ONE round as the first thing this process does, then exit
//	c20 -mode coldsweep [-wl ...] [-procs 4,16] [-reps 1] [-budget s]   re-executes itself in cold mode, one fresh
//	                         process per (workload, GOMAXPROCS, repetition): first-use races (lazy initialisation of a
//	                         package-level variable) exist only until the process has used the code once
//	c20 -mode list
package main

import (
	"bufio"
	"flag"
	"fmt"
	"os"
	"os/exec"
	"runtime"
	"strconv"
	"strings"
	"sync"
	"time"

	"verif/harness/internal/rng"
)

// replayed rounds use instance numbers disjoint from the generated ones
const replayBase = 1 << 20

type key struct {
	w    int
	inst int
}

var (
	baseline = map[key]string{}
	unstable = map[int]bool{}
	checked  = map[int]int{}

	reportedUnstable = map[int]bool{}
)

// bad: a result that is a failure by itself, whatever the reference says: a panic that escaped the workload, or
// two complete runs of one iterator value that disagree
func bad(res string) bool {
	return strings.HasPrefix(res, "PANIC:") || strings.HasPrefix(res, "INCONSISTENT:")
}

func clip(s string) string {
	if len(s) > 300 {
		return s[:300] + "..."
	}
	return s
}

func safeRun(w workload, inst int) (res string) {
	defer func() {
		if r := recover(); r != nil {
			res = "PANIC:" + strings.SplitN(fmt.Sprint(r), "\n", 2)[0]
		}
	}()
	return w.run(inst)
}

func base(wi, inst int) string {
	k := key{wi, inst}
	if d, ok := baseline[k]; ok {
		return d
	}
	d := safeRun(workloads[wi], inst)
	// the digest must not depend on iteration order or shuffles (re-checked on the first instances of each workload)
	if checked[wi] < 2 {
		checked[wi]++
		if d2 := safeRun(workloads[wi], inst); d2 != d {
			unstable[wi] = true
		}
	}
	baseline[k] = d
	return d
}

type slot struct {
	wi, inst int
}

type outcome struct {
	res     [][]string
	hang    bool
	elapsed time.Duration
}

// runRound starts one goroutine per slot behind a common barrier, reps repetitions each.
func runRound(slots []slot, reps int, deadline time.Duration) outcome {
	var wg sync.WaitGroup
	start := make(chan struct{})
	res := make([][]string, len(slots))
	for j, s := range slots {
		wg.Add(1)
		go func(j int, s slot) {
			defer wg.Done()
			<-start
			for r := 0; r < reps; r++ {
				res[j] = append(res[j], safeRun(workloads[s.wi], s.inst))
			}
		}(j, s)
	}
	done := make(chan struct{})
	t0 := time.Now()
	close(start)
	go func() { wg.Wait(); close(done) }()
	select {
	case <-done:
	case <-time.After(deadline):
		return outcome{hang: true, elapsed: time.Since(t0)}
	}
	return outcome{res: res, elapsed: time.Since(t0)}
}

func wlIndex(name string) int {
	for i, w := range workloads {
		if w.name == name {
			return i
		}
	}
	return -1
}

// casePrefix: "race" for rounds of a long-lived process, "cold" for the single round of a fresh process
var casePrefix = "race"

func caseLine(procs, k, rounds int, slots []slot, status map[int]string) string {
	var b strings.Builder
	fmt.Fprintf(&b, "%s procs=%d k=%d rounds=%d", casePrefix, procs, k, rounds)
	for j, s := range slots {
		st := "ok"
		if v, ok := status[j]; ok {
			st = v
		}
		fmt.Fprintf(&b, " | wl %s -> %s", workloads[s.wi].name, st)
	}
	return b.String()
}

func main() {
	mode := flag.String("mode", "race", "race | cold | coldsweep | list | seq")
	repsF := flag.Int("reps", 1, "coldsweep: fresh processes per (workload, GOMAXPROCS)")
	tier := flag.String("tier", "quick", "quick | thorough")
	procsF := flag.String("procs", "2,4,16", "GOMAXPROCS settings")
	kF := flag.Int("k", 0, "goroutines per round (0: tier default)")
	budget := flag.Float64("budget", 0, "seconds for the whole run (0: tier default)")
	wlF := flag.String("wl", "", "comma-separated workload names (default all)")
	replay := flag.String("replay", "", "replay file")
	flag.Parse()

	out := bufio.NewWriter(os.Stdout)
	defer out.Flush()

	if *mode == "list" {
		for _, w := range workloads {
			fmt.Fprintf(out, "%s\t%s\n", w.name, w.what)
		}
		return
	}

	mism, hangs, cases := 0, 0, 0
	distinct := map[string]bool{}
	gruns := 0
	perWl := map[string]int{}
	maxProcs := 0
	fail := func() {
		out.Flush()
		if hangs > 0 {
			os.Exit(4)
		}
		if mism > 0 {
			os.Exit(3)
		}
	}

	doRound := func(procs int, slots []slot, reps int) {
		// announce the round first: under GORACE=halt_on_error=1 the process dies at the first report
		fmt.Fprintln(out, "# START "+caseLine(procs, len(slots), reps, slots, map[int]string{}))
		out.Flush()
		runtime.GOMAXPROCS(procs)
		o := runRound(slots, reps, 120*time.Second)
		runtime.GOMAXPROCS(runtime.NumCPU())
		status := map[int]string{}
		if o.hang {
			hangs++
			for j := range slots {
				status[j] = "HANG"
			}
		} else {
			// The reference digests are computed AFTER the concurrent run (one goroutine, same instance
			// numbers): a lazily filled package-level cache must meet its first writers concurrently.
			for j, s := range slots {
				want := base(s.wi, s.inst)
				if unstable[s.wi] && !reportedUnstable[s.wi] {
					// on the unchanged tree every digest is reproducible (checked on every run): a workload whose
					// result changes between two runs of ONE goroutine has met state that survives its instances
					reportedUnstable[s.wi] = true
					mism++
					status[j] = "DIFF"
					fmt.Fprintf(out, "# DIFF goroutine=%d wl=%s inst=%d the result of this workload run ALONE is not reproducible (two sequential runs differ)\n", j, workloads[s.wi].name, s.inst)
				}
				if bad(want) {
					mism++
					status[j] = "DIFF"
					fmt.Fprintf(out, "# DIFF goroutine=%d wl=%s inst=%d sequential reference run: %s\n", j, workloads[s.wi].name, s.inst, clip(want))
				}
				for r, got := range o.res[j] {
					if got != want || bad(got) {
						mism++
						status[j] = "DIFF"
						fmt.Fprintf(out, "# DIFF goroutine=%d wl=%s inst=%d rep=%d got=%s want=%s\n", j, workloads[s.wi].name, s.inst, r, clip(got), clip(want))
						break
					}
				}
			}
		}
		cases++
		gruns += len(slots) * reps
		if procs > maxProcs {
			maxProcs = procs
		}
		names := make([]string, len(slots))
		for j, s := range slots {
			names[j] = fmt.Sprintf("%s#%d", workloads[s.wi].name, s.inst)
			perWl[workloads[s.wi].name] += reps
		}
		distinct[fmt.Sprintf("%d:%s", procs, strings.Join(names, ","))] = true
		fmt.Fprintln(out, caseLine(procs, len(slots), reps, slots, status))
		if o.hang {
			fail() // a stuck goroutine spins forever: stop here
		}
	}

	// spawnCold runs ONE round in a fresh process (this executable in cold mode) and relays its output.
	// A child that reports a race (66), a differing result (3) or a hang (4) ends the run with the same status.
	spawnCold := func(procs, k int, wls []string) {
		out.Flush()
		self, err := os.Executable()
		if err != nil {
			fmt.Fprintln(os.Stderr, err)
			os.Exit(2)
		}
		cmd := exec.Command(self, "-mode", "cold", "-wl", strings.Join(wls, ","), "-procs", strconv.Itoa(procs), "-k", strconv.Itoa(k))
		cmd.Stderr = os.Stderr
		b, err := cmd.Output()
		out.Write(b)
		cases++
		for _, w := range wls {
			perWl[w]++
		}
		if procs > maxProcs {
			maxProcs = procs
		}
		distinct[fmt.Sprintf("cold:%d:%s", procs, strings.Join(wls, ","))] = true
		gruns += k
		if err != nil {
			out.Flush()
			if ee, ok := err.(*exec.ExitError); ok {
				os.Exit(ee.ExitCode())
			}
			fmt.Fprintln(os.Stderr, err)
			os.Exit(2)
		}
	}

	if *replay != "" {
		f, err := os.Open(*replay)
		if err != nil {
			fmt.Fprintln(os.Stderr, err)
			os.Exit(2)
		}
		sc := bufio.NewScanner(f)
		sc.Buffer(make([]byte, 1<<20), 1<<24)
		for sc.Scan() {
			line := strings.TrimSpace(sc.Text())
			if line == "" || strings.HasPrefix(line, "#") {
				continue
			}
			parts := strings.Split(line, "|")
			procs, rounds := 4, 20
			for _, f := range strings.Fields(parts[0]) {
				if v, ok := strings.CutPrefix(f, "procs="); ok {
					procs, _ = strconv.Atoi(v)
				}
				if v, ok := strings.CutPrefix(f, "rounds="); ok {
					rounds, _ = strconv.Atoi(v)
				}
			}
			kk := 2
			for _, f := range strings.Fields(parts[0]) {
				if v, ok := strings.CutPrefix(f, "k="); ok {
					kk, _ = strconv.Atoi(v)
				}
			}
			var slots []slot
			var names []string
			for _, p := range parts[1:] {
				p = strings.TrimSpace(strings.SplitN(p, "->", 2)[0])
				fs := strings.Fields(p)
				if len(fs) == 2 && fs[0] == "wl" {
					if wi := wlIndex(fs[1]); wi >= 0 {
						slots = append(slots, slot{wi, len(slots)})
						names = append(names, fs[1])
					}
				}
			}
			if strings.HasPrefix(parts[0], "cold") { // `rounds` fresh processes, one round each
				for r := 0; r < rounds && len(names) > 0; r++ {
					spawnCold(procs, kk, names)
				}
				continue
			}
			if len(slots) == 1 { // a single workload: two goroutines, each with its own instances of it
				slots = append(slots, slot{slots[0].wi, 1})
			}
			for r := 0; r < rounds && len(slots) > 0; r++ {
				cur := make([]slot, len(slots))
				for j, sl := range slots {
					cur[j] = slot{sl.wi, replayBase + r*len(slots) + j}
				}
				doRound(procs, cur, 2)
			}
		}
		fmt.Fprintf(out, "STAT cases=%d\nSTAT nontrivial=%d\nSTAT mismatches=%d\n", cases, len(distinct), mism)
		fail()
		return
	}

	var enabled []int
	if *wlF == "" {
		for i := range workloads {
			enabled = append(enabled, i)
		}
	} else {
		for _, n := range strings.Split(*wlF, ",") {
			if wi := wlIndex(strings.TrimSpace(n)); wi >= 0 {
				enabled = append(enabled, wi)
			}
		}
	}
	if *mode == "seq" {
		for _, wi := range enabled {
			for inst := 0; inst < 4; inst++ {
				fmt.Fprintf(out, "%s#%d %s unstable=%v\n", workloads[wi].name, inst, base(wi, inst), unstable[wi])
			}
		}
		return
	}

	var procsEarly []int
	for _, p := range strings.Split(*procsF, ",") {
		if v, err := strconv.Atoi(strings.TrimSpace(p)); err == nil && v > 0 {
			procsEarly = append(procsEarly, v)
		}
	}
	if *mode == "cold" {
		casePrefix = "cold"
		kk := *kF
		if kk <= 0 {
			kk = 2
		}
		var slots []slot
		if len(enabled) == 1 {
			for j := 0; j < kk; j++ {
				slots = append(slots, slot{enabled[0], j})
			}
		} else {
			for j, wi := range enabled {
				slots = append(slots, slot{wi, j})
			}
		}
		if len(slots) > 0 && len(procsEarly) > 0 {
			doRound(procsEarly[0], slots, 1)
		}
		fail()
		return
	}
	if *mode == "coldsweep" {
		kk := *kF
		if kk <= 0 {
			kk = 4
		}
		secs := *budget
		if secs == 0 {
			secs = 12
		}
		t0 := time.Now()
		r := rng.FromEnv(21)
		off := r.Intn(len(enabled)) // a different rotation of the workloads for every seed
		n := 0
	sweep:
		for rep := 0; rep < *repsF; rep++ {
			for i := range enabled {
				if time.Since(t0).Seconds() > secs {
					break sweep
				}
				p := procsEarly[(n+rep)%len(procsEarly)]
				spawnCold(p, kk, []string{workloads[enabled[(i+off)%len(enabled)]].name})
				n++
			}
		}
		fmt.Fprintf(out, "STAT cases=%d\nSTAT nontrivial=%d\nSTAT goroutine_runs=%d\nSTAT cold_processes=%d\nSTAT max_gomaxprocs=%d\n", cases, len(distinct), gruns, n, maxProcs)
		return
	}

	var procs []int
	for _, p := range strings.Split(*procsF, ",") {
		if v, err := strconv.Atoi(strings.TrimSpace(p)); err == nil && v > 0 {
			procs = append(procs, v)
		}
	}
	k := *kF
	secs := *budget
	if *tier == "thorough" {
		if k == 0 {
			k = 8
		}
		if secs == 0 {
			secs = 420
		}
	} else {
		if k == 0 {
			k = 4
		}
		if secs == 0 {
			secs = 24
		}
	}
	r := rng.FromEnv(20)
	t0 := time.Now()
	perProcs := time.Duration(secs * float64(time.Second) / float64(len(procs)))
	for pi, p := range procs {
		until := t0.Add(perProcs * time.Duration(pi+1))
		round := 0
		for time.Now().Before(until) {
			var slots []slot
			fresh := (pi*1000 + round) * k // instance numbers never seen before: new contents, new keys
			switch round % 4 {
			case 0, 2: // the same workload on every goroutine, own instances with different contents
				// each GOMAXPROCS segment starts at a different workload, so that a short run covers all of them
				wi := enabled[(round/2+pi*((len(enabled)+len(procs)-1)/len(procs)))%len(enabled)]
				for j := 0; j < k; j++ {
					slots = append(slots, slot{wi, fresh + j})
				}
			case 1: // the same workload with identical contents (same keys, same hash values), separately built
				wi := enabled[r.Intn(len(enabled))]
				for j := 0; j < k; j++ {
					slots = append(slots, slot{wi, fresh})
				}
			default: // a random mix
				for j := 0; j < k; j++ {
					slots = append(slots, slot{enabled[r.Intn(len(enabled))], fresh + j})
				}
			}
			doRound(p, slots, 2)
			round++
		}
	}
	for wi := range unstable {
		fmt.Fprintf(out, "# UNSTABLE workload %s: its sequential digest is not reproducible\n", workloads[wi].name)
	}
	fmt.Fprintf(out, "STAT cases=%d\nSTAT nontrivial=%d\nSTAT goroutine_runs=%d\nSTAT mismatches=%d\nSTAT unstable_workloads=%d\nSTAT max_gomaxprocs=%d\nSTAT max_goroutines=%d\n",
		cases, len(distinct), gruns, mism, len(unstable), maxProcs, k)
	for n, c := range perWl {
		fmt.Fprintf(out, "STAT runs_%s=%d\n", strings.ReplaceAll(n, "-", "_"), c)
	}
	fail()
}
