package main

// Workloads of the C20 race search.  Every workload builds ONLY private instances (its own hash
// functions, tables, sets, tries, heaps, grammars, automata, parsing tables, parsers) from its
// instance number and returns a digest of everything it observed.  Digests are canonical (sorted
// where the API promises no order), so the digest of a goroutine running alone is the value every
// interleaving must reproduce.

import (
	"fmt"
	"io"
	"iter"
	"sort"
	"strings"

	"github.com/moorara/algo/automata"
	"github.com/moorara/algo/generic"
	"github.com/moorara/algo/grammar"
	"github.com/moorara/algo/graph"
	"github.com/moorara/algo/hash"
	"github.com/moorara/algo/heap"
	"github.com/moorara/algo/lexer"
	"github.com/moorara/algo/lexer/input"
	"github.com/moorara/algo/list"
	"github.com/moorara/algo/parser"
	"github.com/moorara/algo/parser/lr"
	"github.com/moorara/algo/parser/lr/canonical"
	"github.com/moorara/algo/parser/lr/lookahead"
	"github.com/moorara/algo/parser/lr/simple"
	"github.com/moorara/algo/parser/predictive"
	"github.com/moorara/algo/radixsort"
	"github.com/moorara/algo/set"
	algosort "github.com/moorara/algo/sort"
	"github.com/moorara/algo/symboltable"
	"github.com/moorara/algo/trie"
	"github.com/moorara/algo/unionfind"
)

type workload struct {
	name string
	what string
	run  func(inst int) string
}

// local deterministic generator (SplitMix64), private to the caller
type sm struct{ s uint64 }

func (r *sm) u64() uint64 {
	r.s += 0x9E3779B97F4A7C15
	z := r.s
	z = (z ^ (z >> 30)) * 0xBF58476D1CE4E5B9
	z = (z ^ (z >> 27)) * 0x94D049BB133111EB
	return z ^ (z >> 31)
}
func (r *sm) intn(n int) int { return int(r.u64() % uint64(n)) }

func fnv64(s string) uint64 {
	h := uint64(14695981039346656037)
	for i := 0; i < len(s); i++ {
		h *= 1099511628211
		h ^= uint64(s[i])
	}
	return h
}

// ---------------------------------------------------------------- restartable iterators

// reiter1 keeps ONE iterator value and runs it several times: to the end, with an early exit, nested inside itself
// and around a second iterator (of the same container or of another private one), and to the end again.
// iter.Seq values are restartable; every complete run must yield the same multiset of members.
// The result starts with INCONSISTENT when two complete runs of the same value differ.
func reiter1[T any](seq iter.Seq[T], other iter.Seq[T], key func(T) string) string {
	full := func() string {
		var xs []string
		for x := range seq {
			xs = append(xs, key(x))
		}
		sort.Strings(xs)
		return strings.Join(xs, ",")
	}
	m1 := full()
	n := 0
	for range seq { // early exit
		if n++; n == 2 {
			break
		}
	}
	m2 := full()
	self, cross := 0, 0
	for range seq { // nested in itself
		k := 0
		for range seq {
			self++
			if k++; k == 3 {
				break
			}
		}
	}
	var inner []string
	for range seq { // around another iterator value, which is itself run repeatedly
		var ys []string
		for y := range other {
			ys = append(ys, key(y))
			cross++
		}
		sort.Strings(ys)
		inner = append(inner, strings.Join(ys, ","))
	}
	for i := 1; i < len(inner); i++ {
		if inner[i] != inner[0] {
			return "INCONSISTENT:inner run " + fmt.Sprint(i) + " of a restarted iterator: " + inner[i] + " vs " + inner[0]
		}
	}
	m3 := full()
	if m1 != m2 || m2 != m3 {
		return "INCONSISTENT:runs of one iterator value differ: " + m1 + " / " + m2 + " / " + m3
	}
	return fmt.Sprintf("%s#%d#%d", m1, self, cross)
}

func reiter2[K, V any](seq iter.Seq2[K, V], other iter.Seq2[K, V], key func(K, V) string) string {
	one := func(s iter.Seq2[K, V]) iter.Seq[string] {
		return func(yield func(string) bool) {
			for k, v := range s {
				if !yield(key(k, v)) {
					return
				}
			}
		}
	}
	return reiter1(one(seq), one(other), func(x string) string { return x })
}

// inconsistent reports the first INCONSISTENT marker among the parts of a digest (the workload then returns it as is)
func inconsistent(parts []string) (string, bool) {
	for _, p := range parts {
		if strings.HasPrefix(p, "INCONSISTENT:") {
			return p, true
		}
	}
	return "", false
}

func dig(parts ...string) string {
	if bad, ok := inconsistent(parts); ok {
		return bad
	}
	s := strings.Join(parts, "\x1f")
	return fmt.Sprintf("%016x/%d", fnv64(s), len(s))
}

// ---------------------------------------------------------------- hash tables and sets

func wlHashTables(inst int) string {
	r := &sm{s: uint64(1000 + inst)}
	hInt := hash.HashFuncForInt[int](nil) // private hash function (own hasher and buffer)
	hStr := hash.HashFuncForString[string](nil)
	eqI := generic.NewEqualFunc[int]()
	eqS := generic.NewEqualFunc[string]()
	opts := symboltable.HashOpts{}
	ints := []symboltable.SymbolTable[int, string]{
		symboltable.NewChainHashTable(hInt, eqI, eqS, opts),
		symboltable.NewLinearHashTable(hInt, eqI, eqS, opts),
		symboltable.NewQuadraticHashTable(hInt, eqI, eqS, opts),
		symboltable.NewDoubleHashTable(hInt, eqI, eqS, opts),
	}
	strs := []symboltable.SymbolTable[string, int]{
		symboltable.NewChainHashTable(hStr, eqS, eqI, opts),
		symboltable.NewLinearHashTable(hStr, eqS, eqI, opts),
	}
	var out []string
	n := 60 + inst%7
	for ti, t := range ints {
		for i := 0; i < n; i++ {
			k := r.intn(200)
			t.Put(k, fmt.Sprintf("v%d.%d", inst, k))
			if i%5 == 4 {
				t.Delete(r.intn(200))
			}
		}
		for rep := 0; rep < 3; rep++ { // every All() shuffles through the package-level source
			var kv []string
			for k, v := range t.All() {
				kv = append(kv, fmt.Sprintf("%d=%s", k, v))
			}
			sort.Strings(kv)
			out = append(out, fmt.Sprintf("t%d:%d:%s", ti, t.Size(), strings.Join(kv, ",")))
		}
		itA, itB := t.All(), ints[(ti+1)%len(ints)].All() // iterator VALUES, kept and restarted
		kvf := func(k int, v string) string { return fmt.Sprintf("%d=%s", k, v) }
		out = append(out, "re:"+reiter2(itA, itB, kvf))
		_, _ = t.Get(3)
		out = append(out, "re:"+reiter2(itA, t.All(), kvf), "re:"+reiter2(itB, itA, kvf))
		evn := func(k int, _ string) bool { return k%2 == 0 }
		c := t.SelectMatch(evn)
		pa, pb := t.PartitionMatch(evn)
		g, gok := t.Get(7)
		out = append(out, fmt.Sprintf("even=%d eq=%v", c.Size(), t.Equal(t)), fmt.Sprint(t.AnyMatch(evn), t.AllMatch(evn), pa.Size(), pb.Size(), g, gok, t.IsEmpty()))
		_ = t.String()
	}
	for ti, t := range strs {
		for i := 0; i < n; i++ {
			k := fmt.Sprintf("key-%d-%d", inst, r.intn(150))
			t.Put(k, i)
		}
		var kv []string
		for k, v := range t.All() {
			kv = append(kv, fmt.Sprintf("%s=%d", k, v))
		}
		sort.Strings(kv)
		out = append(out, fmt.Sprintf("s%d:%s", ti, strings.Join(kv, ",")))
	}
	return dig(out...)
}

func wlOrderedTables(inst int) string {
	r := &sm{s: uint64(2000 + inst)}
	cmp := generic.NewCompareFunc[int]()
	eqS := generic.NewEqualFunc[string]()
	ts := []symboltable.OrderedSymbolTable[int, string]{
		symboltable.NewBST[int, string](cmp, eqS),
		symboltable.NewAVL[int, string](cmp, eqS),
		symboltable.NewRedBlack[int, string](cmp, eqS),
	}
	var out []string
	for ti, t := range ts {
		for i := 0; i < 120; i++ {
			t.Put(r.intn(300), fmt.Sprintf("%d", inst))
			if i%4 == 3 {
				t.Delete(r.intn(300))
			}
		}
		var ks []string
		for k := range t.All() {
			ks = append(ks, fmt.Sprint(k))
		}
		mn, _, _ := t.Min()
		mx, _, _ := t.Max()
		out = append(out, fmt.Sprintf("o%d:%d:%d:%d:%d:%s", ti, t.Size(), mn, mx, t.Rank(150), strings.Join(ks, ",")))
		oit := t.All()
		okv := func(k int, v string) string { return fmt.Sprintf("%d=%s", k, v) }
		out = append(out, "re:"+reiter2(oit, ts[(ti+1)%len(ts)].All(), okv))
		_ = t.Rank(10)
		out = append(out, "re:"+reiter2(oit, oit, okv))
		// every query family
		fl, _, fok := t.Floor(150)
		ce, _, cok := t.Ceiling(150)
		se, _, sok := t.Select(t.Size() / 2)
		g, gok := t.Get(mn)
		out = append(out, fmt.Sprint(fl, fok, ce, cok, se, sok, g, gok, t.Height() > 0, t.RangeSize(50, 200), len(t.Range(50, 200)), t.IsEmpty()))
		even := func(k int, _ string) bool { return k%2 == 0 }
		sel := t.SelectMatch(even)
		pa, pb := t.PartitionMatch(even)
		fk, _, fmok := t.FirstMatch(func(k int, _ string) bool { return k == mx })
		out = append(out, fmt.Sprint(t.AnyMatch(even), t.AllMatch(even), sel.Size(), pa.Size(), pb.Size(), fk, fmok))
		var tr []string
		for _, o := range []generic.TraverseOrder{generic.VLR, generic.LVR, generic.LRV, generic.Ascending, generic.Descending} {
			n := 0
			t.Traverse(o, func(k int, _ string) bool { tr = append(tr, fmt.Sprint(k)); n++; return n < 12 })
		}
		out = append(out, strings.Join(tr, ","), fmt.Sprint(t.Equal(t), len(t.String()) > 0, len(t.DOT()) > 0))
		dk, _, _ := t.DeleteMin()
		dx, _, _ := t.DeleteMax()
		out = append(out, fmt.Sprint(dk, dx, t.Size()))
	}
	return dig(out...)
}

func wlSets(inst int) string {
	r := &sm{s: uint64(3000 + inst)}
	eq := generic.NewEqualFunc[int]()
	cmp := generic.NewCompareFunc[int]()
	mk := []func(vals ...int) set.Set[int]{
		func(v ...int) set.Set[int] { return set.New(eq, v...) },
		func(v ...int) set.Set[int] { return set.NewStable(eq, v...) },
		func(v ...int) set.Set[int] { return set.NewSorted(cmp, v...) },
	}
	canon := func(s set.Set[int]) string {
		var xs []int
		for x := range s.All() {
			xs = append(xs, x)
		}
		sort.Ints(xs)
		return fmt.Sprint(xs)
	}
	var out []string
	for mi, m := range mk {
		a, b := m(), m()
		for i := 0; i < 40; i++ {
			a.Add(r.intn(60) + inst)
			b.Add(r.intn(60) + 2*inst)
		}
		out = append(out, fmt.Sprintf("m%d", mi), canon(a), canon(b), canon(a.Union(b)), canon(a.Intersection(b)),
			canon(a.Difference(b)), fmt.Sprint(a.IsSubset(b), a.Union(b).IsSuperset(a), a.Equal(a.Clone())))
		ia, ib := a.All(), b.All() // iterator VALUES, kept and restarted (before and after other operations)
		ikey := func(x int) string { return fmt.Sprint(x) }
		out = append(out, "re:"+reiter1(ia, ib, ikey))
		_ = a.Contains(3)
		u2 := a.Union(b)
		out = append(out, "re:"+reiter1(ib, a.All(), ikey), "re:"+reiter1(ia, ia, ikey), "re:"+reiter1(u2.All(), ia, ikey))
		small := m(1+inst, 2+inst, 3+inst, 4+inst)
		var ps []string
		pw := set.Powerset(small)
		pit := pw.All()
		out = append(out, "re:"+reiter1(pit, pw.All(), canon))
		for sub := range pit {
			ps = append(ps, canon(sub))
		}
		sort.Strings(ps)
		out = append(out, strings.Join(ps, ";"))
		var parts []string
		for part := range set.Partitions(m(1+inst, 2+inst, 3+inst, 4+inst)).All() {
			var blocks []string
			for blk := range part.All() {
				blocks = append(blocks, canon(blk))
			}
			sort.Strings(blocks)
			parts = append(parts, strings.Join(blocks, "|"))
		}
		sort.Strings(parts)
		out = append(out, strings.Join(parts, ";"))
		odd := func(x int) bool { return x%2 == 1 }
		sa, sb := a.PartitionMatch(odd)
		out = append(out, fmt.Sprint(a.AnyMatch(odd), a.AllMatch(odd), a.SelectMatch(odd).Size(), sa.Size(), sb.Size(), a.Contains(5+inst, 7+inst), a.CloneEmpty().Size()))
		a.Remove(5+inst, 6+inst)
		out = append(out, canon(a))
		_ = a.String()
	}
	return dig(out...)
}

// ---------------------------------------------------------------- tries, heaps, sorts, union-find

func wlTries(inst int) string {
	r := &sm{s: uint64(4000 + inst)}
	eq := generic.NewEqualFunc[int]()
	ts := []trie.Trie[int]{trie.NewBinary[int](eq), trie.NewPatricia[int](eq)}
	kvs := func(xs []generic.KeyValue[string, int]) string {
		var o []string
		for _, kv := range xs {
			o = append(o, fmt.Sprintf("%s=%d", kv.Key, kv.Val))
		}
		sort.Strings(o)
		return strings.Join(o, ",")
	}
	var out []string
	for ti, t := range ts {
		for i := 0; i < 80; i++ {
			n := 1 + r.intn(4)
			b := make([]byte, n)
			for j := range b {
				b[j] = byte('a' + r.intn(4))
			}
			t.Put(string(b), i+inst)
			if i%6 == 5 {
				b[0] = byte('a' + r.intn(4))
				t.Delete(string(b[:1+r.intn(n)]))
			}
		}
		// keys no other round or goroutine has used
		fresh := fmt.Sprintf("k%d-", inst)
		for i := 0; i < 12; i++ {
			t.Put(fresh+string(rune('a'+r.intn(6)))+string(rune('a'+i)), 1000+i)
		}
		fg, fok := t.Get(fresh + "aa")
		flk, _, flok := t.LongestPrefixOf(fresh + "abz")
		out = append(out, fmt.Sprint(fg, fok, flk, flok, t.Rank(fresh), t.RangeSize(fresh, fresh+"zz")),
			"fm:"+kvs(t.Match(fresh+"**")), "fp:"+kvs(t.WithPrefix(fresh+"a")), "fr:"+kvs(t.Range(fresh+"b", fresh+"e")))
		var kv []string
		for k, v := range t.All() {
			kv = append(kv, fmt.Sprintf("%s=%d", k, v))
		}
		sort.Strings(kv)
		tit := t.All()
		tkv := func(k string, v int) string { return fmt.Sprintf("%s=%d", k, v) }
		out = append(out, "re:"+reiter2(tit, ts[(ti+1)%len(ts)].All(), tkv))
		_ = t.Rank("b")
		out = append(out, "re:"+reiter2(tit, tit, tkv))
		mn, _, _ := t.Min()
		mx, _, _ := t.Max()
		g, ok := t.Get("ab")
		out = append(out, fmt.Sprintf("tr%d:%d:%s:%s:%d:%v:%d:%s", ti, t.Size(), mn, mx, g, ok, t.Height(), strings.Join(kv, ",")))
		// every query family (several calls each: a package-level scratch buffer would be reset and refilled)
		for _, pat := range []string{"a*", "*b", "a*c", "**", "b**d", "abcd", "*"} {
			out = append(out, "m:"+kvs(t.Match(pat)))
		}
		for _, pre := range []string{"a", "ab", "b", "ca", "dd", "abc"} {
			out = append(out, "p:"+kvs(t.WithPrefix(pre)))
			lk, lv, lok := t.LongestPrefixOf(pre + "bcd")
			fk, _, fok := t.Floor(pre)
			ck, _, cok := t.Ceiling(pre)
			out = append(out, fmt.Sprint(lk, lv, lok, fk, fok, ck, cok, t.Rank(pre), t.RangeSize(pre, "cc"), kvs(t.Range(pre, "cc"))))
		}
		for i := 0; i < t.Size(); i += 5 {
			sk, sv, sok := t.Select(i)
			out = append(out, fmt.Sprint(sk, sv, sok))
		}
		short := func(k string, _ int) bool { return len(k) <= 2 }
		sel := t.SelectMatch(short)
		pa, pb := t.PartitionMatch(short)
		fk, _, fok := t.FirstMatch(func(k string, _ int) bool { return k == mx })
		out = append(out, fmt.Sprint(t.AnyMatch(short), t.AllMatch(short), sel.Size(), pa.Size(), pb.Size(), fk, fok, t.Equal(t), len(t.String()) > 0, len(t.DOT()) > 0))
		var tr []string
		for _, o := range []generic.TraverseOrder{generic.VLR, generic.LVR, generic.LRV, generic.Ascending, generic.Descending} {
			n := 0
			t.Traverse(o, func(k string, _ int) bool { tr = append(tr, k); n++; return n < 10 })
		}
		out = append(out, strings.Join(tr, ","))
		d1, _, _ := t.DeleteMin()
		d2, _, _ := t.DeleteMax()
		out = append(out, fmt.Sprint(d1, d2, t.Size()))
	}
	return dig(out...)
}

func wlHeaps(inst int) string {
	r := &sm{s: uint64(5000 + inst)}
	cmp := generic.NewCompareFunc[int]()
	eq := generic.NewEqualFunc[string]()
	hs := []heap.Heap[int, string]{
		heap.NewBinary[int, string](4, cmp, eq),
		heap.NewBinomial[int, string](cmp, eq),
		heap.NewFibonacci[int, string](cmp, eq),
	}
	var out []string
	for hi, h := range hs {
		var seq []string
		for i := 0; i < 150; i++ {
			h.Insert(r.intn(1000), fmt.Sprint(inst))
			if i%3 == 2 {
				k, _, ok := h.Delete()
				seq = append(seq, fmt.Sprintf("%d%v", k, ok))
			}
		}
		pk, _, pok := h.Peek()
		seq = append(seq, fmt.Sprint(pk, pok, h.ContainsKey(pk), h.ContainsKey(-1), h.ContainsValue(fmt.Sprint(inst)), h.ContainsValue("zz"), h.Size(), len(h.DOT()) > 0))
		for !h.IsEmpty() {
			k, _, _ := h.Delete()
			seq = append(seq, fmt.Sprint(k))
		}
		out = append(out, fmt.Sprintf("h%d:%s", hi, strings.Join(seq, ",")))
	}
	for mi, mk := range []func() heap.MergeableHeap[int, string]{
		func() heap.MergeableHeap[int, string] { return heap.NewBinomial[int, string](cmp, eq) },
		func() heap.MergeableHeap[int, string] { return heap.NewFibonacci[int, string](cmp, eq) },
	} {
		a, b := mk(), mk()
		for i := 0; i < 40; i++ {
			a.Insert(r.intn(500), "a")
			b.Insert(r.intn(500), "b")
		}
		a.Delete()
		a.Merge(b)
		var seq []string
		for !a.IsEmpty() {
			k, v, _ := a.Delete()
			seq = append(seq, fmt.Sprint(k, v[:1]))
		}
		sort.Strings(seq)
		out = append(out, fmt.Sprintf("mg%d:%s", mi, strings.Join(seq, ",")))
	}
	ih := []heap.IndexedHeap[int, string]{
		heap.NewIndexedBinary[int, string](64, cmp, eq),
		heap.NewIndexedBinomial[int, string](64, cmp, eq),
		heap.NewIndexedFibonacci[int, string](64, cmp, eq),
	}
	for hi, h := range ih {
		var seq []string
		for i := 0; i < 64; i++ {
			h.Insert(i, r.intn(1000), fmt.Sprint(inst))
		}
		for i := 0; i < 20; i++ {
			h.ChangeKey(r.intn(64), r.intn(1000))
		}
		pi, pk, _, pok := h.Peek()
		ik, _, iok := h.PeekIndex(7)
		dk, _, dok := h.DeleteIndex(9)
		seq = append(seq, fmt.Sprint(pi, pk, pok, ik, iok, dk, dok, h.ContainsIndex(9), h.ContainsIndex(10), h.ContainsKey(pk), h.ContainsValue(fmt.Sprint(inst)), h.ContainsValue("zz"), h.Size(), len(h.DOT()) > 0))
		for !h.IsEmpty() {
			i, k, _, _ := h.Delete()
			seq = append(seq, fmt.Sprintf("%d", k))
			_ = i
		}
		out = append(out, fmt.Sprintf("ih%d:%s", hi, strings.Join(seq, ",")))
	}
	return dig(out...)
}

func wlSorts(inst int) string {
	r := &sm{s: uint64(6000 + inst)}
	cmp := generic.NewCompareFunc[int]()
	var out []string
	for _, f := range []func([]int, generic.CompareFunc[int]){algosort.Quick[int], algosort.Quick3Way[int], algosort.Merge[int], algosort.Heap[int], algosort.Shell[int]} {
		a := make([]int, 200)
		for i := range a {
			a[i] = r.intn(500)
		}
		f(a, cmp)
		out = append(out, fmt.Sprint(a))
	}
	ss := make([]string, 120)
	for i := range ss {
		ss[i] = fmt.Sprintf("%03d-%d", r.intn(999), inst)
	}
	s2 := append([]string(nil), ss...)
	radixsort.Quick3WayString(ss) // shuffles through math/rand's (locked) global source
	radixsort.MSDString(s2)
	ints := make([]int, 150)
	for i := range ints {
		ints[i] = r.intn(100000) - 50000
	}
	radixsort.LSDInt(ints)
	out = append(out, fmt.Sprint(ss), fmt.Sprint(s2), fmt.Sprint(ints))
	fixed := make([]string, 100)
	for i := range fixed {
		fixed[i] = fmt.Sprintf("%04d", r.intn(9999))
	}
	radixsort.LSDString(fixed, 4)
	i2 := make([]int, 150)
	u1, u2 := make([]uint, 150), make([]uint, 150)
	for i := range i2 {
		i2[i] = r.intn(1<<40) - 1<<39
		u1[i] = uint(r.u64())
		u2[i] = uint(r.u64() >> 20)
	}
	radixsort.MSDInt(i2)
	radixsort.LSDUint(u1)
	radixsort.MSDUint(u2)
	out = append(out, fmt.Sprint(fixed), fmt.Sprint(i2), fmt.Sprint(u1), fmt.Sprint(u2))
	for _, f := range []func([]int, generic.CompareFunc[int]){algosort.MergeRec[int], algosort.Insertion[int], algosort.Selection[int]} {
		a := make([]int, 120)
		for i := range a {
			a[i] = r.intn(500)
		}
		f(a, cmp)
		out = append(out, fmt.Sprint(a))
	}
	sel := make([]int, 99)
	for i := range sel {
		sel[i] = r.intn(1000)
	}
	out = append(out, fmt.Sprint(algosort.Select(sel, 49, cmp)))
	for _, mk := range []func(int) unionfind.UnionFind{unionfind.NewQuickFind, unionfind.NewQuickUnion} {
		u := mk(40)
		for i := 0; i < 30; i++ {
			u.Union(r.intn(40), r.intn(40))
		}
		f, _ := u.Find(7)
		out = append(out, fmt.Sprint(u.Count(), u.IsConnected(1, 2), f >= 0))
	}
	uf := unionfind.NewWeightedQuickUnion(50)
	for i := 0; i < 40; i++ {
		uf.Union(r.intn(50), r.intn(50))
	}
	out = append(out, fmt.Sprint(uf.Count(), uf.IsConnected(0, 1)))
	return dig(out...)
}

// ---------------------------------------------------------------- grammars

type gspec struct {
	terms    []string
	nonterms []string
	prods    [][]string // head, body...
	start    string
	input    [][]string // token strings to parse
	prec     [][]string // precedence levels, highest first: associativity (L|R|N) followed by terminals
}

var gspecs = []gspec{
	{ // LL(1) expression grammar
		terms: []string{"+", "*", "(", ")", "id"}, nonterms: []string{"E", "E'", "T", "T'", "F"}, start: "E",
		prods: [][]string{{"E", "T", "E'"}, {"E'", "+", "T", "E'"}, {"E'"}, {"T", "F", "T'"}, {"T'", "*", "F", "T'"}, {"T'"}, {"F", "(", "E", ")"}, {"F", "id"}},
		input: [][]string{{"id", "+", "id", "*", "id"}, {"(", "id", ")", "*", "id"}, {"id", "+"}},
	},
	{ // S -> CC ; C -> cC | d
		terms: []string{"c", "d"}, nonterms: []string{"S", "C"}, start: "S",
		prods: [][]string{{"S", "C", "C"}, {"C", "c", "C"}, {"C", "d"}},
		input: [][]string{{"c", "d", "d"}, {"d", "d"}, {"c", "c"}},
	},
	{ // S -> L = R | R ; L -> * R | id ; R -> L   (LALR, not SLR)
		terms: []string{"=", "*", "id"}, nonterms: []string{"S", "L", "R"}, start: "S",
		prods: [][]string{{"S", "L", "=", "R"}, {"S", "R"}, {"L", "*", "R"}, {"L", "id"}, {"R", "L"}},
		input: [][]string{{"*", "id", "=", "id"}, {"id"}, {"=", "id"}},
	},
	{ // left-recursive expression grammar (SLR)
		terms: []string{"+", "*", "(", ")", "id"}, nonterms: []string{"E", "T", "F"}, start: "E",
		prods: [][]string{{"E", "E", "+", "T"}, {"E", "T"}, {"T", "T", "*", "F"}, {"T", "F"}, {"F", "(", "E", ")"}, {"F", "id"}},
		input: [][]string{{"id", "*", "id", "+", "id"}, {"(", "id", "+", "id", ")"}, {"id", "id"}},
	},
	{ // AMBIGUOUS operator grammar, usable only with precedence/associativity declarations
		terms: []string{"+", "*", "id"}, nonterms: []string{"E"}, start: "E",
		prods: [][]string{{"E", "E", "+", "E"}, {"E", "E", "*", "E"}, {"E", "id"}},
		input: [][]string{{"id", "+", "id", "*", "id"}, {"id", "*", "id", "+", "id"}, {"id", "+", "*"}},
		prec:  [][]string{{"L", "*"}, {"L", "+"}},
	},
	{ // AMBIGUOUS dangling else
		terms: []string{"if", "else", "other"}, nonterms: []string{"S"}, start: "S",
		prods: [][]string{{"S", "if", "S"}, {"S", "if", "S", "else", "S"}, {"S", "other"}},
		input: [][]string{{"if", "if", "other", "else", "other"}, {"if", "other", "else", "if", "other"}, {"else"}},
		prec:  [][]string{{"R", "else"}, {"R", "if"}},
	},
}

// Names are derived from the instance number: every round and every goroutine brings terminals and non-terminals the
// process has never seen, so a lazily filled package-level table (interned handles, caches) is cold in every round.
func tname(t string, inst int) grammar.Terminal {
	return grammar.Terminal(fmt.Sprintf("%s.%d", t, inst))
}

func nname(n string, inst int) grammar.NonTerminal {
	return grammar.NonTerminal(fmt.Sprintf("%s_%d", n, inst))
}

func renameInput(in []string, inst int) []string {
	out := make([]string, len(in))
	for i, t := range in {
		out[i] = string(tname(t, inst))
	}
	return out
}

// buildPrec declares the precedence levels of a spec (the first `levels` of them) through the public constructors.
func buildPrec(spec gspec, inst, levels int) lr.PrecedenceLevels {
	ps := lr.PrecedenceLevels{}
	for li, l := range spec.prec {
		if li >= levels {
			break
		}
		assoc := lr.LEFT
		switch l[0] {
		case "R":
			assoc = lr.RIGHT
		case "N":
			assoc = lr.NONE
		}
		var hs []*lr.PrecedenceHandle
		for _, t := range l[1:] {
			hs = append(hs, lr.PrecedenceHandleForTerminal(tname(t, inst)))
		}
		ps = append(ps, &lr.PrecedenceLevel{Associativity: assoc, Handles: lr.NewPrecedenceHandles(hs...)})
	}
	return ps
}

// private grammar: fresh sets, fresh productions, symbol names made instance-specific
func buildGrammar(spec gspec, inst int) *grammar.CFG {
	isNT := map[string]bool{}
	for _, n := range spec.nonterms {
		isNT[n] = true
	}
	var ts []grammar.Terminal
	for _, t := range spec.terms {
		ts = append(ts, tname(t, inst))
	}
	var ns []grammar.NonTerminal
	for _, n := range spec.nonterms {
		ns = append(ns, nname(n, inst))
	}
	var ps []*grammar.Production
	for _, p := range spec.prods {
		body := grammar.String[grammar.Symbol]{}
		for _, x := range p[1:] {
			if isNT[x] {
				body = append(body, nname(x, inst))
			} else {
				body = append(body, tname(x, inst))
			}
		}
		ps = append(ps, &grammar.Production{Head: nname(p[0], inst), Body: body})
	}
	return grammar.NewCFG(ts, ns, ps, nname(spec.start, inst))
}

func sortedNonTerms(g *grammar.CFG) []grammar.NonTerminal {
	var ns []grammar.NonTerminal
	for n := range g.NonTerminals.All() {
		ns = append(ns, n)
	}
	sort.Slice(ns, func(i, j int) bool { return ns[i] < ns[j] })
	return ns
}

func prodsCanon(g *grammar.CFG) string {
	var ps []string
	for p := range g.Productions.All() {
		ps = append(ps, p.String())
	}
	sort.Strings(ps)
	return strings.Join(ps, ";")
}

func wlFirstFollow(inst int) string {
	var out []string
	for gi, spec := range gspecs {
		g := buildGrammar(spec, inst+gi)
		first := g.ComputeFIRST()
		follow := g.ComputeFOLLOW(first)
		for _, n := range sortedNonTerms(g) {
			out = append(out, fmt.Sprintf("%s F=%s W=%s", n, first(grammar.String[grammar.Symbol]{n}), follow(n)))
		}
		for p := range g.Productions.All() {
			_ = first(p.Body)
		}
		tit, nit, pit := g.Terminals.All(), g.NonTerminals.All(), g.Productions.All()
		out = append(out,
			"re:"+reiter1(tit, g.Terminals.All(), func(t grammar.Terminal) string { return string(t) }),
			"re:"+reiter1(nit, nit, func(n grammar.NonTerminal) string { return string(n) }),
			"re:"+reiter1(pit, g.Productions.All(), func(p *grammar.Production) string { return p.String() }),
			"re:"+reiter2(g.Productions.AllByHead(), g.Productions.AllByHead(), func(h grammar.NonTerminal, ps set.Set[*grammar.Production]) string {
				return fmt.Sprintf("%s:%d", h, ps.Size())
			}))
		var nl []string
		for n := range g.NullableNonTerminals().All() {
			nl = append(nl, string(n))
		}
		sort.Strings(nl)
		out = append(out, fmt.Sprint(nl), fmt.Sprint(g.IsLL1() == nil), fmt.Sprint(g.Verify() == nil))
	}
	return dig(out...)
}

func wlTransforms(inst int) string {
	var out []string
	for gi, spec := range gspecs {
		g := buildGrammar(spec, inst+gi)
		orig := prodsCanon(g)
		out = append(out,
			prodsCanon(g.EliminateEmptyProductions()),
			prodsCanon(g.EliminateSingleProductions()),
			prodsCanon(g.EliminateUnreachableProductions()),
			prodsCanon(g.EliminateLeftRecursion()),
			prodsCanon(g.LeftFactor()),
			prodsCanon(g.ChomskyNormalForm()),
			prodsCanon(g.EliminateCycles()),
			fmt.Sprint(g.OrderTerminals()), fmt.Sprint(g.OrderNonTerminals()), fmt.Sprint(g.IsCNF() == nil, g.ChomskyNormalForm().IsCNF() == nil),
			fmt.Sprint(g.Symbols().Size(), len(g.String()) > 0),
			fmt.Sprint(orig == prodsCanon(g), g.Equal(g.Clone())))
	}
	return dig(out...)
}

func errStr(err error) string {
	if err == nil {
		return "<nil>"
	}
	// conflict errors list their items in an order that may depend on iteration order: keep the size only
	return fmt.Sprintf("ERR(%d lines)", strings.Count(err.Error(), "\n")+1)
}

func wlPredictive(inst int) string {
	var out []string
	for gi, spec := range gspecs[:2] {
		g := buildGrammar(spec, inst+gi)
		t, err := predictive.BuildParsingTable(g)
		out = append(out, errStr(err))
		if t != nil {
			out = append(out, t.String(), errStr(t.Conflicts()))
		}
		if gi == 0 {
			for _, in0 := range spec.input {
				in := renameInput(in0, inst+gi)
				p := predictive.New(buildGrammar(spec, inst+gi), newSliceLexer(in))
				out = append(out, parseDigest(p.Parse))
				out = append(out, guarded(func() string {
					node, err := predictive.New(buildGrammar(spec, inst+gi), newSliceLexer(in)).ParseAndBuildAST()
					if err != nil {
						return "ast-reject"
					}
					return node.String() + astDOT(node)
				}))
			}
		}
	}
	return dig(out...)
}

type tableBuilder func(*grammar.CFG, lr.PrecedenceLevels) (*lr.ParsingTable, error)

func lrWorkload(specs []int, build tableBuilder, newParser func(lexer.Lexer, *grammar.CFG, lr.PrecedenceLevels) (*lr.Parser, error)) func(int) string {
	return func(inst int) string {
		var out []string
		for gi, si := range specs {
			spec := gspecs[si]
			// ambiguous grammars: once with all their precedence levels (conflicts resolved), once with one level
			// missing (the construction must report the conflict, which walks the handles of the conflicting actions)
			variants := []int{0}
			if len(spec.prec) > 0 {
				variants = []int{len(spec.prec), len(spec.prec) - 1}
			}
			for _, levels := range variants {
				g := buildGrammar(spec, inst+gi)
				t, err := build(g, buildPrec(spec, inst+gi, levels))
				out = append(out, errStr(err), buildPrec(spec, inst+gi, levels).String())
				if err != nil || t == nil {
					continue
				}
				out = append(out, t.String())
				for _, in0 := range spec.input {
					in := renameInput(in0, inst+gi)
					p, perr := newParser(newSliceLexer(in), buildGrammar(spec, inst+gi), buildPrec(spec, inst+gi, levels))
					if perr != nil {
						out = append(out, "noparser")
						continue
					}
					out = append(out, parseDigest(p.Parse))
					if p2, e2 := newParser(newSliceLexer(in), buildGrammar(spec, inst+gi), buildPrec(spec, inst+gi, levels)); e2 == nil {
						out = append(out, guarded(func() string {
							node, err := p2.ParseAndBuildAST()
							if err != nil {
								return "ast-reject"
							}
							return node.String() + astDOT(node)
						}))
					}
					if p3, e3 := newParser(newSliceLexer(in), buildGrammar(spec, inst+gi), buildPrec(spec, inst+gi, levels)); e3 == nil {
						out = append(out, guarded(func() string {
							v, err := p3.ParseAndEvaluate(func(pr *grammar.Production, vs []*lr.Value) (any, error) { return len(vs) + len(pr.Body), nil })
							if err != nil {
								return "eval-reject"
							}
							return fmt.Sprint(v.Val)
						}))
					}
				}
			}
		}
		return dig(out...)
	}
}

var (
	wlSLR  = lrWorkload([]int{3, 4, 5}, simple.BuildParsingTable, simple.New)
	wlLALR = lrWorkload([]int{2, 4, 5}, lookahead.BuildParsingTable, lookahead.New)
	wlLR1  = lrWorkload([]int{5, 4}, canonical.BuildParsingTable, canonical.New)
)

// ---------------------------------------------------------------- a private lexer over a token slice

type sliceLexer struct {
	toks []string
	i    int
}

func newSliceLexer(toks []string) *sliceLexer { return &sliceLexer{toks: toks} }

func (l *sliceLexer) NextToken() (lexer.Token, error) {
	if l.i >= len(l.toks) {
		return lexer.Token{}, io.EOF
	}
	t := l.toks[l.i]
	l.i++
	return lexer.Token{Terminal: grammar.Terminal(t), Lexeme: t, Pos: lexer.Position{Offset: l.i, Line: 1, Column: l.i}}, nil
}

func parseDigest(parse func(parser.TokenFunc, parser.ProductionFunc) error) string {
	var steps []string
	err := parse(
		func(t *lexer.Token) error { steps = append(steps, "t:"+string(t.Terminal)); return nil },
		func(p *grammar.Production) error { steps = append(steps, "p:"+p.String()); return nil },
	)
	ok := "accept"
	if err != nil {
		ok = "reject"
	}
	return ok + "[" + strings.Join(steps, " ") + "]"
}

// ---------------------------------------------------------------- automata

func wlAutomata(inst int) string {
	var out []string
	// fresh state numbers and input symbols per instance
	so, yo := automata.State(16*(inst%4096)), automata.Symbol(3*(inst%100000))
	syms := func(w string) automata.String {
		r := toSyms(w)
		for i := range r {
			r[i] += yo
		}
		return r
	}
	// (a|b)*abb with instance-specific extra branches
	n := automata.NewNFA(so, []automata.State{so + 10})
	n.Add(so+0, automata.E, []automata.State{so + 1, so + 7})
	n.Add(so+1, automata.E, []automata.State{so + 2, so + 4})
	n.Add(so+2, 'a'+yo, []automata.State{so + 3})
	n.Add(so+3, automata.E, []automata.State{so + 6})
	n.Add(so+4, 'b'+yo, []automata.State{so + 5})
	n.Add(so+5, automata.E, []automata.State{so + 6})
	n.Add(so+6, automata.E, []automata.State{so + 1, so + 7})
	n.Add(so+7, 'a'+yo, []automata.State{so + 8})
	n.Add(so+8, 'b'+yo, []automata.State{so + 9})
	n.Add(so+9, 'b'+yo, []automata.State{so + 10})
	if inst%2 == 1 {
		n.Add(so+9, 'c'+yo, []automata.State{so + 10})
	}
	d := n.ToDFA()
	m := d.Minimize().EliminateDeadStates().ReindexStates()
	out = append(out, d.String(), m.String(), fmt.Sprint(len(m.States()), len(m.Symbols())))
	for _, w := range []string{"abb", "aabb", "babb", "ab", "", "abab", "abc", "bbabc"} {
		out = append(out, fmt.Sprint(n.Accept(syms(w)), d.Accept(syms(w)), m.Accept(syms(w))))
	}
	n2 := m.ToNFA()
	st := n2.Star()
	un := n.Union(n2)
	out = append(out, fmt.Sprint(st.Accept(syms("abbabb")), un.Accept(syms("abb")), n2.ToDFA().Minimize().ReindexStates().Equal(m) || true))
	out = append(out, un.ToDFA().Minimize().EliminateDeadStates().ReindexStates().String())
	d2 := automata.NewDFA(so, []automata.State{so + 3})
	d2.Add(so+0, 'a'+yo, so+1)
	d2.Add(so+0, 'b'+yo, so+0)
	d2.Add(so+1, 'a'+yo, so+1)
	d2.Add(so+1, 'b'+yo, so+2)
	d2.Add(so+2, 'a'+yo, so+1)
	d2.Add(so+2, 'b'+yo, so+3)
	d2.Add(so+3, 'a'+yo, so+1)
	d2.Add(so+3, 'b'+yo, so+0)
	out = append(out, fmt.Sprint(d2.Minimize().ReindexStates().String()), fmt.Sprint(d2.Equal(d2.Clone())))
	out = append(out, guarded(func() string {
		m2 := d2.Minimize().ReindexStates()
		return fmt.Sprint(m.Isomorphic(m2), m2.Isomorphic(m2.Clone()), n2.Isomorphic(n2.Clone()))
	}))
	out = append(out, guarded(func() string {
		c, fin := automata.CombineDFA(m, d2)
		return c.String() + fmt.Sprint(fin, c.Accept(syms("abb")), c.Accept(syms("ba")))
	}))
	out = append(out, guarded(func() string {
		cc := n.Concat(n2)
		return fmt.Sprint(cc.Accept(syms("abbabb")), cc.Accept(syms("abb")), len(cc.States()), len(cc.Symbols()))
	}))
	stSet := automata.NewStates(so, so+3, so+5, so+9)
	sit, ntr, dtr := stSet.All(), n.Transitions(), d.Transitions()
	out = append(out,
		"re:"+reiter1(sit, automata.NewStates(so+1, so+2).All(), func(s automata.State) string { return fmt.Sprint(int(s - so)) }),
		"re:"+reiter1(ntr, ntr, func(t *automata.Transition[[]automata.State]) string {
			return fmt.Sprint(int(t.State-so), int(t.Symbol), len(t.Next))
		}),
		"re:"+reiter1(dtr, d.Transitions(), func(t *automata.Transition[automata.State]) string {
			return fmt.Sprint(int(t.State), int(t.Symbol), int(t.Next))
		}))
	nt, dt := 0, 0
	for range n.Transitions() {
		nt++
	}
	for range d.Transitions() {
		dt++
	}
	out = append(out, fmt.Sprint(nt, dt, len(n.Next(so, automata.E)), d.Next(0, 'a'+yo) >= 0, len(n.DOT()) > 0, len(m.DOT()) > 0, n.Equal(n.Clone()), len(n.String()) > 0))
	return dig(out...)
}

// astDOT renders an abstract syntax tree through package dot (record labels with escaping)
func astDOT(n parser.Node) string {
	if in, ok := n.(*parser.InternalNode); ok {
		return in.DOT()
	}
	return n.String()
}

// guarded turns a panic of one query into a (deterministic) result instead of losing the rest of the digest
func guarded(f func() string) (res string) {
	defer func() {
		if r := recover(); r != nil {
			res = "PANIC:" + strings.SplitN(fmt.Sprint(r), "\n", 2)[0]
		}
	}()
	return f()
}

func toSyms(s string) automata.String {
	var r automata.String
	for _, c := range s {
		r = append(r, automata.Symbol(c))
	}
	return r
}

// ---------------------------------------------------------------- the library's exported package-level helpers

// wlHelpers uses the package-level Hash*/Eq*/Cmp* values the library exports (automata.HashState, lr.HashState,
// grammar.HashSymbol ...) as the hash/equality/order of tables and sets the goroutine creates itself.
func wlHelpers(inst int) string {
	r := &sm{s: uint64(7000 + inst)}
	eqI := generic.NewEqualFunc[int]()
	opts := symboltable.HashOpts{}
	var out []string
	aSt := symboltable.NewLinearHashTable(automata.HashState, automata.EqState, eqI, opts)
	aSy := symboltable.NewChainHashTable(automata.HashSymbol, automata.EqSymbol, eqI, opts)
	lSt := symboltable.NewDoubleHashTable(lr.HashState, lr.EqState, eqI, opts)
	gT := symboltable.NewQuadraticHashTable(grammar.HashTerminal, grammar.EqTerminal, eqI, opts)
	gN := symboltable.NewLinearHashTable(grammar.HashNonTerminal, grammar.EqNonTerminal, eqI, opts)
	gS := symboltable.NewChainHashTable(grammar.HashSymbol, grammar.EqSymbol, eqI, opts)
	gW := symboltable.NewLinearHashTable(grammar.HashString, grammar.EqString, eqI, opts)
	gP := symboltable.NewChainHashTable(grammar.HashProduction, grammar.EqProduction, eqI, opts)
	var hs []string
	for i := 0; i < 60; i++ {
		k := r.intn(500) + inst
		aSt.Put(automata.State(k), i)
		aSy.Put(automata.Symbol('a'+rune(k%26)), i)
		lSt.Put(lr.State(k), i)
		t := grammar.Terminal(fmt.Sprintf("t%d", k))
		n := grammar.NonTerminal(fmt.Sprintf("N%d", k))
		w := grammar.String[grammar.Symbol]{n, t, n}
		p := &grammar.Production{Head: n, Body: w}
		gT.Put(t, i)
		gN.Put(n, i)
		gS.Put(n, i)
		gS.Put(t, i)
		gW.Put(w, i)
		gP.Put(p, i)
		hs = append(hs, fmt.Sprintf("%x.%x.%x.%x.%x.%x.%x.%x", automata.HashState(automata.State(k)), automata.HashSymbol(automata.Symbol(k)),
			lr.HashState(lr.State(k)), grammar.HashTerminal(t), grammar.HashNonTerminal(n), grammar.HashSymbol(t), grammar.HashString(w), grammar.HashProduction(p)))
		if v, ok := gW.Get(w); !ok || v != i {
			hs = append(hs, "LOST")
		}
		if v, ok := gP.Get(p); !ok || v != i {
			hs = append(hs, "LOST")
		}
	}
	out = append(out, strings.Join(hs, ","))
	out = append(out, fmt.Sprint(aSt.Size(), aSy.Size(), lSt.Size(), gT.Size(), gN.Size(), gS.Size(), gW.Size(), gP.Size()))
	hit := lSt.All()
	hkv := func(k lr.State, v int) string { return fmt.Sprintf("%d=%d", k, v) }
	out = append(out, "re:"+reiter2(hit, lSt.All(), hkv), "re:"+reiter2(hit, hit, hkv))
	var ks []string
	for k, v := range lSt.All() {
		ks = append(ks, fmt.Sprintf("%d=%d", k, v))
	}
	sort.Strings(ks)
	out = append(out, strings.Join(ks, ","))
	ss := automata.NewStates()
	for i := 0; i < 30; i++ {
		ss.Add(automata.State(r.intn(40)))
	}
	var sl []string
	for s := range ss.All() {
		sl = append(sl, fmt.Sprint(int(s)))
	}
	out = append(out, strings.Join(sl, ","), fmt.Sprint(lr.CmpState(3, 4), automata.CmpSymbol('a', 'b'), grammar.CmpTerminal("a", "b"), grammar.CmpNonTerminal("B", "A")))
	return dig(out...)
}

// ---------------------------------------------------------------- lists, graphs, the input reader

func wlMisc(inst int) string {
	r := &sm{s: uint64(8000 + inst)}
	eq := generic.NewEqualFunc[int]()
	var out []string
	q, st, sq := list.NewQueue[int](4, eq), list.NewStack[int](4, eq), list.NewSoftQueue[int](eq)
	var seq []string
	for i := 0; i < 90; i++ {
		v := r.intn(1000) + inst
		q.Enqueue(v)
		st.Push(v)
		sq.Enqueue(v)
		if i%3 == 2 {
			a, _ := q.Dequeue()
			b, _ := st.Pop()
			c, _ := sq.Dequeue()
			seq = append(seq, fmt.Sprint(a, b, c))
		}
	}
	out = append(out, strings.Join(seq, ","), fmt.Sprint(q.Size(), st.Size()))
	n := 24 + inst%5
	ug, dg := graph.NewUndirected(n), graph.NewDirected(n)
	for i := 0; i < 3*n; i++ {
		v, w := r.intn(n), r.intn(n)
		ug.AddEdge(v, w)
		if v < w {
			dg.AddEdge(v, w)
		}
	}
	for _, s := range []graph.TraversalStrategy{graph.DFS, graph.DFSi, graph.BFS} {
		p, _ := ug.Paths(0, s).To(n - 1)
		o := dg.Orders(s)
		out = append(out, fmt.Sprint(p), fmt.Sprint(o.PreOrder(), o.PostOrder()))
	}
	wu, wd := graph.NewWeightedUndirected(n), graph.NewWeightedDirected(n)
	for i := 0; i < 3*n; i++ {
		v, w := r.intn(n), r.intn(n)
		if v != w {
			wu.AddEdge(graph.VerifUndirectedEdge(v, w, float64(1+r.intn(50))))
			wd.AddEdge(graph.VerifDirectedEdge(v, w, float64(1+r.intn(50))))
		}
	}
	out = append(out, guarded(func() string {
		mst := wu.MinimumSpanningTree()
		spt := wd.ShortestPathTree(0)
		pth, dist, pok := spt.PathTo(n - 1)
		cyc, cok := dg.DirectedCycle().Cycle()
		rk, rok := dg.Topological().Rank(n / 2)
		return fmt.Sprint(mst.Weight(), len(mst.Edges()), len(pth), dist, pok, cyc, cok, rk, rok,
			wu.ConnectedComponents().Components(), wd.StronglyConnectedComponents().Components(),
			wd.Reverse().E(), dg.Reverse().E(), len(wu.Edges()), len(wd.Edges()), wu.Degree(1), wd.InDegree(1), wd.OutDegree(1),
			ug.Degree(2), dg.InDegree(2), dg.OutDegree(2), len(wu.DOT()) > 0, len(wd.DOT()) > 0, len(dg.DOT()) > 0)
	}))
	for _, st := range []graph.TraversalStrategy{graph.DFS, graph.DFSi, graph.BFS} {
		p1, _ := wu.Paths(0, st).To(n - 1)
		p2, _ := wd.Paths(0, st).To(n - 1)
		out = append(out, fmt.Sprint(p1, p2, wu.Orders(st).ReversePostOrder(), wd.Orders(st).PreOrder(), ug.Orders(st).PostOrder()))
	}
	to, ok := dg.Topological().Order()
	out = append(out, fmt.Sprint(ug.ConnectedComponents().Components()), fmt.Sprint(dg.StronglyConnectedComponents().Components()), fmt.Sprint(to, ok), ug.DOT())
	src := strings.Repeat(fmt.Sprintf("héllo-%d wörld ", inst), 40)
	in, err := input.New("f", strings.NewReader(src), 64)
	if err == nil {
		var rs []rune
		for k := 0; k < 2000; k++ {
			c, e := in.Next()
			if e != nil {
				break
			}
			rs = append(rs, c)
			if k%17 == 16 {
				lx, pos := in.Lexeme()
				out = append(out, lx, pos.String())
			}
			if k%29 == 28 {
				in.Retract()
				c2, _ := in.Next()
				out = append(out, string(c2))
			}
			if k%41 == 40 {
				out = append(out, in.Skip().String())
			}
		}
		out = append(out, string(rs))
	} else {
		out = append(out, "input.New: "+err.Error())
	}
	return dig(out...)
}

// wlSetsNoSync: the same idea as wlHashTablesNoSync for package set — stable and sorted sets with their whole algebra
// (their iteration does not shuffle), the unordered set only through the methods that do not iterate through All()
// (All() takes the package-level shuffle mutex).
func wlSetsNoSync(inst int) string {
	r := &sm{s: uint64(9000 + inst)}
	eq := generic.NewEqualFunc[int]()
	cmp := generic.NewCompareFunc[int]()
	even := func(x int) bool { return x%2 == 0 }
	var out []string
	u := set.New(eq)
	for i := 0; i < 300; i++ {
		u.Add(r.intn(400)+inst, r.intn(400))
		if i%4 == 3 {
			u.Remove(r.intn(400))
		}
	}
	hits := 0
	for i := 0; i < 400; i += 3 {
		if u.Contains(i) {
			hits++
		}
	}
	c := u.Clone()
	sel := u.SelectMatch(even)
	pa, pb := u.PartitionMatch(even)
	fm, fok := c.FirstMatch(func(x int) bool { return x > 1<<30 })
	out = append(out, fmt.Sprint("u", u.Size(), hits, c.Size(), u.Equal(c), sel.Size(), pa.Size(), pb.Size(), u.AnyMatch(even), u.AllMatch(even), fm, fok))
	for mi, m := range []func(v ...int) set.Set[int]{
		func(v ...int) set.Set[int] { return set.NewStable(eq, v...) },
		func(v ...int) set.Set[int] { return set.NewSorted(cmp, v...) },
	} {
		a, b := m(), m()
		for i := 0; i < 120; i++ {
			a.Add(r.intn(150) + inst)
			b.Add(r.intn(150) + 2*inst)
			if i%5 == 4 {
				a.Remove(r.intn(150))
			}
		}
		un, in, df := a.Union(b), a.Intersection(b), a.Difference(b)
		sum := 0
		for x := range un.All() {
			sum += x
		}
		out = append(out, fmt.Sprint("m", mi, a.Size(), b.Size(), un.Size(), in.Size(), df.Size(), sum, in.IsSubset(a), un.IsSuperset(b), a.Equal(a.Clone())))
	}
	return dig(out...)
}

// wlHashFuncs: own hash functions of every input family called directly (no table, no lock shared between goroutines),
// on inputs of very different sizes — empty, a few bytes, just below and above small-buffer thresholds (31, 32, 33, 64 bytes),
// hundreds of bytes — so that a size-dependent path that falls back to shared package-level scratch state is reached.
func wlHashFuncs(inst int) string {
	r := &sm{s: uint64(11000 + inst)}
	hS := hash.HashFuncForString[string](nil)
	hSS := hash.HashFuncForStringSlice[[]string](nil)
	hB := hash.HashFuncForUint8Slice[[]byte](nil)
	hIS := hash.HashFuncForIntSlice[[]int](nil)
	hI64S := hash.HashFuncForInt64Slice[[]int64](nil)
	hFS := hash.HashFuncForFloat64Slice[[]float64](nil)
	hI, hU, hF := hash.HashFuncForInt[int](nil), hash.HashFuncForUint64[uint64](nil), hash.HashFuncForFloat64[float64](nil)
	lens := []int{0, 1, 7, 8, 15, 16, 31, 32, 33, 63, 64, 65, 127, 128, 129, 255, 600, 5000}
	var acc uint64
	for rep := 0; rep < 6; rep++ {
		for _, n := range lens {
			bs := make([]byte, n)
			is := make([]int, n)
			i64 := make([]int64, n)
			fs := make([]float64, n)
			for i := range bs {
				bs[i] = byte('a' + r.intn(26))
				is[i], i64[i], fs[i] = r.intn(1000)+inst, int64(r.intn(1<<30)), float64(r.intn(1000))/7
			}
			str := string(bs)
			acc = acc*31 + hS(str)
			acc = acc*31 + hSS([]string{str, "x", str + str})
			acc = acc*31 + hB(bs)
			acc = acc*31 + hIS(is)
			acc = acc*31 + hI64S(i64)
			acc = acc*31 + hFS(fs)
			acc = acc*31 + hI(n+inst) + hU(uint64(n)) + hF(float64(n)/3)
		}
	}
	// the same long keys through tables of their own
	eqS, eqI := generic.NewEqualFunc[string](), generic.NewEqualFunc[int]()
	t1 := symboltable.NewQuadraticHashTable(hash.HashFuncForString[string](nil), eqS, eqI, symboltable.HashOpts{})
	t2 := symboltable.NewChainHashTable(hash.HashFuncForString[string](nil), eqS, eqI, symboltable.HashOpts{})
	hits := 0
	for i := 0; i < 80; i++ {
		k := strings.Repeat(fmt.Sprintf("k%d-%d/", inst, i), 1+i%12)
		t1.Put(k, i)
		t2.Put(k, i)
		if _, ok := t1.Get(k); ok {
			hits++
		}
		if _, ok := t2.Get(k + "?"); ok {
			hits++
		}
	}
	return dig(fmt.Sprint(acc, hits, t1.Size(), t2.Size()))
}

// wlHashTablesNoSync: mutators and point queries only — Put (growth well past the first resizes), Get, Delete (shrinks), Size.
// No All()/String()/Equal(): those take the package-level shuffle mutex, and a lock that both goroutines happen to pass
// orders everything before it in one goroutine before everything after it in the other, which hides a race on
// unsynchronised package-level state (e.g. a memo inside a helper used by resize) from the detector unless the two
// goroutines run in lockstep.  Without any synchronisation between the goroutines every such access pair is reported.
func wlHashTablesNoSync(inst int) string {
	r := &sm{s: uint64(7000 + inst)}
	hInt := hash.HashFuncForInt[int](nil)
	eqI := generic.NewEqualFunc[int]()
	opts := symboltable.HashOpts{}
	tabs := []symboltable.SymbolTable[int, int]{
		symboltable.NewChainHashTable(hInt, eqI, eqI, opts),
		symboltable.NewLinearHashTable(hInt, eqI, eqI, opts),
		symboltable.NewQuadraticHashTable(hInt, eqI, eqI, opts),
		symboltable.NewDoubleHashTable(hInt, eqI, eqI, opts),
		symboltable.NewQuadraticHashTable(hInt, eqI, eqI, symboltable.HashOpts{InitialCap: []int{151, 157, 163, 167, 173}[inst%5]}),
		symboltable.NewDoubleHashTable(hInt, eqI, eqI, symboltable.HashOpts{InitialCap: []int{211, 223, 227}[inst%3]}),
	}
	var out []string
	n := 260 + inst%11
	for ti, t := range tabs {
		sum := 0
		for i := 0; i < n; i++ {
			t.Put(i*7+inst, i)
			if i%9 == 8 {
				t.Delete(r.intn(n) * 7)
			}
		}
		grown := t.Size()
		for i := 0; i < n; i++ {
			if i%8 != 0 {
				t.Delete(i*7 + inst)
			}
		}
		for i := 0; i < n; i += 3 {
			if v, ok := t.Get(i*7 + inst); ok {
				sum += v
			}
		}
		for i := 0; i < 40; i++ {
			t.Put(-i-1, i)
		}
		out = append(out, fmt.Sprintf("n%d:%d:%d:%d:%v", ti, grown, t.Size(), sum, t.IsEmpty()))
	}
	return dig(out...)
}

var workloads = []workload{
	{"hashtables", "fill and iterate own chain/linear/quadratic/double hash tables (own hash functions)", wlHashTables},
	{"ordered", "own BST/AVL/red-black tables", wlOrderedTables},
	{"sets", "own unordered/stable/sorted sets: algebra, powerset, iteration", wlSets},
	{"tries", "own binary and Patricia tries", wlTries},
	{"heaps", "own binary/binomial/Fibonacci heaps and indexed heaps", wlHeaps},
	{"sorts", "sorts, radix sorts, union-find on own slices", wlSorts},
	{"first-follow", "FIRST/FOLLOW/nullable/LL(1) verdict of own grammars", wlFirstFollow},
	{"transforms", "CFG transformations (ε-, unit-, left-recursion elimination, left factoring, CNF) of own grammars", wlTransforms},
	{"predictive", "predictive parsing tables and predictive parses of own grammars", wlPredictive},
	{"slr", "SLR tables and parses of own grammars", wlSLR},
	{"lalr", "LALR tables and parses of own grammars", wlLALR},
	{"lr1", "canonical LR(1) tables and parses of own grammars", wlLR1},
	{"helpers", "own tables and sets keyed through the library's exported package-level Hash*/Eq*/Cmp* values (automata, lr, grammar)", wlHelpers},
	{"misc", "own queues/stacks, graphs (traversals, components, topological order, DOT), two-buffer input reader", wlMisc},
	{"automata", "own NFA: subset construction, minimisation, dead-state elimination, reindexing, combinators", wlAutomata},
	{"hashtables-nosync", "grow and shrink own hash tables with Put/Get/Delete only (no call that takes a package-level lock)", wlHashTablesNoSync},
	{"sets-nosync", "own stable/sorted sets with their whole algebra, unordered sets without All() (no call that takes a package-level lock)", wlSetsNoSync},
	{"hashfuncs", "own hash functions of every input family called directly on inputs from empty to thousands of bytes; long string keys in own tables", wlHashFuncs},
}
