// Command c17 traces unionfind (quick-find, quick-union, weighted quick-union).
//
//	header:  <QF|QU|WQU> <n>
//	ops:     U p q -> -      F p -> r,t | -1,f      C p q -> t|f      N -> count
package main

import (
	"flag"
	"fmt"
	"os"
	"sort"
	"strconv"
	"strings"

	"github.com/moorara/algo/unionfind"

	"verif/harness/internal/rng"
	"verif/harness/internal/tr"
)

var impls = []string{"QF", "QU", "WQU"}

func mk(impl string, n int) unionfind.UnionFind {
	switch impl {
	case "QF":
		return unionfind.NewQuickFind(n)
	case "QU":
		return unionfind.NewQuickUnion(n)
	}
	return unionfind.NewWeightedQuickUnion(n)
}

func b(x bool) string {
	if x {
		return "t"
	}
	return "f"
}

func exec(w *tr.W, u unionfind.UnionFind, op string) {
	f := strings.Fields(op)
	a := func(i int) int { v, _ := strconv.Atoi(f[i]); return v }
	switch f[0] {
	case "U":
		u.Union(a(1), a(2))
		w.Op(op, "-")
	case "F":
		r, ok := u.Find(a(1))
		w.Op(op, fmt.Sprintf("%d,%s", r, b(ok)))
	case "C":
		w.Op(op, b(u.IsConnected(a(1), a(2))))
	case "N":
		w.Op(op, strconv.Itoa(u.Count()))
	}
}

func battery(w *tr.W, u unionfind.UnionFind, n int) {
	exec(w, u, "N")
	for p := -1; p <= n; p++ {
		exec(w, u, fmt.Sprintf("F %d", p))
	}
	for p := -1; p <= n; p++ {
		for q := -1; q <= n; q++ {
			exec(w, u, fmt.Sprintf("C %d %d", p, q))
		}
	}
}

func runCase(w *tr.W, impl string, n int, ops []string, full bool) {
	w.Begin("%s %d", impl, n)
	u := mk(impl, n)
	for _, op := range ops {
		exec(w, u, op)
	}
	if full {
		battery(w, u, n)
	}
	w.End()
}

// exhaustive: every union sequence of length <= maxLen with arguments in lo..hi.
func exhaustive(w *tr.W, n, lo, hi, maxLen int) {
	var pairs []string
	for p := lo; p <= hi; p++ {
		for q := lo; q <= hi; q++ {
			pairs = append(pairs, fmt.Sprintf("U %d %d", p, q))
		}
	}
	var rec func(prefix []string)
	rec = func(prefix []string) {
		for _, impl := range impls {
			runCase(w, impl, n, prefix, true)
		}
		if len(prefix) == maxLen {
			return
		}
		for _, p := range pairs {
			rec(append(prefix[:len(prefix):len(prefix)], p))
		}
	}
	rec(nil)
}

func random(w *tr.W, r *rng.R, cases, maxN int) {
	for c := 0; c < cases; c++ {
		n := r.Range(0, maxN)
		if r.Chance(1, 4) {
			n = r.Range(0, 8)
		}
		steps := r.Range(0, 3*n+2)
		arg := func() int {
			if n == 0 || r.Chance(1, 12) {
				return []int{-1, n, n + 3, -7}[r.Intn(4)]
			}
			return r.Intn(n)
		}
		var ops []string
		shape := r.Intn(4)
		for i := 0; i < steps; i++ {
			p, q := arg(), arg()
			switch shape {
			case 1: // chain: deep trees for quick-union
				if n > 1 {
					p, q = i%n, (i+1)%n
				}
			case 2: // star into one element
				if n > 0 {
					q = 0
				}
			}
			ops = append(ops, fmt.Sprintf("U %d %d", p, q))
			if r.Chance(1, 2) {
				ops = append(ops, "N", fmt.Sprintf("F %d", arg()), fmt.Sprintf("C %d %d", arg(), arg()))
			}
		}
		for p := -1; p <= n; p++ {
			ops = append(ops, fmt.Sprintf("F %d", p))
		}
		for i := 0; i < 60; i++ {
			ops = append(ops, fmt.Sprintf("C %d %d", arg(), arg()))
		}
		ops = append(ops, "N")
		for _, impl := range impls {
			runCase(w, impl, n, ops, false)
		}
	}
}

// big: sizes far beyond the exhaustive/random ones (and not multiples of small powers of two), with
// unions that involve the LAST elements, the first ones, long chains and self unions; queries are
// concentrated on the tail and on the touched elements.
func big(w *tr.W, r *rng.R, thorough bool) {
	sizes := []int{257, 1000, 4096, 4101, 5003}
	if thorough {
		sizes = append(sizes, 8191, 10007, 20011)
	}
	for _, n := range sizes {
		for shape := 0; shape < 3; shape++ {
			var ops []string
			touched := map[int]bool{}
			add := func(p, q int) {
				ops = append(ops, fmt.Sprintf("U %d %d", p, q))
				touched[p], touched[q] = true, true
			}
			switch shape {
			case 0: // tail elements joined with the front and with each other
				for k := 1; k <= 12; k++ {
					add(n-k, (k*37)%n)
					add(n-k, n-1-(k*5)%16)
				}
				add(n-1, 0)
				add(0, n-1)
				add(n-3, n-3)
			case 1: // a long chain through the whole range in stride, then random unions
				stride := n/61 + 1
				for i := 0; i+stride < n; i += stride {
					add(i+stride, i)
				}
				for k := 0; k < 60; k++ {
					add(r.Intn(n), r.Intn(n))
				}
			case 2: // random unions biased to the last 16 indices, with invalid arguments mixed in
				for k := 0; k < 150; k++ {
					p, q := r.Intn(n), r.Intn(n)
					if r.Chance(1, 3) {
						p = n - 1 - r.Intn(16)
					}
					if r.Chance(1, 3) {
						q = n - 1 - r.Intn(16)
					}
					if r.Chance(1, 20) {
						q = []int{-1, n, n + 7}[r.Intn(3)]
					}
					add(p, q)
					if r.Chance(1, 4) {
						ops = append(ops, "N", fmt.Sprintf("C %d %d", p, q), fmt.Sprintf("F %d", p))
					}
				}
			}
			ops = append(ops, "N")
			var ts []int
			for t := range touched {
				ts = append(ts, t)
			}
			sort.Ints(ts)
			for _, t := range ts {
				ops = append(ops, fmt.Sprintf("F %d", t))
			}
			for k := 0; k < 24; k++ {
				ops = append(ops, fmt.Sprintf("F %d", n-1-k))
			}
			for i := 0; i+1 < len(ts); i++ {
				ops = append(ops, fmt.Sprintf("C %d %d", ts[i], ts[i+1]), fmt.Sprintf("C %d %d", ts[i], ts[len(ts)-1-i]))
			}
			ops = append(ops, fmt.Sprintf("C %d %d", n-1, 0), fmt.Sprintf("F %d", n), fmt.Sprintf("C %d %d", n, 0), "N")
			for _, impl := range impls {
				runCase(w, impl, n, ops, false)
			}
		}
	}
	// degenerate constructors
	for _, n := range []int{0, 1} {
		for _, impl := range impls {
			runCase(w, impl, n, []string{"N", "F 0", "U 0 0", "N", "C 0 0", "F -1", "C 0 1", "U 0 1", "N"}, false)
		}
	}
}

func main() {
	mode := flag.String("mode", "exhaustive", "exhaustive|random|big")
	tier := flag.String("tier", "quick", "quick|thorough")
	replay := flag.String("replay", "", "case file to re-execute")
	flag.Parse()
	w := tr.NewW()
	defer w.Flush()
	if *replay != "" {
		cs, err := tr.ReadCases(*replay)
		if err != nil {
			fmt.Fprintln(os.Stderr, err)
			os.Exit(3)
		}
		for _, c := range cs {
			h := strings.Fields(c.Head)
			n, _ := strconv.Atoi(h[1])
			runCase(w, h[0], n, c.Ops, false)
		}
		return
	}
	thorough := *tier == "thorough"
	switch *mode {
	case "exhaustive":
		exhaustive(w, 0, -1, 0, 2)
		exhaustive(w, 1, -1, 1, 3)
		exhaustive(w, 2, -1, 2, 3)
		if thorough {
			exhaustive(w, 3, -1, 3, 4)
			exhaustive(w, 4, 0, 3, 5)
			exhaustive(w, 5, 0, 4, 4)
		} else {
			exhaustive(w, 3, -1, 3, 3)
			exhaustive(w, 4, 0, 3, 4)
		}
	case "big":
		big(w, rng.FromEnv(170), thorough)
	case "random":
		r := rng.FromEnv(17)
		if thorough {
			random(w, r, 20000, 64)
		} else {
			random(w, r, 1500, 64)
		}
	}
}
