// Command gen-c20 regenerates the premise of property C20 from the Go sources.
//
//	gen-c20 -root <module root> -out <C20_Globals.v> [-json <summary.json>]
//
// It type-checks every non-test file of the module that is compiled WITHOUT the `verif` build tag
// (standard library only: go/parser, go/ast, go/types, go/importer "source"), inventories every
// package-level variable and classifies it by purely syntactic, conservative rules:
//
//	immutable              never written after package initialisation and nothing reachable from it can
//	                       be written through an alias (rules R1..R6 below, recorded in the evidence)
//	synchronised           a sync primitive, or every access after initialisation is lexically inside
//	                       Lock()/Unlock() (or defer Unlock()) of one mutex in the same function
//	unsynchronised-mutable some access after initialisation writes it (or state captured by its closure)
//	                       outside such a critical section
//	unclassified           none of the rules applies; must be justified by hand in C20/Reviewed.v
//
// Rules that discharge aliasing (everything else stays `unclassified`):
//
//	R1 value copy      the expression used has a type without pointers/slices/maps/interfaces/channels
//	R2 read-only param the variable is passed to a function of the module whose parameter (or receiver)
//	                   is itself only read, recursively
//	R3 empty slice     a slice initialised by an empty composite literal (capacity 0) that is never assigned
//	R4 immutable type  a pointer to a struct type of the module none of whose fields is ever written
//	                   except through a local freshly built by &T{..}, T{..}, new(T) or var x T
//	R5 closure         a function value built by a call: the function literal returned by the callee
//	                   captures no variable that it writes (or every such write is inside a critical
//	                   section of a mutex captured from the same scope)
//	R6 init time       accesses in package-level initialisers and func init() run before any goroutine
//	                   of a client exists
//	R7 sentinel error  an `error` built by errors.New / fmt.Errorf and never assigned
package main

import (
	"encoding/json"
	"flag"
	"fmt"
	"go/ast"
	"go/build"
	"go/importer"
	"go/parser"
	"go/token"
	"go/types"
	"os"
	"path/filepath"
	"sort"
	"strings"
)

// ---------------------------------------------------------------- loading

type pkgInfo struct {
	path  string // import path
	rel   string // path relative to the module ("." for the root package)
	dir   string
	files []*ast.File
	info  *types.Info
	pkg   *types.Package
}

type loader struct {
	fset    *token.FileSet
	root    string
	modpath string
	pkgs    map[string]*pkgInfo
	loading map[string]bool
	std     types.ImporterFrom
	ctxt    build.Context
	errs    []string
}

func (l *loader) Import(path string) (*types.Package, error) { return l.ImportFrom(path, l.root, 0) }

func (l *loader) ImportFrom(path, dir string, mode types.ImportMode) (*types.Package, error) {
	if path == "unsafe" {
		return types.Unsafe, nil
	}
	if path == l.modpath || strings.HasPrefix(path, l.modpath+"/") {
		p, err := l.load(path)
		if err != nil {
			return nil, err
		}
		return p.pkg, nil
	}
	return l.std.ImportFrom(path, l.root, 0)
}

func (l *loader) load(path string) (*pkgInfo, error) {
	if p, ok := l.pkgs[path]; ok {
		return p, nil
	}
	if l.loading[path] {
		return nil, fmt.Errorf("import cycle through %s", path)
	}
	l.loading[path] = true
	defer delete(l.loading, path)
	rel := strings.TrimPrefix(strings.TrimPrefix(path, l.modpath), "/")
	if rel == "" {
		rel = "."
	}
	dir := filepath.Join(l.root, filepath.FromSlash(rel))
	ents, err := os.ReadDir(dir)
	if err != nil {
		return nil, err
	}
	p := &pkgInfo{path: path, rel: rel, dir: dir}
	for _, e := range ents {
		n := e.Name()
		if e.IsDir() || !strings.HasSuffix(n, ".go") || strings.HasSuffix(n, "_test.go") {
			continue
		}
		// build constraints evaluated WITHOUT the verif tag: hook files are not part of the library
		if ok, err := l.ctxt.MatchFile(dir, n); err != nil || !ok {
			continue
		}
		f, err := parser.ParseFile(l.fset, filepath.Join(dir, n), nil, parser.ParseComments)
		if err != nil {
			return nil, err
		}
		p.files = append(p.files, f)
	}
	if len(p.files) == 0 {
		return nil, fmt.Errorf("no Go files in %s", dir)
	}
	p.info = &types.Info{
		Types:      map[ast.Expr]types.TypeAndValue{},
		Defs:       map[*ast.Ident]types.Object{},
		Uses:       map[*ast.Ident]types.Object{},
		Selections: map[*ast.SelectorExpr]*types.Selection{},
		Instances:  map[*ast.Ident]types.Instance{},
	}
	conf := types.Config{Importer: l, Error: func(err error) { l.errs = append(l.errs, err.Error()) }}
	p.pkg, _ = conf.Check(path, l.fset, p.files, p.info)
	l.pkgs[path] = p
	return p, nil
}

func readModulePath(root string) string {
	b, err := os.ReadFile(filepath.Join(root, "go.mod"))
	if err != nil {
		fatal("cannot read go.mod: %v", err)
	}
	for _, line := range strings.Split(string(b), "\n") {
		f := strings.Fields(line)
		if len(f) >= 2 && f[0] == "module" {
			return f[1]
		}
	}
	fatal("no module line in go.mod")
	return ""
}

func fatal(f string, a ...any) {
	fmt.Fprintf(os.Stderr, "gen-c20: "+f+"\n", a...)
	os.Exit(2)
}

// ---------------------------------------------------------------- the analysis

type analysis struct {
	l        *loader
	pkgs     []*pkgInfo
	funcDecl map[*types.Func]*ast.FuncDecl
	funcPkg  map[*types.Func]*pkgInfo
	memo     map[string]int // parameter read-only memo: 1 in progress/true, 2 false
	memoWhy  map[string]string
	typeMemo map[*types.TypeName]string // "" = immutable, else reason
	typeDone map[*types.TypeName]bool
	imported map[string][]string // module package -> non-test importers inside the module
}

// a classified occurrence of a tracked variable
type use struct {
	cat     string // read call range assign elem-write field-write addr method-mut append-base atomic escape-*
	detail  string
	fn      string // enclosing function
	init    bool   // package-level initialiser or func init()
	guard   string // mutex guarding the occurrence, if any (display name)
	gi      guardInfo
	callee  *types.Func
	argIdx  int // parameter index, -1 = receiver
	pos     token.Pos
	typ     types.Type
	path    string
	rootVar *types.Var
}

func isWrite(c string) bool {
	switch c {
	case "assign", "elem-write", "field-write", "addr", "method-mut", "append-base":
		return true
	}
	return false
}

func hasPointers(t types.Type) bool { return hasPtr(t, 0) }

func hasPtr(t types.Type, d int) bool {
	if t == nil || d > 8 {
		return true
	}
	switch u := t.Underlying().(type) {
	case *types.Basic:
		return u.Kind() == types.UnsafePointer
	case *types.Array:
		return hasPtr(u.Elem(), d+1)
	case *types.Struct:
		for i := 0; i < u.NumFields(); i++ {
			if hasPtr(u.Field(i).Type(), d+1) {
				return true
			}
		}
		return false
	case *types.Signature:
		return false // the state captured by a function value is analysed where the closure is built
	case *types.Tuple:
		for i := 0; i < u.Len(); i++ {
			if hasPtr(u.At(i).Type(), d+1) {
				return true
			}
		}
		return false
	}
	return true
}

func elemType(t types.Type) types.Type {
	switch u := t.Underlying().(type) {
	case *types.Slice:
		return u.Elem()
	case *types.Array:
		return u.Elem()
	case *types.Map:
		return types.NewTuple(types.NewVar(0, nil, "", u.Key()), types.NewVar(0, nil, "", u.Elem()))
	case *types.Pointer:
		return elemType(u.Elem())
	case *types.Chan:
		return u.Elem()
	case *types.Basic:
		return types.Typ[types.Int32]
	}
	return nil
}

func isSyncType(t types.Type) bool {
	if p, ok := t.(*types.Pointer); ok {
		t = p.Elem()
	}
	n, ok := t.(*types.Named)
	if !ok || n.Obj().Pkg() == nil {
		return false
	}
	pp := n.Obj().Pkg().Path()
	return pp == "sync" || pp == "sync/atomic" || goroutineSafe[pp+"."+n.Obj().Name()]
}

// goroutineSafe: standard-library types documented as safe for concurrent use (table, trusted)
var goroutineSafe = map[string]bool{"regexp.Regexp": true, "strings.Replacer": true, "log.Logger": true, "time.Location": true}

func isMutexType(t types.Type) bool {
	if !isSyncType(t) {
		return false
	}
	if p, ok := t.(*types.Pointer); ok {
		t = p.Elem()
	}
	name := t.(*types.Named).Obj().Name()
	return name == "Mutex" || name == "RWMutex"
}

func (a *analysis) inModule(o types.Object) bool {
	if o == nil || o.Pkg() == nil {
		return false
	}
	p := o.Pkg().Path()
	return p == a.l.modpath || strings.HasPrefix(p, a.l.modpath+"/")
}

func (a *analysis) relPkg(p *types.Package) string {
	if p == nil {
		return ""
	}
	r := strings.TrimPrefix(strings.TrimPrefix(p.Path(), a.l.modpath), "/")
	if r == "" {
		return "."
	}
	return r
}

func (a *analysis) funcName(f *types.Func) string {
	if f == nil {
		return "?"
	}
	sig, _ := f.Type().(*types.Signature)
	pk := a.relPkg(f.Pkg())
	if !a.inModule(f) && f.Pkg() != nil {
		pk = f.Pkg().Path()
	}
	if sig != nil && sig.Recv() != nil {
		rt := sig.Recv().Type()
		star := ""
		if p, ok := rt.(*types.Pointer); ok {
			rt, star = p.Elem(), "*"
		}
		tn := "?"
		if n, ok := rt.(*types.Named); ok {
			tn = n.Obj().Name()
		} else if types.IsInterface(rt) {
			tn = "interface"
		}
		return fmt.Sprintf("%s.(%s%s).%s", pk, star, tn, f.Name())
	}
	return pk + "." + f.Name()
}

// enclosing returns the innermost function node of the stack, the outermost FuncDecl and a display name.
func (a *analysis) enclosing(p *pkgInfo, stack []ast.Node) (inner ast.Node, decl *ast.FuncDecl, name string, initTime bool) {
	for i := len(stack) - 1; i >= 0; i-- {
		switch n := stack[i].(type) {
		case *ast.FuncLit:
			if inner == nil {
				inner = n
			}
		case *ast.FuncDecl:
			if inner == nil {
				inner = n
			}
			decl = n
		}
	}
	if decl != nil {
		if f, ok := p.info.Defs[decl.Name].(*types.Func); ok {
			name = a.funcName(f)
		} else {
			name = p.rel + "." + decl.Name.Name
		}
		if inner != ast.Node(decl) {
			name += "$closure"
		}
		initTime = decl.Recv == nil && decl.Name.Name == "init" && inner == ast.Node(decl)
		return
	}
	if inner != nil {
		return inner, nil, p.rel + ".<package-level function literal>", false
	}
	return nil, nil, p.rel + ".<package initialiser>", true
}

func funcBody(n ast.Node) *ast.BlockStmt {
	switch f := n.(type) {
	case *ast.FuncDecl:
		return f.Body
	case *ast.FuncLit:
		return f.Body
	}
	return nil
}

// mutexCall recognises `X.Lock()`, `X.Unlock()`, ... where X is a mutex: a variable, pkg.variable, or a
// chain of fields of a variable.  It returns the ROOT variable of X, a key identifying the mutex and the method.
func mutexCall(p *pkgInfo, e ast.Expr) (root *types.Var, key string, meth string) {
	c, ok := e.(*ast.CallExpr)
	if !ok {
		return nil, "", ""
	}
	s, ok := c.Fun.(*ast.SelectorExpr)
	if !ok {
		return nil, "", ""
	}
	if t := p.info.TypeOf(s.X); t == nil || !isMutexType(t) {
		return nil, "", ""
	}
	x := ast.Unparen(s.X)
	path := ""
	for {
		switch y := x.(type) {
		case *ast.Ident:
			v, ok := p.info.Uses[y].(*types.Var)
			if !ok {
				return nil, "", ""
			}
			return v, fmt.Sprintf("%s%s@%d", v.Name(), path, v.Pos()), s.Sel.Name
		case *ast.SelectorExpr:
			if sel := p.info.Selections[y]; sel != nil {
				if sel.Kind() != types.FieldVal {
					return nil, "", ""
				}
				path = "." + y.Sel.Name + path
				x = ast.Unparen(y.X)
				continue
			}
			v, ok := p.info.Uses[y.Sel].(*types.Var) // pkg.mu
			if !ok {
				return nil, "", ""
			}
			return v, fmt.Sprintf("%s%s@%d", v.Name(), path, v.Pos()), s.Sel.Name
		case *ast.UnaryExpr, *ast.StarExpr:
			return nil, "", ""
		default:
			return nil, "", ""
		}
	}
}

func containsReturn(stmts []ast.Stmt) bool {
	found := false
	for _, s := range stmts {
		ast.Inspect(s, func(n ast.Node) bool {
			switch n.(type) {
			case *ast.FuncLit:
				return false
			case *ast.ReturnStmt:
				found = true
			}
			return !found
		})
	}
	return found
}

type guardInfo struct {
	name      string     // display name of the mutex
	key       string     // identity of the mutex
	exclusive bool       // Lock (true) or RLock (false)
	root      *types.Var // the variable the mutex lives in
}

func (g guardInfo) pkgLevel() bool {
	return g.root != nil && g.root.Pkg() != nil && g.root.Parent() == g.root.Pkg().Scope()
}

// guardOf: the occurrence at pos is lexically inside a critical section of the innermost function:
// a top-level `M.Lock()` before it and either a top-level `defer M.Unlock()` between the two or a
// top-level `M.Unlock()` after it with no return statement in between.  M must live in a variable
// declared outside that function (a mutex created per call, a parameter or the receiver guard nothing
// that is shared between callers); the callers check that M's scope matches the guarded state.
func (a *analysis) guardOf(p *pkgInfo, inner ast.Node, pos token.Pos) guardInfo {
	body := funcBody(inner)
	if body == nil {
		return guardInfo{}
	}
	si := -1
	for i, s := range body.List {
		if s.Pos() <= pos && pos < s.End() {
			si = i
		}
	}
	if si < 0 {
		return guardInfo{}
	}
	for i := 0; i < si; i++ {
		es, ok := body.List[i].(*ast.ExprStmt)
		if !ok {
			continue
		}
		m, key, meth := mutexCall(p, es.X)
		if m == nil || (meth != "Lock" && meth != "RLock") {
			continue
		}
		if inner.Pos() <= m.Pos() && m.Pos() < inner.End() {
			continue
		}
		un := "Unlock"
		if meth == "RLock" {
			un = "RUnlock"
		}
		g := guardInfo{name: strings.SplitN(key, "@", 2)[0], key: key, exclusive: meth == "Lock", root: m}
		for k := i + 1; k < len(body.List); k++ {
			if k < si {
				if d, ok := body.List[k].(*ast.DeferStmt); ok {
					if _, k2, me := mutexCall(p, d.Call); k2 == key && me == un {
						return g
					}
				}
			}
			if k > si {
				if es2, ok := body.List[k].(*ast.ExprStmt); ok {
					if _, k2, me := mutexCall(p, es2.X); k2 == key && me == un && !containsReturn(body.List[i+1:k]) {
						return g
					}
				}
			}
		}
	}
	return guardInfo{}
}

// calleeOf resolves the function called by a call expression (nil for calls through function values).
func calleeOf(p *pkgInfo, c *ast.CallExpr) (obj types.Object, recvSel *types.Selection) {
	fun := ast.Unparen(c.Fun)
	for {
		switch f := fun.(type) {
		case *ast.IndexExpr:
			fun = ast.Unparen(f.X)
			continue
		case *ast.IndexListExpr:
			fun = ast.Unparen(f.X)
			continue
		}
		break
	}
	switch f := fun.(type) {
	case *ast.Ident:
		return p.info.Uses[f], nil
	case *ast.SelectorExpr:
		if s := p.info.Selections[f]; s != nil {
			return s.Obj(), s
		}
		return p.info.Uses[f.Sel], nil
	}
	if tv, ok := p.info.Types[fun]; ok && tv.IsType() {
		return types.NewTypeName(0, nil, "conversion", tv.Type), nil
	}
	return nil, nil
}

// classifyUse classifies the occurrence stack[len-1] (an identifier that denotes the tracked variable).
func (a *analysis) classifyUse(p *pkgInfo, stack []ast.Node) use {
	id := stack[len(stack)-1].(*ast.Ident)
	inner, _, fname, initTime := a.enclosing(p, stack)
	u := use{fn: fname, init: initTime, pos: id.Pos()}
	if inner != nil {
		u.gi = a.guardOf(p, inner, id.Pos())
		u.guard = u.gi.name
	}
	var cur ast.Expr = id
	i := len(stack) - 2
	path := ""
	done := func(cat, detail string) use {
		u.cat, u.detail, u.path = cat, detail, path
		u.typ = p.info.TypeOf(cur)
		return u
	}
	value := func(kind string) use { // the value of cur flows somewhere
		t := p.info.TypeOf(cur)
		if !hasPointers(t) {
			return done("read", "copy")
		}
		return done("escape-"+kind, "")
	}
	for i >= 0 {
		switch par := stack[i].(type) {
		case *ast.ParenExpr:
			cur = par
			i--
			continue
		case *ast.SelectorExpr:
			if par.Sel == cur { // qualified identifier pkg.V
				cur = par
				i--
				continue
			}
			sel := p.info.Selections[par]
			if sel == nil {
				return done("escape-other", "selector")
			}
			if sel.Kind() == types.FieldVal {
				path += "." + par.Sel.Name
				cur = par
				i--
				continue
			}
			// method value or method call with the variable (or a part of it) as receiver
			f, _ := sel.Obj().(*types.Func)
			if f == nil {
				return done("escape-other", "method")
			}
			u.callee, u.argIdx = f.Origin(), -1
			if isSyncType(sel.Recv()) {
				return done("sync-op", "sync."+f.Name())
			}
			if types.IsInterface(sel.Recv()) {
				u.typ = sel.Recv()
				u.cat, u.detail, u.path = "method-mut", "interface method "+f.Name(), path
				return u
			}
			sig := f.Type().(*types.Signature)
			_, ptrRecv := sig.Recv().Type().(*types.Pointer)
			rt := p.info.TypeOf(cur)
			if !ptrRecv && !hasPointers(rt) {
				return done("read", "value method "+f.Name())
			}
			if a.inModule(f) {
				u.typ = rt
				u.cat, u.detail, u.path = "escape-recv", a.funcName(f), path
				return u
			}
			if ptrRecv {
				return done("method-mut", a.funcName(f))
			}
			return done("escape-other", "value method "+a.funcName(f))
		case *ast.IndexExpr:
			if par.X == cur {
				path += "[]"
				cur = par
				i--
				continue
			}
			return done("read", "index")
		case *ast.StarExpr:
			path += "*"
			cur = par
			i--
			continue
		case *ast.SliceExpr:
			if par.X == cur {
				path += "[:]"
				cur = par
				i--
				continue
			}
			return done("read", "bound")
		case *ast.TypeAssertExpr:
			if par.X == cur {
				cur = par
				i--
				continue
			}
			return done("read", "")
		case *ast.AssignStmt:
			for _, l := range par.Lhs {
				if l == cur {
					switch {
					case path == "":
						return done("assign", lazyInit(p, stack, id))
					case strings.HasSuffix(path, "]"):
						return done("elem-write", "")
					default:
						return done("field-write", "")
					}
				}
			}
			return value("store")
		case *ast.IncDecStmt:
			if path == "" {
				return done("assign", par.Tok.String())
			}
			return done("elem-write", par.Tok.String())
		case *ast.RangeStmt:
			if par.X == cur {
				if et := elemType(p.info.TypeOf(cur)); et != nil && !hasPointers(et) {
					return done("range", "")
				}
				return done("escape-range", "elements with pointers")
			}
			if par.Key == cur || par.Value == cur {
				if path == "" {
					return done("assign", "range")
				}
				return done("elem-write", "range")
			}
			return done("read", "")
		case *ast.UnaryExpr:
			if par.Op == token.AND {
				// &v handed to sync/atomic is an atomic access
				if i-1 >= 0 {
					if c, ok := stack[i-1].(*ast.CallExpr); ok {
						if o, _ := calleeOf(p, c); o != nil && o.Pkg() != nil && o.Pkg().Path() == "sync/atomic" {
							return done("atomic", o.Name())
						}
					}
				}
				return done("addr", "")
			}
			return done("read", "")
		case *ast.BinaryExpr:
			return done("read", "")
		case *ast.CallExpr:
			if ast.Unparen(par.Fun) == cur {
				return done("call", "")
			}
			if _, ok := ast.Unparen(par.Fun).(*ast.IndexExpr); ok && par.Fun.Pos() <= cur.Pos() && cur.End() <= par.Fun.End() {
				return done("call", "")
			}
			j := -1
			for k, arg := range par.Args {
				if arg == cur {
					j = k
				}
			}
			if j < 0 {
				return done("escape-other", "call")
			}
			o, _ := calleeOf(p, par)
			switch c := o.(type) {
			case *types.Builtin:
				switch c.Name() {
				case "len", "cap", "min", "max", "print", "println", "real", "imag", "complex":
					return done("read", c.Name())
				case "append":
					if j == 0 {
						return done("append-base", "")
					}
					if par.Ellipsis.IsValid() {
						if et := elemType(p.info.TypeOf(cur)); et != nil && !hasPointers(et) {
							return done("read", "append source")
						}
					}
					return value("store")
				case "copy":
					if j == 0 {
						return done("elem-write", "copy")
					}
					if et := elemType(p.info.TypeOf(cur)); et != nil && !hasPointers(et) {
						return done("read", "copy source")
					}
					return value("store")
				case "delete", "clear":
					return done("elem-write", c.Name())
				}
				return value("arg")
			case *types.TypeName: // conversion keeps the alias
				cur = par
				i--
				continue
			case *types.Func:
				t := p.info.TypeOf(cur)
				if !hasPointers(t) {
					return done("read", "copy")
				}
				u.callee = c.Origin()
				sig := c.Type().(*types.Signature)
				u.argIdx = j
				if sig.Variadic() && j >= sig.Params().Len()-1 {
					u.argIdx = sig.Params().Len() - 1
					if !par.Ellipsis.IsValid() { // the value becomes an element of a fresh slice
						u.detail = "variadic element"
					}
				}
				u.cat, u.path, u.typ = "escape-arg", path, t
				if u.detail == "" {
					u.detail = a.funcName(c)
				} else {
					u.detail = a.funcName(c) + " (" + u.detail + ")"
				}
				return u
			}
			return value("arg")
		case *ast.ReturnStmt:
			return value("return")
		case *ast.ValueSpec:
			return value("store")
		case *ast.CompositeLit:
			return value("store")
		case *ast.KeyValueExpr:
			if par.Value == cur {
				return value("store")
			}
			return done("read", "key")
		case *ast.SendStmt:
			if par.Value == cur {
				return value("send")
			}
			return done("read", "")
		case *ast.ExprStmt, *ast.IfStmt, *ast.ForStmt, *ast.SwitchStmt, *ast.CaseClause, *ast.TypeSwitchStmt:
			return done("read", "")
		default:
			return value("other")
		}
	}
	return value("other")
}

// lazyInit recognises `if V == nil { V = ... }` (racy lazy initialisation unless it runs in init() or under sync.Once / a mutex).
func lazyInit(p *pkgInfo, stack []ast.Node, id *ast.Ident) string {
	v := p.info.Uses[id]
	for i := len(stack) - 1; i >= 0; i-- {
		switch n := stack[i].(type) {
		case *ast.FuncLit, *ast.FuncDecl:
			return ""
		case *ast.IfStmt:
			if b, ok := ast.Unparen(n.Cond).(*ast.BinaryExpr); ok && b.Op == token.EQL {
				for _, side := range []ast.Expr{b.X, b.Y} {
					var sid *ast.Ident
					switch x := ast.Unparen(side).(type) {
					case *ast.Ident:
						sid = x
					case *ast.SelectorExpr:
						sid = x.Sel
					}
					if sid != nil && p.info.Uses[sid] == v && v != nil {
						return "racy lazy initialisation: `if " + id.Name + " == nil { " + id.Name + " = ... }` outside init() / sync.Once"
					}
				}
			}
		}
	}
	return ""
}

// usesOf walks a node and reports every classified occurrence of the variables selected by want.
func (a *analysis) usesOf(p *pkgInfo, root ast.Node, prefix []ast.Node, want func(*types.Var) bool) []use {
	var out []use
	stack := append([]ast.Node(nil), prefix...)
	ast.Inspect(root, func(n ast.Node) bool {
		if n == nil {
			stack = stack[:len(stack)-1]
			return true
		}
		stack = append(stack, n)
		if id, ok := n.(*ast.Ident); ok {
			if v, ok := p.info.Uses[id].(*types.Var); ok && want(v) {
				u := a.classifyUse(p, stack)
				u.rootVar = v
				out = append(out, u)
			}
		}
		return true
	})
	return out
}

// paramReadOnly: is parameter idx (-1: receiver) of f only read inside f, recursively (rule R2)?
func (a *analysis) paramReadOnly(f *types.Func, idx int, depth int) (bool, string) {
	f = f.Origin()
	key := fmt.Sprintf("%p/%d", f, idx)
	switch a.memo[key] {
	case 1:
		return true, ""
	case 2:
		return false, a.memoWhy[key]
	}
	fail := func(why string) (bool, string) {
		a.memo[key], a.memoWhy[key] = 2, why
		return false, why
	}
	d := a.funcDecl[f]
	p := a.funcPkg[f]
	if d == nil || d.Body == nil {
		return fail("no source for " + a.funcName(f))
	}
	if depth > 6 {
		return fail("call chain too deep at " + a.funcName(f))
	}
	var pid *ast.Ident
	if idx < 0 {
		if d.Recv != nil && len(d.Recv.List) > 0 && len(d.Recv.List[0].Names) > 0 {
			pid = d.Recv.List[0].Names[0]
		}
	} else {
		k := 0
		for _, fl := range d.Type.Params.List {
			if len(fl.Names) == 0 {
				k++
				continue
			}
			for _, n := range fl.Names {
				if k == idx {
					pid = n
				}
				k++
			}
		}
	}
	if pid == nil || pid.Name == "_" {
		a.memo[key] = 1
		return true, ""
	}
	pv, _ := p.info.Defs[pid].(*types.Var)
	if pv == nil {
		return fail("parameter not found in " + a.funcName(f))
	}
	a.memo[key] = 1 // coinductive: a recursive call with the same parameter is fine
	for _, u := range a.usesOf(p, d.Body, []ast.Node{d}, func(v *types.Var) bool { return v == pv }) {
		if ok, why := a.benignAliasUse(u, depth); !ok {
			return fail(fmt.Sprintf("%s: parameter %s: %s", a.funcName(f), pid.Name, why))
		}
	}
	return true, ""
}

// benignAliasUse: an occurrence of an ALIAS (parameter, receiver) of the tracked memory that cannot write it.
func (a *analysis) benignAliasUse(u use, depth int) (bool, string) {
	switch u.cat {
	case "read", "call", "range", "atomic", "sync-op":
		return true, ""
	case "assign":
		if u.path == "" {
			return true, "" // re-binding the local alias itself
		}
	case "escape-arg", "escape-recv":
		if u.callee != nil && a.inModule(u.callee) && !strings.Contains(u.detail, "variadic element") {
			return a.paramReadOnly(u.callee, u.argIdx, depth+1)
		}
	}
	if u.typ != nil {
		if ok, _ := a.immutableByType(u.typ); ok {
			return true, ""
		}
	}
	d := u.cat
	if u.detail != "" {
		d += " " + u.detail
	}
	return false, d + " in " + u.fn
}

// immutableByType (rule R4): t is *T or T for a struct type T of the module whose fields are never written
// except through freshly built locals.
func (a *analysis) immutableByType(t types.Type) (bool, string) {
	if p, ok := t.(*types.Pointer); ok {
		t = p.Elem()
	}
	n, ok := t.(*types.Named)
	if !ok {
		return false, "not a named struct type"
	}
	tn := n.Origin().Obj()
	st, ok := n.Origin().Underlying().(*types.Struct)
	if !ok || !a.inModule(tn) {
		return false, "not a struct type of the module"
	}
	if a.typeDone[tn] {
		return a.typeMemo[tn] == "", a.typeMemo[tn]
	}
	a.typeDone[tn] = true
	a.typeMemo[tn] = "" // coinductive
	fields := map[*types.Var]bool{}
	exported := false
	for i := 0; i < st.NumFields(); i++ {
		fields[st.Field(i)] = true
		exported = exported || st.Field(i).Exported()
		// nested state must be immutable too, or plain data
		ft := st.Field(i).Type()
		if hasPointers(ft) {
			if _, isSlice := ft.Underlying().(*types.Slice); isSlice && !hasPointers(elemType(ft)) {
				continue // a slice of plain data owned by the struct: its writes are field-rooted and checked below
			}
			if ok, why := a.immutableByType(ft); !ok {
				a.typeMemo[tn] = "field " + st.Field(i).Name() + ": " + why
				return false, a.typeMemo[tn]
			}
		}
	}
	for _, p := range a.pkgs {
		if !exported && p.pkg != tn.Pkg() {
			continue
		}
		for _, file := range p.files {
			var stack []ast.Node
			bad := ""
			ast.Inspect(file, func(nd ast.Node) bool {
				if nd == nil {
					stack = stack[:len(stack)-1]
					return true
				}
				stack = append(stack, nd)
				if bad != "" {
					return true
				}
				switch x := nd.(type) {
				case *ast.SelectorExpr:
					sel := p.info.Selections[x]
					if sel == nil || sel.Kind() != types.FieldVal {
						return true
					}
					fv, _ := sel.Obj().(*types.Var)
					if fv == nil || !fields[fv.Origin()] {
						return true
					}
					// classify the occurrence of the field as if x.Sel were the tracked identifier
					st2 := append(append([]ast.Node(nil), stack...), x.Sel)
					// the identifier x.Sel is a child of x; classifyUse treats `par.Sel == cur` as a qualified name
					u := a.classifyUse(p, st2)
					if isWrite(u.cat) || strings.HasPrefix(u.cat, "escape") {
						if u.cat == "escape-arg" || u.cat == "escape-recv" {
							if u.callee != nil && a.inModule(u.callee) {
								if ok, _ := a.paramReadOnly(u.callee, u.argIdx, 1); ok {
									return true
								}
							}
						}
						if a.freshRoot(p, x.X, stack) {
							return true
						}
						bad = fmt.Sprintf("field %s: %s in %s", fv.Name(), u.cat, u.fn)
					}
				case *ast.StarExpr:
					// *p = T{...}
					if tv := p.info.TypeOf(x); tv != nil && len(stack) >= 2 {
						if nn, ok := tv.(*types.Named); ok && nn.Origin().Obj() == tn {
							if as, ok := stack[len(stack)-2].(*ast.AssignStmt); ok {
								for _, l := range as.Lhs {
									if l == ast.Expr(x) && !a.freshRoot(p, x.X, stack) {
										bad = "whole-struct assignment through a pointer"
									}
								}
							}
						}
					}
				}
				return true
			})
			if bad != "" {
				a.typeMemo[tn] = "type " + tn.Name() + " is written after construction: " + bad
				return false, a.typeMemo[tn]
			}
		}
	}
	return true, ""
}

// freshRoot: e is a local variable of the enclosing function that was declared there by
// x := &T{..} | T{..} | new(T) or var x T  (so the memory it denotes is not yet shared).
func (a *analysis) freshRoot(p *pkgInfo, e ast.Expr, stack []ast.Node) bool {
	for {
		switch x := ast.Unparen(e).(type) {
		case *ast.StarExpr:
			e = x.X
			continue
		}
		break
	}
	id, ok := ast.Unparen(e).(*ast.Ident)
	if !ok {
		return false
	}
	v, _ := p.info.Uses[id].(*types.Var)
	if v == nil || v.Parent() == nil || v.Parent() == p.pkg.Scope() {
		return false
	}
	var fn ast.Node
	for i := len(stack) - 1; i >= 0; i-- {
		switch stack[i].(type) {
		case *ast.FuncDecl, *ast.FuncLit:
			fn = stack[i]
		}
		if fn != nil {
			break
		}
	}
	if fn == nil {
		return false
	}
	fresh := false
	ast.Inspect(fn, func(n ast.Node) bool {
		switch s := n.(type) {
		case *ast.AssignStmt:
			if s.Tok != token.DEFINE {
				return true
			}
			for k, l := range s.Lhs {
				if li, ok := l.(*ast.Ident); ok && p.info.Defs[li] == types.Object(v) && k < len(s.Rhs) && len(s.Lhs) == len(s.Rhs) {
					fresh = isFreshExpr(p, s.Rhs[k])
				}
			}
		case *ast.ValueSpec:
			for k, li := range s.Names {
				if p.info.Defs[li] == types.Object(v) {
					if len(s.Values) == 0 {
						fresh = true
					} else if k < len(s.Values) {
						fresh = isFreshExpr(p, s.Values[k])
					}
				}
			}
		}
		return true
	})
	return fresh
}

func isFreshExpr(p *pkgInfo, e ast.Expr) bool {
	switch x := ast.Unparen(e).(type) {
	case *ast.CompositeLit:
		return true
	case *ast.UnaryExpr:
		if x.Op == token.AND {
			_, ok := ast.Unparen(x.X).(*ast.CompositeLit)
			return ok
		}
	case *ast.CallExpr:
		if id, ok := x.Fun.(*ast.Ident); ok {
			if b, ok := p.info.Uses[id].(*types.Builtin); ok && b.Name() == "new" {
				return true
			}
		}
	}
	return false
}

// ---------------------------------------------------------------- closures (rule R5)

type verdict struct {
	class string // immutable synchronised unsynchronised-mutable unclassified
	why   string
}

func worse(a, b verdict) verdict {
	rank := map[string]int{"immutable": 0, "synchronised": 1, "unclassified": 2, "unsynchronised-mutable": 3}
	if rank[b.class] > rank[a.class] {
		return verdict{b.class, joinWhy(a.why, b.why)}
	}
	return verdict{a.class, joinWhy(a.why, b.why)}
}

func joinWhy(a, b string) string {
	if a == "" {
		return b
	}
	if b == "" {
		return a
	}
	return a + "; " + b
}

// funcValue classifies the function value denoted by expression e (evaluated inside function scope `outer`,
// nil at package level).
func (a *analysis) funcValue(p *pkgInfo, e ast.Expr, outer ast.Node, depth int) verdict {
	e = ast.Unparen(e)
	if depth > 4 {
		return verdict{"unclassified", "closure chain too deep"}
	}
	switch x := e.(type) {
	case *ast.FuncLit:
		return a.closure(p, x, outer, depth)
	case *ast.Ident, *ast.SelectorExpr, *ast.IndexExpr, *ast.IndexListExpr:
		// a declared function (possibly instantiated), or another function variable
		base := e
		for {
			switch b := base.(type) {
			case *ast.IndexExpr:
				base = ast.Unparen(b.X)
				continue
			case *ast.IndexListExpr:
				base = ast.Unparen(b.X)
				continue
			}
			break
		}
		var id *ast.Ident
		switch b := base.(type) {
		case *ast.Ident:
			id = b
		case *ast.SelectorExpr:
			id = b.Sel
		}
		if id != nil {
			switch o := p.info.Uses[id].(type) {
			case *types.Func:
				return verdict{"immutable", "declared function " + a.funcName(o)}
			case *types.Var:
				if o.Parent() != nil && o.Pkg() != nil && o.Parent() == o.Pkg().Scope() {
					return verdict{"immutable", "copy of function variable " + a.relPkg(o.Pkg()) + "." + o.Name() + " (classified separately)"}
				}
				if outer != nil {
					if init := localInit(p, outer, o); init != nil {
						return a.funcValue(p, init, outer, depth+1)
					}
				}
			case *types.Nil:
				return verdict{"immutable", "nil"}
			}
		}
		return verdict{"unclassified", "function value of unknown origin: " + exprString(e)}
	case *ast.CallExpr:
		o, _ := calleeOf(p, x)
		f, _ := o.(*types.Func)
		if f == nil {
			return verdict{"unclassified", "function value returned by a call through a function value"}
		}
		f = f.Origin()
		for _, arg := range x.Args {
			if tv, ok := p.info.Types[arg]; ok && (tv.IsNil() || tv.Value != nil) {
				continue
			}
			return verdict{"unclassified", "built by " + a.funcName(f) + " from a non-constant argument " + exprString(arg)}
		}
		d, dp := a.funcDecl[f], a.funcPkg[f]
		if d == nil || d.Body == nil {
			return verdict{"unclassified", "built by " + a.funcName(f) + " whose source is outside the module"}
		}
		res := verdict{"immutable", ""}
		nret := 0
		ast.Inspect(d.Body, func(n ast.Node) bool {
			switch r := n.(type) {
			case *ast.FuncLit:
				return false
			case *ast.ReturnStmt:
				nret++
				if len(r.Results) != 1 {
					res = worse(res, verdict{"unclassified", "multi-value return"})
					return true
				}
				res = worse(res, a.funcValue(dp, r.Results[0], d, depth+1))
			}
			return true
		})
		if nret == 0 {
			return verdict{"unclassified", "no return statement in " + a.funcName(f)}
		}
		res.why = "built by " + a.funcName(f) + ": " + res.why
		return res
	}
	return verdict{"unclassified", "function value of unknown shape: " + exprString(e)}
}

// localInit finds the single defining initialiser `v := expr` of a local variable of fn (nil if it is
// assigned anywhere else).
func localInit(p *pkgInfo, fn ast.Node, v *types.Var) ast.Expr {
	var init ast.Expr
	n := 0
	ast.Inspect(fn, func(nd ast.Node) bool {
		switch s := nd.(type) {
		case *ast.AssignStmt:
			for k, l := range s.Lhs {
				li, ok := l.(*ast.Ident)
				if !ok {
					continue
				}
				if s.Tok == token.DEFINE && p.info.Defs[li] == types.Object(v) {
					n++
					if len(s.Lhs) == len(s.Rhs) {
						init = s.Rhs[k]
					}
				} else if p.info.Uses[li] == types.Object(v) {
					n += 2
				}
			}
		case *ast.ValueSpec:
			for k, li := range s.Names {
				if p.info.Defs[li] == types.Object(v) {
					n++
					if k < len(s.Values) {
						init = s.Values[k]
					}
				}
			}
		}
		return true
	})
	if n != 1 {
		return nil
	}
	return init
}

// closure classifies a function literal by what it does to the variables it captures from `outer`.
func (a *analysis) closure(p *pkgInfo, lit *ast.FuncLit, outer ast.Node, depth int) verdict {
	if outer == nil {
		return verdict{"immutable", "function literal at package level (captures nothing)"}
	}
	captured := func(v *types.Var) bool {
		if v.IsField() || v.Parent() == nil || v.Pkg() == nil || v.Parent() == v.Pkg().Scope() {
			return false
		}
		return outer.Pos() <= v.Pos() && v.Pos() < outer.End() && !(lit.Pos() <= v.Pos() && v.Pos() < lit.End())
	}
	uses := a.usesOf(p, lit, []ast.Node{outer}, captured)
	res := verdict{"immutable", ""}
	names := map[string]bool{}
	var notes []string
	seen := map[string]bool{}
	note := func(s string) {
		if !seen[s] {
			seen[s] = true
			notes = append(notes, s)
		}
	}
	// a critical section counts when its mutex is package-level or captured from the same scope as the state
	// it guards, and when it is exclusive (Lock) or the access is a read (RLock)
	validGuard := func(u use) string {
		mutating := isWrite(u.cat) || strings.HasPrefix(u.cat, "escape")
		if u.gi.key != "" && (u.gi.pkgLevel() || captured(u.gi.root)) && (u.gi.exclusive || !mutating) {
			return u.gi.key
		}
		return ""
	}
	keysOf := map[*types.Var]map[string]bool{}
	for _, u := range uses {
		v := u.rootVar
		names[v.Name()] = true
		if isSyncType(v.Type()) {
			continue
		}
		cat := u.cat
		if cat == "escape-arg" || cat == "escape-recv" {
			if u.callee != nil && a.inModule(u.callee) && !strings.Contains(u.detail, "variadic element") {
				if ok, _ := a.paramReadOnly(u.callee, u.argIdx, 1); ok {
					cat = "read"
				}
			}
		}
		switch {
		case cat == "read" || cat == "range" || cat == "atomic" || cat == "sync-op":
		case cat == "call":
			// calling a captured function value: classify that value, too
			if init := localInit(p, outer, v); init != nil {
				sub := a.funcValue(p, init, outer, depth+1)
				if sub.class != "immutable" {
					res = worse(res, verdict{sub.class, "calls captured " + v.Name() + " = " + sub.why})
				}
			} else {
				res = worse(res, verdict{"unclassified", "calls captured function value " + v.Name() + " of unknown origin"})
			}
		default:
			d := fmt.Sprintf("%s %s%s", cat, v.Name(), u.path)
			if u.detail != "" {
				d += " (" + u.detail + ")"
			}
			if k := validGuard(u); k != "" {
				note(d + " under " + u.guard)
				res = worse(res, verdict{"synchronised", ""})
				if keysOf[v] == nil {
					keysOf[v] = map[string]bool{}
				}
				keysOf[v][k] = true
			} else if isWrite(cat) || strings.HasPrefix(cat, "escape") {
				note(d + " UNGUARDED")
				res = worse(res, verdict{"unsynchronised-mutable", ""})
			}
		}
	}
	// a captured variable that is written under a lock must not be read outside it
	if res.class == "synchronised" {
		for _, u := range uses {
			if u.cat == "sync-op" || u.cat == "atomic" {
				continue
			}
			if ks := keysOf[u.rootVar]; ks != nil && (validGuard(u) == "" || !ks[validGuard(u)]) {
				note("access to " + u.rootVar.Name() + " outside the critical section")
				res = worse(res, verdict{"unsynchronised-mutable", ""})
			}
		}
		for v, ks := range keysOf {
			if len(ks) > 1 {
				note(v.Name() + " is guarded by different mutexes")
				res = worse(res, verdict{"unsynchronised-mutable", ""})
			}
		}
	}
	var ns []string
	for n := range names {
		ns = append(ns, n)
	}
	sort.Strings(ns)
	w := "function literal capturing {" + strings.Join(ns, ",") + "}"
	if len(notes) > 0 {
		sort.Strings(notes)
		w += ": " + strings.Join(notes, ", ")
	} else if res.class == "immutable" {
		w += " read-only"
	}
	res.why = joinWhy(w, res.why)
	return res
}

func exprString(e ast.Expr) string {
	switch x := e.(type) {
	case *ast.Ident:
		return x.Name
	case *ast.SelectorExpr:
		return exprString(x.X) + "." + x.Sel.Name
	case *ast.CallExpr:
		return exprString(x.Fun) + "(..)"
	case *ast.IndexExpr:
		return exprString(x.X) + "[..]"
	case *ast.IndexListExpr:
		return exprString(x.X) + "[..]"
	case *ast.FuncLit:
		return "func literal"
	case *ast.CompositeLit:
		return "composite literal"
	case *ast.UnaryExpr:
		return x.Op.String() + exprString(x.X)
	case *ast.BasicLit:
		return x.Value
	}
	return fmt.Sprintf("%T", e)
}

// ---------------------------------------------------------------- inventory

type global struct {
	Pkg      string `json:"package"`
	Name     string `json:"name"`
	Kind     string `json:"kind"`
	Class    string `json:"classification"`
	Evidence string `json:"evidence"`
	Pos      string `json:"pos"`
	Type     string `json:"type"`
	v        *types.Var
	init     ast.Expr
	p        *pkgInfo
}

func kindOf(t types.Type) string {
	if isSyncType(t) {
		return "sync"
	}
	switch u := t.Underlying().(type) {
	case *types.Signature:
		return "func"
	case *types.Pointer:
		return "pointer"
	case *types.Slice:
		return "slice"
	case *types.Map:
		return "map"
	case *types.Array:
		return "array"
	case *types.Struct:
		return "struct"
	case *types.Interface:
		return "interface"
	case *types.Chan:
		return "chan"
	case *types.Basic:
		_ = u
		return "basic"
	}
	return "other"
}

func (a *analysis) classify(g *global, uses []use) {
	v := g.v
	if g.Kind == "sync" {
		g.Class, g.Evidence = "synchronised", "sync primitive or type documented as safe for concurrent use ("+types.TypeString(v.Type(), nil)+")"
		if strings.HasSuffix(types.TypeString(v.Type(), nil), "sync.Pool") {
			g.Evidence = "synchronised (pool): " + a.poolEvidence(g, uses) + "; objects must not be used after Put - NOT CHECKED"
		}
		for _, u := range uses {
			if !u.init && (u.cat == "assign" || u.cat == "field-write" || u.cat == "elem-write") && u.gi.key == "" {
				g.Class, g.Evidence = "unsynchronised-mutable", "the variable itself is overwritten: "+u.cat+optDetail(u)+" in "+u.fn
			}
		}
		return
	}
	cats := map[string]bool{}
	var writes, unguarded, escapes []string
	guards := map[string]bool{}
	anyWrite := false
	// a critical section counts for a package-level variable when its mutex is package-level, too, and when it is
	// exclusive (Lock) or the access does not write (RLock)
	validGuard := func(u use) string {
		if u.gi.key != "" && u.gi.pkgLevel() && (u.gi.exclusive || !isWrite(u.cat)) {
			return u.gi.key
		}
		return ""
	}
	for _, u := range uses {
		if u.init && !strings.HasPrefix(u.cat, "escape") && u.cat != "addr" { // R6 (an alias created at init time lives on, though)
			cats["init-time "+u.cat] = true
			continue
		}
		cat := u.cat
		if cat == "escape-arg" || cat == "escape-recv" {
			if u.callee != nil && a.inModule(u.callee) && !strings.Contains(u.detail, "variadic element") {
				if ok, _ := a.paramReadOnly(u.callee, u.argIdx, 1); ok {
					cat = "read"
					cats["read-only parameter of "+a.funcName(u.callee)] = true
				}
			}
		}
		if isWrite(cat) {
			anyWrite = true
			d := fmt.Sprintf("%s%s in %s", cat, optDetail(u), u.fn)
			if k := validGuard(u); k != "" {
				guards[k] = true
				d += " under " + u.guard
			}
			writes = append(writes, d)
		} else if strings.HasPrefix(cat, "escape") {
			escapes = append(escapes, fmt.Sprintf("%s%s in %s", cat, optDetail(u), u.fn))
		} else {
			cats[cat] = true
		}
	}
	if anyWrite {
		for _, u := range uses {
			if u.init && !strings.HasPrefix(u.cat, "escape") && u.cat != "addr" {
				continue
			}
			if u.cat == "sync-op" || u.cat == "atomic" {
				continue // operations of a sync primitive stored inside the variable synchronise themselves
			}
			if k := validGuard(u); k == "" {
				unguarded = append(unguarded, fmt.Sprintf("%s in %s", u.cat, u.fn))
			} else {
				guards[k] = true
			}
		}
		sort.Strings(writes)
		writes = uniq(writes)
		if len(unguarded) == 0 && len(guards) == 1 {
			g.Class = "synchronised"
			g.Evidence = "every access after initialisation is inside a critical section: " + strings.Join(writes, ", ")
			return
		}
		sort.Strings(unguarded)
		g.Class = "unsynchronised-mutable"
		g.Evidence = "written after initialisation: " + strings.Join(writes, ", ")
		if len(unguarded) > 0 {
			g.Evidence += "; unguarded accesses: " + strings.Join(uniq(unguarded), ", ")
			if len(guards) > 0 {
				g.Evidence = "PARTIALLY GUARDED (= not guarded): some accesses are inside a critical section, others are outside it; " + g.Evidence
			}
		} else {
			g.Evidence += "; the critical sections use different mutexes"
		}
		return
	}
	var cl []string
	for c := range cats {
		cl = append(cl, c)
	}
	sort.Strings(cl)
	usesStr := "never assigned; uses: " + strings.Join(cl, ", ")
	if len(cl) == 0 {
		usesStr = "never assigned; no uses"
	}
	sort.Strings(escapes)
	escapes = uniq(escapes)

	if g.Kind == "func" {
		if g.init == nil {
			g.Class, g.Evidence = "unclassified", "function variable without initialiser; "+usesStr
			return
		}
		r := a.funcValue(g.p, g.init, nil, 0)
		g.Class, g.Evidence = r.class, "R5 "+r.why+"; "+usesStr
		return
	}
	if len(escapes) == 0 {
		g.Class, g.Evidence = "immutable", "R1 "+usesStr
		return
	}
	// R7: a sentinel error built by errors.New / fmt.Errorf and never assigned: its value has no exported way to change
	if g.Kind == "interface" && types.TypeString(v.Type(), nil) == "error" && g.init != nil {
		if c, ok := ast.Unparen(g.init).(*ast.CallExpr); ok {
			if o, _ := calleeOf(g.p, c); o != nil && o.Pkg() != nil &&
				((o.Pkg().Path() == "errors" && o.Name() == "New") || (o.Pkg().Path() == "fmt" && o.Name() == "Errorf")) {
				g.Class, g.Evidence = "immutable", "R7 sentinel error built by "+o.Pkg().Path()+"."+o.Name()+"; "+usesStr
				return
			}
		}
	}
	// aliases exist: R3, R4
	if g.Kind == "slice" && g.init != nil {
		if cl, ok := ast.Unparen(g.init).(*ast.CompositeLit); ok && len(cl.Elts) == 0 {
			g.Class, g.Evidence = "immutable", "R3 empty composite literal (capacity 0); "+usesStr+"; aliases: "+strings.Join(escapes, ", ")
			return
		}
	}
	if g.Kind == "pointer" {
		if ok, why := a.immutableByType(v.Type()); ok {
			g.Class, g.Evidence = "immutable", "R4 no field of "+types.TypeString(v.Type(), func(*types.Package) string { return "" })+" is written after construction; "+usesStr+"; aliases: "+strings.Join(escapes, ", ")
			return
		} else if why != "" {
			usesStr += "; R4 fails: " + why
		}
	}
	g.Class = "unclassified"
	g.Evidence = usesStr + "; aliases: " + strings.Join(escapes, ", ")
	if imps, ok := a.imported[g.p.path]; ok && (strings.HasPrefix(g.p.rel, "internal/") || strings.Contains(g.p.rel, "/internal/") || strings.HasSuffix(g.p.rel, "/internal") || g.p.rel == "internal") {
		if len(imps) == 0 {
			g.Evidence += "; package imported by no non-test file of the module"
		} else {
			g.Evidence += "; package imported by " + strings.Join(imps, ",")
		}
	}
}

// poolEvidence says what a sync.Pool recycles (from its New function) and where objects are taken and handed back.
func (a *analysis) poolEvidence(g *global, uses []use) string {
	what := "objects of unknown type"
	if g.init != nil {
		ast.Inspect(g.init, func(n ast.Node) bool {
			kv, ok := n.(*ast.KeyValueExpr)
			if !ok {
				return true
			}
			if k, ok := kv.Key.(*ast.Ident); !ok || k.Name != "New" {
				return true
			}
			ast.Inspect(kv.Value, func(m ast.Node) bool {
				if r, ok := m.(*ast.ReturnStmt); ok && len(r.Results) == 1 {
					if t := g.p.info.TypeOf(r.Results[0]); t != nil {
						ts := types.TypeString(t, func(q *types.Package) string { return q.Name() })
						switch {
						case hasPointers(t):
							what = "recycles " + ts + " (pointer/slice/map: mutable data shared with whoever still holds a recycled object)"
						default:
							what = "recycles " + ts
						}
					}
				}
				return true
			})
			return false
		})
	}
	var gets, puts []string
	for _, u := range uses {
		switch u.detail {
		case "sync.Get":
			gets = append(gets, u.fn)
		case "sync.Put":
			puts = append(puts, u.fn)
		}
	}
	sort.Strings(gets)
	sort.Strings(puts)
	return what + "; Get in " + strings.Join(uniq(gets), ",") + "; Put in " + strings.Join(uniq(puts), ",")
}

func optDetail(u use) string {
	s := ""
	if u.path != "" {
		s += " " + u.path
	}
	if u.detail != "" {
		s += " (" + u.detail + ")"
	}
	return s
}

func uniq(xs []string) []string {
	var out []string
	for i, x := range xs {
		if i == 0 || x != xs[i-1] {
			out = append(out, x)
		}
	}
	return out
}

// stateless: packages whose package-level functions keep no state between calls (table, trusted)
var stateless = map[string]bool{"strings": true, "strconv": true, "bytes": true, "unicode": true, "unicode/utf8": true,
	"errors": true, "sort": true, "math": true, "math/bits": true, "slices": true, "maps": true, "io": true, "hash/fnv": true,
	"iter": true, "cmp": true, "unsafe": true, "hash": true, "golang.org/x/exp/constraints": true,
	"regexp": true, "encoding/binary": true, "encoding/hex": true, "container/heap": true, "container/list": true, "unicode/utf16": true}

func stdClass(pkg, name string, isVar bool) (string, string) {
	switch {
	case isVar && pkg == "io" && (name == "EOF" || strings.HasPrefix(name, "Err")):
		return "immutable", "sentinel error value, compared only"
	case isVar && pkg == "errors":
		return "immutable", "sentinel error value"
	case isVar:
		return "unclassified", "package-level variable of " + pkg
	case stateless[pkg]:
		return "immutable", "package " + pkg + " keeps no state between calls (table in gen-c20)"
	case pkg == "fmt" && (strings.HasPrefix(name, "Sprint") || strings.HasPrefix(name, "Fprint") || name == "Errorf" || strings.HasPrefix(name, "Sscan") || strings.HasPrefix(name, "Append")):
		return "immutable", "formats into its own buffer / the writer it is given (fmt's printer pool is a sync.Pool)"
	case pkg == "fmt" && strings.HasPrefix(name, "Print"):
		return "synchronised", "writes os.Stdout, whose writes are serialised by the file's lock"
	case pkg == "math/rand" && (name == "New" || name == "NewSource" || name == "NewZipf"):
		return "immutable", "constructor: the state belongs to the returned value"
	case pkg == "math/rand" || pkg == "math/rand/v2":
		return "synchronised", "top-level functions of " + pkg + " draw from the locked global source"
	case pkg == "time" && (name == "Now" || name == "Since" || name == "Until"):
		return "immutable", "reads the clock"
	case pkg == "time":
		return "immutable", "pure function of its arguments"
	case pkg == "sync" || pkg == "sync/atomic":
		return "synchronised", "synchronisation primitive"
	}
	return "unclassified", "package-level function of " + pkg + " not in the table of gen-c20"
}

// externalState inventories every package-level function and variable of packages outside the module
// that non-test code of the module refers to.
func (a *analysis) externalState(usesBy map[*types.Var][]use) []*global {
	type ent struct {
		isVar bool
		users map[string]bool
	}
	seen := map[string]*ent{}
	for _, p := range a.pkgs {
		for _, o := range p.info.Uses {
			if o == nil || o.Pkg() == nil || a.inModule(o) || o.Parent() != o.Pkg().Scope() {
				continue
			}
			isVar := false
			switch x := o.(type) {
			case *types.Var:
				isVar = true
			case *types.Func:
				_ = x
			default:
				continue
			}
			k := o.Pkg().Path() + "\x00" + o.Name()
			if seen[k] == nil {
				seen[k] = &ent{isVar: isVar, users: map[string]bool{}}
			}
			seen[k].users[p.rel] = true
		}
	}
	var keys []string
	for k := range seen {
		keys = append(keys, k)
	}
	sort.Strings(keys)
	var out []*global
	for _, k := range keys {
		parts := strings.SplitN(k, "\x00", 2)
		e := seen[k]
		class, why := stdClass(parts[0], parts[1], e.isVar)
		if e.isVar {
			for v, us := range usesBy {
				if v.Pkg() == nil || v.Pkg().Path() != parts[0] || v.Name() != parts[1] {
					continue
				}
				for _, u := range us {
					if isWrite(u.cat) && class != "unsynchronised-mutable" {
						class, why = "unsynchronised-mutable", u.cat+" in "+u.fn
					}
				}
			}
		}
		if class == "immutable" && !e.isVar && stateless[parts[0]] {
			continue // stateless helpers are not listed one by one
		}
		var us []string
		for u := range e.users {
			us = append(us, u)
		}
		sort.Strings(us)
		kind := "extfunc"
		if e.isVar {
			kind = "extvar"
		}
		out = append(out, &global{Pkg: "std:" + parts[0], Name: parts[1], Kind: kind, Class: class,
			Evidence: "outside the module: " + why, Pos: "referenced from " + strings.Join(us, ","), Type: kind})
	}
	return out
}

func coqString(s string) string {
	var b strings.Builder
	for _, r := range s {
		switch {
		case r == '"':
			b.WriteString(`""`)
		case r == '\n' || r == '\t':
			b.WriteByte(' ')
		case r < 32 || r > 126:
			b.WriteByte('?')
		default:
			b.WriteRune(r)
		}
	}
	return b.String()
}

var coqKind = map[string]string{"func": "KFunc", "pointer": "KPointer", "slice": "KSlice", "map": "KMap", "array": "KArray",
	"struct": "KStruct", "basic": "KBasic", "interface": "KInterface", "chan": "KChan", "sync": "KSync", "other": "KOther",
	"extfunc": "KOther", "extvar": "KOther"}
var coqClass = map[string]string{"immutable": "Immutable", "synchronised": "Synchronised",
	"unsynchronised-mutable": "UnsyncMutable", "unclassified": "Unclassified"}

func main() {
	root := flag.String("root", "/repo", "module root")
	out := flag.String("out", "", "Coq file to write (default stdout)")
	jsonOut := flag.String("json", "", "JSON summary to write")
	flag.Parse()
	absRoot, err := filepath.Abs(*root)
	if err != nil {
		fatal("%v", err)
	}
	if r, err := filepath.EvalSymlinks(absRoot); err == nil {
		absRoot = r
	}
	fset := token.NewFileSet()
	ctxt := build.Default
	ctxt.CgoEnabled = false
	ctxt.BuildTags = nil
	ctxt.Dir = absRoot
	l := &loader{fset: fset, root: absRoot, modpath: readModulePath(absRoot), pkgs: map[string]*pkgInfo{}, loading: map[string]bool{}, ctxt: ctxt}
	if err := os.Chdir(absRoot); err != nil {
		fatal("%v", err)
	}
	l.std = importer.ForCompiler(fset, "source", nil).(types.ImporterFrom)

	// every directory of the module that holds non-test Go files
	var dirs []string
	filepath.WalkDir(absRoot, func(path string, d os.DirEntry, err error) error {
		if err != nil {
			return nil
		}
		if d.IsDir() {
			n := d.Name()
			if path != absRoot && (strings.HasPrefix(n, ".") || strings.HasPrefix(n, "_") || n == "testdata" || n == "vendor") {
				return filepath.SkipDir
			}
			if path != absRoot {
				if _, err := os.Stat(filepath.Join(path, "go.mod")); err == nil {
					return filepath.SkipDir
				}
			}
			dirs = append(dirs, path)
		}
		return nil
	})
	sort.Strings(dirs)
	a := &analysis{l: l, funcDecl: map[*types.Func]*ast.FuncDecl{}, funcPkg: map[*types.Func]*pkgInfo{},
		memo: map[string]int{}, memoWhy: map[string]string{}, typeMemo: map[*types.TypeName]string{}, typeDone: map[*types.TypeName]bool{},
		imported: map[string][]string{}}
	for _, d := range dirs {
		ents, _ := os.ReadDir(d)
		has := false
		for _, e := range ents {
			n := e.Name()
			if !e.IsDir() && strings.HasSuffix(n, ".go") && !strings.HasSuffix(n, "_test.go") {
				if ok, _ := ctxt.MatchFile(d, n); ok {
					has = true
				}
			}
		}
		if !has {
			continue
		}
		rel, _ := filepath.Rel(absRoot, d)
		path := l.modpath
		if rel != "." {
			path += "/" + filepath.ToSlash(rel)
		}
		p, err := l.load(path)
		if err != nil {
			fatal("load %s: %v", path, err)
		}
		a.pkgs = append(a.pkgs, p)
	}
	if len(l.errs) > 0 {
		fatal("type errors (the premise cannot be regenerated):\n  %s", strings.Join(l.errs[:min(len(l.errs), 10)], "\n  "))
	}
	for _, p := range a.pkgs {
		a.imported[p.path] = []string{}
	}
	for _, p := range a.pkgs {
		for _, f := range p.files {
			for _, d := range f.Decls {
				if fd, ok := d.(*ast.FuncDecl); ok {
					if fo, ok := p.info.Defs[fd.Name].(*types.Func); ok {
						a.funcDecl[fo] = fd
						a.funcPkg[fo] = p
					}
				}
			}
			for _, im := range f.Imports {
				ip := strings.Trim(im.Path.Value, `"`)
				if _, ok := a.imported[ip]; ok {
					a.imported[ip] = append(a.imported[ip], p.rel)
				}
			}
		}
	}
	for k, v := range a.imported {
		sort.Strings(v)
		a.imported[k] = uniq(v)
	}

	// inventory
	var globals []*global
	byVar := map[*types.Var]*global{}
	for _, p := range a.pkgs {
		for _, f := range p.files {
			for _, d := range f.Decls {
				gd, ok := d.(*ast.GenDecl)
				if !ok || gd.Tok != token.VAR {
					continue
				}
				for _, sp := range gd.Specs {
					vs := sp.(*ast.ValueSpec)
					for k, n := range vs.Names {
						if n.Name == "_" {
							continue
						}
						v, _ := p.info.Defs[n].(*types.Var)
						if v == nil {
							continue
						}
						g := &global{Pkg: p.rel, Name: n.Name, Kind: kindOf(v.Type()), v: v, p: p,
							Type: types.TypeString(v.Type(), func(q *types.Package) string { return q.Name() })}
						pos := fset.Position(n.Pos())
						relf, _ := filepath.Rel(absRoot, pos.Filename)
						g.Pos = fmt.Sprintf("%s:%d", filepath.ToSlash(relf), pos.Line)
						if len(vs.Values) == len(vs.Names) {
							g.init = vs.Values[k]
						} else if len(vs.Values) == 1 {
							g.init = vs.Values[0]
						}
						globals = append(globals, g)
						byVar[v] = g
					}
				}
			}
		}
	}
	// uses, module-wide (exported variables can be touched by other packages)
	usesBy := map[*types.Var][]use{}
	for _, p := range a.pkgs {
		for _, f := range p.files {
			for _, u := range a.usesOf(p, f, nil, func(v *types.Var) bool {
				if _, ok := byVar[v]; ok {
					return true
				}
				// package-level variables of other packages (io.EOF, os.Stdout ...) are tracked, too
				return !v.IsField() && v.Pkg() != nil && !a.inModule(v) && v.Parent() == v.Pkg().Scope()
			}) {
				usesBy[u.rootVar] = append(usesBy[u.rootVar], u)
			}
		}
	}
	sort.Slice(globals, func(i, j int) bool {
		if globals[i].Pkg != globals[j].Pkg {
			return globals[i].Pkg < globals[j].Pkg
		}
		return globals[i].Name < globals[j].Name
	})
	for _, g := range globals {
		a.classify(g, usesBy[g.v])
	}

	// uses of package-level functions and variables of packages outside the module (the standard library):
	// the library's own variables are not the only state goroutines could share
	globals = append(globals, a.externalState(usesBy)...)

	var b strings.Builder
	b.WriteString("(* GENERATED by /verif/harness/cmd/gen-c20 from the Go sources of " + l.modpath + " -- DO NOT EDIT.\n")
	b.WriteString("   One record per package-level variable of every non-test file compiled without the `verif` tag:\n")
	b.WriteString("   package, name, kind, classification, evidence (the syntactic rule that decided; see gen-c20/main.go);\n")
	b.WriteString("   then one record per stateful package-level function / variable of packages outside the module (std:...)\n")
	b.WriteString("   that non-test code refers to, classified by the table in gen-c20. *)\n")
	b.WriteString("From Coq Require Import String List.\nFrom Algo.C20 Require Import Inventory.\nImport ListNotations.\nOpen Scope string_scope.\n\n")
	b.WriteString("Definition globals : list global := [\n")
	for i, g := range globals {
		sep := ";"
		if i == len(globals)-1 {
			sep = ""
		}
		fmt.Fprintf(&b, "  mkGlobal \"%s\" \"%s\" %s %s\n    \"%s\"%s\n", coqString(g.Pkg), coqString(g.Name), coqKind[g.Kind], coqClass[g.Class], coqString(g.Evidence), sep)
	}
	b.WriteString("].\n")
	if *out == "" {
		fmt.Print(b.String())
	} else {
		old, _ := os.ReadFile(*out)
		if string(old) != b.String() {
			if err := os.MkdirAll(filepath.Dir(*out), 0o755); err != nil {
				fatal("%v", err)
			}
			if err := os.WriteFile(*out, []byte(b.String()), 0o644); err != nil {
				fatal("%v", err)
			}
		}
	}
	if *jsonOut != "" {
		counts := map[string]int{}
		for _, g := range globals {
			counts[g.Class]++
		}
		js, _ := json.MarshalIndent(map[string]any{"module": l.modpath, "packages": len(a.pkgs), "globals": globals, "counts": counts}, "", " ")
		if err := os.WriteFile(*jsonOut, js, 0o644); err != nil {
			fatal("%v", err)
		}
	}
}
