package main

import (
	"sort"
	"strings"

	"verif/harness/internal/rng"
	"verif/harness/internal/tr"
)

func mk(start byte, prods ...string) *gspec {
	g := &gspec{start: start}
	seenT, seenN := map[byte]bool{}, map[byte]bool{}
	addSym := func(c byte) {
		if isTerm(c) {
			if !seenT[c] {
				seenT[c] = true
				g.terms += string(c)
			}
		} else if !seenN[c] {
			seenN[c] = true
			g.nts += string(c)
		}
	}
	addSym(start)
	for _, p := range prods {
		hb := strings.SplitN(p, ":", 2)
		g.prods = append(g.prods, prod{hb[0][0], hb[1]})
		addSym(hb[0][0])
		for i := 0; i < len(hb[1]); i++ {
			addSym(hb[1][i])
		}
	}
	tb := []byte(g.terms)
	sort.Slice(tb, func(i, j int) bool { return tb[i] < tb[j] })
	g.terms = string(tb)
	if g.terms == "" {
		g.terms = "-"
	}
	return g
}

// reduced: every non-terminal is reachable from the start symbol and derives a terminal string,
// every non-terminal has a production, no duplicate productions.
func reduced(g *gspec) bool {
	seen := map[string]bool{}
	for _, p := range g.prods {
		k := string(p.head) + ":" + p.body
		if seen[k] {
			return false
		}
		seen[k] = true
	}
	productive := map[byte]bool{}
	for ch := true; ch; {
		ch = false
		for _, p := range g.prods {
			if productive[p.head] {
				continue
			}
			ok := true
			for i := 0; i < len(p.body); i++ {
				if !isTerm(p.body[i]) && !productive[p.body[i]] {
					ok = false
				}
			}
			if ok {
				productive[p.head] = true
				ch = true
			}
		}
	}
	reach := map[byte]bool{g.start: true}
	for ch := true; ch; {
		ch = false
		for _, p := range g.prods {
			if !reach[p.head] {
				continue
			}
			for i := 0; i < len(p.body); i++ {
				if c := p.body[i]; !isTerm(c) && !reach[c] {
					reach[c] = true
					ch = true
				}
			}
		}
	}
	for i := 0; i < len(g.nts); i++ {
		if !productive[g.nts[i]] || !reach[g.nts[i]] {
			return false
		}
	}
	return true
}

var classics = [][]string{
	{"S", "S:aba", "S:SSa"}, // D11a: LALR state identification
	{"S", "S:S", "S:b"},     // D11b: ACCEPT/REDUCE conflict
	{"E", "E:EpT", "E:T", "T:TmF", "T:F", "F:lEr", "F:i"},   // dragon book 4.1 (SLR)
	{"S", "S:LeR", "S:R", "L:sR", "L:i", "R:L"},             // LALR, not SLR
	{"S", "S:aAd", "S:bBd", "S:aBe", "S:bAe", "A:c", "B:c"}, // LR(1), not LALR
	{"S", "S:CC", "C:cC", "C:d"},                            // dragon book 4.55
	{"S", "S:AB", "A:aA", "A:", "B:bB", "B:"},               // epsilon productions
	{"S", "S:aSb", "S:"},                                    // a^n b^n
	{"S", "S:iSeS", "S:iS", "S:a"},                          // dangling else (ambiguous)
	{"E", "E:EpE", "E:i"},                                   // ambiguous
	{"S", "S:aSa", "S:bSb", "S:"},                           // even palindromes: not LR(1)
	{"S", "S:Aa", "S:bAc", "S:dc", "S:bda", "A:d"},          // LALR, not SLR
	{"S", "S:AaAb", "S:BbBa", "A:", "B:"},                   // LL(1), LALR, not SLR
	{"S", "S:ABC", "A:a", "A:", "B:b", "B:", "C:c", "C:"},   // nullable chain
	{"L", "L:Lce", "L:e"},                                   // left-recursive list
	{"L", "L:ecL", "L:e"},                                   // right-recursive list
	{"S", "S:A", "A:B", "B:b"},                              // unit chain
	{"S", "S:SS", "S:a"},                                    // ambiguous
	{"S", "S:lSrS", "S:"},                                   // balanced parentheses
	{"S", "S:"},                                             // only the empty word
	{"S", "S:a"},
	{"S", "S:AA", "A:", "A:a"}, // ambiguous through epsilon
	{"S", "S:A", "A:S", "A:a"}, // cyclic
	{"S", "S:aA", "A:", "A:bA"},
	{"S", "S:Ab", "S:Bc", "A:a", "B:a"},                     // LR(1) needs lookahead after a
	{"S", "S:Aab", "S:Bac", "A:", "B:"},                     // not LR(1) (needs 2 tokens)
	{"S", "S:SaSb", "S:"},                                   // nested, left recursive with epsilon
	{"S", "S:aAc", "S:aBd", "S:bAd", "S:bBc", "A:z", "B:z"}, // LR(1) not LALR (variant)
	{"S", "S:Sa", "S:"},
	{"S", "S:aS", "S:"},
	{"S", "S:AS", "S:b", "A:SA", "A:a"}, // dragon book exercise 4.6 style
}

// grammars whose symbol NAMES collide when rendered: a name containing spaces next to the names it is made of,
// so that two different bodies of one head print identically ("type name list")
type namedGrammar struct {
	prods []string
	names map[byte]string
}

var namedClassics = []namedGrammar{
	// decl -> [type name][list] | [type][name list]
	{[]string{"S:D", "D:PL", "D:TQ", "P:a", "L:b", "T:c", "Q:d"},
		map[byte]string{'S': "start", 'D': "decl", 'P': "type name", 'L': "list", 'T': "type", 'Q': "name list"}},
	{[]string{"S:xDy", "D:PLz", "D:TQz", "P:a", "L:b", "T:c", "Q:d"},
		map[byte]string{'D': "decl", 'P': "type name", 'L': "list", 'T': "type", 'Q': "name list"}},
	// three bodies with one rendering: [A B][C D] | [A][B C D] | [A B C][D]
	{[]string{"S:PQ", "S:AR", "S:TD", "P:a", "Q:b", "A:c", "R:d", "T:e", "D:f"},
		map[byte]string{'P': "A B", 'Q': "C D", 'A': "A", 'R': "B C D", 'T': "A B C", 'D': "D"}},
	// the same rendering for bodies of different heads (harmless) and nullable members
	{[]string{"S:UV", "U:PL", "V:TQ", "P:a", "P:", "L:b", "T:a", "Q:b", "Q:"},
		map[byte]string{'P': "type name", 'L': "list", 'T': "type", 'Q': "name list"}},
	// terminal names with spaces and quotes, non-terminal names that look like quoted terminals
	{[]string{"S:aAb", "S:cB", "A:c", "B:ab"},
		map[byte]string{'a': "a b", 'b': "b", 'c': "a", 'A': "\"a\"", 'B': "\"a\" \"b\""}},
	// left-recursive list with colliding names
	{[]string{"S:L", "L:LPQ", "L:LTR", "L:", "P:a", "Q:b", "T:c", "R:d"},
		map[byte]string{'L': "list", 'P': "x y", 'Q': "z", 'T': "x", 'R': "y z"}},
}

func genClassic(w *tr.W, thorough bool) {
	for _, c := range classics {
		g := mk(c[0][0], c[1:]...)
		runCase(w, g, stdOps(g, lenFor(g, thorough)))
	}
	for _, c := range namedClassics {
		g := mk('S', c.prods...)
		g.names = c.names
		runCase(w, g, stdOps(g, lenFor(g, thorough)))
	}
	genHuge(w, thorough)
}

// hugeKernel: an LR(0) state with n (> 256) kernel items:  S -> A w | B d | C e ; A -> X t1 t2 t3 (n alternatives) ;
// X -> x ; B -> y z ; C -> y z w.   The grammar is SLR(1).
func hugeKernel(n int) *gspec {
	letters := "abcfghi"
	ps := []string{"S:Aw", "S:Bd", "S:Ce", "X:x", "B:yz", "C:yzw"}
	count := 0
	for i := 0; i < len(letters) && count < n; i++ {
		for j := 0; j < len(letters) && count < n; j++ {
			for k := 0; k < len(letters) && count < n; k++ {
				ps = append(ps, "A:X"+string(letters[i])+string(letters[j])+string(letters[k]))
				count++
			}
		}
	}
	g := mk('S', ps...)
	g.nomodel = true
	return g
}

func genHuge(w *tr.W, thorough bool) {
	sizes := []int{272}
	if thorough {
		sizes = []int{257, 272, 300}
	}
	for _, n := range sizes {
		g := hugeKernel(n)
		ops := []string{"B slr", "B lalr"}
		if thorough {
			ops = append(ops, "B clr")
		}
		ops = append(ops, "W xaaaw", "W xiihw", "W xabcw", "W yzd", "W yzwe", "W yzw", "W yze", "W xaaad", "W xaaa", "W", "W yzwd", "W xw")
		runCase(w, g, ops)
	}
}

// exhaustive: every reduced grammar with the given symbols, productions drawn from all bodies up to
// maxBody symbols, with at most maxProds productions (a stride sample of the largest size class in the quick tier).
func genExhaustive(w *tr.W, thorough bool) {
	r := rng.FromEnv(110)
	type cfgT struct {
		nts, terms                string
		maxBody, minProd, maxProd int
		keep                      int // keep 1 in `keep` of the grammars
		n                         int
	}
	var cfgs []cfgT
	if thorough {
		cfgs = []cfgT{{"S", "ab", 3, 1, 3, 1, 6}, {"SA", "ab", 2, 1, 3, 1, 6}, {"SA", "a", 2, 4, 4, 3, 6}}
	} else {
		cfgs = []cfgT{{"S", "ab", 3, 1, 2, 1, 6}, {"S", "ab", 3, 3, 3, 40, 6}, {"SA", "ab", 2, 1, 2, 1, 6}, {"SA", "ab", 2, 3, 3, 40, 5}}
	}
	for _, c := range cfgs {
		syms := c.nts + c.terms
		var bodies []string
		var rec func(p string)
		rec = func(p string) {
			bodies = append(bodies, p)
			if len(p) == c.maxBody {
				return
			}
			for i := 0; i < len(syms); i++ {
				rec(p + string(syms[i]))
			}
		}
		rec("")
		var all []string
		for i := 0; i < len(c.nts); i++ {
			for _, b := range bodies {
				all = append(all, string(c.nts[i])+":"+b)
			}
		}
		var pick func(from int, chosen []string)
		pick = func(from int, chosen []string) {
			if len(chosen) >= c.minProd && (c.keep == 1 || r.Intn(c.keep) == 0) {
				g := mk('S', chosen...)
				if len(g.nts) == len(c.nts) && g.terms != "-" && reduced(g) {
					runCase(w, g, stdOps(g, c.n))
				}
			}
			if len(chosen) == c.maxProd {
				return
			}
			for i := from; i < len(all); i++ {
				pick(i+1, append(chosen[:len(chosen):len(chosen)], all[i]))
			}
		}
		pick(0, nil)
	}
}

func genRandom(w *tr.W, r *rng.R, thorough bool) {
	cases := 260
	if thorough {
		cases = 6000
	}
	ntsAll, termsAll := "SABCD", "abcd"
	made := 0
	for tries := 0; made < cases && tries < cases*200; tries++ {
		nn := r.Range(1, 4)
		if r.Chance(1, 3) {
			nn = r.Range(1, 2)
		}
		nt := r.Range(1, 3)
		if r.Chance(1, 10) {
			nt = 4
		}
		nts, terms := ntsAll[:nn], termsAll[:nt]
		np := r.Range(nn, nn+4)
		var ps []string
		for i := 0; i < np; i++ {
			h := nts[r.Intn(nn)]
			if i < nn {
				h = nts[i]
			}
			bl := r.Range(0, 4)
			if r.Chance(1, 3) {
				bl = r.Range(0, 2)
			}
			b := make([]byte, bl)
			for j := range b {
				if r.Chance(2, 5) {
					b[j] = nts[r.Intn(nn)]
				} else {
					b[j] = terms[r.Intn(nt)]
				}
			}
			ps = append(ps, string(h)+":"+string(b))
		}
		g := mk('S', ps...)
		if g.terms == "-" || !reduced(g) {
			continue
		}
		made++
		if r.Chance(1, 5) {
			// colliding names for the non-start non-terminals: words, and concatenations of those words with spaces
			pool := []string{"A", "A B", "B", "B C", "C", "A B C", "C A", "B A"}
			g.names = map[byte]string{}
			off := r.Intn(len(pool))
			k := 0
			for i := 0; i < len(g.nts); i++ {
				if g.nts[i] != g.start {
					g.names[g.nts[i]] = pool[(off+k)%len(pool)]
					k++
				}
			}
			if r.Chance(1, 2) {
				g.names[g.start] = "A B C D"
			}
		}
		runCase(w, g, stdOps(g, lenFor(g, thorough)))
	}
}

// ---------------------------------------------------------------- precedence

// all ordered partitions of ops into levels, each level with an associativity
func precAssignments(ops string) []string {
	var res []string
	var rec func(rest string, levels []string)
	rec = func(rest string, levels []string) {
		if rest == "" {
			// choose associativities
			var asg func(i int, acc []string)
			asg = func(i int, acc []string) {
				if i == len(levels) {
					res = append(res, strings.Join(acc, "/"))
					return
				}
				for _, a := range []string{"L", "R", "N"} {
					asg(i+1, append(acc[:len(acc):len(acc)], a+":"+levels[i]))
				}
			}
			asg(0, nil)
			return
		}
		// the next level is a non-empty subset of rest
		n := len(rest)
		for mask := 1; mask < 1<<n; mask++ {
			var lv []string
			var left []byte
			for i := 0; i < n; i++ {
				if mask&(1<<i) != 0 {
					lv = append(lv, string(rest[i]))
				} else {
					left = append(left, rest[i])
				}
			}
			rec(string(left), append(levels[:len(levels):len(levels)], strings.Join(lv, ",")))
		}
	}
	rec(ops, nil)
	return res
}

func exprGrammar(ops string) *gspec {
	ps := []string{}
	for i := 0; i < len(ops); i++ {
		ps = append(ps, "E:E"+string(ops[i])+"E")
	}
	ps = append(ps, "E:lEr", "E:i")
	return mk('E', ps...)
}

func genPrec(w *tr.W, r *rng.R, thorough bool) {
	count := r.Intn(6)
	for _, ops := range []string{"p", "pq", "pqt"} {
		asgs := precAssignments(ops)
		// partial declarations: one operator missing from every level
		if len(ops) >= 2 {
			for _, a := range precAssignments(ops[1:]) {
				asgs = append(asgs, a)
			}
		}
		asgs = append(asgs, "") // no declaration at all: conflicts
		// invalid declarations: an operator in two levels (PrecedenceLevels.Verify must reject them)
		asgs = append(asgs, "L:"+ops[:1]+"/R:"+ops[:1])
		if len(ops) >= 2 {
			asgs = append(asgs, "L:"+ops[:1]+","+ops[1:2]+"/L:"+ops[1:2])
		}
		for _, a := range asgs {
			g := exprGrammar(ops)
			g.prec = a
			var opl []string
			// SLR always; LALR and canonical LR (slower) for every case in the thorough tier, 1 in 6 otherwise
			opl = append(opl, "B slr")
			if thorough || count%6 == 0 {
				opl = append(opl, "B lalr", "B clr")
			}
			count++
			opl = append(opl, "W", "W i", "W lir", "W ii")
			for i := 0; i < len(ops); i++ {
				opl = append(opl, "W i"+string(ops[i])+"i", "W i"+string(ops[i]), "W li"+string(ops[i])+"ir")
				for j := 0; j < len(ops); j++ {
					o1, o2 := string(ops[i]), string(ops[j])
					opl = append(opl, "W i"+o1+"i"+o2+"i", "W li"+o1+"ir"+o2+"i", "W i"+o1+"li"+o2+"ir")
				}
			}
			nrand := 6
			if thorough {
				nrand = 40
			}
			for k := 0; k < nrand; k++ {
				opl = append(opl, "W "+randExpr(r, ops, r.Range(2, 3)))
			}
			runCase(w, g, opl)
		}
	}
}

// operator grammars whose conflicting productions contain two or more different terminals: the handle of such a
// production is its FIRST terminal (PrecedenceHandleForProduction), so declarations by the first terminal and by
// the last terminal must behave differently.
//
//	ternary       E -> E q E c E | i                 (q = ?, c = :)
//	dangling else S -> i c t S | i c t S e S | x     (i = if, t = then, e = else)
//	mixfix        E -> E l E r E | i                 (l = [, r = ])
//	two-token op  E -> E a b E | i
type precFamily struct {
	start   byte
	prods   []string
	decls   []string // terminal sets over which every declaration is enumerated
	strings []string // sentences and near-sentences
	n       int      // additionally: all strings up to this length
}

var precFamilies = []precFamily{
	{'E', []string{"E:EqEcE", "E:i"}, []string{"q", "c", "qc"},
		[]string{"iqiciqici", "iqiqicici", "iqiciqiciqici", "iqiqiciciqici", "iqiciqi", "iqiqici"}, 5},
	{'S', []string{"S:ictS", "S:ictSeS", "S:x"}, []string{"ie", "te", "ite"},
		[]string{"x", "ictx", "ictxex", "ictictxex", "ictictxexex", "ictxeictxex", "ictictictxexex", "ict", "ictxe", "xex", "ictxx", "ictictxexexex"}, 2},
	{'E', []string{"E:ElErE", "E:i"}, []string{"l", "r", "lr"},
		[]string{"iliri", "ililiriri", "ilirililiri"[:9], "iliriliri", "ilililiririri", "ilirilirilili"[:9], "ilir", "ilirr"}, 5},
	{'E', []string{"E:EabE", "E:i"}, []string{"a", "b", "ab"},
		[]string{"iabi", "iabiabi", "iabiabiabi", "iab", "iaabi", "iabbi"}, 5},
}

func genPrecFamilies(w *tr.W, r *rng.R, thorough bool) {
	count := r.Intn(4)
	for _, f := range precFamilies {
		base := mk(f.start, f.prods...)
		for _, set := range f.decls {
			decls := precAssignments(set)
			if !thorough && len(decls) > 60 {
				// the 219 declarations over three terminals: a seeded third of them in the quick tier
				var keep []string
				for _, d := range decls {
					if r.Intn(3) == 0 {
						keep = append(keep, d)
					}
				}
				decls = keep
			}
			for _, d := range decls {
				g := mk(f.start, f.prods...)
				g.prec = d
				opl := []string{"B slr"}
				if thorough || count%4 == 0 {
					opl = append(opl, "B lalr", "B clr")
				}
				count++
				seen := map[string]bool{}
				allStrings(base.terms, f.n, func(s string) {
					seen[s] = true
					if s == "" {
						opl = append(opl, "W")
					} else {
						opl = append(opl, "W "+s)
					}
				})
				for _, s := range f.strings {
					if !seen[s] {
						seen[s] = true
						opl = append(opl, "W "+s)
					}
				}
				runCase(w, g, opl)
			}
		}
	}
}

// cells with three or more actions: every order of the (separate) precedence levels of the handles involved,
// each case built repeatedly so that different iteration orders of the action set are seen.
//
//	two reduces + shift   S -> A x | B x | C ; A -> I ; B -> I ; C -> I x ; I -> a      cell {r A=I, r B=I, shift x}
//	three reduces         S -> A x | B y x | C z x ... (made LR-free: same lookahead x)  cell {r A=I, r B=I, r C=I}
//	three reduces + shift S -> A x | B x | D x | C ; ... ; C -> I x                     cell {r A=I, r B=I, r D=I, shift x}
type manyFamily struct {
	prods   []string
	handles []string // one precedence level per handle, every permutation
	strings []string
}

var manyFamilies = []manyFamily{
	{[]string{"S:Ax", "S:Bx", "S:C", "A:I", "B:I", "C:Ix", "I:a"}, []string{"A=I", "B=I", "x"},
		[]string{"ax", "a", "axx", "x", ""}},
	{[]string{"S:Ax", "S:Bx", "S:Cx", "A:I", "B:I", "C:I", "I:a"}, []string{"A=I", "B=I", "C=I"},
		[]string{"ax", "a", "axx", "x", ""}},
	{[]string{"S:Ax", "S:Bx", "S:Dx", "S:C", "A:I", "B:I", "D:I", "C:Ix", "I:a"}, []string{"A=I", "B=I", "D=I", "x"},
		[]string{"ax", "a", "axx", "x", ""}},
}

func permutations(xs []string) [][]string {
	if len(xs) <= 1 {
		return [][]string{append([]string(nil), xs...)}
	}
	var res [][]string
	for i := range xs {
		rest := append(append([]string(nil), xs[:i]...), xs[i+1:]...)
		for _, p := range permutations(rest) {
			res = append(res, append([]string{xs[i]}, p...))
		}
	}
	return res
}

func genPrecMany(w *tr.W, r *rng.R, thorough bool) {
	builds := 6
	if thorough {
		builds = 25
	}
	assocs := []string{"L", "R", "N"}
	for _, f := range manyFamilies {
		for _, perm := range permutations(f.handles) {
			g := mk('S', f.prods...)
			var lv []string
			for _, h := range perm {
				lv = append(lv, assocs[r.Intn(3)]+":"+h) // levels are distinct, so the associativity is irrelevant
			}
			g.prec = strings.Join(lv, "/")
			var opl []string
			for b := 0; b < builds; b++ {
				m := methods[b%3]
				opl = append(opl, "B "+m)
				for _, s := range f.strings {
					if s == "" {
						opl = append(opl, "W")
					} else {
						opl = append(opl, "W "+s)
					}
				}
			}
			runCase(w, g, opl)
		}
		// one handle left undeclared: the conflict must be reported
		g := mk('S', f.prods...)
		var lv []string
		for _, h := range f.handles[1:] {
			lv = append(lv, "L:"+h)
		}
		g.prec = strings.Join(lv, "/")
		runCase(w, g, []string{"B slr", "B lalr", "B clr", "B slr", "B lalr", "B clr", "W ax"})
	}
}

// random expression with the given number of operators (length 2k+1 <= 7, at most one parenthesised group)
func randExpr(r *rng.R, ops string, k int) string {
	var b []byte
	b = append(b, 'i')
	for i := 0; i < k; i++ {
		b = append(b, ops[r.Intn(len(ops))], 'i')
	}
	if r.Chance(1, 3) && k == 2 {
		// parenthesise operands j..j+1
		j := r.Intn(k)
		s := string(b[:2*j]) + "l" + string(b[2*j:2*j+3]) + "r" + string(b[2*j+3:])
		return s
	}
	return string(b)
}

// boundary: seeded edits (add / drop / change one symbol / wrap a symbol in a new non-terminal) of the
// grammars that separate SLR, LALR, LR(1) and non-LR(1), so that the neighbourhood of the class
// boundaries is explored.
var boundaryBases = [][]string{
	{"S", "S:LeR", "S:R", "L:sR", "L:i", "R:L"},
	{"S", "S:aAd", "S:bBd", "S:aBe", "S:bAe", "A:c", "B:c"},
	{"S", "S:Aa", "S:bAc", "S:dc", "S:bda", "A:d"},
	{"S", "S:AaAb", "S:BbBa", "A:", "B:"},
	{"S", "S:aAc", "S:aBd", "S:bAd", "S:bBc", "A:z", "B:z"},
	{"S", "S:Ab", "S:Bc", "A:a", "B:a"},
	{"S", "S:aba", "S:SSa"},
	{"S", "S:CC", "C:cC", "C:d"},
	{"S", "S:AB", "A:aA", "A:", "B:bB", "B:"},
	{"S", "S:aAd", "S:bAe", "S:aBe", "A:c", "B:c"},
	{"S", "S:Aa", "S:Bb", "A:Ac", "A:c", "B:Bc", "B:c"},
	{"S", "S:aSb", "S:ab", "S:c"},
	{"S", "S:AS", "S:b", "A:SA", "A:a"},
}

func genBoundary(w *tr.W, r *rng.R, thorough bool) {
	cases := 170
	if thorough {
		cases = 4000
	}
	spare := "XYZ"
	made := 0
	for tries := 0; made < cases && tries < cases*50; tries++ {
		base := boundaryBases[r.Intn(len(boundaryBases))]
		ps := append([]string(nil), base[1:]...)
		g0 := mk('S', ps...)
		edits := r.Range(1, 2)
		for e := 0; e < edits; e++ {
			syms := g0.nts + g0.terms
			switch r.Intn(5) {
			case 0: // add a production with a short random body
				h := g0.nts[r.Intn(len(g0.nts))]
				bl := r.Range(0, 3)
				b := make([]byte, bl)
				for j := range b {
					b[j] = syms[r.Intn(len(syms))]
				}
				ps = append(ps, string(h)+":"+string(b))
			case 1: // drop a production
				if len(ps) > 1 {
					k := r.Intn(len(ps))
					ps = append(ps[:k:k], ps[k+1:]...)
				}
			case 2: // change one symbol
				k := r.Intn(len(ps))
				if len(ps[k]) > 2 {
					b := []byte(ps[k])
					b[2+r.Intn(len(b)-2)] = syms[r.Intn(len(syms))]
					ps[k] = string(b)
				}
			case 3: // wrap one body symbol in a fresh non-terminal X -> sym  (or X -> sym | epsilon)
				k := r.Intn(len(ps))
				if len(ps[k]) > 2 {
					var x byte
					for i := 0; i < len(spare); i++ {
						if !strings.ContainsRune(g0.nts, rune(spare[i])) && !strings.Contains(strings.Join(ps, ","), string(spare[i])) {
							x = spare[i]
							break
						}
					}
					if x != 0 {
						b := []byte(ps[k])
						j := 2 + r.Intn(len(b)-2)
						old := b[j]
						b[j] = x
						ps[k] = string(b)
						ps = append(ps, string(x)+":"+string(old))
						if r.Chance(1, 3) {
							ps = append(ps, string(x)+":")
						}
					}
				}
			case 4: // delete one symbol from a body
				k := r.Intn(len(ps))
				if len(ps[k]) > 2 {
					j := 2 + r.Intn(len(ps[k])-2)
					ps[k] = ps[k][:j] + ps[k][j+1:]
				}
			}
		}
		g := mk('S', ps...)
		if g.terms == "-" || len(g.terms) > 5 || !reduced(g) {
			continue
		}
		made++
		runCase(w, g, stdOps(g, lenFor(g, thorough)))
	}
}
