// Command c11 traces LR table construction (SLR, LALR, canonical LR) and the LR driver.
//
//	header:  g <start> <terminals> <nonterminals> <prods> [prec=<levels>]
//	           symbols are single letters: lower case = terminal, upper case = non-terminal;
//	           <prods> = H:body,H:body,...   (empty body = epsilon production)
//	           <levels> = L:p,q/R:t/N:u      (first level = highest precedence; handles are terminal letters
//	                                          or productions written H=body)
//	ops:     B <slr|lalr|clr>  -> OK <n> A <s>,<a>:<act>[+<act>...] ... G <s>,<A>:<t> ...
//	                              | CONFLICT <n> A ... G ...   | PANIC:<why> | HANG | ERR:<text>
//	                              act = s<t> | r<H>=<body> | acc ; a = terminal letter or $
//	         W <tokens>        -> slr=<v> lalr=<v> clr=<v>     (only methods whose table was built OK take part; others "-")
//	                              v = A[<prods>]<ast>[<ast2>] | R@<k> | PANIC:.. | HANG
//	                              prods = H=body;H=body...  in emission order; <ast> = H[<children>] / leaf letter
package main

import (
	"encoding/hex"
	"errors"
	"flag"
	"fmt"
	"io"
	"os"
	"runtime/debug"
	"sort"
	"strings"
	"sync/atomic"
	"time"

	"github.com/moorara/algo/grammar"
	"github.com/moorara/algo/lexer"
	"github.com/moorara/algo/parser"
	"github.com/moorara/algo/parser/lr"
	"github.com/moorara/algo/parser/lr/canonical"
	"github.com/moorara/algo/parser/lr/lookahead"
	"github.com/moorara/algo/parser/lr/simple"

	"verif/harness/internal/rng"
	"verif/harness/internal/tr"
)

// ---------------------------------------------------------------- grammar encoding

type prod struct {
	head byte
	body string
}

type gspec struct {
	start byte
	terms string
	nts   string
	prods []prod
	prec  string // raw precedence text, "" if none
	// names maps a symbol letter to the name the Go symbol gets (default: the letter itself); the protocol and the
	// model only see letters/indices, so names with spaces or names that are concatenations of other names exercise
	// every place where the implementation compares or hashes RENDERINGS of symbols
	names map[byte]string
	// nomodel: the case is too large for the extracted constructions; only the Go verdict chain, the certificates
	// and the parses are checked
	nomodel bool
}

func (g *gspec) header() string {
	ps := make([]string, len(g.prods))
	for i, p := range g.prods {
		ps[i] = string(p.head) + ":" + p.body
	}
	h := fmt.Sprintf("g %c %s %s %s", g.start, g.terms, g.nts, strings.Join(ps, ","))
	if g.prec != "" {
		h += " prec=" + g.prec
	}
	if len(g.names) > 0 {
		var ks []int
		for k := range g.names {
			ks = append(ks, int(k))
		}
		sort.Ints(ks)
		var parts []string
		for _, k := range ks {
			parts = append(parts, fmt.Sprintf("%c:%x", byte(k), g.names[byte(k)]))
		}
		h += " names=" + strings.Join(parts, ",")
	}
	if g.nomodel {
		h += " nomodel"
	}
	return h
}

func parseHeader(h string) (*gspec, error) {
	f := strings.Fields(h)
	if len(f) < 5 || f[0] != "g" || len(f[1]) != 1 {
		return nil, fmt.Errorf("bad header %q", h)
	}
	g := &gspec{start: f[1][0], terms: f[2], nts: f[3]}
	if g.terms == "-" {
		g.terms = ""
	}
	if f[4] != "-" {
		for _, ps := range strings.Split(f[4], ",") {
			hb := strings.SplitN(ps, ":", 2)
			if len(hb) != 2 || len(hb[0]) != 1 {
				return nil, fmt.Errorf("bad production %q", ps)
			}
			g.prods = append(g.prods, prod{hb[0][0], hb[1]})
		}
	}
	for _, x := range f[5:] {
		if strings.HasPrefix(x, "prec=") {
			g.prec = x[5:]
		}
		if strings.HasPrefix(x, "names=") {
			g.names = map[byte]string{}
			for _, kv := range strings.Split(x[6:], ",") {
				if len(kv) >= 2 && kv[1] == ':' {
					if b, err := hex.DecodeString(kv[2:]); err == nil {
						g.names[kv[0]] = string(b)
					}
				}
			}
		}
		if x == "nomodel" {
			g.nomodel = true
		}
	}
	return g, nil
}

func isTerm(c byte) bool { return c >= 'a' && c <= 'z' }

// curNames / curLetters: the symbol naming of the case being executed (cases run one at a time)
var curNames map[byte]string
var curLetters map[string]byte

func setNames(g *gspec) {
	curNames = g.names
	curLetters = map[string]byte{}
	for k, v := range g.names {
		kind := "N"
		if isTerm(k) {
			kind = "T"
		}
		curLetters[kind+v] = k
	}
}

func nameOf(c byte) string {
	if n, ok := curNames[c]; ok {
		return n
	}
	return string(c)
}

func symOf(c byte) grammar.Symbol {
	if isTerm(c) {
		return grammar.Terminal(nameOf(c))
	}
	return grammar.NonTerminal(nameOf(c))
}

func bodyOf(s string) grammar.String[grammar.Symbol] {
	b := grammar.String[grammar.Symbol]{}
	for i := 0; i < len(s); i++ {
		b = append(b, symOf(s[i]))
	}
	return b
}

func (g *gspec) cfg() *grammar.CFG {
	var ts []grammar.Terminal
	for i := 0; i < len(g.terms); i++ {
		ts = append(ts, grammar.Terminal(nameOf(g.terms[i])))
	}
	var ns []grammar.NonTerminal
	for i := 0; i < len(g.nts); i++ {
		ns = append(ns, grammar.NonTerminal(nameOf(g.nts[i])))
	}
	var ps []*grammar.Production
	for _, p := range g.prods {
		ps = append(ps, &grammar.Production{Head: grammar.NonTerminal(nameOf(p.head)), Body: bodyOf(p.body)})
	}
	return grammar.NewCFG(ts, ns, ps, grammar.NonTerminal(nameOf(g.start)))
}

func (g *gspec) precedences() lr.PrecedenceLevels {
	if g.prec == "" {
		return lr.PrecedenceLevels{}
	}
	var levels lr.PrecedenceLevels
	for _, l := range strings.Split(g.prec, "/") {
		ah := strings.SplitN(l, ":", 2)
		assoc := lr.NONE
		switch ah[0] {
		case "L":
			assoc = lr.LEFT
		case "R":
			assoc = lr.RIGHT
		}
		var hs []*lr.PrecedenceHandle
		if len(ah) == 2 && ah[1] != "" {
			for _, h := range strings.Split(ah[1], ",") {
				if len(h) == 1 {
					hs = append(hs, lr.PrecedenceHandleForTerminal(grammar.Terminal(nameOf(h[0]))))
				} else if len(h) >= 2 && h[1] == '=' {
					hs = append(hs, &lr.PrecedenceHandle{Production: &grammar.Production{
						Head: grammar.NonTerminal(nameOf(h[0])), Body: bodyOf(h[2:])}})
				}
			}
		}
		levels = append(levels, &lr.PrecedenceLevel{Associativity: assoc, Handles: lr.NewPrecedenceHandles(hs...)})
	}
	return levels
}

// ---------------------------------------------------------------- dumping

func symLetter(s grammar.Symbol) string {
	n := s.Name()
	if t, ok := s.(grammar.Terminal); ok && t == grammar.Endmarker {
		return "$"
	}
	kind := "N"
	if s.IsTerminal() {
		kind = "T"
	}
	if l, ok := curLetters[kind+n]; ok {
		return string(l)
	}
	if len(n) == 1 {
		if _, renamed := curNames[n[0]]; !renamed {
			return n
		}
	}
	return "?" + strings.ReplaceAll(strings.ReplaceAll(n, " ", "_"), "|", "!") + "?"
}

func prodStr(p *grammar.Production) string {
	if p == nil {
		return "nil"
	}
	var b strings.Builder
	b.WriteString(symLetter(p.Head))
	b.WriteByte('=')
	for _, s := range p.Body {
		b.WriteString(symLetter(s))
	}
	return b.String()
}

func actStr(a *lr.Action) string {
	switch a.Type {
	case lr.SHIFT:
		return fmt.Sprintf("s%d", int(a.State))
	case lr.REDUCE:
		return "r" + prodStr(a.Production)
	case lr.ACCEPT:
		return "acc"
	}
	return fmt.Sprintf("x%d", int(a.Type))
}

func dumpTable(t *lr.ParsingTable) string {
	var b strings.Builder
	fmt.Fprintf(&b, "%d A", len(t.States))
	for _, s := range t.States {
		for _, a := range t.Terminals {
			act, err := t.ACTION(s, a)
			var acts []string
			if err == nil {
				acts = []string{actStr(act)}
			} else {
				var ce *lr.ConflictError
				if errors.As(err, &ce) && ce.Actions != nil {
					for x := range ce.Actions.All() {
						acts = append(acts, actStr(x))
					}
					sort.Strings(acts)
				}
			}
			if len(acts) > 0 {
				fmt.Fprintf(&b, " %d,%s:%s", int(s), symLetter(a), strings.Join(acts, "+"))
			}
		}
	}
	b.WriteString(" G")
	for _, s := range t.States {
		for _, A := range t.NonTerminals {
			if n, err := t.GOTO(s, A); err == nil {
				fmt.Fprintf(&b, " %d,%s:%d", int(s), symLetter(A), int(n))
			}
		}
	}
	return b.String()
}

func astStr(n parser.Node) string {
	switch v := n.(type) {
	case nil:
		return "nil"
	case *parser.LeafNode:
		if v == nil {
			return "nil"
		}
		return symLetter(v.Terminal)
	case *parser.InternalNode:
		if v == nil {
			return "nil"
		}
		var b strings.Builder
		b.WriteString(prodStr(v.Production))
		b.WriteByte('[')
		for _, c := range v.Children {
			b.WriteString(astStr(c))
		}
		b.WriteByte(']')
		return b.String()
	}
	return "?"
}

// ---------------------------------------------------------------- mock lexer

type mockLexer struct {
	toks string
	i    int
}

func (m *mockLexer) NextToken() (lexer.Token, error) {
	if m.i >= len(m.toks) {
		p := lexer.Position{Offset: len(m.toks)}
		m.i++
		return lexer.Token{Pos: p}, io.EOF
	}
	c := m.toks[m.i]
	t := lexer.Token{Terminal: grammar.Terminal(nameOf(c)), Lexeme: string(c), Pos: lexer.Position{Offset: m.i}}
	m.i++
	return t, nil
}

// ---------------------------------------------------------------- guarded execution

var stuck int

// guard runs f under recover and a watchdog.
func guard(d time.Duration, f func() string) string {
	ch := make(chan string, 1)
	go func() {
		defer func() {
			if r := recover(); r != nil {
				if os.Getenv("C11_STACK") != "" {
					fmt.Fprintf(os.Stderr, "%v\n%s\n", r, debug.Stack())
				}
				s := fmt.Sprint(r)
				s = strings.NewReplacer("|", "!", "->", "=>", "\n", " ").Replace(s)
				if len(s) > 80 {
					s = s[:80]
				}
				ch <- "PANIC:" + strings.ReplaceAll(s, " ", "_")
			}
		}()
		ch <- f()
	}()
	select {
	case r := <-ch:
		return r
	case <-time.After(d):
		stuck++
		return "HANG"
	}
}

type built struct {
	status string // OK / CONFLICT / PANIC.. / HANG / ERR
	table  *lr.ParsingTable
}

var methods = []string{"slr", "lalr", "clr"}

func build(g *gspec, m string) built {
	var res built
	out := guard(20*time.Second, func() string {
		G := g.cfg()
		if err := G.Verify(); err != nil {
			return "INVALID" // not a valid grammar: outside the property
		}
		P := g.precedences()
		var t *lr.ParsingTable
		var err error
		switch m {
		case "slr":
			t, err = simple.BuildParsingTable(G, P)
		case "lalr":
			t, err = lookahead.BuildParsingTable(G, P)
		default:
			t, err = canonical.BuildParsingTable(G, P)
		}
		if err != nil {
			var agg lr.AggregatedConflictError
			var ce *lr.ConflictError
			if t != nil && (errors.As(err, &agg) || errors.As(err, &ce)) {
				return "CONFLICT " + dumpTable(t)
			}
			s := strings.NewReplacer("|", "!", "->", "=>", "\n", " ").Replace(err.Error())
			if len(s) > 100 {
				s = s[:100]
			}
			return "ERR:" + strings.ReplaceAll(s, " ", "_")
		}
		res.table = t
		return "OK " + dumpTable(t)
	})
	res.status = out
	if !strings.HasPrefix(out, "OK ") {
		res.table = nil
	}
	return res
}

func verdictOf(err error) string {
	if err == nil {
		return "A"
	}
	var pe *parser.ParseError
	if errors.As(err, &pe) {
		return fmt.Sprintf("R@%d", pe.Pos.Offset)
	}
	return "R@?"
}

// parseOne drives every entry point of the LR parser in every callback configuration:
// Parse(tokenF,prodF) (primary: production sequence), Parse(nil,nil), Parse(tokenF,nil), Parse(nil,prodF),
// ParseAndBuildAST (AST) and ParseAndEvaluate (trivial evaluator).  The result is the primary verdict with the
// production list and the AST; every configuration whose verdict / productions / tokens differ from the primary
// one is appended after '~' (the model side reports it: the driver's verdict cannot depend on the callbacks).
func parseOne(t *lr.ParsingTable, w string) string {
	var stage atomic.Value
	stage.Store("Parse(tokenF,prodF)")
	res := guard(3*time.Second, func() string {
		newP := func() *lr.Parser { return &lr.Parser{L: &mockLexer{toks: w}, T: t} }
		collect := func(dst *[]string) func(*grammar.Production) error {
			steps := 0
			return func(pr *grammar.Production) error {
				steps++
				if steps > 100000 {
					panic("more than 100000 reductions")
				}
				*dst = append(*dst, prodStr(pr))
				return nil
			}
		}
		var prods, toks []string
		pv := verdictOf(newP().Parse(
			func(tk *lexer.Token) error { toks = append(toks, symLetter(tk.Terminal)); return nil },
			collect(&prods)))
		var dis []string
		differ := func(name, v string) {
			if v != pv {
				dis = append(dis, name+"="+v)
			}
		}
		// tokens handed to the token callback are the consumed prefix of the input
		if tj := strings.Join(toks, ""); !strings.HasPrefix(w, tj) || (pv == "A" && tj != w) {
			dis = append(dis, "tokens="+tj)
		}
		stage.Store("Parse(nil,nil)")
		differ("Parse(nil,nil)", verdictOf(newP().Parse(nil, nil)))
		stage.Store("Parse(tokenF,nil)")
		var toks2 []string
		differ("Parse(tokenF,nil)", verdictOf(newP().Parse(
			func(tk *lexer.Token) error { toks2 = append(toks2, symLetter(tk.Terminal)); return nil }, nil)))
		if strings.Join(toks2, "") != strings.Join(toks, "") {
			dis = append(dis, "Parse(tokenF,nil).tokens="+strings.Join(toks2, ""))
		}
		stage.Store("Parse(nil,prodF)")
		var prods2 []string
		differ("Parse(nil,prodF)", verdictOf(newP().Parse(nil, collect(&prods2))))
		if strings.Join(prods2, ";") != strings.Join(prods, ";") {
			dis = append(dis, "Parse(nil,prodF).prods="+strings.Join(prods2, ";"))
		}
		stage.Store("ParseAndBuildAST")
		root, errA := newP().ParseAndBuildAST()
		differ("ParseAndBuildAST", verdictOf(errA))
		stage.Store("ParseAndEvaluate")
		evals := 0
		_, errE := newP().ParseAndEvaluate(func(pr *grammar.Production, rhs []*lr.Value) (any, error) {
			evals++
			if evals > 100000 {
				panic("more than 100000 evaluations")
			}
			return len(rhs), nil
		})
		differ("ParseAndEvaluate", verdictOf(errE))
		if pv == "A" && evals != len(prods) {
			dis = append(dis, fmt.Sprintf("ParseAndEvaluate.calls=%d", evals))
		}
		out := pv
		if pv == "A" {
			ast := "ERR"
			if errA == nil {
				ast = astStr(root)
			}
			out = "A[" + strings.Join(prods, ";") + "]" + ast
		}
		if len(dis) > 0 {
			out += "~" + strings.Join(dis, ",")
		}
		return out
	})
	if res == "HANG" {
		return "HANG:" + stage.Load().(string)
	}
	return res
}

type session struct {
	g  *gspec
	bt map[string]*built
}

// get returns the table built by an earlier B op of the case ("-" in W results when there is none).
func (s *session) get(m string) *built {
	if b, ok := s.bt[m]; ok {
		return b
	}
	return &built{status: "-"}
}

func (s *session) exec(w *tr.W, op string) {
	f := strings.Fields(op)
	if len(f) == 0 {
		return
	}
	switch f[0] {
	case "B":
		if len(f) < 2 {
			return
		}
		b := build(s.g, f[1])
		s.bt[f[1]] = &b
		w.Op(op, b.status)
	case "W", "X", "Y":
		// W: string within the exhaustive bound; X: longer string with a leftmost derivation as membership
		// witness (third field, checked by the model side); Y: longer string without witness
		toks := ""
		if len(f) > 1 && f[1] != "_" {
			toks = f[1]
		}
		var parts []string
		for _, m := range methods {
			b := s.get(m)
			if b.table == nil {
				parts = append(parts, m+"=-")
				continue
			}
			parts = append(parts, m+"="+parseOne(b.table, toks))
		}
		w.Op(op, strings.Join(parts, " "))
	}
	if stuck > 3 {
		w.Flush()
		fmt.Fprintln(os.Stderr, "too many hung operations")
		os.Exit(4)
	}
}

func allStrings(terms string, n int, f func(string)) {
	var rec func(prefix []byte)
	rec = func(prefix []byte) {
		f(string(prefix))
		if len(prefix) == n {
			return
		}
		for i := 0; i < len(terms); i++ {
			rec(append(prefix[:len(prefix):len(prefix)], terms[i]))
		}
	}
	rec(nil)
}

func runCase(w *tr.W, g *gspec, ops []string) {
	setNames(g)
	w.Begin("%s", g.header())
	s := &session{g: g, bt: map[string]*built{}}
	for _, op := range ops {
		s.exec(w, op)
	}
	w.End()
}

// stdOps: build with all three methods, then every token string up to length n, then longer
// sentences with their derivations (X) and one-token corruptions of them (Y).
func stdOps(g *gspec, n int) []string {
	ops := []string{"B slr", "B lalr", "B clr"}
	allStrings(g.terms, n, func(s string) {
		if s == "" {
			ops = append(ops, "W")
		} else {
			ops = append(ops, "W "+s)
		}
	})
	return append(ops, longOps(g, n)...)
}

var longRng = rng.FromEnv(1100)

// minLen[A] = length of a shortest sentence of A (productive non-terminals only)
func minLens(g *gspec) map[byte]int {
	ml := map[byte]int{}
	for ch := true; ch; {
		ch = false
		for _, p := range g.prods {
			t, ok := 0, true
			for i := 0; i < len(p.body); i++ {
				if c := p.body[i]; isTerm(c) {
					t++
				} else if v, has := ml[c]; has {
					t += v
				} else {
					ok = false
				}
			}
			if ok {
				if v, has := ml[p.head]; !has || t < v {
					ml[p.head] = t
					ch = true
				}
			}
		}
	}
	return ml
}

// randomDerivation: a leftmost derivation from the start symbol aiming at a sentence of about `target` tokens.
func randomDerivation(g *gspec, r *rng.R, target int) (string, []string, bool) {
	ml := minLens(g)
	cost := func(b string) int {
		t := 0
		for i := 0; i < len(b); i++ {
			if isTerm(b[i]) {
				t++
			} else {
				t += ml[b[i]]
			}
		}
		return t
	}
	form := string(g.start)
	var deriv []string
	for steps := 0; steps < 400; steps++ {
		k := -1
		for i := 0; i < len(form); i++ {
			if !isTerm(form[i]) {
				k = i
				break
			}
		}
		if k < 0 {
			return form, deriv, true
		}
		var cands []prod
		for _, p := range g.prods {
			if p.head == form[k] {
				cands = append(cands, p)
			}
		}
		if len(cands) == 0 {
			return "", nil, false
		}
		rest := cost(form[:k]) + cost(form[k+1:])
		var pick prod
		if rest+ml[form[k]] >= target || steps > 200 {
			// finish: cheapest production
			pick = cands[0]
			for _, p := range cands {
				if cost(p.body) < cost(pick.body) {
					pick = p
				}
			}
		} else {
			pick = cands[r.Intn(len(cands))]
		}
		deriv = append(deriv, string(pick.head)+"="+pick.body)
		form = form[:k] + pick.body + form[k+1:]
		if len(form) > 60 {
			return "", nil, false
		}
	}
	return "", nil, false
}

func longOps(g *gspec, n int) []string {
	var ops []string
	seen := map[string]bool{}
	for i := 0; i < 12 && len(ops) < 10; i++ {
		w, d, ok := randomDerivation(g, longRng, n+1+longRng.Intn(8))
		if !ok || len(w) <= n || len(w) > 24 || seen[w] {
			continue
		}
		seen[w] = true
		ops = append(ops, "X "+w+" "+strings.Join(d, ";"))
		// a corrupted copy: replace, delete or duplicate one token
		b := []byte(w)
		k := longRng.Intn(len(b))
		switch longRng.Intn(3) {
		case 0:
			b[k] = g.terms[longRng.Intn(len(g.terms))]
		case 1:
			b = append(b[:k:k], b[k+1:]...)
		default:
			b = append(b[:k+1:k+1], b[k:]...)
		}
		if len(b) > n {
			ops = append(ops, "Y "+string(b))
		}
	}
	return ops
}

func lenFor(g *gspec, thorough bool) int {
	switch {
	case len(g.terms) <= 2:
		if thorough {
			return 8
		}
		return 6
	case len(g.terms) == 3:
		if thorough {
			return 6
		}
		return 5
	case len(g.terms) == 4:
		if thorough {
			return 5
		}
		return 4
	}
	return 3
}

func main() {
	mode := flag.String("mode", "classic", "classic|exhaustive|random|prec|boundary")
	tier := flag.String("tier", "quick", "quick|thorough")
	replay := flag.String("replay", "", "case file to re-execute")
	flag.Parse()
	w := tr.NewW()
	defer w.Flush()
	if *replay != "" {
		cs, err := tr.ReadCases(*replay)
		if err != nil {
			fmt.Fprintln(os.Stderr, err)
			os.Exit(3)
		}
		for _, c := range cs {
			g, err := parseHeader(c.Head)
			if err != nil {
				fmt.Fprintln(os.Stderr, err)
				os.Exit(3)
			}
			runCase(w, g, c.Ops)
		}
		return
	}
	thorough := *tier == "thorough"
	switch *mode {
	case "classic":
		genClassic(w, thorough)
	case "exhaustive":
		genExhaustive(w, thorough)
	case "random":
		genRandom(w, rng.FromEnv(11), thorough)
	case "prec":
		genPrec(w, rng.FromEnv(1111), thorough)
		genPrecFamilies(w, rng.FromEnv(11110), thorough)
		genPrecMany(w, rng.FromEnv(11111), thorough)
	case "boundary":
		genBoundary(w, rng.FromEnv(11011), thorough)
	}
}
