// Command c16 traces the three set implementations of /repo/set (unordered, stable, sorted),
// their set algebra, Powerset and Partitions.
//
//	header:  <det|free> <asc|rev|mag|mag3|rmag>   det = identity shuffle installed (All() of the unordered set in slot order)
//	                                     comparator of the sorted sets: asc/rev = natural / reversed order returning -1,0,1;
//	                                     mag = a-b, mag3 = 3*(a-b), rmag = b-a (results of arbitrary magnitude)
//	objects are numbered 0,1,2,... in creation order (every creating op appends one, par appends two)
//	ops:
//	  new u|s|o|o:<dir>    -> -           New / NewStable / NewSorted (o: the header's comparator, o:<dir>: its own)
//	  add r v...           -> -           rem r v... -> -        clr r -> -   (RemoveAll)
//	  has r v...           -> t|f         size r -> n            emp r -> t|f
//	  all r                -> LIST        (order as yielded)     str r -> String() with blanks removed
//	  eq a b | sub a b | sup a b -> t|f   (Equal, IsSubset, IsSuperset)
//	  clone r | cle r      -> LIST of the new object
//	  uni r a... | int r a... | dif r a...  -> LIST of the new object
//	  any r P | allm r P   -> t|f         fst r P -> v | none
//	  sel r P              -> LIST        par r P -> LIST;LIST
//	  snap                 -> LIST;LIST;...  every live object re-read through All()
//	  alias                -> none | a-b,...  pairs of objects whose members share a backing array (cap>0)
//	  sos r...             -> LIST        positions of the arguments kept by New[Set[int]](a.Equal(b)).Add(r...)
//	  pow r                -> SUBSET/SUBSET/...        parts r -> PART#PART#...  PART = BLOCK/BLOCK/... | E
//	LIST = v,v,... | e ; predicates P: m<mask> (bit x of mask, 0<=x<62), lt<c> (x < c)
package main

import (
	"flag"
	"fmt"
	"os"
	"strconv"
	"strings"
	"time"
	"unsafe"

	"github.com/moorara/algo/generic"
	"github.com/moorara/algo/set"

	"verif/harness/internal/rng"
	"verif/harness/internal/tr"
)

type pool struct {
	objs []set.Set[int]
	eq   generic.EqualFunc[int]
	cmp  generic.CompareFunc[int]
}

func comparator(dir string) generic.CompareFunc[int] {
	switch dir {
	case "rev":
		return generic.NewReverseCompareFunc[int]()
	case "mag": // magnitudes: legal under CompareFunc's negative / zero / positive contract
		return func(a, b int) int { return a - b }
	case "mag3":
		return func(a, b int) int { return 3 * (a - b) }
	case "rmag":
		return func(a, b int) int { return b - a }
	}
	return generic.NewCompareFunc[int]()
}

func newPool(dir string) *pool {
	return &pool{eq: generic.NewEqualFunc[int](), cmp: comparator(dir)}
}

func (p *pool) mk(k string) set.Set[int] {
	switch k {
	case "u":
		return set.New[int](p.eq)
	case "s":
		return set.NewStable[int](p.eq)
	case "o":
		return set.NewSorted[int](p.cmp) // the header's comparator
	}
	return set.NewSorted[int](comparator(strings.TrimPrefix(k, "o:"))) // o:<dir>: this set's own comparator
}

func b(x bool) string {
	if x {
		return "t"
	}
	return "f"
}

func list(xs []int) string {
	if len(xs) == 0 {
		return "e"
	}
	ss := make([]string, len(xs))
	for i, x := range xs {
		ss[i] = strconv.Itoa(x)
	}
	return strings.Join(ss, ",")
}

func allOf(s set.Set[int]) string { return list(generic.Collect1(s.All())) }

func pred(tok string) generic.Predicate1[int] {
	if strings.HasPrefix(tok, "lt") {
		c, _ := strconv.Atoi(tok[2:])
		return func(x int) bool { return x < c }
	}
	m, _ := strconv.ParseUint(tok[1:], 10, 64)
	return func(x int) bool { return x >= 0 && x < 62 && m&(1<<uint(x)) != 0 }
}

func aliasPairs(p *pool) string {
	var out []string
	ptr := make([]unsafe.Pointer, len(p.objs))
	for i, o := range p.objs {
		m, ok := set.VerifMembers[int](o)
		if ok && cap(m) > 0 {
			ptr[i] = unsafe.Pointer(unsafe.SliceData(m))
		}
	}
	for i := range ptr {
		for j := i + 1; j < len(ptr); j++ {
			if ptr[i] != nil && ptr[i] == ptr[j] {
				out = append(out, fmt.Sprintf("%d-%d", i, j))
			}
		}
	}
	if len(out) == 0 {
		return "none"
	}
	return strings.Join(out, ",")
}

// one op on the real implementation; panics are reported as the result PANIC
func (p *pool) exec(op string) (res string) {
	defer func() {
		if e := recover(); e != nil {
			res = "PANIC"
		}
	}()
	f := strings.Fields(op)
	a := func(i int) int { v, _ := strconv.Atoi(f[i]); return v }
	o := func(i int) set.Set[int] { return p.objs[a(i)] }
	vals := func(from int) []int {
		vs := make([]int, 0, len(f))
		for i := from; i < len(f); i++ {
			vs = append(vs, a(i))
		}
		return vs
	}
	sets := func(from int) []set.Set[int] {
		var ss []set.Set[int]
		for i := from; i < len(f); i++ {
			ss = append(ss, o(i))
		}
		return ss
	}
	switch f[0] {
	case "new":
		p.objs = append(p.objs, p.mk(f[1]))
		return "-"
	case "add":
		o(1).Add(vals(2)...)
		return "-"
	case "rem":
		o(1).Remove(vals(2)...)
		return "-"
	case "clr":
		o(1).RemoveAll()
		return "-"
	case "has":
		return b(o(1).Contains(vals(2)...))
	case "size":
		return strconv.Itoa(o(1).Size())
	case "emp":
		return b(o(1).IsEmpty())
	case "all":
		return allOf(o(1))
	case "str":
		return strings.ReplaceAll(o(1).String(), " ", "")
	case "eq":
		return b(o(1).Equal(o(2)))
	case "sub":
		return b(o(1).IsSubset(o(2)))
	case "sup":
		return b(o(1).IsSuperset(o(2)))
	case "clone":
		t := o(1).Clone()
		p.objs = append(p.objs, t)
		return allOf(t)
	case "cle":
		t := o(1).CloneEmpty()
		p.objs = append(p.objs, t)
		return allOf(t)
	case "uni":
		t := o(1).Union(sets(2)...)
		p.objs = append(p.objs, t)
		return allOf(t)
	case "int":
		t := o(1).Intersection(sets(2)...)
		p.objs = append(p.objs, t)
		return allOf(t)
	case "dif":
		t := o(1).Difference(sets(2)...)
		p.objs = append(p.objs, t)
		return allOf(t)
	case "any":
		return b(o(1).AnyMatch(pred(f[2])))
	case "allm":
		return b(o(1).AllMatch(pred(f[2])))
	case "fst":
		v, ok := o(1).FirstMatch(pred(f[2]))
		if !ok {
			return "none"
		}
		return strconv.Itoa(v)
	case "sel":
		t := o(1).SelectMatch(pred(f[2])).(set.Set[int])
		p.objs = append(p.objs, t)
		return allOf(t)
	case "par":
		x, y := o(1).PartitionMatch(pred(f[2]))
		t, u := x.(set.Set[int]), y.(set.Set[int])
		p.objs = append(p.objs, t, u)
		return allOf(t) + ";" + allOf(u)
	case "snap":
		if len(p.objs) == 0 {
			return "-"
		}
		ss := make([]string, len(p.objs))
		for i, s := range p.objs {
			ss[i] = allOf(s)
		}
		return strings.Join(ss, ";")
	case "alias":
		return aliasPairs(p)
	case "sos":
		ss := set.New[set.Set[int]](func(a, b set.Set[int]) bool { return a.Equal(b) })
		var kept []int
		for i := 1; i < len(f); i++ {
			n := ss.Size()
			ss.Add(o(i))
			if ss.Size() != n {
				kept = append(kept, i-1)
			}
		}
		return list(kept)
	case "pow":
		ps := set.Powerset[int](o(1))
		var ss []string
		for sub := range ps.All() {
			ss = append(ss, allOf(sub))
		}
		if ps.Size() != len(ss) {
			return "SIZE-MISMATCH"
		}
		return strings.Join(ss, "/")
	case "parts":
		ps := set.Partitions[int](o(1))
		var out []string
		n := 0
		for part := range ps.All() {
			n++
			var bs []string
			for blk := range part.All() {
				bs = append(bs, allOf(blk))
			}
			if len(bs) == 0 {
				out = append(out, "E")
			} else {
				out = append(out, strings.Join(bs, "/"))
			}
		}
		if ps.Size() != n {
			return "SIZE-MISMATCH"
		}
		return strings.Join(out, "#")
	}
	return "?"
}

var hung = false

// per-case deadline of the watchdog (shorter in --replay mode, where single short cases are re-run by the shrinker)
var deadline = 10 * time.Second

// runCase executes one case under a watchdog: a stuck op is reported as HANG and ends the run.
func runCase(w *tr.W, head string, ops []string) {
	hf := strings.Fields(head)
	if hf[0] == "det" {
		set.VerifIdentityShuffle()
	} else {
		set.VerifSetShuffleSource(freeSrc)
	}
	p := newPool(hf[1])
	w.Begin("%s", head)
	type step struct{ op, res string }
	done := make(chan struct{})
	results := make([]step, 0, len(ops))
	cur := ""
	go func() {
		for _, op := range ops {
			cur = op
			results = append(results, step{op, p.exec(op)})
		}
		close(done)
	}()
	select {
	case <-done:
		for _, s := range results {
			w.Op(s.op, s.res)
		}
		w.End()
	case <-time.After(deadline):
		n := len(results)
		for _, s := range results[:n] {
			w.Op(s.op, s.res)
		}
		w.Op(cur, "HANG")
		w.End()
		w.Flush()
		hung = true
		os.Exit(4)
	}
}

// ---------------------------------------------------------------- generators

var kinds = []string{"u", "s", "o"}

// query battery on object r over the universe 0..u-1 (plus one absent value)
func battery(r int, u int) []string {
	ops := []string{fmt.Sprintf("size %d", r), fmt.Sprintf("emp %d", r), fmt.Sprintf("all %d", r), fmt.Sprintf("str %d", r)}
	for x := 0; x <= u; x++ {
		ops = append(ops, fmt.Sprintf("has %d %d", r, x))
	}
	ops = append(ops, fmt.Sprintf("has %d", r), fmt.Sprintf("has %d 0 1", r), fmt.Sprintf("has %d 2 0 2", r))
	for _, m := range []int{0, 1, 2, 5, 7} {
		ops = append(ops, fmt.Sprintf("any %d m%d", r, m), fmt.Sprintf("allm %d m%d", r, m), fmt.Sprintf("fst %d m%d", r, m))
	}
	return ops
}

// hist: every history of length <= depth over the mutator alphabet on universe {0,1,2},
// for each implementation and comparator; the query battery runs on the state after each history
// (every prefix is itself a case, so every reachable state is queried).
var allDirs = []string{"asc", "rev", "mag", "mag3", "rmag"}

func hist(w *tr.W, depth int, nalpha int, full bool) {
	alphabet := []string{"add 0 0", "add 0 1", "add 0 2", "rem 0 0", "rem 0 1", "rem 0 2", "clr 0", "add 0 2 0", "rem 0 1 2 1"}[:nalpha]
	for _, k := range kinds {
		dirs := []string{"asc"}
		if k == "o" {
			dirs = allDirs
		}
		for _, dir := range dirs {
			depth := depth
			if !full && (dir == "mag3" || dir == "rmag") {
				depth-- // quick tier: the two extra magnitude comparators one level shallower
			}
			var rec func(prefix []string)
			rec = func(prefix []string) {
				ops := append([]string{"new " + k}, prefix...)
				ops = append(ops, battery(0, 3)...)
				// a clone taken here must not follow later mutations of its source, and vice versa
				ops = append(ops, "clone 0", "alias", "add 1 3", "rem 1 0", "snap", "add 0 4", "rem 0 1", "snap", "eq 0 1", "alias")
				runCase(w, "det "+dir, ops)
				if len(prefix) == depth {
					return
				}
				for _, a := range alphabet {
					rec(append(prefix[:len(prefix):len(prefix)], a))
				}
			}
			rec(nil)
		}
	}
}

// preparation histories: member sequences in every order, with and without spare capacity
// left behind by removals (in-place shifts) so that an append into a shared array would show.
var preps = [][]string{
	{},
	{"add R 0"},
	{"add R 1", "add R 0"},
	{"add R 0", "add R 1", "add R 2"},
	{"add R 0", "add R 1", "add R 2", "rem R 1"},
	{"add R 2", "add R 1", "add R 0", "rem R 0", "rem R 2"},
	{"add R 0", "add R 1", "rem R 0", "rem R 1"},
	{"add R 1", "add R 2", "add R 0", "rem R 2"},
	{"add R 2", "add R 0"},
	{"add R 2", "add R 0", "add R 1"},
	// thorough only from here
	{"add R 1"},
	{"add R 2"},
	{"add R 0", "add R 2"},
	{"add R 1", "add R 2"},
	{"add R 2", "add R 1"},
	{"add R 1", "add R 0", "add R 2"},
	{"add R 2", "add R 1", "add R 0"},
	{"add R 1", "add R 2", "add R 0"},
	{"add R 0", "add R 1", "add R 2", "rem R 0"},
	{"add R 0", "add R 1", "add R 2", "rem R 2"},
	{"add R 0", "add R 1", "add R 2", "rem R 0 1 2"},
	{"add R 0", "add R 1", "add R 2", "clr R", "add R 1"},
	{"add R 0", "add R 1", "add R 2", "add R 3", "add R 4", "rem R 4 3 1"},
	{"add R 0", "add R 1", "rem R 1", "add R 2", "rem R 0"},
}

func prep(i, r int) []string {
	var out []string
	for _, s := range preps[i] {
		out = append(out, strings.ReplaceAll(s, "R", strconv.Itoa(r)))
	}
	return out
}

// algebra: all 27 triples of implementations x all triples of preparation histories:
// Union / Intersection / Difference with two arguments (and with aliased / no arguments),
// operands re-read (snap) after every call, results mutated afterwards and operands re-read again.
func algebra(w *tr.W, np int, dirs []string) {
	for _, dir := range dirs {
		for _, k0 := range kinds {
			for _, k1 := range kinds {
				for _, k2 := range kinds {
					if dir != "asc" && k0 != "o" && k1 != "o" && k2 != "o" {
						continue
					}
					for a := 0; a < np; a++ {
						for bb := 0; bb < np; bb++ {
							for c := 0; c < np; c++ {
								ops := []string{"new " + k0, "new " + k1, "new " + k2}
								ops = append(ops, prep(a, 0)...)
								ops = append(ops, prep(bb, 1)...)
								ops = append(ops, prep(c, 2)...)
								ops = append(ops, "snap",
									"uni 0 1 2", "snap", "int 0 1 2", "snap", "dif 0 1 2", "snap", "alias",
									"eq 0 1", "sub 0 1", "sup 0 1", "eq 1 2", "sub 2 0", "sup 2 1",
									// results are independent objects: mutate them, then the operands
									"add 3 5", "rem 3 0", "add 4 6", "add 5 1", "snap",
									"add 0 7", "rem 1 0 1", "add 2 8", "snap", "alias",
									// three distinct operands, other receivers
									"uni 0 1 2 3", "dif 3 1 2 0", "int 3 0 3 3", "uni 1 2 0", "dif 2 0 1", "int 2 1 0", "snap", "alias")
								runCase(w, "det "+dir, ops)
							}
						}
					}
				}
			}
		}
	}
	// operand aliasing and arities 0, 1, 3
	for _, dir := range dirs {
		for _, k0 := range kinds {
			for _, k1 := range kinds {
				if dir != "asc" && k0 != "o" && k1 != "o" {
					continue
				}
				for a := 0; a < np; a++ {
					for bb := 0; bb < np; bb++ {
						ops := []string{"new " + k0, "new " + k1}
						ops = append(ops, prep(a, 0)...)
						ops = append(ops, prep(bb, 1)...)
						ops = append(ops, "snap",
							"uni 0", "int 0", "dif 0", "snap",
							"uni 0 0", "int 0 0", "dif 0 0", "snap",
							"uni 0 1", "int 0 1", "dif 0 1", "snap",
							"uni 0 1 0 1", "int 0 1 1 0", "dif 0 1 1", "snap", "alias",
							"eq 0 0", "sub 0 0", "sup 1 1", "eq 0 1", "eq 1 0", "sub 0 1", "sub 1 0", "sup 0 1", "sup 1 0",
							"sel 0 m5", "par 1 m3", "sel 1 m0", "par 0 m7", "snap", "alias",
							"clone 0", "cle 1", "add 1 9", "rem 0 0", "snap", "alias")
						runCase(w, "det "+dir, ops)
					}
				}
			}
		}
	}
}

// mixed: sorted sets that each have their own comparator (ascending, descending, magnitudes), in
// every pairing and in triples, against each other and against the unordered and the stable set:
// Equal / IsSubset / IsSuperset in both directions, Union / Intersection / Difference with every
// receiver, deduplication in a set of sets, everything re-read afterwards.
func mixed(w *tr.W, np int, np3 int) {
	for _, d0 := range allDirs {
		for _, d1 := range allDirs {
			for a := 0; a < np; a++ {
				for bb := 0; bb < np; bb++ {
					ops := []string{"new o:" + d0, "new o:" + d1, "new u", "new s"}
					ops = append(ops, prep(a, 0)...)
					ops = append(ops, prep(bb, 1)...)
					ops = append(ops, prep(a, 2)...)
					ops = append(ops, prep(bb, 3)...)
					ops = append(ops, "snap",
						"eq 0 1", "eq 1 0", "sub 0 1", "sub 1 0", "sup 0 1", "sup 1 0",
						"eq 0 2", "eq 2 0", "eq 1 3", "eq 3 1", "sub 0 3", "sup 2 1",
						"sos 0 1 2 3", "sos 1 0", "sos 3 2 1 0",
						"uni 0 1", "uni 1 0", "int 0 1", "int 1 0", "dif 0 1", "dif 1 0", "int 2 0 1", "int 0 1 2 3", "snap", "alias",
						"eq 4 5", "eq 6 7", "sos 4 5 6 7", "clone 1", "eq 1 12", "eq 12 0", "snap")
					runCase(w, "det asc", ops)
				}
			}
		}
	}
	for i0, d0 := range allDirs {
		for i1, d1 := range allDirs {
			for i2, d2 := range allDirs {
				if i0 == i1 && i1 == i2 {
					continue
				}
				for a := 0; a < np3; a++ {
					for bb := 0; bb < np3; bb++ {
						for c := 0; c < np3; c++ {
							ops := []string{"new o:" + d0, "new o:" + d1, "new o:" + d2}
							ops = append(ops, prep(a, 0)...)
							ops = append(ops, prep(bb, 1)...)
							ops = append(ops, prep(c, 2)...)
							ops = append(ops, "snap", "uni 0 1 2", "int 0 1 2", "dif 0 1 2", "int 1 2 0", "int 2 0 1", "snap",
								"eq 0 1", "eq 1 2", "eq 2 0", "sub 0 1", "sup 1 2", "sos 0 1 2", "sos 2 1 0", "eq 3 4", "eq 4 6", "alias")
							runCase(w, "det rev", ops)
						}
					}
				}
			}
		}
	}
}

// random: larger universes, all operations on a growing pool of objects.
func random(w *tr.W, r *rng.R, cases int, mode string) {
	for c := 0; c < cases; c++ {
		dir := "asc"
		if r.Chance(1, 2) {
			dir = allDirs[r.Intn(len(allDirs))]
		}
		u := []int{4, 8, 16, 40, 120}[r.Intn(5)]
		nobj := r.Range(1, 4)
		var ops []string
		for i := 0; i < nobj; i++ {
			k := kinds[r.Intn(3)]
			if k == "o" && r.Bool() {
				k = "o:" + allDirs[r.Intn(len(allDirs))] // this sorted set's own comparator
			}
			ops = append(ops, "new "+k)
		}
		steps := r.Range(5, 70)
		if u == 120 {
			steps = r.Range(100, 260)
		}
		vals := func() string {
			n := 1
			if r.Chance(1, 3) {
				n = r.Range(0, 6)
			}
			var sb strings.Builder
			for i := 0; i < n; i++ {
				fmt.Fprintf(&sb, " %d", r.Intn(u))
			}
			return sb.String()
		}
		p := func() string {
			if r.Bool() {
				return fmt.Sprintf("lt%d", r.Intn(u+1))
			}
			return fmt.Sprintf("m%d", r.U64()&((1<<40)-1))
		}
		for i := 0; i < steps && nobj < 14; i++ {
			o := func() int { return r.Intn(nobj) }
			switch x := r.Intn(100); {
			case x < 38:
				ops = append(ops, fmt.Sprintf("add %d%s", o(), vals()))
			case x < 58:
				ops = append(ops, fmt.Sprintf("rem %d%s", o(), vals()))
			case x < 60:
				ops = append(ops, fmt.Sprintf("clr %d", o()))
			case x < 66:
				ops = append(ops, fmt.Sprintf("has %d%s", o(), vals()), fmt.Sprintf("size %d", o()), fmt.Sprintf("emp %d", o()))
			case x < 70:
				ops = append(ops, fmt.Sprintf("all %d", o()), fmt.Sprintf("str %d", o()))
			case x < 76:
				ops = append(ops, fmt.Sprintf("eq %d %d", o(), o()), fmt.Sprintf("sub %d %d", o(), o()), fmt.Sprintf("sup %d %d", o(), o()),
					fmt.Sprintf("sos %d %d %d", o(), o(), o()))
			case x < 79:
				ops = append(ops, fmt.Sprintf("clone %d", o()))
				nobj++
			case x < 80:
				ops = append(ops, fmt.Sprintf("cle %d", o()))
				nobj++
			case x < 90:
				name := []string{"uni", "int", "dif"}[r.Intn(3)]
				s := fmt.Sprintf("%s %d", name, o())
				for k := r.Range(0, 3); k > 0; k-- {
					s += fmt.Sprintf(" %d", o())
				}
				ops = append(ops, s, "snap")
				nobj++
			case x < 94:
				ops = append(ops, fmt.Sprintf("any %d %s", o(), p()), fmt.Sprintf("allm %d %s", o(), p()), fmt.Sprintf("fst %d %s", o(), p()))
			case x < 96:
				ops = append(ops, fmt.Sprintf("sel %d %s", o(), p()))
				nobj++
			case x < 97:
				ops = append(ops, fmt.Sprintf("par %d %s", o(), p()))
				nobj += 2
			default:
				ops = append(ops, "snap", "alias")
			}
		}
		ops = append(ops, "snap", "alias")
		runCase(w, mode+" "+dir, ops)
	}
}

// big: a few large sets (hundreds of members, slices grown through many reallocations and
// shrunk by in-place removals), then algebra and comparisons between them.
func big(w *tr.W, r *rng.R, cases int, mode string) {
	for c := 0; c < cases; c++ {
		dir := allDirs[r.Intn(len(allDirs))]
		u := r.Range(200, 1200)
		pick := func() string {
			k := kinds[r.Intn(3)]
			if k == "o" {
				k = "o:" + allDirs[r.Intn(len(allDirs))]
			}
			return k
		}
		ops := []string{"new " + pick(), "new " + pick(), "new " + pick()}
		n := r.Range(120, 420)
		for i := 0; i < n; i++ {
			o := r.Intn(3)
			switch x := r.Intn(10); {
			case x < 6:
				ops = append(ops, fmt.Sprintf("add %d %d", o, r.Intn(u)))
			case x < 7:
				ops = append(ops, fmt.Sprintf("add %d %d %d %d %d", o, r.Intn(u), r.Intn(u), r.Intn(u), r.Intn(u)))
			case x < 9:
				ops = append(ops, fmt.Sprintf("rem %d %d", o, r.Intn(u)))
			default:
				ops = append(ops, fmt.Sprintf("has %d %d %d", o, r.Intn(u), r.Intn(u)), fmt.Sprintf("size %d", o))
			}
		}
		ops = append(ops, "snap", "uni 0 1 2", "int 0 1", "dif 0 1 2", "int 1 2 0", "snap", "alias",
			"eq 0 1", "sub 4 0", "sup 0 5", "sub 0 3", "eq 3 3", "clone 3", "rem 7 0 1 2 3 4 5", "eq 3 7", "sub 7 3", "snap", "alias",
			fmt.Sprintf("sel 3 lt%d", u/2), fmt.Sprintf("par 0 lt%d", u/3), "snap", "alias")
		runCase(w, mode+" "+dir, ops)
	}
}

// power: Powerset for n <= maxPow and Partitions for n <= maxPart, on sets built with and without
// spare capacity, the operand re-read afterwards.
func power(w *tr.W, r *rng.R, maxPow, maxPart int, mode string, reps int) {
	for _, dir := range []string{"asc", "rev", "mag", "rmag"} {
		for _, k := range kinds {
			if dir != "asc" && k != "o" {
				continue
			}
			for n := 0; n <= maxPow; n++ {
				for rep := 0; rep < reps; rep++ {
					ops := []string{"new " + k}
					// n members in a scrambled order, after adding and removing n+rep extra ones
					perm := make([]int, 0, n+3)
					for i := 0; i < n+rep; i++ {
						perm = append(perm, 10+i)
					}
					for i := len(perm) - 1; i > 0; i-- {
						j := r.Intn(i + 1)
						perm[i], perm[j] = perm[j], perm[i]
					}
					for _, v := range perm {
						ops = append(ops, fmt.Sprintf("add 0 %d", v))
					}
					for i := 0; i < rep; i++ {
						ops = append(ops, fmt.Sprintf("rem 0 %d", perm[i]))
					}
					if rep >= 2 && n >= 1 {
						// one more in-place shift, then an append into the spare capacity
						ops = append(ops, fmt.Sprintf("rem 0 %d", perm[rep]), fmt.Sprintf("add 0 %d", 40+rep))
					}
					ops = append(ops, "size 0", "snap", "pow 0", "snap")
					if n <= maxPart {
						ops = append(ops, "parts 0", "snap")
					}
					ops = append(ops, "alias")
					runCase(w, mode+" "+dir, ops)
				}
			}
		}
	}
}

type freeSource struct{ r *rng.R }

func (s freeSource) Int63() int64 { return int64(s.r.U64() >> 1) }
func (s freeSource) Seed(int64)   {}

var freeSrc = freeSource{rng.FromEnv(1601)}

func main() {
	mode := flag.String("mode", "hist", "hist|algebra|mixed|random|power|free")
	tier := flag.String("tier", "quick", "quick|thorough")
	replay := flag.String("replay", "", "case file to re-execute")
	flag.Parse()
	w := tr.NewW()
	defer w.Flush()
	if *replay != "" {
		deadline = 2 * time.Second
		cs, err := tr.ReadCases(*replay)
		if err != nil {
			fmt.Fprintln(os.Stderr, err)
			os.Exit(3)
		}
		for _, c := range cs {
			h := strings.Fields(c.Head)
			if len(h) < 2 {
				h = []string{"det", "asc"}
			}
			runCase(w, h[0]+" "+h[1], c.Ops)
		}
		return
	}
	thorough := *tier == "thorough"
	switch *mode {
	case "hist":
		if thorough {
			hist(w, 4, 9, true)
			hist(w, 5, 7, true)
		} else {
			hist(w, 4, 9, false)
		}
	case "algebra":
		if thorough {
			algebra(w, len(preps), []string{"asc", "rev"})
			algebra(w, 10, []string{"mag", "mag3", "rmag"})
		} else {
			algebra(w, 10, []string{"asc"})
			algebra(w, 4, []string{"rev", "mag"})
			algebra(w, 3, []string{"mag3", "rmag"})
		}
	case "mixed":
		if thorough {
			mixed(w, len(preps), 6)
		} else {
			mixed(w, 8, 3)
		}
	case "random":
		r := rng.FromEnv(16)
		if thorough {
			random(w, r, 40000, "det")
			big(w, r, 400, "det")
		} else {
			random(w, r, 3000, "det")
			big(w, r, 40, "det")
		}
	case "power":
		r := rng.FromEnv(1616)
		if thorough {
			power(w, r, 8, 7, "det", 4)
		} else {
			power(w, r, 7, 6, "det", 2)
		}
	case "free":
		r := rng.FromEnv(160)
		if thorough {
			random(w, r, 10000, "free")
			power(w, r, 7, 6, "free", 2)
		} else {
			random(w, r, 800, "free")
			big(w, r, 10, "free")
			power(w, r, 6, 5, "free", 1)
		}
	}
}
