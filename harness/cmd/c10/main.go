// Command c10 traces grammar analysis (C10: nullable / FIRST / FOLLOW / IsLL1 / predictive table)
// and the predictive parser (C12) of moorara/algo.
//
//	header:  G <nT> <nN> <start> <prods>     prods = ';'-joined  head>sym,sym,...   sym = t<i> | n<i>   ("-" = none)
//	         terminals are t0..t(nT-1), non-terminals N0..N(nN-1); with the optional sixth field
//	         "names=same" terminal i and non-terminal i carry the same NAME ("X<i>"): symbols are
//	         told apart by their Go type only; with "names=concat" non-terminal i is named "A" repeated
//	         i+1 times, so that different strings of non-terminals have the same concatenated rendering
//	         ([N0,N0] and [N1], [N0,N1] and [N1,N0] and [N2], ...)
//	ops:     V                 -> ok | err                      Verify()
//	         RE                -> -                             drop the cached FIRST / FOLLOW closures
//	         NUL               -> 0.2 | -                       NullableNonTerminals()  (sorted indices)
//	         FI <alpha>        -> 0.1/e | -/- | PANIC           FIRST(alpha); alpha = sym,sym | e
//	         FO n<i>           -> 0.1/$ | -/- | PANIC           FOLLOW(N_i)
//	         LL1               -> ok | err:<k>                  IsLL1() and the number of LL1Error entries
//	         TBL               -> ok | conflict                 predictive.BuildParsingTable error
//	         CELL n<i> t<j>|$  -> 0.2/s | -/-                   productions of M[A,a] and the raw sync flag (verif hook)
//	         P <tokens>        -> acc;<prods> | rej:<k>;<prods> | tblerr     Parse: verdict, production callback sequence
//	         A <tokens>        -> acc;<yield>;<tree> | rej | tblerr          ParseAndBuildAST
//	                              tokens = 0.1.0 | e (terminal indices; the lexeme of token i is "l<i>")
//	         P, A, TBL build a fresh grammar object for every call.  The following ops work on the ONE
//	         grammar object of the case (the one NUL / FI / FO / LL1 use) and edit it in place:
//	         ADDP h>body | DELP h>body | ADDT   -> -     G.Productions.Add / Remove, G.Terminals.Add(t<nT>)
//	         MP <tokens> | MA <tokens> | MTBL   -> as P / A / TBL, on the shared (edited) grammar object, new parser
//	         RP <tokens>                        -> as P, re-using one parser object (and lexer) for all RP ops
package main

import (
	"errors"
	"flag"
	"fmt"
	"io"
	"os"
	"sort"
	"strconv"
	"strings"
	"sync/atomic"
	"time"

	"github.com/moorara/algo/grammar"
	"github.com/moorara/algo/lexer"
	"github.com/moorara/algo/parser"
	"github.com/moorara/algo/parser/predictive"

	"verif/harness/internal/rng"
	"verif/harness/internal/tr"
)

// ---------------------------------------------------------------- grammar descriptions

type sdesc struct {
	term bool
	idx  int
}

type pdesc struct {
	head int
	body []sdesc
}

type gdesc struct {
	nT, nN, start int
	prods         []pdesc
	names         int // 0 plain; nmSame: terminal i and non-terminal i share their name; nmConcat: ambiguous concatenations
}

const (
	nmPlain = iota
	nmSame
	nmConcat
)

// nameMode is the naming mode of the case being executed (cases run one at a time).
var nameMode int

func (s sdesc) String() string {
	if s.term {
		return "t" + strconv.Itoa(s.idx)
	}
	return "n" + strconv.Itoa(s.idx)
}

func symsString(b []sdesc) string {
	if len(b) == 0 {
		return "e"
	}
	parts := make([]string, len(b))
	for i, s := range b {
		parts[i] = s.String()
	}
	return strings.Join(parts, ",")
}

func (g gdesc) header() string {
	ps := make([]string, len(g.prods))
	for i, p := range g.prods {
		b := ""
		if len(p.body) > 0 {
			b = symsString(p.body)
		}
		ps[i] = strconv.Itoa(p.head) + ">" + b
	}
	s := strings.Join(ps, ";")
	if s == "" {
		s = "-"
	}
	h := fmt.Sprintf("G %d %d %d %s", g.nT, g.nN, g.start, s)
	switch g.names {
	case nmSame:
		h += " names=same"
	case nmConcat:
		h += " names=concat"
	}
	return h
}

func parseSyms(s string) ([]sdesc, error) {
	if s == "" || s == "e" {
		return nil, nil
	}
	var out []sdesc
	for _, f := range strings.Split(s, ",") {
		if len(f) < 2 || (f[0] != 't' && f[0] != 'n') {
			return nil, fmt.Errorf("bad symbol %q", f)
		}
		i, err := strconv.Atoi(f[1:])
		if err != nil {
			return nil, err
		}
		out = append(out, sdesc{term: f[0] == 't', idx: i})
	}
	return out, nil
}

func parseHeader(h string) (gdesc, error) {
	f := strings.Fields(h)
	var g gdesc
	if (len(f) != 5 && len(f) != 6) || f[0] != "G" {
		return g, fmt.Errorf("bad header %q", h)
	}
	if len(f) == 6 {
		switch f[5] {
		case "names=same":
			g.names = nmSame
		case "names=concat":
			g.names = nmConcat
		default:
			return g, fmt.Errorf("bad header %q", h)
		}
	}
	g.nT, _ = strconv.Atoi(f[1])
	g.nN, _ = strconv.Atoi(f[2])
	g.start, _ = strconv.Atoi(f[3])
	if f[4] != "-" {
		for _, ps := range strings.Split(f[4], ";") {
			hb := strings.SplitN(ps, ">", 2)
			if len(hb) != 2 {
				return g, fmt.Errorf("bad production %q", ps)
			}
			hd, err := strconv.Atoi(hb[0])
			if err != nil {
				return g, err
			}
			body, err := parseSyms(hb[1])
			if err != nil {
				return g, err
			}
			g.prods = append(g.prods, pdesc{hd, body})
		}
	}
	return g, nil
}

func tName(i int) grammar.Terminal {
	if nameMode == nmSame {
		return grammar.Terminal("X" + strconv.Itoa(i))
	}
	return grammar.Terminal("t" + strconv.Itoa(i))
}

func nName(i int) grammar.NonTerminal {
	switch nameMode {
	case nmSame:
		return grammar.NonTerminal("X" + strconv.Itoa(i))
	case nmConcat:
		return grammar.NonTerminal(strings.Repeat("A", i+1))
	}
	return grammar.NonTerminal("N" + strconv.Itoa(i))
}

func tIndex(t grammar.Terminal) int { i, _ := strconv.Atoi(string(t)[1:]); return i }
func nIndex(n grammar.NonTerminal) int {
	if nameMode == nmConcat {
		return len(n) - 1
	}
	i, _ := strconv.Atoi(string(n)[1:])
	return i
}

func goSyms(b []sdesc) grammar.String[grammar.Symbol] {
	out := grammar.String[grammar.Symbol]{}
	for _, s := range b {
		if s.term {
			out = append(out, tName(s.idx))
		} else {
			out = append(out, nName(s.idx))
		}
	}
	return out
}

// build makes a fresh *grammar.CFG and the production objects in description order.
func (g gdesc) build() (*grammar.CFG, []*grammar.Production) {
	terms := make([]grammar.Terminal, g.nT)
	for i := range terms {
		terms[i] = tName(i)
	}
	nts := make([]grammar.NonTerminal, g.nN)
	for i := range nts {
		nts[i] = nName(i)
	}
	prods := make([]*grammar.Production, len(g.prods))
	for i, p := range g.prods {
		prods[i] = &grammar.Production{Head: nName(p.head), Body: goSyms(p.body)}
	}
	return grammar.NewCFG(terms, nts, prods, nName(g.start)), prods
}

// ---------------------------------------------------------------- mock lexer

type sliceLexer struct {
	toks []int
	pos  int
}

func (l *sliceLexer) NextToken() (lexer.Token, error) {
	if l.pos >= len(l.toks) {
		return lexer.Token{}, io.EOF
	}
	i := l.pos
	l.pos++
	return lexer.Token{
		Terminal: tName(l.toks[i]),
		Lexeme:   "l" + strconv.Itoa(i),
		Pos:      lexer.Position{Offset: i, Line: 1, Column: i + 1},
	}, nil
}

// ---------------------------------------------------------------- executing ops

type inst struct {
	d      gdesc
	g      *grammar.CFG
	prods  []*grammar.Production
	first  grammar.FIRST
	follow grammar.FOLLOW
	table  *predictive.ParsingTable
	lex    *sliceLexer   // lexer of the re-used parser object
	parser parser.Parser // one parser object re-used by all RP ops
}

func newInst(d gdesc) *inst {
	in := &inst{d: d}
	in.g, in.prods = d.build()
	return in
}

func (in *inst) prodIndex(p *grammar.Production) int {
	if p == nil {
		return -1
	}
	for i, q := range in.prods {
		if q.Equal(p) {
			return i
		}
	}
	return -2
}

func joinInts(xs []int, none string) string {
	if len(xs) == 0 {
		return none
	}
	parts := make([]string, len(xs))
	for i, x := range xs {
		parts[i] = strconv.Itoa(x)
	}
	return strings.Join(parts, ".")
}

func sortedTerms(it func(func(grammar.Terminal) bool)) []int {
	var xs []int
	for t := range it {
		if t == grammar.Endmarker {
			xs = append(xs, 1000000)
			continue
		}
		xs = append(xs, tIndex(t))
	}
	sort.Ints(xs)
	return xs
}

func parseTokens(s string) []int {
	if s == "e" || s == "" {
		return nil
	}
	var out []int
	for _, f := range strings.Split(s, ".") {
		i, _ := strconv.Atoi(f)
		out = append(out, i)
	}
	return out
}

func tokensString(w []int) string { return joinInts(w, "e") }

func (in *inst) ensureFirst() {
	if in.first == nil {
		in.first = in.g.ComputeFIRST()
	}
}

func classify(err error) string {
	var pe *parser.ParseError
	if errors.As(err, &pe) {
		switch {
		case strings.HasPrefix(pe.Description, "failed to construct"):
			return "tblerr"
		case strings.HasPrefix(pe.Description, "unexpected terminal"):
			return "rej:T"
		case strings.HasPrefix(pe.Description, "unacceptable input"):
			return "rej:U"
		case strings.HasPrefix(pe.Description, "unexpected input"):
			return "rej:X"
		}
	}
	return "rej:?"
}

func treeString(in *inst, n parser.Node, yield *[]string) string {
	var b strings.Builder
	var walk func(n parser.Node)
	walk = func(n parser.Node) {
		switch v := n.(type) {
		case *parser.LeafNode:
			lex := "?"
			if strings.HasPrefix(v.Lexeme, "l") {
				lex = v.Lexeme[1:]
			}
			s := strconv.Itoa(tIndex(v.Terminal)) + ":" + lex
			*yield = append(*yield, s)
			b.WriteByte('t')
			b.WriteString(s)
		case *parser.InternalNode:
			fmt.Fprintf(&b, "(n%d#%d", nIndex(v.NonTerminal), in.prodIndex(v.Production))
			for _, c := range v.Children {
				b.WriteByte(' ')
				walk(c)
			}
			b.WriteByte(')')
		default:
			b.WriteByte('?')
		}
	}
	walk(n)
	return b.String()
}

func (in *inst) exec(op string) (res string) {
	defer func() {
		if r := recover(); r != nil {
			res = "PANIC"
		}
	}()
	f := strings.Fields(op)
	switch f[0] {
	case "V":
		if in.g.Verify() == nil {
			return "ok"
		}
		return "err"
	case "RE":
		in.first, in.follow, in.table = nil, nil, nil
		in.parser, in.lex = nil, nil
		in.g, in.prods = in.d.build()
		return "-"
	case "NUL":
		var xs []int
		for n := range in.g.NullableNonTerminals().All() {
			xs = append(xs, nIndex(n))
		}
		sort.Ints(xs)
		return joinInts(xs, "-")
	case "FI":
		in.ensureFirst()
		alpha, err := parseSyms(f[1])
		if err != nil {
			return "BADOP"
		}
		r := in.first(goSyms(alpha))
		e := "-"
		if r.IncludesEmpty {
			e = "e"
		}
		return joinInts(sortedTerms(r.Terminals.All()), "-") + "/" + e
	case "FO":
		in.ensureFirst()
		if in.follow == nil {
			in.follow = in.g.ComputeFOLLOW(in.first)
		}
		i, _ := strconv.Atoi(f[1][1:])
		r := in.follow(nName(i))
		e := "-"
		if r.IncludesEndmarker {
			e = "$"
		}
		return joinInts(sortedTerms(r.Terminals.All()), "-") + "/" + e
	case "LL1":
		err := in.g.IsLL1()
		if err == nil {
			return "ok"
		}
		k := 0
		if me, ok := err.(interface{ Unwrap() []error }); ok {
			k = len(me.Unwrap())
		}
		return "err:" + strconv.Itoa(k)
	case "TBL":
		g, _ := in.d.build()
		t, err := predictive.BuildParsingTable(g)
		in.table = t
		if err == nil {
			return "ok"
		}
		return "conflict"
	case "CELL":
		if in.table == nil {
			g, _ := in.d.build()
			in.table, _ = predictive.BuildParsingTable(g)
		}
		i, _ := strconv.Atoi(f[1][1:])
		a := grammar.Endmarker
		if f[2] != "$" {
			j, _ := strconv.Atoi(f[2][1:])
			a = tName(j)
		}
		ps, sync, _ := predictive.VerifCell(in.table, nName(i), a)
		var xs []int
		for _, p := range ps {
			xs = append(xs, in.prodIndex(p))
		}
		sort.Ints(xs)
		s := "-"
		if sync {
			s = "s"
		}
		return joinInts(xs, "-") + "/" + s
	case "ADDP", "DELP":
		hb := strings.SplitN(f[1], ">", 2)
		hd, _ := strconv.Atoi(hb[0])
		body, err := parseSyms(hb[1])
		if err != nil {
			return "BADOP"
		}
		pr := &grammar.Production{Head: nName(hd), Body: goSyms(body)}
		idx := in.prodIndex(pr)
		if f[0] == "ADDP" && idx < 0 {
			in.g.Productions.Add(pr)
			in.prods = append(in.prods, pr)
			in.d.prods = append(append([]pdesc{}, in.d.prods...), pdesc{hd, body})
		} else if f[0] == "DELP" && idx >= 0 {
			in.g.Productions.Remove(pr)
			in.prods = append(append([]*grammar.Production{}, in.prods[:idx]...), in.prods[idx+1:]...)
			in.d.prods = append(append([]pdesc{}, in.d.prods[:idx]...), in.d.prods[idx+1:]...)
		}
		in.first, in.follow, in.table = nil, nil, nil
		return "-"
	case "ADDT":
		in.g.Terminals.Add(tName(in.d.nT))
		in.d.nT++
		in.first, in.follow, in.table = nil, nil, nil
		return "-"
	case "MTBL":
		_, err := predictive.BuildParsingTable(in.g)
		if err == nil {
			return "ok"
		}
		return "conflict"
	case "P", "MP", "RP":
		w := parseTokens(f[1])
		var p parser.Parser
		switch f[0] {
		case "P":
			g, _ := in.d.build()
			p = predictive.New(g, &sliceLexer{toks: w})
		case "MP":
			p = predictive.New(in.g, &sliceLexer{toks: w})
		default:
			if in.parser == nil {
				in.lex = &sliceLexer{}
				in.parser = predictive.New(in.g, in.lex)
			}
			in.lex.toks, in.lex.pos = w, 0
			p = in.parser
		}
		var seq []int
		err := p.Parse(
			func(*lexer.Token) error { return nil },
			func(pr *grammar.Production) error { seq = append(seq, in.prodIndex(pr)); return nil },
		)
		if err == nil {
			return "acc;" + joinInts(seq, "-")
		}
		c := classify(err)
		if c == "tblerr" {
			return c
		}
		return c + ";" + joinInts(seq, "-")
	case "A", "MA":
		w := parseTokens(f[1])
		g := in.g
		if f[0] == "A" {
			g, _ = in.d.build()
		}
		p := predictive.New(g, &sliceLexer{toks: w})
		root, err := p.ParseAndBuildAST()
		if err == nil {
			var y []string
			t := treeString(in, root, &y)
			ys := "-"
			if len(y) > 0 {
				ys = strings.Join(y, ".")
			}
			return "acc;" + ys + ";" + t
		}
		if classify(err) == "tblerr" {
			return "tblerr"
		}
		return "rej"
	}
	return "BADOP"
}

// runCase executes one case under a watchdog: a fixpoint or parser loop that never returns is
// reported as HANG on the op that was running, and the process exits (the goroutine spins).
func runCase(w *tr.W, d gdesc, ops []string) {
	nameMode = d.names
	w.Begin("%s", d.header())
	done := make(chan struct{})
	var cur atomic.Value
	cur.Store("?")
	go func() {
		in := newInst(d)
		for _, op := range ops {
			cur.Store(op)
			w.Op(op, in.exec(op))
		}
		close(done)
	}()
	select {
	case <-done:
		w.End()
	case <-time.After(20 * time.Second):
		w.Op(cur.Load().(string), "HANG")
		w.Flush()
		os.Exit(4)
	}
}

// ---------------------------------------------------------------- op batteries

func allSyms(d gdesc) []sdesc {
	var ss []sdesc
	for i := 0; i < d.nT; i++ {
		ss = append(ss, sdesc{true, i})
	}
	for i := 0; i < d.nN; i++ {
		ss = append(ss, sdesc{false, i})
	}
	return ss
}

// strings of symbols up to length n over ss
func symStrings(ss []sdesc, n int) [][]sdesc {
	out := [][]sdesc{nil}
	lvl := [][]sdesc{nil}
	for k := 1; k <= n; k++ {
		var next [][]sdesc
		for _, p := range lvl {
			for _, s := range ss {
				q := append(append([]sdesc{}, p...), s)
				next = append(next, q)
			}
		}
		out = append(out, next...)
		lvl = next
	}
	return out
}

// c10Ops: the full analysis battery.  maxAlpha = exhaustive FIRST strings up to that length;
// beyond, `extra` random strings plus every body suffix.
func c10Ops(d gdesc, r *rng.R, maxAlpha, extra int) []string {
	ops := []string{"V", "NUL"}
	ss := allSyms(d)
	seen := map[string]bool{}
	addFI := func(a []sdesc) {
		s := symsString(a)
		if !seen[s] {
			seen[s] = true
			ops = append(ops, "FI "+s)
		}
	}
	for _, a := range symStrings(ss, maxAlpha) {
		addFI(a)
	}
	for _, p := range d.prods {
		for i := 0; i <= len(p.body); i++ {
			addFI(p.body[i:])
		}
	}
	for i := 0; i < extra && len(ss) > 0; i++ {
		n := r.Range(2, 5)
		a := make([]sdesc, n)
		for j := range a {
			a[j] = ss[r.Intn(len(ss))]
		}
		addFI(a)
	}
	// symbols outside the grammar: the closure panics when (and only when) it reaches them
	ops = append(ops, "FI "+symsString([]sdesc{{true, d.nT}}), "FI "+symsString([]sdesc{{false, d.nN}}))
	if len(ss) > 0 {
		ops = append(ops, "FI "+symsString([]sdesc{ss[0], {true, d.nT + 1}}), "FI "+symsString([]sdesc{ss[len(ss)-1], {false, d.nN + 2}}))
	}
	for i := 0; i < d.nN; i++ {
		ops = append(ops, fmt.Sprintf("FO n%d", i))
	}
	ops = append(ops, fmt.Sprintf("FO n%d", d.nN))
	ops = append(ops, "LL1", "TBL")
	for i := 0; i < d.nN; i++ {
		for j := 0; j < d.nT; j++ {
			ops = append(ops, fmt.Sprintf("CELL n%d t%d", i, j))
		}
		ops = append(ops, fmt.Sprintf("CELL n%d $", i))
	}
	// the iteration order of the hash tables is random: recompute everything a few times
	for rep := 0; rep < 3; rep++ {
		ops = append(ops, "RE", "NUL")
		for i := 0; i < d.nN; i++ {
			ops = append(ops, fmt.Sprintf("FI n%d", i), fmt.Sprintf("FO n%d", i))
		}
		ops = append(ops, "LL1", "TBL")
	}
	if d.names == nmConcat && d.nN >= 2 {
		// strings of non-terminals whose concatenated renderings coincide, asked on ONE FIRST
		// function in both orders
		groups := [][]string{{"n0,n0", "n1"}}
		if d.nN >= 3 {
			groups = append(groups, []string{"n0,n1", "n1,n0", "n2", "n0,n0,n0"}, []string{"n2", "n1,n0"})
		}
		for _, g := range groups {
			ops = append(ops, "RE")
			for i := range g {
				ops = append(ops, "FI "+g[i])
			}
			ops = append(ops, "RE")
			for i := len(g) - 1; i >= 0; i-- {
				ops = append(ops, "FI "+g[i])
			}
			ops = append(ops, "FO n0", "FO n1")
		}
		ops = append(ops, "RE")
	}
	// in-place edits of the one grammar object, everything recomputed on it
	return append(ops, editOps(d, r, nil, 2, 0, false)...)
}

// ---- sentences

const inf = 1 << 30

func minLens(d gdesc) []int {
	ml := make([]int, d.nN)
	for i := range ml {
		ml[i] = inf
	}
	for ch := true; ch; {
		ch = false
		for _, p := range d.prods {
			s := 0
			for _, y := range p.body {
				if y.term {
					s++
				} else if ml[y.idx] >= inf {
					s = inf
					break
				} else {
					s += ml[y.idx]
				}
			}
			if s < ml[p.head] {
				ml[p.head] = s
				ch = true
			}
		}
	}
	return ml
}

func bodyMin(ml []int, b []sdesc) int {
	s := 0
	for _, y := range b {
		if y.term {
			s++
		} else if ml[y.idx] >= inf {
			return inf
		} else {
			s += ml[y.idx]
		}
	}
	return s
}

// genSentence derives a random sentence of length <= budget (nil,false when impossible).
func genSentence(d gdesc, ml []int, r *rng.R, budget int) ([]int, bool) {
	if ml[d.start] > budget {
		return nil, false
	}
	var out []int
	steps := 0
	var expand func(form []sdesc, budget int) bool
	expand = func(form []sdesc, budget int) bool {
		// form must be derivable within budget terminals
		for len(form) > 0 {
			steps++
			if steps > 2000 {
				return false
			}
			x := form[0]
			rest := form[1:]
			if x.term {
				out = append(out, x.idx)
				budget--
				form = rest
				continue
			}
			restMin := bodyMin(ml, rest)
			var cands []pdesc
			for _, p := range d.prods {
				if p.head == x.idx {
					if m := bodyMin(ml, p.body); m < inf && m+restMin <= budget {
						cands = append(cands, p)
					}
				}
			}
			if len(cands) == 0 {
				return false
			}
			p := cands[r.Intn(len(cands))]
			if steps > 200 {
				// steer towards termination: the shortest alternative
				for _, q := range cands {
					if bodyMin(ml, q.body) < bodyMin(ml, p.body) {
						p = q
					}
				}
			}
			form = append(append([]sdesc{}, p.body...), rest...)
		}
		return true
	}
	if !expand([]sdesc{{false, d.start}}, budget) {
		return nil, false
	}
	return out, true
}

func tokenStrings(nT, n int) [][]int {
	out := [][]int{nil}
	lvl := [][]int{nil}
	for k := 1; k <= n; k++ {
		var next [][]int
		for _, p := range lvl {
			for t := 0; t < nT; t++ {
				next = append(next, append(append([]int{}, p...), t))
			}
		}
		out = append(out, next...)
		lvl = next
	}
	return out
}

// c12Ops: Parse / ParseAndBuildAST on all strings up to a bound plus sentences, sentences with
// extra tokens, truncated and perturbed sentences (up to length 7, one longer for the extras).
func c12Ops(d gdesc, r *rng.R, allLen, nSent int) []string {
	nameMode = d.names
	ops := []string{"V", "TBL"}
	ws := stringsFor(d, r, allLen, nSent)
	for _, w := range ws {
		ops = append(ops, "P "+tokensString(w))
	}
	for i, w := range ws {
		if len(ws) < 80 || i%3 == 0 || len(w) > allLen {
			ops = append(ops, "A "+tokensString(w))
		}
	}
	rounds, per := 3, 5
	if allLen >= 4 && d.nN <= 2 && len(d.prods) <= 3 {
		rounds, per = 2, 3 // the exhaustive small family: many grammars, short batteries
	}
	return append(ops, editOps(d, r, ws, rounds, per, true)...)
}

// stringsFor: the inputs for one grammar (see c12Ops).
func stringsFor(d gdesc, r *rng.R, allLen, nSent int) [][]int {
	g, _ := d.build()
	_, terr := predictive.BuildParsingTable(g)
	seen := map[string]bool{}
	var ws [][]int
	add := func(w []int) {
		s := tokensString(w)
		if !seen[s] {
			seen[s] = true
			ws = append(ws, append([]int{}, w...))
		}
	}
	if terr != nil {
		// not LL(1): Parse must fail with the table error whatever the input
		add(nil)
		if d.nT > 0 {
			add([]int{0})
			add([]int{d.nT - 1, 0})
		}
	} else {
		for _, w := range tokenStrings(d.nT, allLen) {
			add(w)
		}
		ml := minLens(d)
		for i := 0; i < nSent; i++ {
			s, ok := genSentence(d, ml, r, []int{0, 2, 3, 4, 5, 6, 7, 7}[i%8])
			if !ok {
				continue
			}
			add(s)
			if d.nT > 0 {
				add(append(append([]int{}, s...), r.Intn(d.nT)))
				add(append(append([]int{}, s...), s...))
				if len(s) > 0 {
					add(append(append([]int{}, s...), s[len(s)-1]))
					add(s[:len(s)-1])
					add(s[:r.Intn(len(s))])
					t := append([]int{}, s...)
					t[r.Intn(len(t))] = r.Intn(d.nT)
					add(t)
					add(s[1:])
				}
			}
		}
		// a token that is not a terminal of the grammar
		add([]int{d.nT})
	}
	return ws
}

func hasProd(d gdesc, p pdesc) bool {
	k := symsString(p.body)
	for _, q := range d.prods {
		if q.head == p.head && symsString(q.body) == k {
			return true
		}
	}
	return false
}

// randomEdit picks an in-place edit of the grammar that keeps Verify() happy: add a production,
// remove a production whose head keeps another one, or add a terminal.
func randomEdit(d gdesc, r *rng.R) (string, gdesc) {
	nd := d
	nd.prods = append([]pdesc{}, d.prods...)
	for try := 0; try < 20; try++ {
		switch r.Intn(5) {
		case 0, 1:
			p := pdesc{r.Intn(d.nN), randBody(r, d, 2, 60)}
			if r.Chance(1, 3) && d.nT > 0 {
				p.body = append([]sdesc{{true, r.Intn(d.nT)}}, p.body...)
			}
			if !hasProd(d, p) {
				nd.prods = append(nd.prods, p)
				return "ADDP " + strconv.Itoa(p.head) + ">" + symsString(p.body), nd
			}
		case 2, 3:
			i := r.Intn(len(d.prods))
			n := 0
			for _, q := range d.prods {
				if q.head == d.prods[i].head {
					n++
				}
			}
			if n >= 2 {
				p := d.prods[i]
				nd.prods = append(nd.prods[:i], nd.prods[i+1:]...)
				return "DELP " + strconv.Itoa(p.head) + ">" + symsString(p.body), nd
			}
		case 4:
			if d.nT < 5 {
				nd.nT++
				return "ADDT", nd
			}
		}
	}
	return "", d
}

// editOps: work on the ONE grammar object of the case.  Parse a few inputs, edit the grammar in
// place through its public API, parse again with new parser objects (MP / MA), with one re-used
// parser object (RP) and rebuild the table (MTBL); the model is run on the edited grammar.
func editOps(d gdesc, r *rng.R, ws [][]int, rounds, perRound int, parse bool) []string {
	var ops []string
	pick := func(cur gdesc, pool [][]int) [][]int {
		var out [][]int
		seen := map[string]bool{}
		add := func(w []int) {
			if k := tokensString(w); !seen[k] {
				seen[k] = true
				out = append(out, w)
			}
		}
		for i := 0; i < perRound && len(pool) > 0; i++ {
			add(pool[r.Intn(len(pool))])
		}
		ml := minLens(cur)
		for i := 0; i < 1+perRound/4; i++ {
			if s, ok := genSentence(cur, ml, r, []int{4, 2, 6}[i%3]); ok {
				add(s)
				if len(s) > 0 {
					add(s[:len(s)-1])
				}
				if cur.nT > 0 {
					add(append(append([]int{}, s...), r.Intn(cur.nT)))
				}
			}
		}
		return out
	}
	emit := func(cur gdesc) {
		ops = append(ops, "MTBL")
		if !parse {
			ops = append(ops, "NUL", "LL1")
			for i := 0; i < cur.nN; i++ {
				ops = append(ops, fmt.Sprintf("FI n%d", i), fmt.Sprintf("FO n%d", i))
			}
			return
		}
		sel := pick(cur, ws)
		for i, w := range sel {
			ops = append(ops, "MP "+tokensString(w))
			if i%2 == 0 {
				ops = append(ops, "RP "+tokensString(w))
			}
		}
		for i, w := range sel {
			if i%3 == 0 {
				ops = append(ops, "MA "+tokensString(w))
			}
		}
		if len(sel) > 0 {
			ops = append(ops, "RP "+tokensString(sel[len(sel)-1]), "RP "+tokensString(sel[0]))
		}
	}
	cur := d
	emit(cur)
	for k := 0; k < rounds; k++ {
		op, nd := randomEdit(cur, r)
		if op == "" {
			break
		}
		ops = append(ops, op)
		cur = nd
		emit(cur)
	}
	return ops
}

// ---------------------------------------------------------------- grammar generators

func verifies(d gdesc) bool {
	nameMode = d.names
	g, _ := d.build()
	return g.Verify() == nil
}

// enumGrammars: every grammar over nT terminals and nN non-terminals (start N0) whose production
// set has between 1 and maxProds productions with bodies of length <= maxBody and in which every
// non-terminal has a production (Verify() holds).
var enumCount int

func enumGrammars(nT, nN, maxBody, maxProds int, emit func(gdesc)) {
	ss := allSyms(gdesc{nT: nT, nN: nN})
	bodies := symStrings(ss, maxBody)
	var cand []pdesc
	for h := 0; h < nN; h++ {
		for _, b := range bodies {
			cand = append(cand, pdesc{h, b})
		}
	}
	var pick func(from int, chosen []pdesc)
	pick = func(from int, chosen []pdesc) {
		if len(chosen) >= 1 {
			has := make([]bool, nN)
			for _, p := range chosen {
				has[p.head] = true
			}
			ok := true
			for _, h := range has {
				ok = ok && h
			}
			if ok {
				enumCount++
				emit(gdesc{nT: nT, nN: nN, start: 0, prods: append([]pdesc{}, chosen...), names: enumCount % 3})
			}
		}
		if len(chosen) == maxProds {
			return
		}
		for i := from; i < len(cand); i++ {
			pick(i+1, append(chosen[:len(chosen):len(chosen)], cand[i]))
		}
	}
	pick(0, nil)
}

func randBody(r *rng.R, d gdesc, maxLen int, pT int) []sdesc {
	n := r.Range(0, maxLen)
	b := make([]sdesc, n)
	for i := range b {
		if d.nN == 0 || (d.nT > 0 && r.Chance(pT, 100)) {
			b[i] = sdesc{true, r.Intn(d.nT)}
		} else {
			b[i] = sdesc{false, r.Intn(d.nN)}
		}
	}
	return b
}

func dedup(d gdesc) gdesc {
	seen := map[string]bool{}
	var ps []pdesc
	for _, p := range d.prods {
		k := strconv.Itoa(p.head) + ">" + symsString(p.body)
		if !seen[k] {
			seen[k] = true
			ps = append(ps, p)
		}
	}
	d.prods = ps
	return d
}

// randGrammar: structured random grammars.  Styles: 0 uniform; 1 ε-heavy (chains of nullable
// non-terminals); 2 LL(1)-biased (alternatives start with distinct terminals, optional ε);
// 3 uniform plus deliberately unreachable and unproductive non-terminals; 4 left recursion and
// unit cycles.
func randGrammar(r *rng.R, style int) gdesc {
	d := gdesc{nT: r.Range(1, 4), nN: r.Range(1, 5), start: 0}
	switch style {
	case 0, 3:
		for h := 0; h < d.nN; h++ {
			k := r.Range(1, 3)
			for i := 0; i < k; i++ {
				b := randBody(r, d, 4, 50)
				if r.Chance(1, 5) {
					b = nil
				}
				d.prods = append(d.prods, pdesc{h, b})
			}
		}
		if style == 3 {
			// unproductive: only self-recursive alternatives; unreachable: nobody mentions it
			u := d.nN
			d.nN += 2
			d.prods = append(d.prods, pdesc{u, []sdesc{{true, 0}, {false, u}}})
			if r.Bool() {
				d.prods = append(d.prods, pdesc{u, []sdesc{{false, u}}})
			}
			d.prods = append(d.prods, pdesc{u + 1, randBody(r, gdesc{nT: d.nT, nN: d.nN}, 3, 60)})
			if r.Bool() {
				// make the unproductive one reachable from somewhere
				i := r.Intn(len(d.prods))
				p := d.prods[i]
				pos := r.Range(0, len(p.body))
				nb := append(append(append([]sdesc{}, p.body[:pos]...), sdesc{false, u}), p.body[pos:]...)
				d.prods[i] = pdesc{p.head, nb}
			}
		}
	case 1:
		for h := 0; h < d.nN; h++ {
			if r.Chance(2, 3) {
				d.prods = append(d.prods, pdesc{h, nil})
			}
			k := r.Range(1, 2)
			for i := 0; i < k; i++ {
				d.prods = append(d.prods, pdesc{h, randBody(r, d, 4, 25)})
			}
		}
	case 2:
		for h := 0; h < d.nN; h++ {
			perm := []int{}
			for t := 0; t < d.nT; t++ {
				perm = append(perm, t)
			}
			for i := len(perm) - 1; i > 0; i-- {
				j := r.Intn(i + 1)
				perm[i], perm[j] = perm[j], perm[i]
			}
			k := r.Range(1, min(3, d.nT))
			for i := 0; i < k; i++ {
				pT := 45
				if i == 0 && r.Chance(7, 10) {
					pT = 100 // a terminals-only alternative keeps the non-terminal productive
				}
				b := append([]sdesc{{true, perm[i]}}, randBody(r, d, 3, pT)...)
				d.prods = append(d.prods, pdesc{h, b})
			}
			if r.Chance(2, 5) {
				d.prods = append(d.prods, pdesc{h, nil})
			} else if r.Chance(1, 4) && h+1 < d.nN {
				// an alternative that starts with a later non-terminal
				d.prods = append(d.prods, pdesc{h, append([]sdesc{{false, r.Range(h+1, d.nN-1)}}, randBody(r, d, 2, 60)...)})
			}
		}
	case 4:
		for h := 0; h < d.nN; h++ {
			switch r.Intn(3) {
			case 0:
				d.prods = append(d.prods, pdesc{h, append([]sdesc{{false, h}}, randBody(r, d, 2, 60)...)})
			case 1:
				d.prods = append(d.prods, pdesc{h, []sdesc{{false, (h + 1) % d.nN}}})
			}
			d.prods = append(d.prods, pdesc{h, randBody(r, d, 3, 60)})
		}
	}
	d.names = r.Intn(3)
	return dedup(d)
}

// wideGrammar: one non-terminal with 20..40 alternatives that start with distinct terminals and
// continue with a nullable non-terminal, over 20..70 terminals (rows of the parsing table with many
// entries).  N0 -> t_i N1 [t_j] | t_k ... ; N1 -> t_a | eps [| t_b N1] ; optionally a second wide N2.
func wideGrammar(r *rng.R) gdesc {
	d := gdesc{nT: r.Range(20, 70), nN: 2, start: 0, names: r.Intn(3)}
	perm := make([]int, d.nT)
	for i := range perm {
		perm[i] = i
	}
	for i := len(perm) - 1; i > 0; i-- {
		j := r.Intn(i + 1)
		perm[i], perm[j] = perm[j], perm[i]
	}
	k := r.Range(20, min(40, d.nT))
	wide2 := r.Chance(1, 3)
	if wide2 {
		d.nN = 3
	}
	for i := 0; i < k; i++ {
		b := []sdesc{{true, perm[i]}, {false, 1}}
		switch r.Intn(5) {
		case 0:
			b = b[:1]
		case 1:
			b = append(b, sdesc{true, r.Intn(d.nT)})
		case 2:
			if wide2 {
				b = append(b, sdesc{false, 2})
			}
		}
		d.prods = append(d.prods, pdesc{0, b})
	}
	if r.Chance(1, 4) {
		d.prods = append(d.prods, pdesc{0, nil})
	}
	d.prods = append(d.prods, pdesc{1, []sdesc{{true, perm[d.nT-1]}}}, pdesc{1, nil})
	if r.Bool() {
		d.prods = append(d.prods, pdesc{1, []sdesc{{true, perm[d.nT-2]}, {false, 1}}})
	}
	if wide2 {
		k2 := r.Range(17, min(30, d.nT))
		for i := 0; i < k2; i++ {
			d.prods = append(d.prods, pdesc{2, []sdesc{{true, perm[d.nT-1-i]}}})
		}
	}
	return dedup(d)
}

func rep(xs []int, n int) []int {
	var out []int
	for i := 0; i < n; i++ {
		out = append(out, xs...)
	}
	return out
}

func cat(xs ...[]int) []int {
	var out []int
	for _, x := range xs {
		out = append(out, x...)
	}
	return out
}

// deepCases: long and deeply nested inputs (parser stack, pending-node stack of ParseAndBuildAST,
// long production bodies).
func deepCases(w *tr.W, thorough bool) {
	pa := func(ws ...[]int) []string {
		ops := []string{"V", "TBL"}
		for _, x := range ws {
			ops = append(ops, "P "+tokensString(x), "A "+tokensString(x))
		}
		return ops
	}
	depths := []int{100, 400, 1000, 3000}
	if thorough {
		depths = append(depths, 6000)
	}
	// E -> ( E ) | id        t0 = (  t1 = )  t2 = id
	paren := gdesc{nT: 3, nN: 1, prods: []pdesc{{0, []sdesc{{true, 0}, {false, 0}, {true, 1}}}, {0, []sdesc{{true, 2}}}}}
	// E -> T E' ; E' -> + T E' | eps ; T -> F T' ; T' -> * F T' | eps ; F -> ( E ) | id     t0=+ t1=* t2=( t3=) t4=id
	expr := gdesc{nT: 5, nN: 5, prods: []pdesc{
		{0, []sdesc{{false, 2}, {false, 1}}}, {1, []sdesc{{true, 0}, {false, 2}, {false, 1}}}, {1, nil},
		{2, []sdesc{{false, 4}, {false, 3}}}, {3, []sdesc{{true, 1}, {false, 4}, {false, 3}}}, {3, nil},
		{4, []sdesc{{true, 2}, {false, 0}, {true, 3}}}, {4, []sdesc{{true, 4}}}}}
	for _, n := range depths {
		runCase(w, paren, pa(
			cat(rep([]int{0}, n), []int{2}, rep([]int{1}, n)),
			cat(rep([]int{0}, n), []int{2}, rep([]int{1}, n-1)),
			cat(rep([]int{0}, n), []int{2}, rep([]int{1}, n+1))))
		runCase(w, expr, pa(
			cat(rep([]int{2}, n), []int{4}, rep([]int{3}, n)),
			cat(rep([]int{2}, n), []int{4, 0, 4, 1, 4}, rep([]int{3, 1, 4}, n)),
			cat(rep([]int{2}, n), []int{4}, rep([]int{3}, n-1), []int{0}),
			cat(rep([]int{4, 0, 2}, n), []int{4}, rep([]int{3}, n))))
	}
	// right-recursive lists:  L -> item L | eps ;  L -> item , L | item-less tail
	list := gdesc{nT: 2, nN: 1, prods: []pdesc{{0, []sdesc{{true, 0}, {false, 0}}}, {0, nil}}}
	list2 := gdesc{nT: 2, nN: 2, prods: []pdesc{{0, []sdesc{{true, 0}, {false, 1}}}, {1, []sdesc{{true, 1}, {false, 0}}}, {1, nil}}}
	for _, n := range []int{1000, 5000} {
		runCase(w, list, pa(rep([]int{0}, n), cat(rep([]int{0}, n), []int{1}), cat(rep([]int{0}, n/2), []int{1}, rep([]int{0}, n/2))))
		runCase(w, list2, pa(cat(rep([]int{0, 1}, n), []int{0}), rep([]int{0, 1}, n), cat(rep([]int{0, 1}, n), []int{0, 0})))
	}
	// one production with a body of 1100 symbols:  S -> (t0 N1)^550 ; N1 -> t1 | eps     and a terminals-only body
	var body []sdesc
	for i := 0; i < 550; i++ {
		body = append(body, sdesc{true, 0}, sdesc{false, 1})
	}
	long := gdesc{nT: 2, nN: 2, prods: []pdesc{{0, body}, {1, []sdesc{{true, 1}}}, {1, nil}}}
	runCase(w, long, pa(rep([]int{0}, 550), rep([]int{0, 1}, 550), cat(rep([]int{0, 1}, 300), rep([]int{0}, 250)), rep([]int{0}, 549), rep([]int{0}, 551)))
	var tbody []sdesc
	for i := 0; i < 1100; i++ {
		tbody = append(tbody, sdesc{true, i % 2})
	}
	long2 := gdesc{nT: 2, nN: 1, prods: []pdesc{{0, tbody}}}
	runCase(w, long2, pa(rep([]int{0, 1}, 550), rep([]int{0, 1}, 549), cat(rep([]int{0, 1}, 550), []int{0})))
}

// ---------------------------------------------------------------- main

func main() {
	mode := flag.String("mode", "c10-exhaustive", "c10-exhaustive|c10-random|c12-exhaustive|c12-random|c12-deep")
	tier := flag.String("tier", "quick", "quick|thorough")
	replay := flag.String("replay", "", "case file to re-execute")
	flag.Parse()
	w := tr.NewW()
	defer w.Flush()
	if *replay != "" {
		cs, err := tr.ReadCases(*replay)
		if err != nil {
			fmt.Fprintln(os.Stderr, err)
			os.Exit(3)
		}
		for _, c := range cs {
			d, err := parseHeader(c.Head)
			if err != nil {
				fmt.Fprintln(os.Stderr, err)
				os.Exit(3)
			}
			runCase(w, d, c.Ops)
		}
		return
	}
	thorough := *tier == "thorough"
	switch *mode {
	case "c10-exhaustive":
		r := rng.FromEnv(10)
		emit := func(d gdesc) { runCase(w, d, c10Ops(d, r, 3, 0)) }
		emit2 := func(d gdesc) { runCase(w, d, c10Ops(d, r, 2, 0)) }
		enumGrammars(1, 1, 3, 3, emit)
		enumGrammars(2, 1, 2, 4, emit)
		enumGrammars(1, 2, 2, 3, emit)
		if thorough {
			enumGrammars(2, 2, 2, 3, emit)
			enumGrammars(1, 2, 2, 4, emit2)
			enumGrammars(1, 3, 2, 3, emit2)
		} else {
			enumGrammars(2, 2, 2, 3, emit2)
		}
	case "c10-random":
		r := rng.FromEnv(1010)
		n := 2500
		if thorough {
			n = 40000
		}
		for i := 0; i < n; i++ {
			d := randGrammar(r, i%5)
			if !verifies(d) {
				continue
			}
			runCase(w, d, c10Ops(d, r, 1, 25))
		}
		nw := 40
		if thorough {
			nw = 400
		}
		for i := 0; i < nw; i++ {
			d := wideGrammar(r)
			runCase(w, d, c10Ops(d, r, 1, 10))
		}
	case "c12-exhaustive":
		r := rng.FromEnv(12)
		L := 4
		if thorough {
			L = 6
		}
		emit := func(d gdesc) { runCase(w, d, c12Ops(d, r, L, 4)) }
		enumGrammars(1, 1, 3, 3, func(d gdesc) { runCase(w, d, c12Ops(d, r, 7, 4)) })
		enumGrammars(2, 1, 2, 3, emit)
		enumGrammars(1, 2, 2, 3, func(d gdesc) { runCase(w, d, c12Ops(d, r, 7, 4)) })
		if thorough {
			enumGrammars(2, 1, 2, 4, emit)
			enumGrammars(2, 2, 2, 3, emit)
		}
	case "c12-random":
		r := rng.FromEnv(1212)
		n := 1000
		if thorough {
			n = 20000
		}
		for i := 0; i < n; i++ {
			style := 2
			if i%4 == 3 {
				style = []int{0, 1, 3, 4}[(i/4)%4]
			}
			d := randGrammar(r, style)
			if !verifies(d) {
				continue
			}
			allLen := map[int]int{1: 7, 2: 5, 3: 4, 4: 3}[d.nT]
			runCase(w, d, c12Ops(d, r, allLen, 30))
		}
		nw := 40
		if thorough {
			nw = 400
		}
		for i := 0; i < nw; i++ {
			d := wideGrammar(r)
			runCase(w, d, c12Ops(d, r, 1, 12))
		}
	case "c12-deep":
		deepCases(w, thorough)
	default:
		fmt.Fprintln(os.Stderr, "unknown mode")
		os.Exit(3)
	}
}
