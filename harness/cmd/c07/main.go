// Command c07 traces the sorts of /repo/sort and /repo/radixsort.
//
//	header:  C | Cd | C1 | Cr | Cb | I | U | S     (C*: comparison sorts, the suffix selects the comparator)
//	ops:     e <element> -> -                    (appends one element to the input of the case)
//	         <Algorithm> [args] -> <output>      (runs on a fresh copy of the elements listed so far)
//
// C*: elements "e <key> <tag>", the comparator ignores the tag: C 3*(k1-k2), Cd k1-k2, C1 -1/0/+1,
// Cr k2-k1 (reversed), Cb sign*(1+(k1-k2)^2); output "k:t,k:t,..." or "-".
//
//	Selection Insertion Shell Merge MergeRec Quick3Way Heap      the public functions
//	VQuick                      quick without the shuffle (hook)
//	VQuickRand d0,d1,...        Shuffle with a scripted source, then quick (hook)
//	Quick                       the public, time-seeded Quick
//	Shuffle d0,d1,...           the public Shuffle with a scripted source (draw i is d_i mod (n-i))
//	Select k                    the public, time-seeded Select -> "k:t" of the returned element
//	VPartition lo hi            partition (hook) -> "j;array"
//	VMerge lo mid hi            merge on a fresh aux (hook) -> array
//
// I/U: elements "e <16 hex digits>" (bit pattern); LSDInt MSDInt / LSDUint MSDUint.
// S: elements "e x<hex bytes>"; LSDString w, MSDString, Quick3WayString, VQuick3WayString (hook).
// Native (I/U/S): slices.Sort, compared with the specification-level sorted list (glue: the order the
// theorems talk about is the language's native order).
// win pre post capx (any header): the following calls get the window whole[pre : pre+n : pre+n+capx] of a
// larger backing array with guard elements around it instead of a fresh slice; a call that changes a
// guard element is reported as OUTSIDE:... (a sort owns only the slice it is given).
// A panic is reported as PANIC, a call that does not return within the deadline as HANG.
package main

import (
	"flag"
	"fmt"
	"math"
	"math/rand"
	"os"
	"slices"
	"strconv"
	"strings"
	"time"

	"github.com/moorara/algo/radixsort"
	asort "github.com/moorara/algo/sort"

	"verif/harness/internal/rng"
	"verif/harness/internal/tr"
)

type kt struct{ k, t int }

// comparators (generic.CompareFunc: negative / zero / positive; the sorts may only use the sign)
//
//	C   3*(k1-k2)      Cd  k1-k2      C1  -1/0/+1      Cr  k2-k1 (reversed order)      Cb  sign * (1 + |k1-k2|^2)
func cmpFor(head string) func(a, b kt) int {
	switch head {
	case "Cd":
		return func(a, b kt) int { return a.k - b.k }
	case "C1":
		return func(a, b kt) int {
			switch {
			case a.k < b.k:
				return -1
			case a.k > b.k:
				return 1
			}
			return 0
		}
	case "Cr":
		return func(a, b kt) int { return b.k - a.k }
	case "Cb":
		return func(a, b kt) int {
			d := a.k - b.k
			switch {
			case d < 0:
				return -(1 + d*d)
			case d > 0:
				return 1 + d*d
			}
			return 0
		}
	}
	return func(a, b kt) int { return 3 * (a.k - b.k) }
}

// scripted is a rand.Source whose i-th Int63 makes Intn(m) return d[i] mod m (d[i] < 2^20).
type scripted struct {
	d []int
	i int
}

func (s *scripted) Int63() int64 {
	v := 0
	if s.i < len(s.d) {
		v = s.d[s.i]
	}
	s.i++
	return int64(v) << 32
}
func (s *scripted) Seed(int64) {}

var hung = 0

// guard runs f with panic recovery and a deadline.
func guard(f func() string) (res string) {
	ch := make(chan string, 1)
	go func() {
		defer func() {
			if r := recover(); r != nil {
				ch <- "PANIC"
			}
		}()
		ch <- f()
	}()
	select {
	case r := <-ch:
		return r
	case <-time.After(4 * time.Second):
		hung++
		return "HANG"
	}
}

func showKT(a []kt) string {
	if len(a) == 0 {
		return "-"
	}
	var sb strings.Builder
	for i, x := range a {
		if i > 0 {
			sb.WriteByte(',')
		}
		fmt.Fprintf(&sb, "%d:%d", x.k, x.t)
	}
	return sb.String()
}

func showU(a []uint64) string {
	if len(a) == 0 {
		return "-"
	}
	var sb strings.Builder
	for i, x := range a {
		if i > 0 {
			sb.WriteByte(',')
		}
		fmt.Fprintf(&sb, "%016x", x)
	}
	return sb.String()
}

func hexS(s string) string { return fmt.Sprintf("x%x", s) }

func showS(a []string) string {
	if len(a) == 0 {
		return "-"
	}
	p := make([]string, len(a))
	for i, s := range a {
		p[i] = hexS(s)
	}
	return strings.Join(p, ",")
}

func parseDraws(s string) []int {
	if s == "" || s == "-" {
		return nil
	}
	var d []int
	for _, f := range strings.Split(s, ",") {
		v, _ := strconv.Atoi(f)
		d = append(d, v)
	}
	return d
}

// layout of the slice handed to the sorts: by default a fresh slice with cap == len; after the op
// "win pre post capx" a window whole[pre : pre+n : pre+n+capx] of a larger backing array with pre guard
// elements before and post guard elements behind it (capx <= post; capx == post is the two-index
// slice whole[pre:pre+n], pre == 0 is a prefix buf[:n] of a larger buffer).  After every call the
// guard elements must be unchanged: a sort owns only the slice it was given.
type layout struct {
	on              bool
	pre, post, capx int
}

type state struct {
	head string
	c    []kt
	u    []uint64
	s    []string
	lay  layout
}

func mkWin[T any](lay layout, elems []T, g func(int) T) (whole, win []T) {
	n := len(elems)
	if !lay.on {
		win = make([]T, n) // cap == len exactly (append would round the capacity up)
		copy(win, elems)
		return win, win
	}
	whole = make([]T, lay.pre+n+lay.post)
	for i := range whole {
		whole[i] = g(i)
	}
	copy(whole[lay.pre:], elems)
	return whole, whole[lay.pre : lay.pre+n : lay.pre+n+lay.capx]
}

// outside reports the first guard element that no longer holds its value ("" if all intact).
func outside[T comparable](lay layout, whole []T, n int, g func(int) T) string {
	if !lay.on {
		return ""
	}
	for i := range whole {
		if (i < lay.pre || i >= lay.pre+n) && whole[i] != g(i) {
			return fmt.Sprintf("OUTSIDE:whole[%d],window=[%d:%d:%d]", i, lay.pre, lay.pre+n, lay.pre+n+lay.capx)
		}
	}
	return ""
}

func guardKT(i int) kt     { return kt{1000000 + i, -1000 - i} }
func guardInt(i int) int   { return int(int64(0x5eedbeef00000000)) + i }
func guardUint(i int) uint { return 0xdeadbeef00000000 + uint(i) }
func guardStr(i int) string {
	return fmt.Sprintf("\x7fguard%d", i)
}

func (st *state) exec(w *tr.W, op string) {
	f := strings.Fields(op)
	if len(f) == 0 {
		return
	}
	ai := func(i int) int {
		if i < len(f) {
			v, _ := strconv.Atoi(f[i])
			return v
		}
		return 0
	}
	as := func(i int) string {
		if i < len(f) {
			return f[i]
		}
		return ""
	}
	if f[0] == "e" {
		switch st.head {
		case "C", "Cd", "C1", "Cr", "Cb":
			st.c = append(st.c, kt{ai(1), ai(2)})
		case "I", "U":
			v, _ := strconv.ParseUint(as(1), 16, 64)
			st.u = append(st.u, v)
		default:
			h := strings.TrimPrefix(as(1), "x")
			b := make([]byte, len(h)/2)
			for i := range b {
				x, _ := strconv.ParseUint(h[2*i:2*i+2], 16, 8)
				b[i] = byte(x)
			}
			st.s = append(st.s, string(b))
		}
		w.Op(op, "-")
		return
	}
	if f[0] == "win" {
		st.lay = layout{on: true, pre: max(ai(1), 0), post: max(ai(2), 0)}
		st.lay.capx = min(max(ai(3), 0), st.lay.post)
		w.Op(op, "-")
		return
	}
	var res string
	check := func() string { return "" } // guard elements around the window, set per element type
	switch st.head {
	case "C", "Cd", "C1", "Cr", "Cb":
		cmpKT := cmpFor(st.head)
		whole, a := mkWin(st.lay, st.c, guardKT)
		check = func() string { return outside(st.lay, whole, len(st.c), guardKT) }
		sorter := func(g func([]kt)) string { return guard(func() string { g(a); return showKT(a) }) }
		switch f[0] {
		case "Selection":
			res = sorter(func(a []kt) { asort.Selection(a, cmpKT) })
		case "Insertion":
			res = sorter(func(a []kt) { asort.Insertion(a, cmpKT) })
		case "Shell":
			res = sorter(func(a []kt) { asort.Shell(a, cmpKT) })
		case "Merge":
			res = sorter(func(a []kt) { asort.Merge(a, cmpKT) })
		case "MergeRec":
			res = sorter(func(a []kt) { asort.MergeRec(a, cmpKT) })
		case "Quick3Way":
			res = sorter(func(a []kt) { asort.Quick3Way(a, cmpKT) })
		case "Heap":
			res = sorter(func(a []kt) { asort.Heap(a, cmpKT) })
		case "Quick":
			res = sorter(func(a []kt) { asort.Quick(a, cmpKT) })
		case "VQuick":
			res = sorter(func(a []kt) { asort.VerifQuick(a, cmpKT) })
		case "VQuickRand":
			d := parseDraws(as(1))
			res = sorter(func(a []kt) { asort.VerifQuickRand(a, cmpKT, rand.New(&scripted{d: d})) })
		case "Shuffle":
			d := parseDraws(as(1))
			res = sorter(func(a []kt) { asort.Shuffle(a, rand.New(&scripted{d: d})) })
		case "Select":
			k := ai(1)
			res = guard(func() string { x := asort.Select(a, k, cmpKT); return fmt.Sprintf("%d:%d", x.k, x.t) })
		case "VPartition":
			lo, hi := ai(1), ai(2)
			res = guard(func() string { j := asort.VerifPartition(a, lo, hi, cmpKT); return fmt.Sprintf("%d;%s", j, showKT(a)) })
		case "VMerge":
			lo, mid, hi := ai(1), ai(2), ai(3)
			res = guard(func() string { asort.VerifMerge(a, lo, mid, hi, cmpKT); return showKT(a) })
		default:
			res = "?"
		}
	case "I":
		el := make([]int, len(st.u))
		for i, v := range st.u {
			el[i] = int(int64(v))
		}
		whole, a := mkWin(st.lay, el, guardInt)
		check = func() string { return outside(st.lay, whole, len(el), guardInt) }
		back := func() string {
			u := make([]uint64, len(a))
			for i, v := range a {
				u[i] = uint64(int64(v))
			}
			return showU(u)
		}
		switch f[0] {
		case "LSDInt":
			res = guard(func() string { radixsort.LSDInt(a); return back() })
		case "MSDInt":
			res = guard(func() string { radixsort.MSDInt(a); return back() })
		case "Native":
			res = guard(func() string { slices.Sort(a); return back() })
		default:
			res = "?"
		}
	case "U":
		el := make([]uint, len(st.u))
		for i, v := range st.u {
			el[i] = uint(v)
		}
		whole, a := mkWin(st.lay, el, guardUint)
		check = func() string { return outside(st.lay, whole, len(el), guardUint) }
		back := func() string {
			u := make([]uint64, len(a))
			for i, v := range a {
				u[i] = uint64(v)
			}
			return showU(u)
		}
		switch f[0] {
		case "LSDUint":
			res = guard(func() string { radixsort.LSDUint(a); return back() })
		case "MSDUint":
			res = guard(func() string { radixsort.MSDUint(a); return back() })
		case "Native":
			res = guard(func() string { slices.Sort(a); return back() })
		default:
			res = "?"
		}
	default:
		whole, a := mkWin(st.lay, st.s, guardStr)
		check = func() string { return outside(st.lay, whole, len(st.s), guardStr) }
		switch f[0] {
		case "MSDString":
			res = guard(func() string { radixsort.MSDString(a); return showS(a) })
		case "Native":
			res = guard(func() string { slices.Sort(a); return showS(a) })
		case "Quick3WayString":
			res = guard(func() string { radixsort.Quick3WayString(a); return showS(a) })
		case "VQuick3WayString":
			res = guard(func() string { radixsort.VerifQuick3WayString(a); return showS(a) })
		case "LSDString":
			wd := ai(1)
			res = guard(func() string { radixsort.LSDString(a, wd); return showS(a) })
		default:
			res = "?"
		}
	}
	if res != "HANG" && res != "?" {
		if o := check(); o != "" {
			res = o // the call wrote outside the slice it was given
		}
	}
	w.Op(op, res)
	if hung >= 3 {
		w.Flush()
		fmt.Fprintln(os.Stderr, "too many hung calls")
		os.Exit(4)
	}
}

func runCase(w *tr.W, head string, ops []string) {
	w.Begin("%s", head)
	st := &state{head: head}
	for _, op := range ops {
		st.exec(w, op)
	}
	w.End()
}

// ---------------------------------------------------------------- case builders

// layoutOp cycles through the slice layouts of the generated cases: a fresh slice (cap == len), a window
// whole[lo:hi] in the middle of a larger array, a prefix buf[:k], three-index slices with cap > len and
// with cap == len but live neighbours.  Five of eight cases run on a window.
var layoutCounter int

func layoutOp() []string {
	layoutCounter++
	l := []string{"", "win 1 2 2", "", "win 0 1 1", "win 2 3 1", "", "win 3 1 0", "win 0 3 3"}[layoutCounter%8]
	if l == "" {
		return nil
	}
	return []string{l}
}

func draws(r *rng.R, n int) string {
	if n == 0 {
		return "-"
	}
	p := make([]string, n)
	for i := range p {
		p[i] = strconv.Itoa(r.Intn(1 << 16))
	}
	return strings.Join(p, ",")
}

// caseC builds the full battery for one tagged key slice.
func caseC(w *tr.W, r *rng.R, keys []int, full bool) { caseCh(w, r, "C", keys, full) }

var cmpHeads = []string{"C", "Cd", "C1", "Cr", "Cb"}

func caseCh(w *tr.W, r *rng.R, head string, keys []int, full bool) {
	n := len(keys)
	ops := layoutOp()
	for i, k := range keys {
		ops = append(ops, fmt.Sprintf("e %d %d", k, i))
	}
	ops = append(ops, "Selection", "Insertion", "Shell", "Merge", "MergeRec", "Quick3Way", "Heap", "VQuick", "Quick",
		"VQuickRand "+draws(r, n), "Shuffle "+draws(r, n))
	if n > 0 {
		if full {
			for k := 0; k < n; k++ {
				ops = append(ops, fmt.Sprintf("Select %d", k))
			}
		} else {
			ops = append(ops, fmt.Sprintf("Select %d", r.Intn(n)), fmt.Sprintf("Select %d", r.Intn(n)), "Select 0", fmt.Sprintf("Select %d", n-1))
		}
		lo := r.Intn(n)
		hi := r.Range(lo, n-1)
		ops = append(ops, fmt.Sprintf("VPartition 0 %d", n-1), fmt.Sprintf("VPartition %d %d", lo, hi))
		if n >= 2 {
			ops = append(ops, fmt.Sprintf("VMerge 0 %d %d", (n-1)/2, n-1))
		}
	}
	runCase(w, head, ops)
}

func exhaustiveC(w *tr.W, r *rng.R, head string, maxLen int, vals []int) {
	var rec func(prefix []int)
	rec = func(prefix []int) {
		caseCh(w, r, head, prefix, true)
		if len(prefix) == maxLen {
			return
		}
		for _, v := range vals {
			rec(append(prefix[:len(prefix):len(prefix)], v))
		}
	}
	rec(nil)
}

func caseU(w *tr.W, head string, vals []uint64) {
	ops := layoutOp()
	for _, v := range vals {
		ops = append(ops, fmt.Sprintf("e %016x", v))
	}
	if head == "I" {
		ops = append(ops, "LSDInt", "MSDInt", "Native")
	} else {
		ops = append(ops, "LSDUint", "MSDUint", "Native")
	}
	runCase(w, head, ops)
}

func exhaustiveU(w *tr.W, head string, maxLen int, vals []uint64) {
	var rec func(prefix []uint64)
	rec = func(prefix []uint64) {
		caseU(w, head, prefix)
		if len(prefix) == maxLen {
			return
		}
		for _, v := range vals {
			rec(append(prefix[:len(prefix):len(prefix)], v))
		}
	}
	rec(nil)
}

func caseS(w *tr.W, vals []string, lsdW int) {
	ops := layoutOp()
	for _, v := range vals {
		ops = append(ops, "e "+hexS(v))
	}
	ops = append(ops, "MSDString", "VQuick3WayString", "Quick3WayString", "Native")
	if lsdW >= 0 {
		ops = append(ops, fmt.Sprintf("LSDString %d", lsdW))
	}
	runCase(w, "S", ops)
}

func exhaustiveS(w *tr.W, maxLen int, vals []string, lsdW int) {
	var rec func(prefix []string)
	rec = func(prefix []string) {
		caseS(w, prefix, lsdW)
		if len(prefix) == maxLen {
			return
		}
		for _, v := range vals {
			rec(append(prefix[:len(prefix):len(prefix)], v))
		}
	}
	rec(nil)
}

// sizes on both sides of the insertion cutoff (15: ranges of 16 elements or fewer are insertion-sorted)
func pickN(r *rng.R, big int) int {
	switch r.Intn(4) {
	case 0:
		return r.Range(14, 18)
	case 1:
		return r.Range(0, 13)
	case 2:
		return r.Range(19, 60)
	}
	return r.Range(30, big)
}

func randomC(w *tr.W, r *rng.R, cases, big int) {
	for c := 0; c < cases; c++ {
		n := pickN(r, big)
		keys := make([]int, n)
		shape := r.Intn(9)
		span := []int{1, 2, 3, 5, 10, 100, 1000000}[r.Intn(7)]
		for i := range keys {
			switch shape {
			case 0, 1, 2: // uniform in a small or large range (many / few duplicates)
				keys[i] = r.Range(-span, span)
			case 3: // ascending
				keys[i] = i / (1 + r.Intn(2))
			case 4: // descending
				keys[i] = (n - i) / (1 + r.Intn(2))
			case 5: // all equal
				keys[i] = 7
			case 6: // organ pipe
				keys[i] = min(i, n-i)
			case 7: // sawtooth
				keys[i] = i % (span + 1)
			case 8: // sorted with a few displaced elements
				keys[i] = i
			}
		}
		if shape == 8 && n > 1 {
			for k := 0; k < 1+r.Intn(3); k++ {
				i, j := r.Intn(n), r.Intn(n)
				keys[i], keys[j] = keys[j], keys[i]
			}
		}
		caseCh(w, r, cmpHeads[r.Intn(len(cmpHeads))], keys, false)
	}
}

var boundaryI = []uint64{0x8000000000000000, 0x8000000000000001, 0xffffffffffffffff, 0, 1, 0x7fffffffffffffff, 0x7ffffffffffffffe, 0xfffffffffffffffe,
	0x80, 0x7f, 0xff, 0x100, 0xff00000000000000, 0x0100000000000000, 0x00ff000000000000, 0x8000000000000080, 0x7f80000000000000, 0xff7fffffffffffff}

// Column shapes: every byte position independently is constant 0x00, constant 0xff, constant other or
// varying, with at least one varying position ABOVE (more significant than) a constant one, so that
// a pass over a constant column (all keys in one bucket, e.g. all-zero digits) is followed by a pass
// that still has to move keys.  modes[p]: 0 = 0x00, 1 = 0xff, 2 = other constant, 3 = varying.
func columnModes(r *rng.R, width int) []int {
	for {
		m := make([]int, width)
		for p := range m {
			m[p] = r.Intn(4)
		}
		// position 0 is the least significant column (integers) / the last character (strings)
		ok := false
		for p := 0; p < width && !ok; p++ {
			if m[p] != 3 {
				for q := p + 1; q < width; q++ {
					if m[q] == 3 {
						ok = true
					}
				}
			}
		}
		if ok || width < 2 {
			return m
		}
	}
}

func columnBytes(r *rng.R, modes []int, consts []byte, few bool) []byte {
	b := make([]byte, len(modes))
	for p, m := range modes {
		switch m {
		case 0:
			b[p] = 0x00
		case 1:
			b[p] = 0xff
		case 2:
			b[p] = consts[p]
		default:
			if few {
				b[p] = []byte{0x00, 0x01, 0x7f, 0x80, 0xff}[r.Intn(5)]
			} else {
				b[p] = byte(r.Intn(256))
			}
		}
	}
	return b
}

func columnU(r *rng.R, n int, modes []int) []uint64 {
	consts := make([]byte, 8)
	for p := range consts {
		consts[p] = byte(r.Range(1, 254))
	}
	few := r.Bool()
	vals := make([]uint64, n)
	for i := range vals {
		b := columnBytes(r, modes, consts, few)
		var v uint64
		for p := 0; p < 8; p++ {
			v |= uint64(b[p]) << (8 * uint(p))
		}
		vals[i] = v
	}
	return vals
}

// columnS: fixed-width strings; modes[0] is the LAST character (the first LSD pass).
func columnS(r *rng.R, n int, modes []int) []string {
	w := len(modes)
	consts := make([]byte, w)
	for p := range consts {
		consts[p] = byte(r.Range(1, 254))
	}
	few := r.Bool()
	vals := make([]string, n)
	for i := range vals {
		b := columnBytes(r, modes, consts, few)
		s := make([]byte, w)
		for p := 0; p < w; p++ {
			s[w-1-p] = b[p]
		}
		vals[i] = string(s)
	}
	return vals
}

// columnSweep: deterministic family: one constant column p (0x00, 0xff, 0x5a) with the column just
// above it and the top column varying, everything else constant zero / random constant; short and
// long slices (both sides of the insertion cutoff); both signednesses; the same for strings.
func columnSweep(w *tr.W, r *rng.R, thorough bool) {
	sizes := []int{5, 21}
	if thorough {
		sizes = []int{3, 9, 17, 40}
	}
	k := 0
	for p := 0; p < 7; p++ {
		for _, q := range []int{p + 1, 7} {
			for cm := 0; cm < 3; cm++ {
				for _, n := range sizes {
					modes := make([]int, 8)
					for x := range modes {
						modes[x] = []int{0, 0, 2}[r.Intn(3)]
					}
					modes[p] = cm
					modes[q] = 3
					if p > 0 && r.Bool() {
						modes[r.Intn(p)] = 3 // a varying column below the constant one as well
					}
					if !thorough && (k%2 == 1) && q == 7 && p < 6 {
						k++
						continue
					}
					head := "U"
					if k%2 == 0 {
						head = "I"
					}
					k++
					caseU(w, head, columnU(r, n, modes))
					if thorough {
						caseU(w, map[string]string{"I": "U", "U": "I"}[head], columnU(r, n, modes))
					}
				}
			}
		}
	}
	for width := 2; width <= 4; width++ {
		for p := 0; p < width-1; p++ {
			for cm := 0; cm < 3; cm++ {
				for _, n := range sizes {
					modes := make([]int, width)
					for x := range modes {
						modes[x] = []int{0, 1, 2, 3}[r.Intn(4)]
					}
					modes[p] = cm
					modes[p+1] = 3
					caseS(w, columnS(r, n, modes), width)
				}
			}
		}
	}
}

func randomU(w *tr.W, r *rng.R, cases, big int) {
	for c := 0; c < cases; c++ {
		n := pickN(r, big)
		vals := make([]uint64, n)
		shape := r.Intn(13)
		base := r.U64()
		tops := []uint64{0x80, 0x00, 0x7f, 0xff, 0x01, 0x81, 0xfe}
		top := tops[r.Intn(len(tops))]
		second := tops[r.Intn(len(tops))]
		pos := uint(r.Intn(8)) * 8
		keep := uint(r.Intn(8)) // number of shared top bytes for the deep-recursion shape
		if shape >= 10 {        // column shapes (constant 0x00 / 0xff / other / varying per byte position)
			vals = columnU(r, n, columnModes(r, 8))
		}
		for i := range vals {
			switch shape {
			case 0: // all 64-bit patterns
				vals[i] = r.U64()
			case 1: // boundary values and neighbours
				vals[i] = boundaryI[r.Intn(len(boundaryI))] + uint64(r.Intn(3)) - 1
			case 2: // differ in one byte position only
				vals[i] = base&^(0xff<<pos) | uint64(r.Intn(256))<<pos
			case 3: // shared top bytes: MSD recursion reaches depth keep
				mask := uint64(math.MaxUint64)
				if keep > 0 {
					mask = math.MaxUint64 >> (8 * keep)
				}
				vals[i] = base&^mask | r.U64()&mask
			case 4: // differ in the last byte only plus duplicates (deepest recursion, d = W-1)
				vals[i] = base&^0xff | uint64(r.Intn(40))
			case 5: // small magnitudes of both signs
				vals[i] = uint64(int64(r.Range(-300, 300)))
			case 6: // two byte positions vary, sign bit flips
				vals[i] = base&^(0xff<<pos)&^(0xff<<56) | uint64(r.Intn(256))<<pos | uint64(r.Intn(4)*0x55)<<56
			case 7: // few distinct values
				vals[i] = boundaryI[r.Intn(4)] ^ uint64(r.Intn(2))<<pos
			case 8: // one extreme top-byte bucket (0x00, 0x7f, 0x80, 0xff, ...) filled with random lower bytes
				vals[i] = top<<56 | r.U64()>>8
			case 9: // extreme top and second bytes: the first and last buckets of two levels
				vals[i] = top<<56 | second<<48 | r.U64()>>16
				if r.Chance(1, 4) {
					vals[i] = tops[r.Intn(len(tops))]<<56 | r.U64()>>8
				}
			}
		}
		if c%2 == 0 {
			caseU(w, "I", vals)
		} else {
			caseU(w, "U", vals)
		}
	}
}

func randBytes(r *rng.R, n int, alpha []byte) string {
	b := make([]byte, n)
	for i := range b {
		b[i] = alpha[r.Intn(len(alpha))]
	}
	return string(b)
}

var alphas = [][]byte{
	{'a', 'b'},
	{'a', 'b', 'c', 'z'},
	{0x00, 'a', 0xff},
	{0x00, 0x01, 0x7f, 0x80, 0xfe, 0xff},
	{0x00},
	{0xff},
}

func allBytes() []byte {
	b := make([]byte, 256)
	for i := range b {
		b[i] = byte(i)
	}
	return b
}

func randomS(w *tr.W, r *rng.R, cases, big int) {
	alphas := append(alphas, allBytes())
	for c := 0; c < cases; c++ {
		n := pickN(r, big)
		vals := make([]string, n)
		alpha := alphas[r.Intn(len(alphas))]
		shape := r.Intn(8)
		prefix := randBytes(r, r.Range(0, 40), alpha)
		width := r.Range(0, 6)
		lsdW := -1
		for i := range vals {
			switch shape {
			case 0: // short strings over a tiny alphabet: many duplicates and proper prefixes
				vals[i] = randBytes(r, r.Range(0, 5), alpha)
			case 1: // long shared prefix, short random tail
				vals[i] = prefix + randBytes(r, r.Range(0, 3), alpha)
			case 2: // prefixes of one string
				vals[i] = prefix[:r.Intn(len(prefix)+1)]
			case 3: // all equal
				vals[i] = prefix
			case 4: // fixed width (the LSD domain)
				vals[i] = randBytes(r, width, alpha)
				lsdW = width
			case 5: // fixed width with a shared prefix
				vals[i] = prefix[:min(len(prefix), 3)] + randBytes(r, width, alpha)
				lsdW = min(len(prefix), 3) + width
			}
		}
		if lsdW < 0 && r.Chance(1, 6) { // outside the domain of LSDString: width below / above the shortest string
			lsdW = r.Range(0, 3)
		}
		if shape >= 6 { // column shapes: fixed width, each position constant 0x00 / 0xff / other or varying
			width = r.Range(2, 6)
			vals = columnS(r, n, columnModes(r, width))
			lsdW = width
		}
		caseS(w, vals, lsdW)
	}
}

func main() {
	mode := flag.String("mode", "exhaustive", "exhaustive|random")
	tier := flag.String("tier", "quick", "quick|thorough")
	replay := flag.String("replay", "", "case file to re-execute")
	flag.Parse()
	w := tr.NewW()
	defer w.Flush()
	if *replay != "" {
		cs, err := tr.ReadCases(*replay)
		if err != nil {
			fmt.Fprintln(os.Stderr, err)
			os.Exit(3)
		}
		for _, c := range cs {
			runCase(w, c.Head, c.Ops)
		}
		return
	}
	thorough := *tier == "thorough"
	switch *mode {
	case "exhaustive":
		r := rng.FromEnv(7)
		iv := []uint64{0x8000000000000000, 0xffffffffffffffff, 0, 1, 0x7fffffffffffffff}
		sv := []string{"", "a", "ab", "b", "a\x00", "\xff"}
		fv := []string{"\x00\x00", "\x00\xff", "a\x00", "aa", "a\xff", "\xff\x00", "\xffa", "\xff\xff"}
		if thorough {
			exhaustiveC(w, r, "C", 9, []int{-1, 0, 1})
			for _, h := range cmpHeads[1:] {
				exhaustiveC(w, r, h, 7, []int{-1, 0, 1})
			}
			exhaustiveU(w, "I", 4, iv)
			exhaustiveU(w, "U", 4, iv)
			exhaustiveS(w, 5, sv, -1)
			exhaustiveS(w, 4, fv, 2)
			columnSweep(w, r, true)
		} else {
			exhaustiveC(w, r, "C", 7, []int{-1, 0, 1})
			for _, h := range cmpHeads[1:] {
				exhaustiveC(w, r, h, 5, []int{-1, 0, 1})
			}
			exhaustiveU(w, "I", 3, iv)
			exhaustiveU(w, "U", 3, iv[1:])
			exhaustiveS(w, 4, sv, -1)
			exhaustiveS(w, 3, fv, 2)
			columnSweep(w, r, false)
		}
	case "random":
		r := rng.FromEnv(707)
		if thorough {
			randomC(w, r, 3000, 300)
			randomU(w, r, 3000, 400)
			randomS(w, r, 2500, 300)
		} else {
			randomC(w, r, 250, 160)
			randomU(w, r, 240, 300)
			randomS(w, r, 160, 200)
		}
	}
}
