module verif/harness

go 1.23.4

require github.com/moorara/algo v0.0.0

replace github.com/moorara/algo => /repo
