module verif/harness

go 1.23.4

require github.com/moorara/algo v0.0.0

require golang.org/x/exp v0.0.0-20250305212735-054e65f0b394 // indirect

replace github.com/moorara/algo => /repo
