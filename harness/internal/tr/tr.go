// Package tr has the trace-line helpers shared by all harness commands.
//
// Protocol: one case per line,  "<header> | <op> -> <result> | <op> -> <result> ...".
// In --replay mode a command reads such lines (results, if present, are ignored),
// re-executes the ops on the real implementation and prints the line with fresh results.
package tr

import (
	"bufio"
	"fmt"
	"os"
	"strings"
)

type Case struct {
	Head string
	Ops  []string // without results
}

type W struct {
	w   *bufio.Writer
	cur []string
}

func NewW() *W { return &W{w: bufio.NewWriterSize(os.Stdout, 1<<20)} }

func (t *W) Begin(format string, a ...any) { t.cur = []string{fmt.Sprintf(format, a...)} }
func (t *W) Op(op string, res string)      { t.cur = append(t.cur, op+" -> "+res) }
func (t *W) Opf(res string, format string, a ...any) {
	t.cur = append(t.cur, fmt.Sprintf(format, a...)+" -> "+res)
}
func (t *W) End() {
	t.w.WriteString(strings.Join(t.cur, " | "))
	t.w.WriteByte('\n')
	t.cur = nil
}
// Flush writes everything out, including a partially built case (used before a crash exit).
func (t *W) Flush() {
	if t.cur != nil {
		t.End()
	}
	t.w.Flush()
}

func ReadCases(path string) ([]Case, error) {
	f, err := os.Open(path)
	if err != nil {
		return nil, err
	}
	defer f.Close()
	var cs []Case
	sc := bufio.NewScanner(f)
	sc.Buffer(make([]byte, 1<<20), 1<<28)
	for sc.Scan() {
		line := strings.TrimSpace(sc.Text())
		if line == "" || strings.HasPrefix(line, "#") {
			continue
		}
		parts := strings.Split(line, "|")
		c := Case{Head: strings.TrimSpace(parts[0])}
		for _, p := range parts[1:] {
			op := strings.TrimSpace(strings.SplitN(p, "->", 2)[0])
			if op != "" {
				c.Ops = append(c.Ops, op)
			}
		}
		cs = append(cs, c)
	}
	return cs, sc.Err()
}
