// Package rng is the single source of randomness of the harness: SplitMix64 seeded from VERIF_SEED.
package rng

import (
	"os"
	"strconv"
)

type R struct{ s uint64 }

// New scrambles the seed with the SplitMix64 finaliser first: with the plain state s0 = seed*γ the
// streams of seed and seed+1 would be one-step shifts of each other (the state advances by γ).
func New(seed uint64) *R {
	z := seed + 0x632BE59BD9B4E019
	z = (z ^ (z >> 30)) * 0xBF58476D1CE4E5B9
	z = (z ^ (z >> 27)) * 0x94D049BB133111EB
	return &R{s: z ^ (z >> 31)}
}

// FromEnv seeds from VERIF_SEED (default 1) mixed with a per-stream salt.
func FromEnv(salt uint64) *R {
	seed := uint64(1)
	if v, err := strconv.ParseInt(os.Getenv("VERIF_SEED"), 10, 64); err == nil {
		seed = uint64(v)
	}
	return New(seed ^ (salt * 0xD1342543DE82EF95))
}

func (r *R) U64() uint64 {
	r.s += 0x9E3779B97F4A7C15
	z := r.s
	z = (z ^ (z >> 30)) * 0xBF58476D1CE4E5B9
	z = (z ^ (z >> 27)) * 0x94D049BB133111EB
	return z ^ (z >> 31)
}

// Intn returns a value in [0,n); n must be > 0.
func (r *R) Intn(n int) int { return int(r.U64() % uint64(n)) }

// Range returns a value in [lo,hi].
func (r *R) Range(lo, hi int) int { return lo + r.Intn(hi-lo+1) }

func (r *R) Bool() bool { return r.U64()&1 == 1 }

// Chance is true with probability num/den.
func (r *R) Chance(num, den int) bool { return r.Intn(den) < num }
