(* Extraction of the C05 models and of the executable specification.
   ExtrOcamlBasic only: nat, Z, positive stay Coq datatypes. *)
Require Extraction.
Require Import ExtrOcamlBasic.
From Algo.C05 Require Import Model Spec.
Extraction Language OCaml.
Extraction "model.ml" new step layout_of cmp_min cmp_max cmp_sub cmp_sub3 cmp_rsub spec_step empty_map held_count extremal max_degree_go.
