(* C05 driver: replays traced indexed-heap cases.
   Two referees per observed result:
     (1) the extracted executable specification [spec_step] (index -> (key,val) map): a result it
         forbids is kind=api.  The abstract map follows the implementation's own answers, so any
         extremal index is accepted for Peek/Delete.
     (2) the extracted model of the Go code, compared exactly (results and hook layout): a
         difference the specification allows is kind=fidelity; the model then stops following
         this case (its state is no longer the implementation's). *)
open Model

let rec pos_of_int n = if n = 1 then XH else if n land 1 = 0 then XO (pos_of_int (n lsr 1)) else XI (pos_of_int (n lsr 1))
let z_of_int n = if n = 0 then Z0 else if n > 0 then Zpos (pos_of_int n) else Zneg (pos_of_int (-n))
let rec int_of_pos = function XH -> 1 | XO p -> 2 * int_of_pos p | XI p -> 2 * int_of_pos p + 1
let int_of_z = function Z0 -> 0 | Zpos p -> int_of_pos p | Zneg p -> - (int_of_pos p)
let rec nat_of_int n = if n <= 0 then O else S (nat_of_int (n - 1))

let split_on s sep = Str.split (Str.regexp_string sep) s
let trim = String.trim
let bs b = if b then "t" else "f"
let zs z = string_of_int (int_of_z z)

let out_to_string = function
  | OBool b -> bs b
  | OEntry (i, k, v) -> Printf.sprintf "%s,%s,%s,t" (zs i) (zs k) (zs v)
  | ONoEntry -> "-1,0,0,f"
  | OKV (k, v) -> Printf.sprintf "%s,%s,t" (zs k) (zs v)
  | ONoKV -> "0,0,f"
  | OUnit -> "-"
  | OInt n -> zs n

(* parse an observed result according to the operation's result type *)
let parse_out (o : op) (s : string) : out option =
  let ints () = List.map (fun x -> int_of_string (trim x)) (split_on s ",") in
  try
    match o with
    | Insert _ | ChangeKey _ | ContainsIndex _ | ContainsKey _ | ContainsValue _ | IsEmpty ->
      (match s with "t" -> Some (OBool true) | "f" -> Some (OBool false) | _ -> None)
    | Delete | Peek ->
      (match split_on s "," with
       | [i; k; v; "t"] -> Some (OEntry (z_of_int (int_of_string i), z_of_int (int_of_string k), z_of_int (int_of_string v)))
       | ["-1"; "0"; "0"; "f"] -> Some ONoEntry
       | _ -> None)
    | DeleteIndex _ | PeekIndex _ ->
      (match split_on s "," with
       | [k; v; "t"] -> Some (OKV (z_of_int (int_of_string k), z_of_int (int_of_string v)))
       | ["0"; "0"; "f"] -> Some ONoKV
       | _ -> None)
    | DeleteAll -> if s = "-" then Some OUnit else None
    | Size -> (match ints () with [n] -> Some (OInt (z_of_int n)) | _ -> None)
  with _ -> None

let layout_to_string (l : layout) : string =
  let b = Buffer.create 256 in
  (match l with
   | LBin (n, hp, ps, held) ->
     Buffer.add_string b (Printf.sprintf "B %s;" (zs n));
     Buffer.add_string b (String.concat "," (List.map zs hp));
     Buffer.add_char b ';';
     Buffer.add_string b (String.concat "," (List.map zs ps));
     Buffer.add_char b ';';
     List.iter (fun h -> Buffer.add_char b (if h then '1' else '0')) held
   | LForest (n, toks) ->
     Buffer.add_string b (Printf.sprintf "F %s;" (zs n));
     List.iter (function
         | TOpen (((i, k), _), d, m) ->
           Buffer.add_string b (Printf.sprintf "(%s,%s,%s,%d" (zs i) (zs k) (zs d) (if m then 1 else 0))
         | TClose -> Buffer.add_char b ')') toks);
  Buffer.contents b

let parse_op (s : string) : op option =
  let t = Array.of_list (split_on s " ") in
  let a i = z_of_int (int_of_string t.(i)) in
  try
    match t.(0) with
    | "I" -> Some (Insert (a 1, a 2, a 3))
    | "C" -> Some (ChangeKey (a 1, a 2))
    | "D" -> Some Delete
    | "X" -> Some (DeleteIndex (a 1))
    | "A" -> Some DeleteAll
    | "P" -> Some Peek
    | "Q" -> Some (PeekIndex (a 1))
    | "H" -> Some (ContainsIndex (a 1))
    | "K" -> Some (ContainsKey (a 1))
    | "W" -> Some (ContainsValue (a 1))
    | "S" -> Some Size
    | "E" -> Some IsEmpty
    | _ -> None
  with _ -> None

let model_cap = 300
let stat_tbl : (string, int) Hashtbl.t = Hashtbl.create 64
let bump k n = Hashtbl.replace stat_tbl k (n + try Hashtbl.find stat_tbl k with Not_found -> 0)
let maxi k n = Hashtbl.replace stat_tbl k (max n (try Hashtbl.find stat_tbl k with Not_found -> 0))

let () =
  let cases = ref 0 and ops = ref 0 and nontrivial = Hashtbl.create 4096 in
  let lineno = ref 0 and samples = ref 0 in
  (try
    while true do
      let line = input_line stdin in
      if String.length line > 0 && line.[0] <> '#' then begin
        incr lineno; incr cases;
        let parts = List.map trim (split_on line "|") in
        let head = List.hd parts and body = List.tl parts in
        let impl_s, ord_s, cap = Scanf.sscanf head "%s %s %d" (fun a b c -> (a, b, c)) in
        let impl = match impl_s with "B" -> IBin | "N" -> IBinom | _ -> IFib in
        let cmp = match ord_s with
          | "max" -> cmp_max | "sub" -> cmp_sub | "sub3" -> cmp_sub3 | "rsub" -> cmp_rsub | _ -> cmp_min in
        bump ("cases_" ^ impl_s) 1; bump ("cases_" ^ ord_s) 1; maxi "max_cap" cap;
        let st = ref (new0 impl (nat_of_int cap)) in
        (* the exact model costs O(cap) list walks per operation: cases above [model_cap] entries are
           refereed by the extracted specification only (PANIC/HANG and wrong results are still api) *)
        let insync = ref (cap <= model_cap) in
        if cap > model_cap then bump "cases_spec_only" 1;
        let am = ref (Some (empty_map (nat_of_int cap))) in   (* None after an api mismatch *)
        let opno = ref 0 in
        let structural = ref 0 in
        let size = ref 0 in   (* entries held, followed from the observed results (statistics only) *)
        (* reports of one case are printed at its end, property-level (api) ones first: the
           check reports the first mismatch of a case *)
        let reports = ref [] in
        let report kind what =
          reports := (kind, Printf.sprintf "MISMATCH line=%d op=%d kind=%s what=%s %s cap=%d: %s\n" !lineno !opno kind impl_s ord_s cap what) :: !reports in
        List.iter (fun opres ->
          incr opno; incr ops;
          let op_s, res = match split_on opres "->" with
            | [a; b] -> (trim a, trim b) | [a] -> (trim a, "?") | _ -> (opres, "?") in
          if op_s = "L" then begin
            if !insync && res <> "?" then begin
              let m = layout_to_string (layout_of !st) in
              if m <> res then begin
                report "fidelity" (Printf.sprintf "layout after op %d: implementation %s, model %s" (!opno - 1) res m);
                insync := false
              end
            end
          end else if String.length op_s > 2 && String.sub op_s 0 2 = "G " then begin
            (* float maxDegree of the Go code against the model's exact 1 + max{d | phi^d <= n}
               (the loop of [max_degree] with fuel 64, enough for n < phi^64) *)
            let nn = int_of_string (String.sub op_s 2 (String.length op_s - 2)) in
            let z x = z_of_int x in
            let m = int_of_z (max_degree_go (nat_of_int 64) (z 0) (z 2) (z 0) (z 1) (z 1) (z nn)) in
            bump "maxdegree_values" 1;
            if res <> "?" && res <> string_of_int m then
              report "fidelity" (Printf.sprintf "maxDegree(%d): implementation %s, model %d" nn res m)
          end else if op_s = "V" then begin
            if res = "f" then bump ("verify_false_" ^ impl_s) 1
          end else
          match parse_op op_s with
          | None -> ()
          | Some o ->
            let observed = if res = "?" then None else parse_out o res in
            (* (1) specification referee *)
            let api_bad = ref false in
            (match !am with
             | None -> ()
             | Some m ->
               if res <> "?" then begin
                 match observed with
                 | None ->
                   api_bad := true; am := None;
                   report "api" (Printf.sprintf "%s: implementation returned %s, which no map allows" op_s res)
                 | Some r ->
                   (match o, r with
                    | (Peek | Delete), OEntry (_, k, _) ->
                      (* tie: more than one held entry with an extremal key *)
                      if cap <= model_cap then begin
                        let ties = List.length (List.filter (function Some (k', _) -> int_of_z (cmp k k') = 0 | None -> false) m) in
                        if ties > 1 then bump "extremal_ties" 1
                      end
                    | _ -> ());
                   (match spec_step cmp m o r with
                    | Some m' ->
                      (match o, r with
                       | Insert (i, _, _), OBool false | ChangeKey (i, _), OBool false ->
                         if int_of_z i < 0 || int_of_z i >= cap then bump "rejected_out_of_range" 1 else bump "rejected_in_range" 1
                       | DeleteIndex i, ONoKV | PeekIndex i, ONoKV ->
                         if int_of_z i < 0 || int_of_z i >= cap then bump "rejected_out_of_range" 1 else bump "rejected_in_range" 1
                       | Insert _, OBool true -> bump "insert_ok" 1; incr size
                       | ChangeKey (i, k), OBool true ->
                         (match aget m i with
                          | Some (k0, _) ->
                            let c = int_of_z (cmp k k0) in
                            bump (if c < 0 then "changekey_toward_root" else if c > 0 then "changekey_away_from_root" else "changekey_same") 1
                          | None -> ());
                         if !size >= 3 then incr structural
                       | DeleteIndex _, OKV _ -> bump "deleteindex_ok" 1; if !size >= 3 then incr structural; decr size
                       | Delete, OEntry _ -> bump "delete_ok" 1; decr size
                       | DeleteAll, _ -> size := 0
                       | _ -> ());
                      maxi "max_size" !size;
                      am := Some m'
                    | None ->
                      api_bad := true; am := None;
                      report "api" (Printf.sprintf "%s: implementation returned %s, forbidden by the index map held before this op (size %d)"
                                      op_s res (int_of_z (held_count m))))
               end else begin
                 (* replay without results: nothing to referee *)
                 ()
               end);
            (* (2) exact model *)
            if !api_bad then insync := false;
            if !insync then begin
              match step cmp !st o with
              | Ok (st', r) ->
                st := st';
                let ms = out_to_string r in
                if res <> "?" && ms <> res then begin
                  insync := false;
                  if not !api_bad then
                    report "fidelity"
                      (Printf.sprintf "%s: implementation %s, model %s (both allowed by the specification: tie-breaking/layout differs)" op_s res ms)
                end
              | Panic ->
                insync := false;
                if not !api_bad then report "fidelity" (Printf.sprintf "%s: implementation %s, model PANIC" op_s res)
              | Hang ->
                insync := false;
                if not !api_bad then report "fidelity" (Printf.sprintf "%s: implementation %s, model HANG (fuel)" op_s res)
            end
        ) body;
        let rs = List.rev !reports in
        List.iter (fun (k, m) -> if k = "api" then print_string m) rs;
        List.iter (fun (k, m) -> if k <> "api" then print_string m) rs;
        if !structural >= 2 then Hashtbl.replace nontrivial (Digest.string line) ();
        if !samples < 3 && !structural >= 2 then begin
          incr samples;
          let l = if String.length line > 400 then String.sub line 0 400 ^ " ..." else line in
          Printf.printf "SAMPLE %s\n" l
        end
      end
    done
  with End_of_file -> ());
  Printf.printf "STAT cases=%d\nSTAT ops=%d\nSTAT nontrivial=%d\n" !cases !ops (Hashtbl.length nontrivial);
  Hashtbl.iter (fun k v -> Printf.printf "STAT %s=%d\n" k v) stat_tbl
