(* C19 driver: replays traced cases of lexer/input on the extracted model (exact comparison) and
   on the extracted specification (property-level comparison), and reports differences.

   case line:  n=<N> rd=<decisions>;<default> src=<hex> | NEW -> ok|EOF | N -> r<hex>|EOF|INV@o:l:c
               | R -> - | L -> <hex>@o:l:c | S -> @o:l:c        (also PANIC, HANG, NOINPUT)
   decision:   F | H | <k>   each optionally followed by e (io.EOF together with the last bytes) *)
open Model

let rec pos_of_int n = if n = 1 then XH else if n land 1 = 0 then XO (pos_of_int (n lsr 1)) else XI (pos_of_int (n lsr 1))
let n_of_int n = if n = 0 then N0 else Npos (pos_of_int n)
let rec int_of_pos = function XH -> 1 | XO p -> 2 * int_of_pos p | XI p -> 2 * int_of_pos p + 1
let int_of_n = function N0 -> 0 | Npos p -> int_of_pos p
let int_of_z = function Z0 -> 0 | Zpos p -> int_of_pos p | Zneg p -> - (int_of_pos p)
let rec nat_of_int n = if n <= 0 then O else S (nat_of_int (n - 1))
let rec int_of_nat = function O -> 0 | S k -> 1 + int_of_nat k

let split_on s sep = Str.split_delim (Str.regexp_string sep) s
let trim = String.trim

let bytes_of_hex h =
  let l = String.length h / 2 in
  List.init l (fun k -> int_of_string ("0x" ^ String.sub h (2 * k) 2))
let hex_of_bytes bs = String.concat "" (List.map (fun b -> Printf.sprintf "%02x" b) bs)

let parse_dec s =
  let s = trim s in
  let l = String.length s in
  let e = l > 0 && s.[l - 1] = 'e' in
  let body = if e then String.sub s 0 (l - 1) else s in
  let amt = match body with
    | "F" -> AFull | "H" -> AHalf
    | k -> AK (nat_of_int (int_of_string k)) in
  { d_amt = amt; d_eof = e }

let parse_reader spec src =
  match split_on spec ";" with
  | [ds; d] ->
    let ds = List.filter (fun x -> trim x <> "") (split_on ds ",") in
    { rem = src; decs = List.map parse_dec ds; dflt = parse_dec d }
  | _ -> failwith ("bad reader spec " ^ spec)

let field head key =
  let toks = List.filter (fun x -> x <> "") (split_on head " ") in
  let p = key ^ "=" in
  let lp = String.length p in
  match List.find_opt (fun t -> String.length t >= lp && String.sub t 0 lp = p) toks with
  | Some t -> String.sub t lp (String.length t - lp)
  | None -> failwith ("missing " ^ key)

let pos_s (p : pos) = Printf.sprintf "%d:%d:%d" (int_of_z p.p_off) (int_of_z p.p_line) (int_of_z p.p_col)

(* full rendering of a model result, as the harness prints it *)
let show_out = function
  | VRune c -> Printf.sprintf "r%x" (int_of_n c)
  | VEOF -> "EOF"
  | VInvalid p -> "INV@" ^ pos_s p
  | VUnit -> "-"
  | VLexeme (bs, p) -> hex_of_bytes (List.map int_of_n bs) ^ "@" ^ pos_s p
  | VSkip p -> "@" ^ pos_s p

(* property-level rendering *)
let show_sout = function
  | SRune c -> Printf.sprintf "r%x" (int_of_n c)
  | SEOF -> "EOF"
  | SInvalid -> "INV"
  | SUnit -> "-"
  | SLexeme (bs, l, c) -> Printf.sprintf "%s@%d:%d" (hex_of_bytes (List.map int_of_n bs)) (int_of_z l) (int_of_z c)
  | SSkip (l, c) -> Printf.sprintf "@%d:%d" (int_of_z l) (int_of_z c)

(* projection of a harness result string to the property level: drop the rune offset, and the
   position of an invalid-UTF-8 error *)
let project_res (r : string) =
  if String.length r >= 3 && String.sub r 0 3 = "INV" then "INV"
  else match String.index_opt r '@' with
    | None -> r
    | Some k ->
      let pre = String.sub r 0 k and p = String.sub r (k + 1) (String.length r - k - 1) in
      (match split_on p ":" with
       | [_; l; c] -> pre ^ "@" ^ l ^ ":" ^ c
       | _ -> r)

let () =
  let cases = ref 0 and nops = ref 0 and nontrivial = Hashtbl.create 4096 in
  let stat = Hashtbl.create 64 in
  let bump k = Hashtbl.replace stat k (1 + try Hashtbl.find stat k with Not_found -> 0) in
  let maxs = Hashtbl.create 8 in
  let smax k v = if v > (try Hashtbl.find maxs k with Not_found -> 0) then Hashtbl.replace maxs k v in
  let lineno = ref 0 and samples = ref 0 in
  (try
    while true do
      let line = input_line stdin in
      if String.length line > 0 && line.[0] <> '#' then begin
        incr lineno; incr cases;
        let parts = List.map trim (split_on line "|") in
        let head = List.hd parts and body = List.tl parts in
        let n = int_of_string (field head "n") in
        let rds = field head "rd" in
        let src_i = bytes_of_hex (field head "src") in
        let src = List.map n_of_int src_i in
        let has_nul = List.mem 0 src_i in
        let rd = parse_reader rds src in
        let (runes, tail) = spec_decode src in
        let ss = { sp_runes = runes; sp_bad = (tail <> TClean) } in
        smax "max_n" n; smax "max_source_bytes" (List.length src_i); smax "max_source_runes" (List.length runes);
        bump (Printf.sprintf "cases_n_%s" (if n <= 9 then string_of_int n else "gt9"));
        bump (match rd.decs, rd.dflt with
            | [], { d_amt = AFull; d_eof = false } -> "reader_full"
            | [], { d_amt = AFull; d_eof = true } -> "reader_data_with_eof"
            | [], { d_amt = AK (S O); d_eof = _ } -> "reader_one_byte"
            | [], { d_amt = AHalf; d_eof = _ } -> "reader_half"
            | [], _ -> "reader_fixed_chunk"
            | ds, _ -> if List.exists (fun d -> d.d_amt = AK O) ds then "reader_random_with_stalls" else "reader_random_chunks");
        (match tail with TClean -> () | TInvalid -> bump "sources_ill_formed" | TTrunc -> bump "sources_truncated_tail");
        if has_nul then bump "sources_with_nul";
        if List.exists (fun c -> int_of_n c >= 128) runes then bump "sources_with_multibyte";
        if src_i = [] then bump "sources_empty";
        if n > 0 && src_i <> [] && (List.length src_i) mod n = 0 then bump "sources_len_multiple_of_n";
        (* model *)
        let st : input option ref = ref None in
        let failed = ref None in           (* result every op reports once the instance is unusable *)
        let sst = ref (O, O) in
        let spec_on = ref true in          (* the property still says what the next result must be *)
        let opno = ref 0 in
        let reloads = ref 0 and runes_out = ref 0 and straddle = ref 0 and xretract = ref 0 and eofretract = ref 0 in
        let opsig = Buffer.create 64 in
        let mismatch kind what = Printf.printf "MISMATCH line=%d op=%d kind=%s what=%s\n" !lineno !opno kind what in
        List.iter (fun opres ->
          incr opno; incr nops;
          let op, res = match split_on opres "->" with
            | [a; b] -> (trim a, trim b) | [a] -> (trim a, "?") | _ -> (opres, "?") in
          Buffer.add_string opsig op; Buffer.add_char opsig ';';
          let indomain = !spec_on && not has_nul in
          let model_full, model_proj, spec_proj =
            if op = "NEW" then begin
              let m = match new0 (nat_of_int n) rd with
                | Ok (Some i) -> st := Some i; "ok"
                | Ok None -> failed := Some "NOINPUT"; "EOF"
                | Panic -> failed := Some "PANIC"; "PANIC"
                | Hang -> failed := Some "HANG"; "HANG" in
              (* the property: New succeeds; for the empty source it reports io.EOF at once *)
              let s = if src_i = [] then "EOF" else "ok" in
              if src_i = [] then spec_on := false;
              (m, m, Some s)
            end else
              match !failed, !st with
              | Some f, _ -> (f, f, None)
              | None, None -> ("NOINPUT", "NOINPUT", None)
              | None, Some i ->
                let o = match op with "N" -> ONext | "R" -> ORetract | "L" -> OLexeme | "S" -> OSkip
                                     | _ -> failwith ("unknown op " ^ op) in
                bump ("ops_" ^ (match o with ONext -> "next" | ORetract -> "retract" | OLexeme -> "lexeme" | OSkip -> "skip"));
                let sp =
                  if !spec_on then begin
                    let (sv, sst') = sstep ss !sst o in
                    sst := sst';
                    if int_of_nat (pending ss sst') > n then spec_on := false;
                    if sv = SInvalid then spec_on := false;
                    Some (show_sout sv)
                  end else None in
                (match step i o with
                 | Ok (v, i') ->
                   if i'.secondLoaded <> i.secondLoaded then incr reloads;
                   let fw = int_of_z i.forward and fw' = int_of_z i'.forward in
                   (match o, v with
                    | ONext, VRune c ->
                      incr runes_out;
                      let sz = (match i'.runeSizes with s :: _ -> int_of_z s | [] -> 1) in
                      if sz > 1 && ((fw < n && fw' > n) || (fw' < fw && fw' > 0)) then incr straddle
                    | ORetract, _ ->
                      if i.runeSizes <> [] && ((fw >= n) <> (fw' >= n) || (fw' > fw)) then incr xretract;
                      if i.err && i.runeSizes <> [] then incr eofretract
                    | _ -> ());
                   st := Some i';
                   (show_out v, show_sout (proj v), sp)
                 | Panic -> failed := Some "PANIC"; ("PANIC", "PANIC", sp)
                 | Hang -> failed := Some "HANG"; ("HANG", "HANG", sp))
          in
          if res <> "?" then begin
            let rp = project_res res in
            if rp <> model_proj then
              mismatch (if indomain then "api" else "fidelity")
                (Printf.sprintf "%s: implementation %s, proved model %s" op res model_full)
            else if res <> model_full then
              mismatch "fidelity" (Printf.sprintf "%s: implementation %s, model %s (rune offset / error position only)" op res model_full);
            (match spec_proj with
             | Some s when s <> rp ->
               mismatch "api" (Printf.sprintf "[spec] %s: implementation %s, the property requires %s" op res s)
             | _ -> ())
          end
        ) body;
        smax "max_reloads_in_a_case" !reloads;
        if !reloads > 0 then bump "cases_with_reload";
        if !straddle > 0 then bump "cases_with_rune_straddling_a_half_boundary";
        if !xretract > 0 then bump "cases_with_retract_across_a_half_boundary";
        if !eofretract > 0 then bump "cases_with_retract_at_end_of_input";
        if !spec_on && not has_nul then bump "cases_within_property_domain_to_the_end";
        let nt = !reloads > 0 && !runes_out > 0 in
        if nt then Hashtbl.replace nontrivial (head ^ "|" ^ Buffer.contents opsig) ();
        if nt && !samples < 3 && (!straddle > 0 || !xretract > 0) then begin
          incr samples;
          let l = if String.length line > 400 then String.sub line 0 400 ^ " ..." else line in
          Printf.printf "SAMPLE %s\n" l
        end
      end
    done
  with End_of_file -> ());
  Printf.printf "STAT cases=%d\nSTAT ops=%d\nSTAT nontrivial=%d\n" !cases !nops (Hashtbl.length nontrivial);
  Hashtbl.iter (fun k v -> Printf.printf "STAT %s=%d\n" k v) stat;
  Hashtbl.iter (fun k v -> Printf.printf "STAT %s=%d\n" k v) maxs
