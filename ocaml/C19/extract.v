(* Extraction of the C19 model and of the executable specification.
   ExtrOcamlBasic only: nat, N, Z, positive stay Coq datatypes. *)
Require Extraction.
Require Import ExtrOcamlBasic.
From Algo.C19 Require Import Model Spec.
Extraction Language OCaml.
Extraction "model.ml" new step dec spec_dec spec_decode sstep pending proj mkReader mkDec.
