(* Extraction of the C19 model and of the executable specification.
   ExtrOcamlBasic only: nat, N, Z, positive stay Coq datatypes.
   vlib reads the logical names below to find the .v files this extraction depends on, so that
   the driver is rebuilt when the model, the specification or the regenerated tables change:
   Algo.C19.Model  Algo.C19.Spec  Algo.Gen.C19_Tables  *)
Require Extraction.
Require Import ExtrOcamlBasic.
From Algo.C19 Require Import Model Spec.
Extraction Language OCaml.
Extraction "model.ml" new step dec spec_dec spec_decode sstep pending proj mkReader mkDec.
