(* Extraction of the C01/C15 model (ordered symbol tables).  ExtrOcamlBasic only: nat, Z, positive stay Coq datatypes. *)
Require Extraction.
Require Import ExtrOcamlBasic.
From Algo.C01 Require Import Model.
Extraction Language OCaml.
Extraction "model.ml" step run build SelectMatch PartitionMatch Height trav_list inorder first_match
  shape_from_traversals shape_height shape_balanced shape_of
  avl_check rb_check rb_colors_ok black_height sizes_check rb_height_bound
  cmp_asc cmp_desc cmp_diff cmp_rdiff cmp_diff3 cmp_half size height nodes.
