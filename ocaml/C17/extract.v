(* Extraction of the C17 model.  ExtrOcamlBasic only: nat, Z, positive stay Coq datatypes. *)
Require Extraction.
Require Import ExtrOcamlBasic.
From Algo.C17 Require Import Model.
Extraction Language OCaml.
Extraction "model.ml" new union find connected count len nthZ.
