(* C17 driver: replays traced union-find cases on the extracted model and reports differences. *)
open Model

let rec pos_of_int n = if n = 1 then XH else if n land 1 = 0 then XO (pos_of_int (n lsr 1)) else XI (pos_of_int (n lsr 1))
let z_of_int n = if n = 0 then Z0 else if n > 0 then Zpos (pos_of_int n) else Zneg (pos_of_int (-n))
let rec int_of_pos = function XH -> 1 | XO p -> 2 * int_of_pos p | XI p -> 2 * int_of_pos p + 1
let int_of_z = function Z0 -> 0 | Zpos p -> int_of_pos p | Zneg p -> - (int_of_pos p)
let rec nat_of_int n = if n <= 0 then O else S (nat_of_int (n - 1))

let split_on s sep = Str.split (Str.regexp_string sep) s
let trim = String.trim

let () =
  let cases = ref 0 and ops = ref 0 and nontrivial = Hashtbl.create 1024 in
  let by_impl = Hashtbl.create 3 and maxn = ref 0 and eff_unions = ref 0 and invalid_args = ref 0 in
  let lineno = ref 0 and samples = ref 0 in
  (try
    while true do
      let line = input_line stdin in
      if String.length line > 0 && line.[0] <> '#' then begin
        incr lineno; incr cases;
        let parts = List.map trim (split_on line "|") in
        let head = List.hd parts and body = List.tl parts in
        let impl_s, n = Scanf.sscanf head "%s %d" (fun a b -> (a, b)) in
        let impl = match impl_s with "QF" -> QF | "QU" -> QU | _ -> WQU in
        Hashtbl.replace by_impl impl_s (1 + try Hashtbl.find by_impl impl_s with Not_found -> 0);
        if n > !maxn then maxn := n;
        let st = ref (new0 impl (nat_of_int n)) in
        let effective = ref 0 in
        let opno = ref 0 in
        let opsig = Buffer.create 64 in
        let i2m = Hashtbl.create 16 and m2i = Hashtbl.create 16 in
        List.iter (fun opres ->
          incr opno; incr ops;
          let op, res = match split_on opres "->" with
            | [a; b] -> (trim a, trim b) | [a] -> (trim a, "?") | _ -> (opres, "?") in
          let toks = Array.of_list (split_on op " ") in
          let arg i = int_of_string toks.(i) in
          let expect =
            match toks.(0) with
            | "U" ->
              let c0 = int_of_z (count !st) in
              if arg 1 < 0 || arg 1 >= n || arg 2 < 0 || arg 2 >= n then incr invalid_args;
              st := union !st (z_of_int (arg 1)) (z_of_int (arg 2));
              if int_of_z (count !st) <> c0 then (incr effective; incr eff_unions);
              Buffer.add_string opsig op; Buffer.add_char opsig ';';
              Hashtbl.reset i2m; Hashtbl.reset m2i;
              "-"
            | "F" ->
              let m = (match find !st (z_of_int (arg 1)) with
                      | Found r -> Printf.sprintf "%d,t" (int_of_z r)
                      | NotFound -> "-1,f"
                      | Hang -> "HANG") in
              (* property level: the representatives must induce the same partition (a bijection
                 between implementation and model representatives within one state) and the same
                 found flag; the identity of the representative is a fidelity observable *)
              if res <> "?" && res <> m then begin
                let flag x = String.sub x (String.length x - 1) 1 in
                let api = flag res <> flag m
                  || (match Hashtbl.find_opt i2m res with Some x -> x <> m | None -> false)
                  || (match Hashtbl.find_opt m2i m with Some x -> x <> res | None -> false) in
                if api then
                  Printf.printf "MISMATCH line=%d op=%d kind=api what=%s %s: implementation %s, proved model %s (partition differs)\n"
                    !lineno !opno impl_s op res m
                else
                  Printf.printf "MISMATCH line=%d op=%d kind=fidelity what=%s %s: implementation %s, model %s (same partition so far, different representative)\n"
                    !lineno !opno impl_s op res m
              end;
              Hashtbl.replace i2m res m; Hashtbl.replace m2i m res;
              res
            | "C" -> if connected !st (z_of_int (arg 1)) (z_of_int (arg 2)) then "t" else "f"
            | "N" -> string_of_int (int_of_z (count !st))
            | _ -> "?" in
          if res <> "?" && res <> expect then
            Printf.printf "MISMATCH line=%d op=%d kind=api what=%s %s: implementation %s, proved model %s\n"
              !lineno !opno impl_s op res expect
        ) body;
        if !effective >= 2 then Hashtbl.replace nontrivial (impl_s ^ string_of_int n ^ Buffer.contents opsig) ();
        if !samples < 3 && !effective >= 2 then begin
          incr samples;
          let l = if String.length line > 400 then String.sub line 0 400 ^ " ..." else line in
          Printf.printf "SAMPLE %s\n" l
        end
      end
    done
  with End_of_file -> ());
  Printf.printf "STAT cases=%d\nSTAT ops=%d\nSTAT nontrivial=%d\nSTAT max_n=%d\nSTAT effective_unions=%d\nSTAT unions_with_invalid_argument=%d\n"
    !cases !ops (Hashtbl.length nontrivial) !maxn !eff_unions !invalid_args;
  Hashtbl.iter (fun k v -> Printf.printf "STAT cases_%s=%d\n" k v) by_impl
