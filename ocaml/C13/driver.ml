(* C13 driver: replays traced automata cases on the extracted model.

   case line:   <N|D> <W6|WL> <aut> <aut> ... | <op> -> <result> | ...
   automaton:   <start>/<f1,f2,..>/<s:a:t1.t2,..>      (DFA: one target per s:a)
   results:     space separated k=v fields, or PANIC / HANG.
     o=<hex>,<hex>..   Accept vectors of the operand automata (Go side, original objects)
     r=<aut>           canonical dump of the result automaton
     bits=<hex>        Accept vector of the result automaton (Go side)
     n=<int>           number of states of the result (min)
     fm=..;..  fmbits=<hex>,..   CombineDFA final map and, per operand, the vector
                       "state reached on w is in finalMap[i]"
   api   : Accept vectors against the language equation / the proved model's Accept;
           Isomorphic on a renamed copy; Minimize state count against Myhill-Nerode; PANIC/HANG.
   fidelity : structure of the result against the model's result, Isomorphic on arbitrary pairs. *)
open Model

let rec pos_of_int n = if n = 1 then XH else if n land 1 = 0 then XO (pos_of_int (n lsr 1)) else XI (pos_of_int (n lsr 1))
let z_of_int n = if n = 0 then Z0 else if n > 0 then Zpos (pos_of_int n) else Zneg (pos_of_int (-n))
let rec int_of_pos = function XH -> 1 | XO p -> 2 * int_of_pos p | XI p -> 2 * int_of_pos p + 1
let int_of_z = function Z0 -> 0 | Zpos p -> int_of_pos p | Zneg p -> - (int_of_pos p)
let rec int_of_nat = function O -> 0 | S n -> 1 + int_of_nat n

let split c s = String.split_on_char c s
let ios s = int_of_string (String.trim s)
let split_str s sep = Str.split_delim (Str.regexp_string sep) s

(* ---------------------------------------------------------------- word sets *)
let words_w6 =
  let rec gen k = if k = 0 then [[]] else
      let prev = gen (k - 1) in
      List.concat_map (fun a -> List.map (fun w -> a :: w) prev) [97; 98] in
  List.concat_map gen [0; 1; 2; 3; 4; 5; 6]
let words_wl =
  words_w6 @ List.init 74 (fun i -> List.init (i + 7) (fun _ -> 97))

type wset = { words : int list array; idx : (int list, int) Hashtbl.t; zwords : z list array }
let mk_wset ws =
  let a = Array.of_list ws in
  let h = Hashtbl.create 512 in
  Array.iteri (fun i w -> Hashtbl.replace h w i) a;
  { words = a; idx = h; zwords = Array.map (List.map z_of_int) a }
let w6 = mk_wset words_w6
let wl = mk_wset words_wl

let hex_of_bits (b : bool array) =
  let n = (Array.length b + 3) / 4 in
  String.init n (fun d ->
      let v = ref 0 in
      for k = 0 to 3 do
        let i = 4 * d + k in
        v := !v * 2 + (if i < Array.length b && b.(i) then 1 else 0)
      done;
      "0123456789abcdef".[!v])
let bits_of_hex n s =
  Array.init n (fun i ->
      let d = i / 4 in
      if d >= String.length s then false else
        let c = s.[d] in
        let v = if c >= '0' && c <= '9' then Char.code c - 48 else Char.code c - 87 in
        (v lsr (3 - i mod 4)) land 1 = 1)

(* ---------------------------------------------------------------- language equations on vectors *)
let rec take k l = if k = 0 then [] else match l with [] -> [] | x :: r -> x :: take (k - 1) r
let rec drop k l = if k = 0 then l else match l with [] -> [] | _ :: r -> drop (k - 1) r

let v_union vs n = Array.init n (fun i -> List.exists (fun v -> v.(i)) vs)
let v_concat2 ws a b =
  Array.mapi (fun _ w ->
      let len = List.length w in
      let ok = ref false in
      for k = 0 to len do
        if not !ok then begin
          let u = take k w and v = drop k w in
          if a.(Hashtbl.find ws.idx u) && b.(Hashtbl.find ws.idx v) then ok := true
        end
      done; !ok) ws.words
let v_concat ws = function
  | [] -> Array.make (Array.length ws.words) false
  | v :: r -> List.fold_left (v_concat2 ws) v r
let v_star ws a =
  let n = Array.length ws.words in
  let s = Array.make n false in
  (* words are listed by non-decreasing length, so every proper suffix is already decided *)
  for i = 0 to n - 1 do
    let w = ws.words.(i) in
    let len = List.length w in
    if len = 0 then s.(i) <- true
    else
      for k = 1 to len do
        if not s.(i) then
          if a.(Hashtbl.find ws.idx (take k w)) && s.(Hashtbl.find ws.idx (drop k w)) then s.(i) <- true
      done
  done; s

(* ---------------------------------------------------------------- automata *)
type paut = { st : int; fin : int list; adds : (int * int * int list) list }

let probes = ref 0
let parse_aut s =
  match split '/' s with
  | [a; b; c] ->
    { st = ios a;
      fin = (if b = "" then [] else List.map ios (split ',' b));
      (* "Q<mask>" entries are queries the harness interleaves with the construction; the model is
         pure (a query cannot change a later answer), so they are skipped here *)
      adds = (if c = "" then [] else
                List.filter_map (fun t ->
                    if String.length t > 0 && t.[0] = 'Q' then (incr probes; None) else
                    match split ':' t with
                    | [s; a; ts] -> Some (ios s, ios a, if ts = "" then [] else List.map ios (split '.' ts))
                    | _ -> failwith ("bad transition " ^ t)) (split ',' c)) }
  | _ -> failwith ("bad automaton " ^ s)

let zl = List.map z_of_int
let nfa_of p = nbuild (z_of_int p.st) (zl p.fin) (List.map (fun (s, a, ts) -> ((z_of_int s, z_of_int a), zl ts)) p.adds)
let dfa_of p = dbuild (z_of_int p.st) (zl p.fin)
    (List.map (fun (s, a, ts) -> ((z_of_int s, z_of_int a), z_of_int (match ts with t :: _ -> t | [] -> -1))) p.adds)

let ints l = String.concat "," (List.map (fun x -> string_of_int (int_of_z x)) l)
let dump_nfa (n : nfa) =
  Printf.sprintf "%d/%s/%s" (int_of_z n.nstart) (ints n.nfinal)
    (String.concat "," (List.concat_map (fun (s, row) ->
         List.map (fun (a, ts) -> Printf.sprintf "%d:%d:%s" (int_of_z s) (int_of_z a)
                      (String.concat "." (List.map (fun x -> string_of_int (int_of_z x)) ts))) row) n.ntrans))
let dump_dfa (d : dfa) =
  Printf.sprintf "%d/%s/%s" (int_of_z d.dstart) (ints d.dfinal)
    (String.concat "," (List.concat_map (fun (s, row) ->
         List.map (fun (a, t) -> Printf.sprintf "%d:%d:%d" (int_of_z s) (int_of_z a) (int_of_z t)) row) d.dtrans))

exception Model_hang
let ok = function Ok a -> a | Hang -> raise Model_hang

let nvec ws n = Array.map (fun w -> ok (naccept n w)) ws.zwords
let dvec ws d = Array.map (fun w -> daccept d w) ws.zwords

(* D13a signature: an operand whose start state is accepting, or an operand (not the first)
   with a transition into its start state placed after an operand with a transition out of a
   final state. *)
let start_accepting p = List.mem p.st p.fin
let into_start p = List.exists (fun (_, _, ts) -> List.mem p.st ts) p.adds
let out_of_final p = List.exists (fun (s, _, ts) -> List.mem s p.fin && ts <> []) p.adds
let d13a_sig (ps : paut list) =
  List.exists start_accepting ps ||
  (let rec go = function
      | a :: (b :: _ as r) -> (out_of_final a && into_start b) || go r
      | _ -> false in go ps)

(* ---------------------------------------------------------------- main loop *)
let stats : (string, int) Hashtbl.t = Hashtbl.create 64
let bump k = Hashtbl.replace stats k (1 + try Hashtbl.find stats k with Not_found -> 0)
let maxstat k v = if v > (try Hashtbl.find stats k with Not_found -> 0) then Hashtbl.replace stats k v

let () =
  let cases = ref 0 and nops = ref 0 and nontrivial = Hashtbl.create 4096 in
  let lineno = ref 0 and samples = ref 0 and known_printed = ref 0 in
  let fidbuf = Buffer.create 1024 and nfid = ref 0 in
  (try
     while true do
       let line = input_line stdin in
       if String.length line > 0 && line.[0] <> '#' then begin
         incr lineno; incr cases;
         let parts = List.map String.trim (split '|' line) in
         let head = List.hd parts and body = List.tl parts in
         let opno = ref 0 in
         (* api mismatches are printed at once; fidelity ones after them, at the end of the run,
            so that a property-level failure is never crowded out by structural differences *)
         let mism kind fmt = Printf.ksprintf (fun s ->
             if kind = "api" then Printf.printf "MISMATCH line=%d op=%d kind=%s what=%s\n" !lineno !opno kind s
             else begin
               incr nfid;
               if !nfid <= 25 then Buffer.add_string fidbuf (Printf.sprintf "MISMATCH line=%d op=%d kind=%s what=%s\n" !lineno !opno kind s)
             end) fmt in
         (try
            let htoks = List.filter (fun s -> s <> "") (split ' ' head) in
            let kind, wsname, auts = match htoks with k :: w :: r -> (k, w, r) | _ -> failwith "bad header" in
            let ws = if wsname = "WL" then wl else w6 in
            let nw = Array.length ws.words in
            let ps = Array.of_list (List.map parse_aut auts) in
            let isN = (kind = "N") in
            let nfas = Array.map (fun p -> lazy (nfa_of p)) ps in
            let dfas = Array.map (fun p -> lazy (dfa_of p)) ps in
            let mvec = Array.mapi (fun i _ -> lazy (if isN then nvec ws (Lazy.force nfas.(i)) else dvec ws (Lazy.force dfas.(i)))) ps in
            let interesting = ref false in
            Array.iteri (fun i p ->
                let nst = if isN then List.length (nstates (Lazy.force nfas.(i))) else List.length (dstates (Lazy.force dfas.(i))) in
                maxstat "max_states" nst;
                if List.exists (fun (_, a, _) -> a = 0) p.adds then bump "operands_with_epsilon";
                if start_accepting p then bump "operands_start_accepting";
                if into_start p then bump "operands_transition_into_start";
                if p.st <> 0 || List.exists (fun (s, _, ts) -> s < 0 || s >= nst || List.exists (fun t -> t < 0 || t >= nst) ts) p.adds
                then bump "operands_sparse_or_nonzero_ids";
                if nst >= 2 && p.adds <> [] then begin
                  let v = Lazy.force mvec.(i) in
                  if Array.exists (fun b -> b) v && Array.exists (fun b -> not b) v then interesting := true
                end) ps;
            let opsig = Buffer.create 64 in
            List.iter (fun opres ->
                incr opno; incr nops;
                let op, res = match split_str opres "->" with
                  | [a; b] -> (String.trim a, String.trim b)
                  | [a] -> (String.trim a, "?")
                  | _ -> (opres, "?") in
                let toks = List.filter (fun s -> s <> "") (split ' ' op) in
                let name = List.hd toks and args = List.tl toks in
                Buffer.add_string opsig name; Buffer.add_char opsig ';';
                bump ("op_" ^ name);
                if res = "?" then ()
                else if String.length res >= 4 && (String.sub res 0 4 = "HANG" || (String.length res >= 5 && String.sub res 0 5 = "PANIC")) then
                  mism "api" "%s: implementation %s (the proved model returns a value)" op res
                else begin
                  let fields = List.filter_map (fun kv ->
                      match String.index_opt kv '=' with
                      | Some i -> Some (String.sub kv 0 i, String.sub kv (i + 1) (String.length kv - i - 1))
                      | None -> if kv = "" then None else Some (kv, "")) (split ' ' res) in
                  let fld k = try Some (List.assoc k fields) with Not_found -> None in
                  let vec_of_hex h = bits_of_hex nw h in
                  let idxs = List.map ios (match name with "isoren" -> [List.hd args] | "alias" -> List.tl args | _ -> args) in
                  (* operand vectors as observed on the Go side, checked against the model's Accept *)
                  let ovecs () =
                    match fld "o" with
                    | None -> []
                    | Some s ->
                      let hs = split ',' s in
                      List.mapi (fun k h ->
                          let v = vec_of_hex h in
                          let i = List.nth idxs k in
                          let m = Lazy.force mvec.(i) in
                          if hex_of_bits m <> hex_of_bits v then begin
                            let w = ref (-1) in
                            Array.iteri (fun j b -> if !w < 0 && b <> m.(j) then w := j) v;
                            mism "api" "%s: Accept of operand %d on word #%d (%s): implementation %b, proved model %b"
                              op i !w (String.concat "" (List.map (fun c -> String.make 1 (Char.chr c)) ws.words.(!w))) v.(!w) m.(!w)
                          end; v) hs in
                  let check_bits what expected =
                    match fld "bits" with
                    | None -> ()
                    | Some h ->
                      let v = vec_of_hex h in
                      if hex_of_bits v <> hex_of_bits expected then begin
                        let w = ref (-1) in
                        Array.iteri (fun j b -> if !w < 0 && b <> expected.(j) then w := j) v;
                        let sigs = if name = "concat" && d13a_sig (List.map (fun i -> ps.(i)) idxs) then " [sig:d13a-concat-start-final-merge]" else "" in
                        if sigs <> "" then bump "known_d13a_concat_mismatches";
                        if sigs = "" || !known_printed < 1 || !cases <= 4 then begin
                          if sigs <> "" then incr known_printed;
                          mism "api" "%s: result accepts word #%d (%s) = %b but %s of the operands' languages says %b%s"
                            op !w (String.concat "" (List.map (fun c -> String.make 1 (Char.chr c)) ws.words.(!w))) v.(!w) what expected.(!w) sigs
                        end
                      end in
                  let check_struct model_dump =
                    match fld "r" with
                    | None -> ()
                    | Some r -> if r <> model_dump then mism "fidelity" "%s: result structure: implementation %s, model %s" op r model_dump in
                  let first () = List.hd idxs in
                  (match name, isN with
                   | "acc", _ ->
                     (match fld "bits" with
                      | Some h ->
                        let v = vec_of_hex h and m = Lazy.force mvec.(first ()) in
                        if hex_of_bits v <> hex_of_bits m then begin
                          let w = ref (-1) in
                          Array.iteri (fun j b -> if !w < 0 && b <> m.(j) then w := j) v;
                          mism "api" "%s: Accept on word #%d: implementation %b, proved model %b" op !w v.(!w) m.(!w)
                        end
                      | None -> ())
                   | "clone", true ->
                     let o = ovecs () in check_bits "identity" (List.hd o);
                     check_struct (dump_nfa (nclone (Lazy.force nfas.(first ()))))
                   | "clone", false ->
                     let o = ovecs () in check_bits "identity" (List.hd o);
                     check_struct (dump_dfa (dclone (Lazy.force dfas.(first ()))))
                   | "todfa", true ->
                     let o = ovecs () in check_bits "identity" (List.hd o);
                     check_struct (dump_dfa (ok (todfa (Lazy.force nfas.(first ())))))
                   | "star", true ->
                     let o = ovecs () in check_bits "Kleene star" (v_star ws (List.hd o));
                     check_struct (dump_nfa (nstar (Lazy.force nfas.(first ()))))
                   | "union", true ->
                     let o = ovecs () in check_bits "union" (v_union o nw);
                     check_struct (dump_nfa (nunion (List.map (fun i -> Lazy.force nfas.(i)) idxs)))
                   | "concat", true ->
                     let o = ovecs () in check_bits "concatenation" (v_concat ws o);
                     check_struct (dump_nfa (nconcat (List.map (fun i -> Lazy.force nfas.(i)) idxs)))
                   | "tonfa", false ->
                     let o = ovecs () in check_bits "identity" (List.hd o);
                     check_struct (dump_nfa (tonfa (Lazy.force dfas.(first ()))))
                   | "elim", false ->
                     let o = ovecs () in check_bits "identity" (List.hd o);
                     check_struct (dump_dfa (ok (elim_dead (Lazy.force dfas.(first ())))))
                   | "reindex", false ->
                     let o = ovecs () in check_bits "identity" (List.hd o);
                     check_struct (dump_dfa (ok (reindex (Lazy.force dfas.(first ())))))
                   | "min", false ->
                     let o = ovecs () in check_bits "identity" (List.hd o);
                     let d = Lazy.force dfas.(first ()) in
                     let m = ok (minimize d) in
                     check_struct (dump_dfa m);
                     (match fld "n" with
                      | Some ns ->
                        let n = ios ns in
                        let mcount = List.length (dstates m) in
                        if n <> mcount then mism "fidelity" "%s: state count: implementation %d, model %d" op n mcount;
                        let nst = List.length (dstates d) and nsy = List.length (dsymbols d) in
                        if dtrim d && (nst <= 9 || nsy <= 1) then begin
                          bump "min_checked_against_myhill_nerode";
                          let mn = int_of_nat (mn_count d) in
                          if n <> mn then
                            mism "api" "%s: input has no unreachable/dead state; Minimize has %d states, Myhill-Nerode count is %d" op n mn
                        end
                      | None -> ())
                   | "combine", false ->
                     let o = ovecs () in check_bits "union" (v_union o nw);
                     let (md, mfm) = ok (combine_dfa (List.map (fun i -> Lazy.force dfas.(i)) idxs)) in
                     check_struct (dump_dfa md);
                     (match fld "fmbits" with
                      | Some s ->
                        List.iteri (fun k h ->
                            if k < List.length o then begin
                              let v = vec_of_hex h and e = List.nth o k in
                              if hex_of_bits v <> hex_of_bits e then begin
                                let w = ref (-1) in
                                Array.iteri (fun j b -> if !w < 0 && b <> e.(j) then w := j) v;
                                mism "api" "%s: final map of operand %d: on word #%d the combined DFA is %sin finalMap[%d] but the operand's Accept is %b"
                                  op k !w (if v.(!w) then "" else "not ") k e.(!w)
                              end
                            end) (split ',' s)
                      | None -> ());
                     (match fld "fm" with
                      | Some s ->
                        let mine = String.concat ";" (List.map (fun l -> String.concat "." (List.map (fun x -> string_of_int (int_of_z x)) l)) mfm) in
                        if s <> mine then mism "fidelity" "%s: final map: implementation %s, model %s" op s mine
                      | None -> ())
                   | "alias", _ ->
                     (* independence: extending the result must not move an operand and vice versa;
                        model values are immutable, so the expected answer is always "ok" *)
                     bump "independence_probes";
                     (match fld "a" with
                      | Some "ok" | None -> ()
                      | Some v -> mism "api" "%s: %s (Accept vector or structure of the other automaton changed: the result shares state with its operand)" op v)
                   | "iso", _ ->
                     let i = List.nth idxs 0 and j = List.nth idxs 1 in
                     let m = if isN then nisomorphic (Lazy.force nfas.(i)) (Lazy.force nfas.(j))
                       else disomorphic (Lazy.force dfas.(i)) (Lazy.force dfas.(j)) in
                     let r = (res = "t") in
                     if r <> m then mism "fidelity" "%s: Isomorphic: implementation %b, model %b" op r m
                   | "isoren", _ ->
                     (* isoren i m0,m1,..: the copy of operand i with its k-th state (sorted) renamed to mk *)
                     bump "iso_renamed_copy_checks";
                     if res <> "t" then mism "api" "%s: Isomorphic(A, renamed copy of A) = %s; it must be true for an injective renaming" op res
                     else begin
                       let i = first () in
                       let img = List.map ios (split ',' (List.nth args 1)) in
                       let sts = List.map int_of_z (if isN then nstates (Lazy.force nfas.(i)) else dstates (Lazy.force dfas.(i))) in
                       let f x = try List.assoc x (List.combine sts img) with _ -> x in
                       let p = ps.(i) in
                       let p' = { st = f p.st; fin = List.map f p.fin; adds = List.map (fun (s, a, ts) -> (f s, a, List.map f ts)) p.adds } in
                       let m = if isN then nisomorphic (Lazy.force nfas.(i)) (nfa_of p') else disomorphic (Lazy.force dfas.(i)) (dfa_of p') in
                       if not m then mism "fidelity" "%s: model Isomorphic on the renamed copy is false" op
                     end
                   | _ -> mism "fidelity" "unknown op %s for kind %s" op kind)
                end) body;
            if !interesting then Hashtbl.replace nontrivial (head ^ "#" ^ Buffer.contents opsig) ();
            if !samples < 3 && !interesting then begin
              incr samples;
              let l = if String.length line > 300 then String.sub line 0 300 ^ " ..." else line in
              Printf.printf "SAMPLE %s\n" l
            end
          with
          | Model_hang -> mism "fidelity" "model ran out of fuel (Hang)"
          | Failure m -> mism "fidelity" "driver could not interpret the case: %s" m
          | Not_found -> mism "fidelity" "driver could not interpret the case (word or field not found)"
          | Invalid_argument m -> mism "fidelity" "driver could not interpret the case: %s" m)
       end
     done
   with End_of_file -> ());
  print_string (Buffer.contents fidbuf);
  Printf.printf "STAT cases=%d\nSTAT ops=%d\nSTAT nontrivial=%d\nSTAT fidelity_mismatches=%d\n" !cases !nops (Hashtbl.length nontrivial) !nfid;
  Printf.printf "STAT interleaved_probes=%d\n" !probes;
  Hashtbl.iter (fun k v -> Printf.printf "STAT %s=%d\n" k v) stats
