(* Extraction of the C13 model.  ExtrOcamlBasic only: nat, Z, positive stay Coq datatypes. *)
Require Extraction.
Require Import ExtrOcamlBasic.
From Algo.C13 Require Import Model.
Extraction Language OCaml.
Extraction "model.ml" nbuild dbuild naccept daccept nclone dclone tonfa todfa nstar nunion nconcat
  minimize elim_dead reindex combine_dfa nisomorphic disomorphic nstates dstates nsymbols dsymbols
  mn_count dtrim nnext_l.
