(* Extraction of the C16 model.  ExtrOcamlBasic only: nat, Z, positive stay Coq datatypes. *)
Require Extraction.
Require Import ExtrOcamlBasic.
From Algo.C16 Require Import Model.
Extraction Language OCaml.
Extraction "model.ml"
  h_new h_add h_remove h_removeAll h_contains h_size h_isEmpty h_all h_members h_kind h_equal
  h_clone h_cloneEmpty h_isSubset h_isSuperset h_union h_intersection h_difference
  h_anyMatch h_allMatch h_firstMatch h_selectMatch h_partitionMatch shared_arrays empty_heap
  powerset partitions vall bell cmpZ cmpZrev cmpZmag cmpZmag3 cmpZrmag cmpsZ set_eq grow_double draw_id.
