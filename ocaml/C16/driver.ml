(* C16 driver: replays traced set cases on the extracted model (heap layer for the set objects,
   value layer for Powerset/Partitions) and reports differences.

   api observables: membership/size/equality/subset answers, the denotation (set of members) of
   every live object after every call, the exact order of sorted sets and of stable sets whose
   insertion order is fixed by the history, absence of shared backing arrays, and for
   Powerset/Partitions: count (2^n / Bell n), pairwise distinctness, each member a subset /
   a partition, and the family equal to the model's.
   fidelity observables (det mode only): slot order of the unordered set, String(), which match
   FirstMatch returns, the exact nesting order of Powerset/Partitions, the order of stable sets
   whose insertion order went through an unordered iteration. *)
open Model

let rec pos_of_int n = if n = 1 then XH else if n land 1 = 0 then XO (pos_of_int (n lsr 1)) else XI (pos_of_int (n lsr 1))
let z_of_int n = if n = 0 then Z0 else if n > 0 then Zpos (pos_of_int n) else Zneg (pos_of_int (-n))
let rec int_of_pos = function XH -> 1 | XO p -> 2 * int_of_pos p | XI p -> 2 * int_of_pos p + 1
let int_of_z = function Z0 -> 0 | Zpos p -> int_of_pos p | Zneg p -> - (int_of_pos p)
let rec nat_of_int n = if n <= 0 then O else S (nat_of_int (n - 1))
let rec int_of_nat = function O -> 0 | S n -> 1 + int_of_nat n

let split_on s sep = Str.split_delim (Str.regexp_string sep) s
let trim = String.trim

let zero = Z0
let eqb = Z.eqb
let grow = grow_double
let draw = draw_id

exception Model_fail of string
let ok = function
  | Ok x -> x
  | Panic IndexOutOfRange -> raise (Model_fail "PANIC(index)")
  | Panic SliceBounds -> raise (Model_fail "PANIC(slice)")
  | Panic BadRef -> raise (Model_fail "PANIC(badref)")
  | Hang -> raise (Model_fail "HANG")

let show_list xs = if xs = [] then "e" else String.concat "," (List.map string_of_int xs)
let parse_list s = if s = "e" || s = "" then [] else List.map int_of_string (split_on s ",")
let ints zs = List.map int_of_z zs
let b2s b = if b then "t" else "f"

let pred tok : z -> bool =
  if String.length tok >= 2 && String.sub tok 0 2 = "lt" then
    let c = int_of_string (String.sub tok 2 (String.length tok - 2)) in
    (fun x -> int_of_z x < c)
  else
    let m = Int64.of_string (String.sub tok 1 (String.length tok - 1)) in
    (fun x -> let x = int_of_z x in
      x >= 0 && x < 62 && Int64.logand m (Int64.shift_left 1L x) <> 0L)

let rec pow2 n = if n = 0 then 1 else 2 * pow2 (n - 1)

let () =
  let cases = ref 0 and nops = ref 0 and nontrivial = Hashtbl.create 4096 in
  let lineno = ref 0 and samples = ref 0 in
  let st_inplace = ref 0 and st_grow = ref 0 and st_shift = ref 0 and st_algebra = ref 0 in
  let st_pow = ref 0 and st_parts = ref 0 and st_maxsize = ref 0 and st_maxpow = ref 0 and st_maxparts = ref 0 in
  let st_free = ref 0 and st_rev = ref 0 and st_mag = ref 0 and st_mixed = ref 0 and st_sos = ref 0 and st_alias_checks = ref 0 and st_snap_objs = ref 0 in
  let by_kind = Hashtbl.create 3 in
  let opmix = Hashtbl.create 32 in
  (try
    while true do
      let line = input_line stdin in
      if String.length line > 0 && line.[0] <> '#' then begin
        incr lineno; incr cases;
        let parts = List.map trim (split_on line "|") in
        let head = List.hd parts and body = List.filter (fun s -> s <> "") (List.tl parts) in
        let det, dir = (match split_on head " " with
          | m :: d :: _ -> (m = "det", d) | _ -> (true, "asc")) in
        let rev = (dir = "rev" || dir = "rmag") in
        if dir = "mag" || dir = "mag3" || dir = "rmag" then incr st_mag;
        if not det then incr st_free;
        if rev then incr st_rev;
        (* comparators of the sorted sets, by index (each sorted set carries its own; [new o] takes the
           header's, [new o:<dir>] an explicit one); the model only ever looks at the sign of a result *)
        let dir_index d = (match d with "rev" -> 1 | "mag" -> 2 | "mag3" -> 3 | "rmag" -> 4 | _ -> 0) in
        let cmp = cmpsZ in
        let is_sorted k = (match k with Sorted _ -> true | _ -> false) in
        let cmp_of k = (match k with Sorted c -> cmpsZ c | _ -> cmpZ) in
        let h = ref (empty_heap : z heap) in
        let tainted : (int, bool) Hashtbl.t = Hashtbl.create 16 in
        let nobj = ref 0 in
        let opno = ref 0 in
        let opsig = Buffer.create 256 in
        let c_shift = ref 0 and c_inplace = ref 0 and c_algebra = ref 0 and c_power = ref 0 in
        let mism kind what =
          Printf.printf "MISMATCH line=%d op=%d kind=%s what=%s\n" !lineno !opno kind what in
        let kind_of r = ok (h_kind !h (nat_of_int r)) in
        let is_tainted r = try Hashtbl.find tainted r with Not_found -> false in
        let members r = ints (ok (h_members !h (nat_of_int r))) in
        (* read object r through All(), advancing the oracle tick like the implementation does *)
        let all_of r =
          let (ms, h') = ok (h_all draw !h (nat_of_int r)) in h := h'; ints ms in
        (* compare one object's yielded sequence *)
        let cmp_obj op r (go : int list) (model : int list) =
          let k = kind_of r in
          let exact = is_sorted k || (k = Stable && not (is_tainted r)) in
          let so l = List.sort compare l in
          if so go <> so model then
            mism "api" (Printf.sprintf "%s: object %d holds {%s} in the implementation, {%s} in the proved model" op r (show_list go) (show_list model))
          else if go <> model then begin
            if exact then
              mism "api" (Printf.sprintf "%s: object %d (%s) iterates %s in the implementation, %s in the proved model (order is part of the property)"
                op r (if is_sorted k then "sorted" else "stable") (show_list go) (show_list model))
            else if det then
              mism "fidelity" (Printf.sprintf "%s: object %d iterates %s in the implementation, %s in the model (same set)" op r (show_list go) (show_list model))
          end in
        let track r f =
          (* run a mutation of object r and classify what happened to its slice *)
          let o0 = List.nth (!h).objs r in
          f ();
          let o1 = List.nth (!h).objs r in
          let l0 = int_of_nat o0.omem.len and l1 = int_of_nat o1.omem.len in
          if l1 > !st_maxsize then st_maxsize := l1;
          if o0.omem.arr = o1.omem.arr then begin
            if l1 > l0 then (incr st_inplace; if !c_shift > 0 then incr c_inplace)
            else if l1 < l0 then (incr st_shift; incr c_shift)
          end else if l1 > l0 then incr st_grow in
        List.iter (fun opres ->
          incr opno; incr nops;
          let op, res = match split_on opres "->" with
            | [a; b] -> (trim a, trim b) | [a] -> (trim a, "?") | _ -> (opres, "?") in
          Buffer.add_string opsig op; Buffer.add_char opsig ';';
          let toks = Array.of_list (List.filter (fun s -> s <> "") (split_on op " ")) in
          let arg i = int_of_string toks.(i) in
          let zargs from = List.map (fun s -> z_of_int (int_of_string s)) (Array.to_list (Array.sub toks from (Array.length toks - from))) in
          let rargs from = List.map (fun s -> nat_of_int (int_of_string s)) (Array.to_list (Array.sub toks from (Array.length toks - from))) in
          Hashtbl.replace opmix toks.(0) (1 + try Hashtbl.find opmix toks.(0) with Not_found -> 0);
          let simple expect =
            if res <> "?" && res <> expect then
              mism "api" (Printf.sprintf "%s: implementation %s, proved model %s" op res expect) in
          let created r tn =
            Hashtbl.replace tainted r tn; incr nobj in
          (* a creating op prints the new object's All(); compare it *)
          let check_new r =
            let model = all_of r in
            if res <> "?" then begin
              if res = "PANIC" || res = "HANG" then mism "api" (Printf.sprintf "%s: implementation %s, proved model returns {%s}" op res (show_list model))
              else cmp_obj op r (parse_list res) model
            end in
          (try
            (* object references must denote live objects (a shrunk case may have lost a creating op) *)
            let nrefs = (match toks.(0) with
              | "new" | "snap" | "alias" -> 0
              | "sos" -> Array.length toks - 1
              | "eq" | "sub" | "sup" -> 2
              | "uni" | "int" | "dif" -> Array.length toks - 1
              | _ -> 1) in
            for i = 1 to nrefs do
              if arg i < 0 || arg i >= !nobj then failwith "bad reference"
            done;
            match toks.(0) with
            | "new" ->
              let k = (match toks.(1) with
                | "u" -> Unordered | "s" -> Stable
                | "o" -> Sorted (nat_of_int (dir_index dir))
                | t when String.length t > 2 && String.sub t 0 2 = "o:" ->
                  if dir_index (String.sub t 2 (String.length t - 2)) <> dir_index dir then incr st_mixed;
                  Sorted (nat_of_int (dir_index (String.sub t 2 (String.length t - 2))))
                | _ -> failwith "bad kind") in
              Hashtbl.replace by_kind (String.sub toks.(1) 0 1) (1 + try Hashtbl.find by_kind toks.(1) with Not_found -> 0);
              let (_, h') = h_new zero !h k in h := h'; created !nobj false; simple "-"
            | "add" -> track (arg 1) (fun () -> h := ok (h_add zero grow eqb cmp !h (nat_of_int (arg 1)) (zargs 2))); simple "-"
            | "rem" -> track (arg 1) (fun () -> h := ok (h_remove zero grow eqb cmp !h (nat_of_int (arg 1)) (zargs 2))); simple "-"
            | "clr" -> h := ok (h_removeAll zero !h (nat_of_int (arg 1))); simple "-"
            | "has" -> simple (b2s (ok (h_contains eqb cmp !h (nat_of_int (arg 1)) (zargs 2))))
            | "size" -> simple (string_of_int (int_of_nat (ok (h_size !h (nat_of_int (arg 1))))))
            | "emp" -> simple (b2s (ok (h_isEmpty !h (nat_of_int (arg 1)))))
            | "all" ->
              let model = all_of (arg 1) in
              if res <> "?" then begin
                if res = "PANIC" || res = "HANG" then simple (show_list model)
                else cmp_obj op (arg 1) (parse_list res) model
              end
            | "str" ->
              let expect = "{" ^ String.concat "," (List.map string_of_int (members (arg 1))) ^ "}" in
              if res <> "?" && res <> expect && det then
                mism "fidelity" (Printf.sprintf "%s: implementation %s, model %s" op res expect)
            | "eq" -> simple (b2s (ok (h_equal eqb cmp !h (nat_of_int (arg 1)) (nat_of_int (arg 2)))))
            | "sub" -> let (r, h') = ok (h_isSubset eqb cmp draw !h (nat_of_int (arg 1)) (nat_of_int (arg 2))) in h := h'; simple (b2s r)
            | "sup" -> let (r, h') = ok (h_isSuperset eqb cmp draw !h (nat_of_int (arg 1)) (nat_of_int (arg 2))) in h := h'; simple (b2s r)
            | "clone" ->
              let (r, h') = ok (h_clone zero !h (nat_of_int (arg 1))) in h := h';
              created (int_of_nat r) (is_tainted (arg 1)); check_new (int_of_nat r)
            | "cle" ->
              let (r, h') = ok (h_cloneEmpty zero !h (nat_of_int (arg 1))) in h := h';
              created (int_of_nat r) false; check_new (int_of_nat r)
            | "uni" | "int" | "dif" ->
              incr st_algebra; incr c_algebra;
              let s = nat_of_int (arg 1) and sets = rargs 2 in
              let tn = is_tainted (arg 1) ||
                (toks.(0) = "uni" && List.exists (fun x -> let x = int_of_nat x in kind_of x = Unordered || is_tainted x) sets) in
              let (r, h') = (match toks.(0) with
                | "uni" -> ok (h_union zero grow eqb cmp draw !h s sets)
                | "int" -> ok (h_intersection zero grow eqb cmp !h s sets)
                | _ -> ok (h_difference zero grow eqb cmp draw !h s sets)) in
              h := h'; created (int_of_nat r) tn; check_new (int_of_nat r)
            | "any" -> simple (b2s (ok (h_anyMatch !h (nat_of_int (arg 1)) (pred toks.(2)))))
            | "allm" -> simple (b2s (ok (h_allMatch !h (nat_of_int (arg 1)) (pred toks.(2)))))
            | "fst" ->
              let p = pred toks.(2) in
              let m = ok (h_firstMatch !h (nat_of_int (arg 1)) p) in
              let expect = (match m with None -> "none" | Some v -> string_of_int (int_of_z v)) in
              if res <> "?" && res <> expect then begin
                let ms = members (arg 1) in
                let legal = (match int_of_string_opt res with
                  | Some v -> List.mem v ms && p (z_of_int v)
                  | None -> res = "none" && m = None) in
                if not legal then mism "api" (Printf.sprintf "%s: implementation %s is not a member satisfying the predicate (model %s)" op res expect)
                else if det then mism "fidelity" (Printf.sprintf "%s: implementation %s, model %s (both legal)" op res expect)
              end
            | "sel" ->
              let (r, h') = ok (h_selectMatch zero grow eqb cmp !h (nat_of_int (arg 1)) (pred toks.(2))) in
              h := h'; created (int_of_nat r) (is_tainted (arg 1)); check_new (int_of_nat r)
            | "par" ->
              let ((a, b), h') = ok (h_partitionMatch zero grow eqb cmp !h (nat_of_int (arg 1)) (pred toks.(2))) in
              h := h';
              created (int_of_nat a) (is_tainted (arg 1)); created (int_of_nat b) (is_tainted (arg 1));
              let ma = all_of (int_of_nat a) in
              let mb = all_of (int_of_nat b) in
              if res <> "?" then begin
                match split_on res ";" with
                | [ga; gb] -> cmp_obj op (int_of_nat a) (parse_list ga) ma; cmp_obj op (int_of_nat b) (parse_list gb) mb
                | _ -> mism "api" (Printf.sprintf "%s: implementation %s, proved model %s;%s" op res (show_list ma) (show_list mb))
              end
            | "snap" ->
              let n = !nobj in
              let model = List.init n (fun r -> all_of r) in
              st_snap_objs := !st_snap_objs + n;
              if res <> "?" then begin
                let go = if res = "-" then [] else split_on res ";" in
                if List.length go <> n then
                  mism "api" (Printf.sprintf "%s: implementation reports %d objects, model %d (%s)" op (List.length go) n res)
                else List.iteri (fun r g -> cmp_obj op r (parse_list g) (List.nth model r)) go
              end
            | "alias" ->
              incr st_alias_checks;
              let sh = shared_arrays !h in
              let expect = if sh = [] then "none" else String.concat "," (List.map (fun (a, b) -> Printf.sprintf "%d-%d" (int_of_nat a) (int_of_nat b)) sh) in
              simple expect
            | "sos" ->
              (* New[Set[int]](func(a, b) { return a.Equal(b) }).Add(objects...): which arguments are kept *)
              incr st_sos;
              let vals = List.map (fun r -> let r = int_of_nat r in { vk = kind_of r; vm = ok (h_members !h (nat_of_int r)) }) (rargs 1) in
              let kept = ref [] and pos = ref [] in
              List.iteri (fun i v ->
                if not (List.exists (fun m -> set_eq eqb cmp m v) !kept) then (kept := !kept @ [v]; pos := !pos @ [i])) vals;
              simple (show_list !pos)
            | "pow" ->
              incr st_pow;
              let r = arg 1 in
              let k = kind_of r in
              let ms = ok (h_members !h (nat_of_int r)) in
              let n = List.length ms in
              if n >= 2 then incr c_power;
              if n > !st_maxpow then st_maxpow := n;
              let (ps, t') = ok (powerset eqb cmp draw (nat_of_int (n + 1)) { vk = k; vm = ms } (!h).tick) in
              (* PS.All() of the caller *)
              let (subs, t'') = ok (vall draw ps t') in
              let subs_m, t3 = List.fold_left (fun (acc, t) sub -> let (l, t1) = ok (vall draw sub t) in (acc @ [ints l], t1)) ([], t'') subs in
              h := { !h with tick = t3 };
              let model_s = String.concat "/" (List.map show_list subs_m) in
              if res <> "?" then begin
                if res = "PANIC" || res = "HANG" || res = "SIZE-MISMATCH" then
                  mism "api" (Printf.sprintf "%s: implementation %s, proved model %s" op res model_s)
                else begin
                  let go = List.map parse_list (split_on res "/") in
                  let so l = List.sort compare l in
                  let canon f = so (List.map so f) in
                  let base = so (ints ms) in
                  let go_c = canon go in
                  let rec dup = function a :: (b :: _ as t) -> a = b || dup t | _ -> false in
                  if List.length go <> pow2 n then
                    mism "api" (Printf.sprintf "%s: implementation returns %d subsets of a %d-element set, expected 2^n = %d" op (List.length go) n (pow2 n))
                  else if dup go_c then
                    mism "api" (Printf.sprintf "%s: implementation returns the same subset twice: %s" op res)
                  else if List.exists (fun s -> dup (so s) || List.exists (fun x -> not (List.mem x base)) s) go then
                    mism "api" (Printf.sprintf "%s: a member of the implementation's result is not a subset of the operand: %s" op res)
                  else if go_c <> canon subs_m then
                    mism "api" (Printf.sprintf "%s: implementation %s, proved model %s (different families)" op res model_s)
                  else if is_sorted k && List.exists (fun s -> s <> List.sort (fun a b -> int_of_z ((cmp_of k) (z_of_int a) (z_of_int b))) s) go then
                    mism "api" (Printf.sprintf "%s: a sorted subset does not iterate in comparator order: %s" op res)
                  else if det && res <> model_s then
                    mism "fidelity" (Printf.sprintf "%s: implementation %s, model %s (same family, different order)" op res model_s)
                end
              end
            | "parts" ->
              incr st_parts;
              let r = arg 1 in
              let k = kind_of r in
              let ms = ok (h_members !h (nat_of_int r)) in
              let n = List.length ms in
              if n >= 2 then incr c_power;
              if n > !st_maxparts then st_maxparts := n;
              let (ps, t') = ok (partitions eqb cmp draw (nat_of_int (n + 1)) { vk = k; vm = ms } (!h).tick) in
              let (pl, t'') = ok (vall draw ps t') in
              let render, t3 = List.fold_left (fun (acc, t) part ->
                  let (blocks, t1) = ok (vall draw part t) in
                  let bl, t2 = List.fold_left (fun (acc, t) blk -> let (l, t1) = ok (vall draw blk t) in (acc @ [ints l], t1)) ([], t1) blocks in
                  (acc @ [bl], t2)) ([], t'') pl in
              h := { !h with tick = t3 };
              let show_part p = if p = [] then "E" else String.concat "/" (List.map show_list p) in
              let model_s = String.concat "#" (List.map show_part render) in
              if res <> "?" then begin
                if res = "PANIC" || res = "HANG" || res = "SIZE-MISMATCH" then
                  mism "api" (Printf.sprintf "%s: implementation %s, proved model %s" op res model_s)
                else begin
                  let parse_part s = if s = "E" then [] else List.map parse_list (split_on s "/") in
                  let go = List.map parse_part (split_on res "#") in
                  let so l = List.sort compare l in
                  let canon_p p = so (List.map so p) in
                  let canon f = so (List.map canon_p f) in
                  let base = so (ints ms) in
                  let rec dup = function a :: (b :: _ as t) -> a = b || dup t | _ -> false in
                  let bn = int_of_nat (bell (nat_of_int n)) in
                  let is_partition p =
                    List.for_all (fun blk -> blk <> []) p && so (List.concat p) = base in
                  if List.length go <> bn then
                    mism "api" (Printf.sprintf "%s: implementation returns %d partitions of a %d-element set, expected Bell(n) = %d" op (List.length go) n bn)
                  else if List.exists (fun p -> not (is_partition p)) go then
                    mism "api" (Printf.sprintf "%s: a member of the implementation's result is not a partition (non-empty, disjoint, covering blocks): %s" op res)
                  else if dup (canon go) then
                    mism "api" (Printf.sprintf "%s: implementation returns the same partition twice: %s" op res)
                  else if canon go <> canon render then
                    mism "api" (Printf.sprintf "%s: implementation %s, proved model %s (different families)" op res model_s)
                  else if det && res <> model_s then
                    mism "fidelity" (Printf.sprintf "%s: implementation %s, model %s (same family, different order)" op res model_s)
                end
              end
            | _ -> ()
          with
          | Model_fail why ->
            if res <> "?" && not (res = "PANIC" && String.length why >= 5 && String.sub why 0 5 = "PANIC") && not (res = "HANG" && why = "HANG") then
              mism "api" (Printf.sprintf "%s: implementation %s, model %s" op res why)
          | Failure _ | Invalid_argument _ | Not_found ->
            (* malformed op / reference to an object that does not exist: not a case the generators produce *)
            if res <> "?" && res <> "PANIC" then mism "api" (Printf.sprintf "%s: implementation %s, model rejects the op (bad reference)" op res))
        ) body;
        let nt = (!c_inplace > 0) || !c_algebra > 0 || !c_power > 0 in
        if nt then Hashtbl.replace nontrivial (Digest.string (head ^ Buffer.contents opsig)) ();
        if !samples < 3 && nt then begin
          incr samples;
          let l = if String.length line > 400 then String.sub line 0 400 ^ " ..." else line in
          Printf.printf "SAMPLE %s\n" l
        end
      end
    done
  with End_of_file -> ());
  Printf.printf "STAT cases=%d\nSTAT ops=%d\nSTAT nontrivial=%d\n" !cases !nops (Hashtbl.length nontrivial);
  Printf.printf "STAT inplace_appends=%d\nSTAT reallocating_appends=%d\nSTAT inplace_shift_removes=%d\nSTAT algebra_calls=%d\n" !st_inplace !st_grow !st_shift !st_algebra;
  Printf.printf "STAT powerset_calls=%d\nSTAT partitions_calls=%d\nSTAT max_set_size=%d\nSTAT max_powerset_n=%d\nSTAT max_partitions_n=%d\n" !st_pow !st_parts !st_maxsize !st_maxpow !st_maxparts;
  Printf.printf "STAT free_shuffle_cases=%d\nSTAT reverse_comparator_cases=%d\nSTAT alias_checks=%d\nSTAT objects_reread=%d\n" !st_free !st_rev !st_alias_checks !st_snap_objs;
  Printf.printf "STAT magnitude_comparator_cases=%d\nSTAT sorted_sets_with_own_comparator=%d\nSTAT set_of_sets_dedup_calls=%d\n" !st_mag !st_mixed !st_sos;
  Hashtbl.iter (fun k v -> Printf.printf "STAT new_%s=%d\n" k v) by_kind;
  Hashtbl.iter (fun k v -> Printf.printf "STAT op_%s=%d\n" k v) opmix
