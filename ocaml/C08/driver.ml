(* C08/C09 driver: replays traced grammar-transformation cases on the extracted model.
   usage: driver <c08|c09> [quick|thorough]
   c08: api = bounded language comparison L_k(G) vs L_k(Go output) by the verified oracle, panics.
   c09: api = post-condition checkers / Verify on the Go OUTPUT grammars, receiver unchanged, panics.
   both: fidelity = Go production set vs model production set up to renaming of fresh non-terminals. *)
open Model

let mode = if Array.length Sys.argv > 1 then Sys.argv.(1) else "c08"
let tier = if Array.length Sys.argv > 2 then Sys.argv.(2) else "quick"
let c08 = (mode = "c08")

let rec pos_of_int n = if n = 1 then XH else if n land 1 = 0 then XO (pos_of_int (n lsr 1)) else XI (pos_of_int (n lsr 1))
let n_of_int n = if n = 0 then N0 else Npos (pos_of_int n)
let rec int_of_pos = function XH -> 1 | XO p -> 2 * int_of_pos p | XI p -> 2 * int_of_pos p + 1
let int_of_n = function N0 -> 0 | Npos p -> int_of_pos p
let rec nat_of_int n = if n <= 0 then O else S (nat_of_int (n - 1))

let name_of_string (s : string) = List.init (String.length s) (fun i -> n_of_int (Char.code s.[i]))
let string_of_name (l : n list) = String.concat "" (List.map (fun x -> String.make 1 (Char.chr (int_of_n x land 255))) l)
let unhex (h : string) : string =
  if h = "-" then "" else
  String.init (String.length h / 2) (fun i -> Char.chr (int_of_string ("0x" ^ String.sub h (2 * i) 2)))
let hex (s : string) : string =
  if s = "" then "-" else String.concat "" (List.init (String.length s) (fun i -> Printf.sprintf "%02x" (Char.code s.[i])))

let split_on s sep = Str.split_delim (Str.regexp_string sep) s
let trim = String.trim

(* ---- OCaml-side grammars (strings) *)
type osym = T of string | NT of string
type ogram = { ts : string list; ns : string list; ps : (string * osym list) list; st : string }

let dedupe l = List.rev (List.fold_left (fun acc x -> if List.mem x acc then acc else x :: acc) [] l)

let parse_sym x = if x.[0] = 't' then T (unhex (String.sub x 1 (String.length x - 1)))
  else NT (unhex (String.sub x 1 (String.length x - 1)))
let parse_prod s =
  match split_on s ":" with
  | [h; b] -> (unhex h, if b = "" then [] else List.map parse_sym (split_on b "."))
  | [h] -> (unhex h, [])
  | _ -> failwith ("bad production " ^ s)
let parse_names s = if s = "" then [] else List.map unhex (split_on s ",")

let field fields key =
  let pre = key ^ "=" in
  let l = String.length pre in
  let rec go = function
    | [] -> None
    | f :: r -> if String.length f >= l && String.sub f 0 l = pre then Some (String.sub f l (String.length f - l)) else go r in
  go fields

let parse_gram fields =
  let g k = match field fields k with Some v -> v | None -> "" in
  { ts = parse_names (g "T"); ns = parse_names (g "N"); st = unhex (g "S");
    ps = (if g "P" = "" then [] else List.map parse_prod (split_on (g "P") ",")) }

let to_model (g : ogram) : (n list, n list) grammar =
  { terms = List.map name_of_string g.ts; nonterms = List.map name_of_string g.ns;
    prods = List.map (fun (h, b) -> { head = name_of_string h;
                                      body = List.map (function T a -> Tm (name_of_string a) | NT a -> Nt (name_of_string a)) b }) g.ps;
    start = name_of_string g.st }
let of_model (g : (n list, n list) grammar) : ogram =
  { ts = List.map string_of_name g.terms; ns = List.map string_of_name g.nonterms; st = string_of_name g.start;
    ps = List.map (fun p -> (string_of_name p.head, List.map (function Tm a -> T (string_of_name a) | Nt a -> NT (string_of_name a)) p.body)) g.prods }

let show_sym = function T a -> "\"" ^ a ^ "\"" | NT a -> a
let show_prod (h, b) = h ^ "→" ^ (if b = [] then "ε" else String.concat " " (List.map show_sym b))
let show_gram g =
  let s = "start " ^ g.st ^ " {" ^ String.concat "; " (List.sort compare (List.map show_prod g.ps)) ^ "}" in
  if String.length s > 600 then String.sub s 0 600 ^ "…" else s

(* ---- equality of grammars up to a renaming of the non-terminals outside [fixed] *)
exception Budget
let iso (m : ogram) (g : ogram) (fixed : string list) : bool =
  let mps = dedupe m.ps and gps = dedupe g.ps in
  let sset l = List.sort_uniq compare l in
  if sset m.ts <> sset g.ts then false
  else if List.length (sset m.ns) <> List.length (sset g.ns) then false
  else if List.length mps <> List.length gps then false
  else begin
    let phi = Hashtbl.create 32 and psi = Hashtbl.create 32 in
    let trail = ref [] in
    let bind a b =
      match Hashtbl.find_opt phi a, Hashtbl.find_opt psi b with
      | Some b', _ when b' = b -> true
      | Some _, _ -> false
      | None, Some _ -> false
      | None, None ->
        (* a fixed name can only be mapped to itself, and a fresh one only to a fresh one *)
        if (List.mem a fixed || List.mem b fixed) && a <> b then false
        else (Hashtbl.replace phi a b; Hashtbl.replace psi b a; trail := a :: !trail; true) in
    let undo_to mark =
      while !trail != mark do
        (match !trail with
         | a :: r -> let b = Hashtbl.find phi a in Hashtbl.remove phi a; Hashtbl.remove psi b; trail := r
         | [] -> ())
      done in
    let ok0 = List.for_all (fun n -> if List.mem n m.ns then List.mem n g.ns && bind n n else not (List.mem n g.ns)) fixed
              && bind m.st g.st in
    if not ok0 then false else begin
      let budget = ref 20000 in
      let bound_count (h, b) =
        (if Hashtbl.mem phi h then 2 else 0) + List.fold_left (fun c s -> match s with NT a when not (Hashtbl.mem phi a) -> c - 1 | _ -> c) 0 b in
      let match_prod (h, b) (h', b') =
        List.length b = List.length b' && bind h h' &&
        List.for_all2 (fun s s' -> match s, s' with T a, T a' -> a = a' | NT a, NT a' -> bind a a' | _ -> false) b b' in
      let rec go (rest : (string * osym list) list) (avail : (string * osym list) list) =
        decr budget; if !budget < 0 then raise Budget;
        match rest with
        | [] -> true
        | _ ->
          (* most constrained first *)
          let best = List.fold_left (fun acc p -> match acc with None -> Some p | Some q -> if bound_count p > bound_count q then Some p else acc) None rest in
          let p = match best with Some p -> p | None -> assert false in
          let rest' = List.filter (fun q -> q != p) rest in
          let rec try_cands = function
            | [] -> false
            | q :: more ->
              let mark = !trail in
              if match_prod p q && go rest' (List.filter (fun x -> x != q) avail) then true
              else (undo_to mark; try_cands more) in
          try_cands avail in
      go mps gps
    end
  end

(* ---- per-case state *)
let k_len = if tier = "thorough" then 7 else 6
let lang_fuel = nat_of_int 400
let cpu_budget = if tier = "thorough" then 900.0 else 200.0

let stats : (string, int) Hashtbl.t = Hashtbl.create 64
let bump k = Hashtbl.replace stats k (1 + try Hashtbl.find stats k with Not_found -> 0)
let maxs k v = Hashtbl.replace stats k (max v (try Hashtbl.find stats k with Not_found -> 0))

let lineno = ref 0
let mismatch opno kind what =
  Printf.printf "MISMATCH line=%d op=%d kind=%s what=%s\n" !lineno opno kind what

let names_to_s l = String.concat "," (List.map (fun w -> if w = [] then "ε" else String.concat "" (List.map string_of_name w)) l)

(* bounded language of the start symbol; the bound shrinks for large, dense grammars so that one
   table stays cheap (3 terminals: 1093 strings of length <= 6, 364 of length <= 5, 121 of length <= 4) *)
let t_lang = ref 0.0
let lang_of_start (k : int) (g : (n list, n list) grammar) =
  let t0 = Sys.time () in
  let r = match c_bounded_lang (nat_of_int k) lang_fuel g with
    | Some tab -> Some (c_lookup g.start tab)
    | None -> None in
  t_lang := !t_lang +. (Sys.time () -. t0); r

let bound_for (g : ogram) : int =
  let used = dedupe (List.concat_map (fun (_, b) -> List.filter_map (function T a -> Some a | _ -> None) b) g.ps) in
  let nt = List.length used and np = List.length g.ps in
  if nt <= 1 then k_len
  else if nt = 2 then (if np <= 120 then k_len else if np <= 400 then k_len - 1 else k_len - 2)
  else if nt = 3 then (if np <= 10 then 6 else if np <= 60 then 5 else 4)
  else if nt = 4 then (if np <= 30 then 5 else 4)
  else if nt <= 6 then 4
  else (if np <= 40 then 4 else 3)

let solitary_terminals (g : ogram) = List.for_all (fun (_, b) -> List.length b = 1 || List.for_all (function T _ -> false | NT _ -> true) b) g.ps
let at_most_binary (g : ogram) = List.for_all (fun (_, b) -> List.length b <= 2) g.ps

let () =
  let cases = ref 0 and nontrivial = Hashtbl.create 1024 and samples = ref 0 in
  (try
    while true do
      let line = input_line stdin in
      (* global CPU budget: a badly broken implementation makes many cases slow (huge outputs, long
         mismatch reports); what was found so far is reported, the rest of the batch is skipped *)
      if Sys.time () > cpu_budget then begin bump "batch_truncated_cpu_budget"; raise End_of_file end;
      if String.length line > 0 && line.[0] <> '#' then begin
        incr lineno; incr cases;
        let parts = List.map trim (split_on line "|") in
        let head = List.hd parts and body = List.tl parts in
        let hf = Str.split (Str.regexp "[ \t]+") head in
        let start = match field hf "S" with Some s -> unhex s | None -> "" in
        let extra_t = match field hf "T" with Some s -> parse_names s | None -> [] in
        let ops = List.map (fun opres ->
            match Str.bounded_split_delim (Str.regexp_string "->") opres 2 with
            | [a; b] -> (trim a, trim b) | [a] -> (trim a, "?") | _ -> (opres, "?")) body in
        let prods = List.filter_map (fun (op, _) ->
            if String.length op > 2 && String.sub op 0 2 = "P " then Some (parse_prod (trim (String.sub op 2 (String.length op - 2)))) else None) ops in
        (* the input grammar, built like harness.build *)
        let ts = dedupe (extra_t @ List.concat_map (fun (_, b) -> List.filter_map (function T a -> Some a | _ -> None) b) prods) in
        let ns = dedupe (start :: List.concat_map (fun (h, b) -> h :: List.filter_map (function NT a -> Some a | _ -> None) b) prods) in
        let og = { ts; ns; ps = dedupe prods; st = start } in
        let g = to_model og in
        let valid = c_verify g in
        maxs "max_nonterminals" (List.length ns); maxs "max_productions" (List.length og.ps);
        List.iter (fun (_, b) -> maxs "max_body_length" (List.length b)) og.ps;
        if List.exists (fun (_, b) -> List.length b >= 5) og.ps then bump "cases_with_body_of_5_or_more";
        let lang_memo = Hashtbl.create 4 in
        let lang_g k = match Hashtbl.find_opt lang_memo k with
          | Some r -> r
          | None -> let r = lang_of_start k g in Hashtbl.replace lang_memo k r; r in
        let case_t0 = !t_lang in
        let yl = lazy (match c_yielding g with Ok l -> List.map string_of_name l | _ -> []) in
        let changed = ref false in
        let opno = ref 0 in
        List.iter (fun (op, res) ->
          incr opno;
          let opname = List.hd (Str.split (Str.regexp "[ \t]+") op) in
          let rf = Str.split (Str.regexp "[ \t]+") res in
          match opname with
          | "P" -> ()
          | "SUFFIXES" ->
            if res <> "?" then begin
              let cmp key (model : n list list) =
                let go_l = match field rf key with Some s -> parse_names s | None -> [] in
                if go_l <> List.map string_of_name model then
                  mismatch !opno "fidelity" (Printf.sprintf "suffix list %s of cfg.go differs from the model's" key) in
              cmp "prime" prime_suffixes; cmp "alpha" alpha_suffixes; cmp "numeric" numeric_suffixes
            end
          | _ when res = "?" || res = "INVALID" || not valid -> bump "skipped_invalid_input"
          | "NULLABLE" ->
            bump "op_NULLABLE";
            (match c_nullable g, field rf "N" with
             | Ok nl, Some s ->
               let m = List.sort compare (List.map string_of_name nl) and i = List.sort compare (parse_names s) in
               if m <> i then mismatch !opno "api" (Printf.sprintf "NULLABLE: implementation {%s}, proved model {%s}" (String.concat "," i) (String.concat "," m))
             | _, _ -> mismatch !opno "api" ("NULLABLE: implementation " ^ res))
          | "LRS" | "LRL" | "LRC" ->
            (* table construction proper belongs to C11; here only: the caller's grammar is unchanged *)
            bump ("op_" ^ opname);
            if not c08 then begin
              match rf with
              | "ok" :: _ -> if field rf "eq" <> Some "t" then mismatch !opno "api" (opname ^ ": the caller's grammar was modified (it differs from an independently built copy after the call)")
              | _ -> bump "lr_table_not_built"
            end
          | "PBT" | "LR0" | "LR1" | "LR0K" | "LR1K" ->
            bump ("op_" ^ opname);
            if not c08 then begin
              match rf with
              | "ok" :: _ -> if field rf "eq" <> Some "t" then mismatch !opno "api" (opname ^ ": the caller's grammar was modified (it differs from an independently built copy after the call)")
              | r0 :: _ -> if r0 <> "PANIC:out-of-names" then mismatch !opno "api" (opname ^ ": " ^ res)
              | [] -> ()
            end
          | _ when (match rf with "TIMEOUT" :: _ -> true | _ -> false) -> bump "elr_exponential_cases_cut_by_watchdog"
          | _ when (match rf with "LARGE" :: _ -> true | _ -> false) ->
            bump "large_outputs_not_compared";
            if not c08 && field rf "eq" <> Some "t" then
              mismatch !opno "api" (opname ^ ": the receiver was modified (it differs from an independently built copy after the call)")
          | _ ->
            bump ("op_" ^ opname);
            let order = match field rf "order" with Some s -> List.map name_of_string (parse_names s) | None -> [] in
            if opname = "ELR" && field rf "order" <> None then begin
              if List.length (dedupe order) <> List.length order then
                mismatch !opno "fidelity" "ELR: OrderNonTerminals returned a non-terminal twice (the theorems assume a duplicate-free order)";
              match c_cycles g with
              | Ok g1 ->
                if List.sort compare (List.map string_of_name g1.nonterms) <> List.sort compare (List.map string_of_name order) then
                  mismatch !opno "fidelity" "ELR: OrderNonTerminals is not an enumeration of the non-terminals of the cycle-free grammar (assumed by C09_left_recursion_post)"
              | _ -> ()
            end;
            let mres = match opname with
              | "DEL" -> c_del g | "UNIT" -> c_unit g | "UNREACH" -> c_unreachable g | "CYCLES" -> c_cycles g
              | "ELR" -> c_elr order g | "LF" -> c_left_factor g | "CNF" -> c_chomsky g
              | "START" -> c_start g | "TERM" -> c_term g | "BIN" -> c_bin g
              | _ -> Hang in
            let mdesc = match mres with Ok _ -> "Ok" | Panic _ -> "Panic out-of-names" | Hang -> "Hang" in
            (match rf with
             | "ok" :: _ ->
               let gg = parse_gram rf in
               let ggm = to_model gg in
               if List.sort compare gg.ps <> List.sort compare og.ps || gg.st <> og.st then changed := true;
               maxs "max_output_productions" (List.length gg.ps);
               (* ---- property-level checks on the Go output *)
               if c08 && !t_lang -. case_t0 > 1.5 then bump "language_comparisons_skipped_case_time_budget"
               else if c08 then begin
                 let k = bound_for gg in
                 bump ("language_comparisons_with_bound_" ^ string_of_int k);
                 match lang_g k, lang_of_start k ggm with
                 | Some l1, Some l2 ->
                   bump "language_comparisons";
                   maxs "max_strings_in_Lk" (List.length l1);
                   if List.length l1 > 1 then bump "language_comparisons_with_2_or_more_strings";
                   if not (c_lang_subset l1 l2 && c_lang_subset l2 l1) then
                     mismatch !opno "api" (Printf.sprintf "%s: L_%d differs: lost {%s} gained {%s}; output %s" opname k
                                             (names_to_s (c_lang_diff l1 l2)) (names_to_s (c_lang_diff l2 l1)) (show_gram gg))
                 | _, _ -> bump "language_undecided"
               end else begin
                 if field rf "eq" <> Some "t" then
                   mismatch !opno "api" (opname ^ ": the receiver was modified (it differs from an independently built copy after the call)");
                 let v = c_verify ggm in
                 if (field rf "v" = Some "t") <> v then
                   mismatch !opno "fidelity" (Printf.sprintf "%s: Verify() of the implementation says %s, the model's verify says %b" opname
                                                (match field rf "v" with Some x -> x | None -> "?") v);
                 if not v then begin
                   (* D09c classification: only "no production rule for X" with X generating no non-empty string in the input *)
                   let lacking = List.filter (fun a -> not (List.exists (fun (h, _) -> h = a) gg.ps)) (dedupe (gg.st :: gg.ns)) in
                   let cls =
                     if not (c_verify_symbols ggm) then "other"
                     else if List.for_all (fun a ->
                         if List.mem a og.ns then not (List.mem a (Lazy.force yl))
                         else a = gg.st && not (List.mem og.st (Lazy.force yl))) lacking then "no-nonempty-yield"
                     else "other" in
                   mismatch !opno "api" (Printf.sprintf "%s: result fails Verify(): no production rule for {%s} class=%s; output %s" opname
                                           (String.concat "," lacking) cls (show_gram gg))
                 end;
                 let post name ok = if not ok then mismatch !opno "api" (Printf.sprintf "%s: post-condition %s fails; output %s" opname name (show_gram gg)) in
                 (match opname with
                  | "DEL" -> post "no_empty_except_fresh_start" (c_no_empty ggm)
                  | "UNIT" -> post "no_unit" (c_no_unit ggm)
                  | "UNREACH" -> post "all_reachable" (c_all_reachable ggm)
                  | "CYCLES" -> post "no_cycle" (c_no_cycle ggm)
                  | "ELR" -> post "no_left_recursion" (c_no_left_recursion ggm)
                  | "LF" ->
                    if not (c_left_factored ggm) then begin
                      let hd = match c_lf_offender ggm with Some p -> string_of_name p.head | None -> "?" in
                      let cls = if c_no_singleton_group ggm (name_of_string hd) then "no-singleton-group"
                        else if not (List.mem hd og.ns) then "fresh-head" else "other" in
                      mismatch !opno "api" (Printf.sprintf "LF: post-condition left_factored fails at head %s class=%s; output %s" hd cls (show_gram gg))
                    end
                  | "CNF" ->
                    post "is_cnf" (c_is_cnf ggm); post "start_not_on_right" (c_is_cnf_strict ggm || not (c_is_cnf ggm));
                    if (field rf "cnf" = Some "t") <> c_is_cnf ggm then
                      mismatch !opno "fidelity" "CNF: IsCNF() of the implementation and is_cnf of the model disagree on the output"
                  | "START" -> post "start_not_on_right" (c_is_cnf_strict ggm || not (c_is_cnf ggm) && not (List.exists (fun (_, b) -> List.mem (NT gg.st) b) gg.ps))
                  | "TERM" -> post "solitary_terminals" (solitary_terminals gg)
                  | "BIN" -> post "at_most_binary" (at_most_binary gg)
                  | _ -> ())
               end;
               (* ---- fidelity: production sets up to renaming of fresh non-terminals *)
               (match mres with
                | Ok mg ->
                  let mo = of_model mg in
                  let relax = opname = "LF" && not (c_left_factored mg) in
                  (try
                     if not (iso mo gg og.ns) then begin
                       if relax then bump "lf_fidelity_not_compared_nested_prefixes"
                       else mismatch !opno "fidelity" (Printf.sprintf "%s: production sets differ (up to renaming of fresh non-terminals): implementation %s ; model %s" opname (show_gram gg) (show_gram mo))
                     end else bump "iso_ok"
                   with Budget -> bump "iso_budget_exceeded")
                | _ -> mismatch !opno "fidelity" (Printf.sprintf "%s: implementation returned a grammar, model says %s" opname mdesc))
             | _ ->
               (* PANIC / HANG *)
               let r0 = match rf with x :: _ -> x | [] -> res in
               if r0 = "PANIC:out-of-names" then bump "out_of_names_panics";
               mismatch !opno "api" (Printf.sprintf "%s: implementation %s, model %s" opname r0 mdesc))
        ) ops;
        if !changed then Hashtbl.replace nontrivial (Digest.string (head ^ String.concat ";" (List.map fst ops))) ();
        if !samples < 3 && !changed then begin
          incr samples;
          let l = if String.length line > 400 then String.sub line 0 400 ^ " ..." else line in
          Printf.printf "SAMPLE %s\n" l
        end
      end
    done
  with End_of_file -> ());
  Printf.printf "STAT cases=%d\nSTAT nontrivial=%d\n" !cases (Hashtbl.length nontrivial);
  Hashtbl.iter (fun k v -> Printf.printf "STAT %s=%d\n" k v) stats
