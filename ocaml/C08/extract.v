(* Extraction of the C08/C09 model, checkers and bounded membership oracle.
   ExtrOcamlBasic only: nat, N, positive stay Coq datatypes. *)
Require Extraction.
Require Import ExtrOcamlBasic.
From Algo.C08 Require Import Model Names Recognise.
From Algo.C09 Require Import Model Concrete.
Extraction Language OCaml.
Extraction "model.ml"
  c_del c_unit c_unreachable c_cycles c_elr c_left_factor c_start c_term c_bin c_chomsky c_nullable
  c_verify c_verify_symbols name_eqb fresh_name prime_suffixes alpha_suffixes numeric_suffixes
  c_is_cnf c_is_cnf_strict c_no_empty c_no_unit c_all_reachable c_no_cycle c_no_left_recursion
  c_left_factored c_lf_offender c_no_singleton_group c_gram_eqb c_yielding
  c_bounded_lang c_lookup c_lang_subset c_lang_diff.
