(* Extraction of the C11 model.  ExtrOcamlBasic only: nat, Z, positive stay Coq datatypes. *)
Require Extraction.
Require Import ExtrOcamlBasic.
From Algo.C11 Require Import Model ModelPrec ModelSLR ModelLR1.
Extraction Language OCaml.
Extraction "model.ml" parse table_ok infer_labels term_ok lang_upto rm_check ast_of yield postorder prods_of mem_str group_left resolve_conflict levels_disjoint build_slr build_clr build_lalr lm_check follow_fix_ok augment.
