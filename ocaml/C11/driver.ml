(* C11 driver: replays traced LR constructions / parses against the extracted model.
   - every table the Go code built is checked with the extracted certificate [table_ok] (+ [term_ok])
   - the extracted driver [parse] is run on the Go table and compared with what the Go driver did
   - verdicts are compared with the extracted membership oracle [lang_upto]
   - SLR ok => LALR ok => canonical ok *)
open Model

let rec pos_of_int n = if n = 1 then XH else if n land 1 = 0 then XO (pos_of_int (n lsr 1)) else XI (pos_of_int (n lsr 1))
let z_of_int n = if n = 0 then Z0 else if n > 0 then Zpos (pos_of_int n) else Zneg (pos_of_int (-n))
let rec nat_of_int n = if n <= 0 then O else S (nat_of_int (n - 1))
let rec int_of_nat = function O -> 0 | S n -> 1 + int_of_nat n

let split_on s sep = Str.split (Str.regexp_string sep) s
let trim = String.trim
let starts_with s p = String.length s >= String.length p && String.sub s 0 (String.length p) = p

let is_term c = c >= 'a' && c <= 'z'
let sym_of_char c : sym = if is_term c then Tm (nat_of_int (Char.code c - 97)) else Nt (nat_of_int (Char.code c - 65))
let str_of_string s = List.init (String.length s) (fun i -> sym_of_char s.[i])
let toks_of_string s = List.init (String.length s) (fun i -> nat_of_int (Char.code s.[i] - 97))
let prod_of h b : prod0 = { head = nat_of_int (Char.code h - 65); body = str_of_string b }

let char_of_sym = function Tm a -> Char.chr (97 + int_of_nat a) | Nt a -> Char.chr (65 + int_of_nat a)
let string_of_prod (p : prod0) =
  let b = Buffer.create 8 in
  Buffer.add_char b (Char.chr (65 + int_of_nat p.head)); Buffer.add_char b '=';
  List.iter (fun s -> Buffer.add_char b (char_of_sym s)) p.body; Buffer.contents b
let string_of_look = function None -> "$" | Some a -> String.make 1 (Char.chr (97 + int_of_nat a))
let rec string_of_tree = function
  | Leaf a -> string_of_look a
  | TNil -> "nil"
  | Node (p, ch) -> string_of_prod p ^ "[" ^ String.concat "" (List.map string_of_tree ch) ^ "]"

(* "H=body" *)
let prod_of_text s =
  match String.index_opt s '=' with
  | Some 1 -> Some (prod_of s.[0] (String.sub s 2 (String.length s - 2)))
  | _ -> None

type parsed_table = { n : int; tbl : table option; raw_conflicts : int; bad : string option }

(* "<n> A cells G cells" *)
let parse_table (toks : string list) : parsed_table =
  match toks with
  | nstr :: "A" :: rest ->
    let n = int_of_string nstr in
    let acts = ref [] and gotos = ref [] and conflicts = ref 0 and bad = ref None in
    let in_goto = ref false in
    List.iter (fun cell ->
      if cell = "G" then in_goto := true
      else match split_on cell ":" with
        | [key; v] ->
          (match split_on key "," with
           | [s; x] ->
             let s = int_of_string s in
             if !in_goto then
               gotos := ((z_of_int s, nat_of_int (Char.code x.[0] - 65)), z_of_int (int_of_string v)) :: !gotos
             else begin
               let la = if x = "$" then None else Some (nat_of_int (Char.code x.[0] - 97)) in
               let alts = split_on v "+" in
               if List.length alts > 1 then incr conflicts;
               List.iter (fun a ->
                 let act =
                   if a = "acc" then Some Accept
                   else if a.[0] = 's' then Some (Shift (z_of_int (int_of_string (String.sub a 1 (String.length a - 1)))))
                   else if a.[0] = 'r' then
                     (match prod_of_text (String.sub a 1 (String.length a - 1)) with
                      | Some p -> Some (Reduce p) | None -> None)
                   else None in
                 match act with
                 | Some act -> acts := ((z_of_int s, la), act) :: !acts
                 | None -> bad := Some ("unreadable action " ^ a)) alts
             end
           | _ -> bad := Some ("unreadable cell " ^ cell))
        | _ -> bad := Some ("unreadable cell " ^ cell)) rest;
    { n; tbl = Some { t_action = List.rev !acts; t_goto = List.rev !gotos }; raw_conflicts = !conflicts; bad = !bad }
  | _ -> { n = 0; tbl = None; raw_conflicts = 0; bad = Some "unreadable table" }

(* "L:p,q/R:t/N:E=EpE" *)
let levels_of_text (s : string) : levels =
  if s = "" then [] else
  List.map (fun l ->
    let a, hs = match String.index_opt l ':' with
      | Some i -> String.sub l 0 i, String.sub l (i + 1) (String.length l - i - 1)
      | None -> l, "" in
    let assoc = match a with "L" -> ALeft | "R" -> ARight | _ -> ANone in
    let handles = List.filter_map (fun h ->
      if String.length h = 1 then Some (HTerm (Some (nat_of_int (Char.code h.[0] - 97))))
      else match prod_of_text h with Some p -> Some (HProd p) | None -> None) (split_on hs ",") in
    (assoc, handles)) (split_on s "/")

let rec int_of_pos = function XH -> 1 | XO p -> 2 * int_of_pos p | XI p -> 2 * int_of_pos p + 1
let int_of_z = function Z0 -> 0 | Zpos p -> int_of_pos p | Zneg p -> - (int_of_pos p)

(* canonical form of a deterministic table: breadth-first renumbering of the states from state 0
   (terminals before non-terminals, by index), then the sorted list of renamed cells *)
let canon_table (tbl : table) : string list =
  let acts = List.map (fun ((s, a), x) -> (int_of_z s, a, x)) tbl.t_action in
  let gotos = List.map (fun ((s, a), t) -> (int_of_z s, int_of_nat a, int_of_z t)) tbl.t_goto in
  let ren = Hashtbl.create 32 in
  Hashtbl.replace ren 0 0;
  let q = Queue.create () in Queue.add 0 q;
  let next = ref 1 in
  let visit t = if not (Hashtbl.mem ren t) then begin Hashtbl.replace ren t !next; incr next; Queue.add t q end in
  while not (Queue.is_empty q) do
    let s = Queue.pop q in
    let sh = List.filter_map (fun (s', a, x) -> match a, x with
      | Some c, Shift t when s' = s -> Some (int_of_nat c, int_of_z t) | _ -> None) acts in
    List.iter (fun (_, t) -> visit t) (List.sort Stdlib.compare sh);
    let gt = List.filter_map (fun (s', a, t) -> if s' = s then Some (a, t) else None) gotos in
    List.iter (fun (_, t) -> visit t) (List.sort Stdlib.compare gt)
  done;
  let r s = match Hashtbl.find_opt ren s with Some k -> string_of_int k | None -> "u" ^ string_of_int s in
  let cells =
    List.map (fun (s, a, x) ->
      Printf.sprintf "%s,%s:%s" (r s) (string_of_look a)
        (match x with Shift t -> "s" ^ r (int_of_z t) | Reduce p -> "r" ^ string_of_prod p | Accept -> "acc")) acts
    @ List.map (fun (s, a, t) -> Printf.sprintf "%s,%c:%s" (r s) (Char.chr (65 + a)) (r t)) gotos in
  List.sort Stdlib.compare cells

(* Conflict resolution by precedence can leave states without incoming transitions.  The driver can
   never enter them (its stack is a path from state 0), and [table_ok] has no labels for them, so the
   certificate and the replay of the proved driver both use the part of the table reachable from
   state 0; the implementation's results are compared with the proved driver on that certified part. *)
let prune_table (tbl : table) : table * int =
  let reach = Hashtbl.create 32 in
  Hashtbl.replace reach 0 ();
  let changed = ref true in
  while !changed do
    changed := false;
    List.iter (fun ((s, _), x) -> match x with
      | Shift t when Hashtbl.mem reach (int_of_z s) && not (Hashtbl.mem reach (int_of_z t)) ->
        Hashtbl.replace reach (int_of_z t) (); changed := true
      | _ -> ()) tbl.t_action;
    List.iter (fun ((s, _), t) ->
      if Hashtbl.mem reach (int_of_z s) && not (Hashtbl.mem reach (int_of_z t)) then begin
        Hashtbl.replace reach (int_of_z t) (); changed := true end) tbl.t_goto
  done;
  let keep s = Hashtbl.mem reach (int_of_z s) in
  let a = List.filter (fun ((s, _), _) -> keep s) tbl.t_action
  and g = List.filter (fun ((s, _), _) -> keep s) tbl.t_goto in
  ({ t_action = a; t_goto = g }, List.length tbl.t_action - List.length a)

(* label inference with arrays (untrusted helper: [table_ok] re-checks the labels): longest common
   suffix of the symbol strings reaching a state, propagated from state 0 until nothing changes *)
let infer_labels_fast (n : int) (tbl : table) : sym list list =
  let lab : sym list option array = Array.make (Stdlib.max n 1) None in   (* labels stored reversed: last symbol first *)
  lab.(0) <- Some [];
  let edges =
    List.filter_map (fun ((s, a), x) -> match a, x with
      | Some c, Shift t -> Some (int_of_z s, Tm c, int_of_z t) | _ -> None) tbl.t_action
    @ List.map (fun ((s, a), t) -> (int_of_z s, Nt a, int_of_z t)) tbl.t_goto in
  let rec common u v = match u, v with
    | x :: u', y :: v' when x = y -> x :: common u' v'
    | _ -> [] in
  let changed = ref true and rounds = ref 0 in
  while !changed && !rounds < 10000 do
    changed := false; incr rounds;
    List.iter (fun (s, x, t) ->
      if s >= 0 && s < n && t >= 0 && t < n then
        match lab.(s) with
        | Some ls ->
          let cand = x :: ls in
          (match lab.(t) with
           | None -> lab.(t) <- Some cand; changed := true
           | Some lt -> let c = common lt cand in
             if List.length c <> List.length lt then (lab.(t) <- Some c; changed := true))
        | None -> ()) edges
  done;
  Array.to_list (Array.map (function Some l -> List.rev l | None -> []) (Array.sub lab 0 (Stdlib.max n 0)))

let slr_fuel = nat_of_int 200
let big_fuel = nat_of_int 20000
let sim_fuel = nat_of_int 400
let lang_fuel = nat_of_int 4000

let () =
  let cases = ref 0 and ops = ref 0 and lineno = ref 0 and samples = ref 0 in
  let nontrivial = Hashtbl.create 1024 in
  let bump_names = ref false in
  let oracle_cache : (string, nat list list option) Hashtbl.t = Hashtbl.create 16 in
  let st = Hashtbl.create 16 in
  let bump k d = Hashtbl.replace st k (d + try Hashtbl.find st k with Not_found -> 0) in
  let setmax k v = if v > (try Hashtbl.find st k with Not_found -> 0) then Hashtbl.replace st k v in
  (try
    while true do
      let line = input_line stdin in
      if String.length line > 0 && line.[0] <> '#' then begin
        incr lineno; incr cases;
        let parts = List.map trim (split_on line "|") in
        let head = List.hd parts and body = List.tl parts in
        let hf = Array.of_list (split_on head " ") in
        let start = hf.(1).[0] in
        let terms = if hf.(2) = "-" then "" else hf.(2) in
        let nts = hf.(3) in
        let prods = if hf.(4) = "-" then [] else
          List.map (fun ps -> match String.index_opt ps ':' with
            | Some 1 -> prod_of ps.[0] (String.sub ps 2 (String.length ps - 2))
            | _ -> failwith ("bad production " ^ ps)) (split_on hf.(4) ",") in
        let prec = ref "" and nomodel = ref false in
        Array.iteri (fun i x -> if i >= 5 && starts_with x "prec=" then prec := String.sub x 5 (String.length x - 5);
                                if i >= 5 && x = "nomodel" then nomodel := true;
                                if i >= 5 && starts_with x "names=" then bump_names := true) hf;
        if !bump_names then (bump_names := false; bump "cases_with_renamed_symbols" 1);
        if !nomodel then bump "cases_without_model_constructions" 1;
        let g : gram = { terms = toks_of_string terms; nonterms = List.map (fun c -> nat_of_int (Char.code c - 65)) (List.init (String.length nts) (String.get nts));
                         prods = prods; start = nat_of_int (Char.code start - 65) } in
        (* property-level (api) mismatches of a case are printed before fidelity ones *)
        let pending_api = ref [] and pending_fid = ref [] in
        let mism opno kind what =
          let l = Printf.sprintf "MISMATCH line=%d op=%d kind=%s what=%s\n" !lineno opno kind what in
          if kind = "api" then pending_api := l :: !pending_api else pending_fid := l :: !pending_fid in
        (* split ops *)
        let opl = List.map (fun opres ->
          match split_on opres "->" with
          | [a; b] -> (trim a, trim b) | [a] -> (trim a, "?") | _ -> (opres, "?")) body in
        let maxlen = List.fold_left (fun m (op, _) ->
          match split_on op " " with "W" :: w :: _ -> Stdlib.max m (String.length w) | _ -> m) 0 opl in
        setmax "max_string_length" maxlen;
        setmax "max_productions" (List.length prods);
        setmax "max_nonterminals" (String.length nts);
        setmax "max_terminals" (String.length terms);
        if !prec <> "" then bump "cases_with_precedence" 1;
        if List.exists (fun (p : prod0) -> p.body = []) prods then bump "grammars_with_epsilon" 1;
        let levels = levels_of_text !prec in
        let is_op c = is_term c && c <> 'i' && c <> 'l' && c <> 'r' in
        let expr_ops =   (* Some ops when the grammar is E -> E op E | l E r | i *)
          let ops = ref [] and okf = ref (start = 'E' && nts = "E") in
          List.iter (fun ps -> match ps with
            | "E:lEr" | "E:i" -> ()
            | _ when String.length ps = 5 && String.sub ps 0 3 = "E:E" && ps.[4] = 'E' && is_op ps.[3] -> ops := ps.[3] :: !ops
            | _ -> okf := false) (if hf.(4) = "-" then [] else split_on hf.(4) ",");
          if !okf && !ops <> [] then Some (List.rev !ops) else None in
        let opn c = nat_of_int (Char.code c - 97) in
        (* fuel hypothesis of the chain theorem C11_chain: the modelled FOLLOW iteration reached its fixpoint *)
        if !nomodel then ()
        else if follow_fix_ok (augment g) then bump "follow_fixpoint_reached" 1
        else Printf.printf "MISMATCH line=%d op=1 kind=fidelity what=model: the FOLLOW iteration of the modelled SLR construction ran out of fuel before its fixpoint (hypothesis follow_fix_ok of C11_chain fails for this grammar)\n" !lineno;
        let oracle = lazy (
          let key = hf.(1) ^ " " ^ hf.(4) ^ " " ^ string_of_int maxlen in
          match Hashtbl.find_opt oracle_cache key with
          | Some o -> o
          | None -> let o = lang_upto lang_fuel g (nat_of_int maxlen) in
            if Hashtbl.length oracle_cache > 64 then Hashtbl.reset oracle_cache;
            Hashtbl.replace oracle_cache key o; o) in
        let tables : (string, parsed_table) Hashtbl.t = Hashtbl.create 3 in
        let model_tables : (string, table) Hashtbl.t = Hashtbl.create 3 in
        let status : (string, string * int) Hashtbl.t = Hashtbl.create 3 in
        let opno = ref 0 in
        let accepted = ref 0 and rejected = ref 0 and built_ok = ref 0 in
        List.iter (fun (op, res) ->
          incr opno; incr ops;
          let toks = split_on op " " in
          match toks with
          | ["B"; m] when res <> "?" ->
            let rt = split_on res " " in
            let kind = List.hd rt in
            Hashtbl.replace status m (kind, !opno);
            (* the modelled SLR construction (LR(0) automaton, FOLLOW, ResolveConflicts) against the Go one *)
            if kind <> "INVALID" && not !nomodel then begin
              let mres = match m with
                | "slr" -> build_slr slr_fuel g levels
                | "lalr" -> build_lalr slr_fuel g levels
                | _ -> build_clr slr_fuel g levels in
              let mk = match mres with BuiltOk _ -> "OK" | BuiltConflict _ -> "CONFLICT" | BuiltError -> "ERR" | BuiltNoFuel -> "NOFUEL" in
              bump ("model_" ^ m ^ "_" ^ mk) 1;
              let gk = if starts_with kind "ERR" then "ERR" else kind in
              Hashtbl.remove model_tables m;
              (match mres with BuiltOk mt -> Hashtbl.replace model_tables m mt | _ -> ());
              if mk = "NOFUEL" then ()
              else if (gk = "OK" || gk = "CONFLICT" || gk = "ERR") && gk <> mk then
                (* with precedence levels the verdict is property-level: the declaration (handles = first terminal
                   of a production, as documented and as modelled) decides whether the conflicts are resolved *)
                mism !opno (if !prec <> "" then "api" else "fidelity")
                  (Printf.sprintf "%s construction: implementation %s, modelled construction%s %s" m gk
                     (if !prec <> "" then " (ResolveConflicts with the declared precedence levels)" else "") mk)
              else match mres with
                | BuiltOk mt when gk = "OK" ->
                  let pt = parse_table (List.tl rt) in
                  (match pt.tbl with
                   | Some gt when pt.raw_conflicts = 0 && pt.bad = None ->
                     let a = canon_table (fst (prune_table gt)) and b = canon_table (fst (prune_table mt)) in
                     if a <> b then begin
                       let only l1 l2 = List.filter (fun x -> not (List.mem x l2)) l1 in
                       mism !opno "fidelity" (Printf.sprintf "%s table differs from the modelled construction after canonical renumbering: only in implementation [%s], only in model [%s]"
                         m (String.concat " " (only a b)) (String.concat " " (only b a)))
                     end else bump (m ^ "_tables_equal_to_model") 1
                   | _ -> ())
                | _ -> ()
            end;
            if starts_with kind "PANIC" || kind = "HANG" then begin
              bump "construction_crashes" 1;
              mism !opno "api" (Printf.sprintf "%s construction: %s (must return a table or a conflict error)" m res)
            end else if starts_with kind "ERR" then begin
              bump "construction_other_errors" 1;
              if !prec = "" then mism !opno "api" (Printf.sprintf "%s construction failed with a non-conflict error: %s" m res)
            end else if kind = "CONFLICT" then begin
              bump ("conflict_" ^ m) 1;
              (match expr_ops with
               | Some ol when !prec <> "" && levels_disjoint levels
                              && List.for_all (fun a -> List.for_all (fun b -> group_left levels (opn a) (opn b) <> None) ol) ol ->
                 mism !opno "api" (Printf.sprintf "%s construction reports a conflict although the declared precedence levels determine every operator pair" m)
               | _ -> ());
              let pt = parse_table (List.tl rt) in
              if pt.raw_conflicts = 0 then
                mism !opno "api" (Printf.sprintf "%s construction reports a conflict but every ACTION cell of the returned table has at most one action" m)
            end else if kind = "OK" then begin
              bump ("ok_" ^ m) 1; incr built_ok;
              (match expr_ops with
               | Some ol when List.exists (fun a -> List.exists (fun b -> group_left levels (opn a) (opn b) = None) ol) ol ->
                 mism !opno "api" (Printf.sprintf "%s construction succeeds although the declared precedence levels leave an operator pair undetermined (model: conflict)" m)
               | _ -> ());
              let pt = parse_table (List.tl rt) in
              setmax "max_states" pt.n;
              (match pt.bad, pt.tbl with
               | Some b, _ -> mism !opno "api" (Printf.sprintf "%s table: %s" m b)
               | None, Some tbl0 ->
                 let tbl, dropped = prune_table tbl0 in
                 if dropped > 0 then bump "tables_with_unreachable_states" 1;
                 let pt = { pt with tbl = Some tbl } in
                 if pt.raw_conflicts > 0 then
                   mism !opno "api" (Printf.sprintf "%s construction succeeded but the table has %d cells with several actions" m pt.raw_conflicts)
                 else begin
                   Hashtbl.replace tables m pt;
                   let lbl = infer_labels_fast pt.n tbl in
                   if not (table_ok g tbl lbl) then
                     mism !opno "api" (Printf.sprintf "%s table fails the certificate table_ok (a state is entered with a stack that does not end with the body of one of its reductions, or accept is misplaced)" m)
                   else if not (term_ok sim_fuel tbl) then
                     mism !opno "api" (Printf.sprintf "%s table fails the termination certificate term_ok (a reduce-only cycle exists)" m)
                 end
               | None, None -> mism !opno "api" (Printf.sprintf "%s table unreadable" m))
            end
          | (("W" | "X" | "Y") as opk) :: rest when res <> "?" ->
            let w = match rest with [] -> "" | "_" :: _ -> "" | x :: _ -> x in
            let wt = toks_of_string w in
            let member =
              if opk = "W" then begin
                let m = match Lazy.force oracle with Some l -> Some (mem_str wt l) | None -> None in
                if m = None then bump "oracle_out_of_fuel" 1; m
              end else if opk = "X" then begin
                (* a longer sentence with its leftmost derivation as witness, checked by lm_check *)
                let ps = match rest with
                  | _ :: d :: _ -> List.filter_map prod_of_text (split_on d ";") | _ -> [] in
                if lm_check g ps wt then (bump "witnessed_long_sentences" 1; setmax "max_long_string_length" (String.length w); Some true)
                else (bump "bad_witnesses" 1; None)
              end else (bump "long_strings_without_witness" 1; None) in
            List.iter (fun r ->
              match split_on r "=" with
              | m :: _ when Hashtbl.mem tables m ->
                let v0 = String.sub r (String.length m + 1) (String.length r - String.length m - 1) in
                let v, disagree = match String.index_opt v0 '~' with
                  | Some i -> String.sub v0 0 i, Some (String.sub v0 (i + 1) (String.length v0 - i - 1))
                  | None -> v0, None in
                bump "entry_point_configurations_driven" 6;
                (match disagree with
                 | Some d -> mism !opno "api" (Printf.sprintf "%s parser on %S: entry points / callback configurations disagree: Parse(tokenF,prodF) gives %s but %s (the verdict, productions and tokens must not depend on the callbacks)" m w (if String.length v > 60 then String.sub v 0 60 else v) d)
                 | None -> ());
                let pt = Hashtbl.find tables m in
                let tbl = match pt.tbl with Some t -> t | None -> assert false in
                let model = parse big_fuel tbl wt in
                let model_s = match model with
                  | Accepted evs ->
                    "A[" ^ String.concat ";" (List.map string_of_prod (prods_of evs)) ^ "]" ^ string_of_tree (ast_of evs)
                  | Rejected (rest, _) -> Printf.sprintf "R@%d" (String.length w - List.length rest)
                  | Hang -> "HANG" in
                let go_acc = starts_with v "A[" and model_acc = starts_with model_s "A[" in
                if go_acc then incr accepted else incr rejected;
                if starts_with v "PANIC" || starts_with v "HANG" then
                  mism !opno "api" (Printf.sprintf "%s parser on %S: %s" m w v)
                else begin
                  (* with precedence levels: the parser must behave as the one the modelled construction resolves *)
                  (if !prec <> "" then match Hashtbl.find_opt model_tables m with
                    | Some mt ->
                      let ms = match parse big_fuel mt wt with
                        | Accepted evs -> "A[" ^ String.concat ";" (List.map string_of_prod (prods_of evs)) ^ "]" ^ string_of_tree (ast_of evs)
                        | Rejected (rest, _) -> Printf.sprintf "R@%d" (String.length w - List.length rest)
                        | Hang -> "HANG" in
                      bump "prec_parses_compared_with_model_table" 1;
                      if ms <> v then
                        mism !opno "api" (Printf.sprintf "%s parser on %S: implementation %s; the table resolved by the modelled ResolveConflicts (handle of a production = its first terminal) gives %s" m w v ms)
                    | None -> ());
                  (match member with
                   | Some mb when mb <> go_acc && (go_acc || !prec = "" || expr_ops <> None) ->
                     mism !opno "api" (Printf.sprintf "%s parser %s %S, which %s a sentence of the grammar"
                       m (if go_acc then "accepts" else "rejects") w (if mb then "is" else "is not"))
                   | _ -> ());
                  if go_acc <> model_acc then
                    mism !opno "api" (Printf.sprintf "%s parser on %S: implementation %s, proved driver on the same table %s" m w v model_s)
                  else if v <> model_s then begin
                    if go_acc then
                      mism !opno "api" (Printf.sprintf "%s parser on %S: productions/AST differ: implementation %s, proved driver %s" m w v model_s)
                    else
                      mism !opno "fidelity" (Printf.sprintf "%s parser on %S: error position differs: implementation %s, model %s" m w v model_s)
                  end;
                  (* grouping of  id o1 id o2 id  under the declared precedence *)
                  (match expr_ops with
                   | Some _ when go_acc && String.length w = 5 && w.[0] = 'i' && w.[2] = 'i' && w.[4] = 'i' && is_op w.[1] && is_op w.[3] ->
                     let x = w.[1] and y = w.[3] in
                     let e = "E=i[i]" in
                     let sx = String.make 1 x and sy = String.make 1 y in
                     (match group_left levels (opn x) (opn y) with
                      | Some left ->
                        bump "grouping_checks" 1;
                        let expect =
                          if left then "E=E" ^ sy ^ "E[E=E" ^ sx ^ "E[" ^ e ^ sx ^ e ^ "]" ^ sy ^ e ^ "]"
                          else "E=E" ^ sx ^ "E[" ^ e ^ sx ^ "E=E" ^ sy ^ "E[" ^ e ^ sy ^ e ^ "]]" in
                        let got = match String.index_opt v ']' with
                          | Some i -> String.sub v (i + 1) (String.length v - i - 1) | None -> v in
                        if got <> expect then
                          mism !opno "api" (Printf.sprintf "%s parser groups %S as %s; the declared precedence/associativity prescribes %s" m w got expect)
                      | None -> ())
                   | _ -> ());
                  (match model with
                   | Accepted evs when go_acc ->
                     let ps = prods_of evs in
                     let t = ast_of evs in
                     if not (rm_check g ps wt) then
                       mism !opno "api" (Printf.sprintf "%s parser on %S: emitted productions are not a rightmost derivation in reverse" m w);
                     if yield t <> List.map (fun a -> Some a) wt then
                       mism !opno "api" (Printf.sprintf "%s parser on %S: AST yield differs from the input" m w);
                     if postorder t <> ps then
                       mism !opno "api" (Printf.sprintf "%s parser on %S: AST does not carry the emitted productions" m w)
                   | _ -> ())
                end
              | _ -> ()) (split_on res " ")
          | _ -> ()) opl;
        (* SLR ok => LALR ok => canonical ok *)
        let ok m = match Hashtbl.find_opt status m with Some ("OK", _) -> Some true | Some ("CONFLICT", _) -> Some false | _ -> None in
        let at m = match Hashtbl.find_opt status m with Some (_, i) -> i | None -> 0 in
        (match ok "slr", ok "lalr" with
         | Some true, Some false -> mism (at "lalr") "api" "SLR construction succeeds but LALR reports a conflict"
         | _ -> ());
        (match ok "lalr", ok "clr" with
         | Some true, Some false -> mism (at "clr") "api" "LALR construction succeeds but canonical LR reports a conflict"
         | _ -> ());
        (match ok "slr", ok "clr" with
         | Some true, Some false -> mism (at "clr") "api" "SLR construction succeeds but canonical LR reports a conflict"
         | _ -> ());
        (match ok "slr", ok "lalr", ok "clr" with
         | Some true, _, _ -> bump "class_slr" 1
         | Some false, Some true, _ -> bump "class_lalr_not_slr" 1
         | Some false, Some false, Some true -> bump "class_lr1_not_lalr" 1
         | Some false, Some false, Some false -> bump "class_not_lr1" 1
         | _ -> ());
        List.iter print_string (List.rev !pending_api);
        List.iter print_string (List.rev !pending_fid);
        bump "accepted_parses" !accepted; bump "rejected_parses" !rejected;
        (* non-trivial: at least one table was built and both an accepted and a rejected string were seen *)
        if !built_ok > 0 && !accepted > 0 && !rejected > 0 then begin
          Hashtbl.replace nontrivial (head ^ string_of_int (List.length opl)) ();
          if !samples < 3 then begin
            incr samples;
            let l = if String.length line > 300 then String.sub line 0 300 ^ " ..." else line in
            Printf.printf "SAMPLE %s\n" l
          end
        end
      end
    done
  with End_of_file -> ());
  Printf.printf "STAT cases=%d\nSTAT ops=%d\nSTAT nontrivial=%d\n" !cases !ops (Hashtbl.length nontrivial);
  Hashtbl.iter (fun k v -> Printf.printf "STAT %s=%d\n" k v) st
