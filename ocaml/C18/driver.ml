(* C18 driver: replays traced queue / stack / soft-queue cases on the extracted model.

   header:  Q <nodeSize> <eq>   |   S <nodeSize> <eq>   |   SQ <eq>
            <eq> is the EqualFunc given to the constructor: eq (a==b), m3 (a%3==b%3),
            le (a<=b, deliberately asymmetric: pins the argument order equal(element, val);
                Contains mismatches under le are reported as kind=fidelity)
   ops (Q,S):  E v -> -     D -> v,t | 0,f     P -> v,t | 0,f     C v -> t|f     N -> size     Z -> t|f
   ops (SQ):   E v -> idx   D -> v,idx | 0,-1  P -> v,idx         C v -> idx     N -> size     Z -> t|f
               V -> v0,v1,... | -
   W (SQ):     aliasing probe: the harness scribbles over the slice returned by Values(); result = Values "/" t|f
               (flag: the previously handed-out slice was left alone); the model's Values returns a value, so
               W is SValues on the model and the flag is always t
   X (all):    representation snapshot (verif hook): Q nodeSize,listSize,frontIndex,rearIndex,rearPos;block;...
               S nodeSize,listSize,topIndex;block;...   SQ front,rear,len    -- compared as kind=fidelity
   The model is polymorphic in the value type; it is instantiated with OCaml ints, zero = 0.
   Every observable here is one the property speaks about, so every mismatch is kind=api. *)
open Model

let rec pos_of_int n = if n = 1 then XH else if n land 1 = 0 then XO (pos_of_int (n lsr 1)) else XI (pos_of_int (n lsr 1))
let z_of_int n = if n = 0 then Z0 else if n > 0 then Zpos (pos_of_int n) else Zneg (pos_of_int (-n))
let rec int_of_pos = function XH -> 1 | XO p -> 2 * int_of_pos p | XI p -> 2 * int_of_pos p + 1
let int_of_z = function Z0 -> 0 | Zpos p -> int_of_pos p | Zneg p -> - (int_of_pos p)

let split_on s sep = Str.split (Str.regexp_string sep) s
let trim = String.trim
let b2s b = if b then "t" else "f"

let eq_of = function
  | "eq" -> (fun (a : int) b -> a = b)
  | "m3" -> (fun a b -> ((a mod 3) + 3) mod 3 = ((b mod 3) + 3) mod 3)
  | "le" -> (fun a b -> a <= b)
  | s -> failwith ("unknown eq kind " ^ s)

type st = Q of int queue | S of int stack | SQ of int softq

let counters : (string, int) Hashtbl.t = Hashtbl.create 32
let bump k = Hashtbl.replace counters k (1 + try Hashtbl.find counters k with Not_found -> 0)
let maxc k v = if v > (try Hashtbl.find counters k with Not_found -> 0) then Hashtbl.replace counters k v

let out_str = function
  | OutNone -> "-"
  | OutVal (v, ok) -> Printf.sprintf "%d,%s" v (b2s ok)
  | OutBool b -> b2s b
  | OutInt z -> string_of_int (int_of_z z)

let sout_str = function
  | SOIdx z -> string_of_int (int_of_z z)
  | SOValIdx (v, z) -> Printf.sprintf "%d,%d" v (int_of_z z)
  | SOBool b -> b2s b
  | SOVals [] -> "-"
  | SOVals l -> String.concat "," (List.map string_of_int l)

let rec len = function [] -> 0 | _ :: t -> 1 + len t
let rec int_of_nat = function O -> 0 | S n -> 1 + int_of_nat n

let blocks_str bs =
  String.concat "" (List.map (fun b -> ";" ^ String.concat " " (List.map string_of_int b)) bs)

(* the chain of nodes reachable from frontNode, with the position of rearNode in it *)
let q_dump (q : int queue) =
  let heap = Array.of_list q.q_heap in
  let rear = match q.q_rearNode with None -> -1 | Some a -> int_of_nat a in
  let rec walk p i acc pos fuel =
    match p with
    | None -> (List.rev acc, pos)
    | Some a ->
      let a = int_of_nat a in
      if fuel = 0 || a >= Array.length heap then (List.rev acc, -3)
      else walk heap.(a).n_next (i + 1) (heap.(a).n_block :: acc) (if a = rear then i else pos) (fuel - 1) in
  let bs, pos = walk q.q_frontNode 0 [] (if rear = -1 then -1 else -2) (Array.length heap + 1) in
  Printf.sprintf "%d,%d,%d,%d,%d%s" (int_of_z q.q_nodeSize) (int_of_z q.q_listSize)
    (int_of_z q.q_frontIndex) (int_of_z q.q_rearIndex) pos (blocks_str bs)

let s_dump (s : int stack) =
  Printf.sprintf "%d,%d,%d%s" (int_of_z s.s_nodeSize) (int_of_z s.s_listSize) (int_of_z s.s_topIndex)
    (blocks_str s.s_topNode)

let sq_dump (q : int softq) =
  Printf.sprintf "%d,%d,%d" (int_of_z q.sq_front) (int_of_z q.sq_rear) (len q.sq_list)

let () =
  let cases = ref 0 and ops = ref 0 and nontrivial = Hashtbl.create 4096 in
  let lineno = ref 0 and samples = ref 0 in
  (try
    while true do
      let line = input_line stdin in
      if String.length line > 0 && line.[0] <> '#' then begin
        incr lineno; incr cases;
        let parts = List.map trim (split_on line "|") in
        let head = List.hd parts and body = List.tl parts in
        let htoks = Array.of_list (split_on head " ") in
        let kind = htoks.(0) in
        let ns, eqk = if kind = "SQ" then (0, htoks.(1)) else (int_of_string htoks.(1), htoks.(2)) in
        let eqb = eq_of eqk in
        bump ("cases_" ^ kind); bump ("cases_eq_" ^ eqk);
        if kind <> "SQ" then begin bump ("cases_nodeSize_" ^ (if ns <= 8 || List.mem ns [17; 20; 33; 48; 64; 100; 1000] then string_of_int ns else "other")) end;
        let st = ref (match kind with
          | "Q" -> Q (q_new (z_of_int ns)) | "S" -> S (s_new (z_of_int ns)) | _ -> SQ sq_new) in
        let opno = ref 0 and dead = ref false and fid_reported = ref false in
        let ev_grow = ref 0 and ev_shrink = ref 0 and ev_refill = ref 0 and ev_adds = ref 0 and ev_removes = ref 0 and maxsize = ref 0 in
        List.iter (fun opres ->
          if not !dead then begin
          incr opno; incr ops;
          let op, res = match split_on opres "->" with
            | [a; b] -> (trim a, trim b) | [a] -> (trim a, "?") | _ -> (opres, "?") in
          let toks = Array.of_list (split_on op " ") in
          let arg i = int_of_string toks.(i) in
          if toks.(0) = "X" then begin
            bump "snapshots_compared";
            let m = (match !st with Q q -> q_dump q | S s -> s_dump s | SQ q -> sq_dump q) in
            if res <> "?" && res <> m && not !fid_reported then begin
              (* reported once per case; the api observables that follow are still compared (the model's
                 state does not depend on the implementation's answers), so a representation difference
                 never hides a property-level one later in the same case *)
              fid_reported := true;
              let cut x = if String.length x > 300 then String.sub x 0 300 ^ "..." else x in
              Printf.printf "MISMATCH line=%d op=%d kind=fidelity what=%s: representation snapshot: implementation %s, model %s\n"
                !lineno !opno head (cut res) (cut m)
            end
          end else
          let expect =
            match !st with
            | (Q _ | S _) as s0 ->
              let o = (match toks.(0) with
                | "E" -> OpAdd (arg 1) | "D" -> OpRemove | "P" -> OpPeek | "C" -> OpContains (arg 1)
                | "N" -> OpSize | "Z" -> OpIsEmpty | t -> failwith ("bad op " ^ t)) in
              (match s0 with
               | Q q ->
                 (match q_step 0 eqb q o with
                  | Ok (q', r) ->
                    (* structural events, read off the model state *)
                    (match o with
                     | OpAdd _ ->
                       incr ev_adds;
                       if len q'.q_heap > len q.q_heap then begin
                         if q.q_frontNode <> None then (incr ev_grow; bump "q_rear_block_links")
                         else if q.q_heap <> [] then (incr ev_refill; incr ev_grow; bump "q_refills_after_boundary_drain")
                       end
                     | OpRemove ->
                       if q'.q_frontNode <> q.q_frontNode then begin
                         incr ev_shrink;
                         if q'.q_frontNode = None then bump "q_drains_to_nil_front" else bump "q_front_block_advances"
                       end;
                       (match r with OutVal (_, true) -> incr ev_removes | _ -> bump "removes_on_empty")
                     | OpContains _ -> (match r with OutBool true -> bump "contains_true" | _ -> bump "contains_false")
                     | _ -> ());
                    let sz = int_of_z q'.q_listSize in if sz > !maxsize then maxsize := sz;
                    st := Q q'; out_str r
                  | Panic -> dead := true; "PANIC"
                  | Hang -> dead := true; "HANG")
               | S s ->
                 (match s_step 0 eqb s o with
                  | Ok (s', r) ->
                    (match o with
                     | OpAdd _ ->
                       incr ev_adds;
                       if len s'.s_topNode > len s.s_topNode then begin
                         if s.s_topNode <> [] then (incr ev_grow; bump "s_block_pushes")
                         else if !ev_removes > 0 then (incr ev_refill; bump "s_refills_after_drain")
                       end
                     | OpRemove ->
                       if len s'.s_topNode < len s.s_topNode then begin
                         if s'.s_topNode = [] then bump "s_drains" else (incr ev_shrink; bump "s_block_pops")
                       end;
                       (match r with OutVal (_, true) -> incr ev_removes | _ -> bump "removes_on_empty")
                     | OpContains _ -> (match r with OutBool true -> bump "contains_true" | _ -> bump "contains_false")
                     | _ -> ());
                    let sz = int_of_z s'.s_listSize in if sz > !maxsize then maxsize := sz;
                    st := S s'; out_str r
                  | Panic -> dead := true; "PANIC"
                  | Hang -> dead := true; "HANG")
               | SQ _ -> assert false)
            | SQ q ->
              let o = (match toks.(0) with
                | "E" -> SEnqueue (arg 1) | "D" -> SDequeue | "P" -> SPeek | "C" -> SContains (arg 1)
                | "N" -> SSize | "Z" -> SIsEmpty | "V" | "W" -> SValues | t -> failwith ("bad op " ^ t)) in
              let probe = toks.(0) = "W" in
              if probe then bump "values_aliasing_probes";
              (match sq_step 0 eqb q o with
               | Ok (q', r) ->
                 (match o with
                  | SEnqueue _ -> incr ev_adds; if !ev_removes > 0 then incr ev_refill
                  | SDequeue -> (match r with SOValIdx (_, Zneg _) -> bump "removes_on_empty" | _ -> incr ev_removes)
                  | SContains _ -> (match r with SOIdx (Zneg _) -> bump "contains_false" | _ -> bump "contains_true")
                  | _ -> ());
                 let sz = len q'.sq_list in if sz > !maxsize then maxsize := sz;
                 st := SQ q'; if probe then sout_str r ^ "/t" else sout_str r
               | Panic -> dead := true; "PANIC"
               | Hang -> dead := true; "HANG")
          in
          if res <> "?" && res <> expect && not (!fid_reported && eqk = "le" && toks.(0) = "C") then begin
            (* Contains under the asymmetric EqualFunc "le" depends on the order in which the code passes
               (stored element, searched value) to the EqualFunc; for an equality that order is
               immaterial, so this is a fidelity observable, not one the property constrains *)
            let kindm = if eqk = "le" && toks.(0) = "C" then "fidelity" else "api" in
            Printf.printf "MISMATCH line=%d op=%d kind=%s what=%s: %s: implementation %s, %s %s\n"
              !lineno !opno kindm head op res (if kindm = "api" then "proved model" else "model (EqualFunc argument order)") expect;
            (* after an api divergence stop comparing this case (cascades); a fidelity one is reported once *)
            if kindm = "api" then dead := true else fid_reported := true
          end
          end
        ) body;
        maxc "max_size" !maxsize;
        maxc "max_ops_per_case" !opno;
        let nt = match kind with
          | "SQ" -> !ev_adds >= 2 && !ev_removes >= 1
          | _ -> !ev_grow >= 1 && !ev_shrink >= 1 in
        if !ev_refill > 0 then bump "cases_with_refill_after_drain";
        if nt then begin
          (* distinct = distinct (header, op list without results) *)
          let key = Digest.string (head ^ "|" ^ String.concat "|" (List.map (fun o -> trim (List.hd (split_on o "->"))) body)) in
          Hashtbl.replace nontrivial key ();
          if !samples < 4 then begin
            incr samples;
            let l = if String.length line > 400 then String.sub line 0 400 ^ " ..." else line in
            Printf.printf "SAMPLE %s\n" l
          end
        end
      end
    done
  with End_of_file -> ());
  Printf.printf "STAT cases=%d\nSTAT ops=%d\nSTAT nontrivial=%d\n" !cases !ops (Hashtbl.length nontrivial);
  Hashtbl.iter (fun k v -> Printf.printf "STAT %s=%d\n" k v) counters
