(* Extraction of the C18 model.  ExtrOcamlBasic only: nat, Z, positive stay Coq datatypes. *)
Require Extraction.
Require Import ExtrOcamlBasic.
From Algo.C18 Require Import Model.
Extraction Language OCaml.
Extraction "model.ml" q_new q_step s_new s_step sq_new sq_step.
