(* C04 driver: replays traced heap cases (binary / binomial / Fibonacci, min or max orientation,
   a pool of heaps per case) on
     (1) the extracted acceptor of the bag specification  -> kind=api      when it rejects an output
     (2) the extracted model (proved to refine the spec)  -> kind=fidelity when the output is allowed
         by the spec but differs from the model's (other extremal entry, other layout).
   header:  <BIN|BNM|FIB> <min|max> <size0> <size1> ...      one initial size per heap of the pool
            MAXDEG                                            ops "<n> -> <maxDegree(n)>"
   ops:     <i> I k v -> -     <i> D -> k,v|none    <i> P -> k,v|none    <i> X -> -     <i> S -> n
            <i> E -> t|f       <i> CK k -> t|f      <i> CV v -> t|f      <i> M j -> -
            <i> DUMP -> <layout>                    <i> V -> t|f  (the package's own verify())
   any result may be PANIC / HANG / skip (op addressed a dead heap; not executed). *)
open Model

let rec pos_of_int n = if n = 1 then XH else if n land 1 = 0 then XO (pos_of_int (n lsr 1)) else XI (pos_of_int (n lsr 1))
let z_of_int n = if n = 0 then Z0 else if n > 0 then Zpos (pos_of_int n) else Zneg (pos_of_int (-n))
let rec nat_of_int n = if n <= 0 then O else S (nat_of_int (n - 1))
let int_of_nat n = let rec go acc = function O -> acc | S m -> go (acc + 1) m in go 0 n

let split_on s sep = Str.split (Str.regexp_string sep) s
let trim = String.trim

(* the comparators of the harness, value for value (the Go comparator contract is
   negative/zero/positive; "minm" etc. return magnitudes) *)
let cmp_of = function
  | "max" -> (fun (a : int) (b : int) -> z_of_int (compare b a))
  | "minm" -> (fun a b -> z_of_int (a - b))
  | "maxm" -> (fun a b -> z_of_int (b - a))
  | "min3" -> (fun a b -> z_of_int (3 * (a - b)))
  | "max3" -> (fun a b -> z_of_int (3 * (b - a)))
  | _ -> (fun (a : int) (b : int) -> z_of_int (compare a b))
let eqv (a : int) (b : int) = a = b
let eqe (a : int * int) (b : int * int) = a = b

(* ---- layout of a model heap, in the format of heap.VerifC04Dump *)
let dump_heap h =
  let b = Buffer.create 256 in
  (match h with
   | HB h ->
     Buffer.add_string b (Printf.sprintf "B %d %d;" (int_of_nat h.b_n) (List.length h.b_arr));
     List.iteri (fun i s ->
         if i > 0 then Buffer.add_char b ',';
         match s with None -> Buffer.add_char b '_' | Some (k, v) -> Buffer.add_string b (Printf.sprintf "%d:%d" k v))
       h.b_arr
   | HN h ->
     Buffer.add_string b (Printf.sprintf "N %d;" (int_of_nat h.n_n));
     let rec tree (BNode (k, v, o, cs)) =
       Buffer.add_string b (Printf.sprintf "(%d:%d:%d" k v (int_of_nat o)); List.iter tree cs; Buffer.add_char b ')' in
     List.iter tree h.n_head
   | HF h ->
     Buffer.add_string b (Printf.sprintf "F %d;" (int_of_nat h.f_n));
     let rec tree (FNode (k, v, d, cs)) =
       Buffer.add_string b (Printf.sprintf "(%d:%d:%d" k v (int_of_nat d)); List.iter tree cs; Buffer.add_char b ')' in
     List.iter tree h.f_ring);
  Buffer.contents b

let heap_size = function HB h -> int_of_nat h.b_n | HN h -> int_of_nat h.n_n | HF h -> int_of_nat h.f_n
let heap_cap = function HB h -> List.length h.b_arr | _ -> 0

let show_out = function
  | ONone -> "-"
  | OEntry None -> "none"
  | OEntry (Some (k, v)) -> Printf.sprintf "%d,%d" k v
  | ONat n -> string_of_int (int_of_nat n)
  | OBool b -> if b then "t" else "f"
  | OPanic -> "PANIC" | OHang -> "HANG" | OSkip -> "skip"

(* implementation result -> out, given the op kind *)
let parse_out opk res =
  if res = "PANIC" || (String.length res > 6 && String.sub res 0 6 = "PANIC:") then OPanic
  else if res = "HANG" then OHang
  else if res = "skip" then OSkip
  else match opk with
    | "I" | "X" | "M" -> if res = "-" then ONone else OPanic
    | "D" | "P" ->
      if res = "none" then OEntry None
      else (match split_on res "," with
          | [a; b] -> OEntry (Some (int_of_string a, int_of_string b))
          | _ -> OPanic)
    | "S" -> ONat (nat_of_int (int_of_string res))
    | _ -> OBool (res = "t")

(* MISMATCH lines are printed at the end, property-level (api) ones first: the check shrinks and
   reports only the first few mismatching cases of a batch, and a case in which only the layout
   differs must not hide a later case with a failing input. *)
let api_buf = Buffer.create 4096 and fid_buf = Buffer.create 4096
let emit kind text =
  let b = if kind = "api" then api_buf else fid_buf in
  if Buffer.length b < 4_000_000 then (Buffer.add_string b text; Buffer.add_char b '\n')

let int_of_z_sign = function Z0 -> 0 | Zpos _ -> 1 | Zneg _ -> -1

let () =
  let big_cases = ref 0 in
  let cases = ref 0 and ops = ref 0 and nontrivial = Hashtbl.create 4096 in
  let by_impl = Hashtbl.create 8 in
  let bump tbl k n = Hashtbl.replace tbl k (n + try Hashtbl.find tbl k with Not_found -> 0) in
  let max_size = ref 0 and grow = ref 0 and shrink = ref 0 and merges = ref 0 and deletes = ref 0 in
  let ties = ref 0 and dumps = ref 0 and maxdeg = ref 0 and skipped = ref 0 and big_deletes = ref 0 in
  let max_pool = ref 0 and max_ops = ref 0 in
  let lineno = ref 0 and samples = ref 0 in
  (try
     while true do
       let line = input_line stdin in
       if String.length line > 0 && line.[0] <> '#' then begin
         incr lineno; incr cases;
         let parts = List.map trim (split_on line "|") in
         let head = List.hd parts and body = List.tl parts in
         let hw = Array.of_list (List.filter (fun s -> s <> "") (split_on head " ")) in
         if hw.(0) = "MAXDEG" then begin
           bump by_impl "MAXDEG" 1;
           let opno = ref 0 in
           List.iter (fun opres ->
               incr opno; incr maxdeg;
               match split_on opres "->" with
               | [a; b] ->
                 let n = int_of_string (trim a) and d = trim b in
                 let m = int_of_nat (max_degree_z (z_of_int n)) in
                 if d <> "?" && string_of_int m <> d then
                   emit "fidelity" (Printf.sprintf "MISMATCH line=%d op=%d kind=fidelity what=maxDegree(%d): implementation (float64) %s, exact model %d"
                     !lineno !opno n d m)
               | _ -> ()) body
         end else if String.length hw.(0) > 0 && hw.(0).[String.length hw.(0) - 1] = '*' then begin
           (* acceptor-only case (large heaps, bulk operations): every output of the implementation is
              judged by the extracted bag-specification acceptor; the exact model is not run.
              <i> IB a cnt mult mod vbase  =  Insert(((a+j)*mult) mod `mod`, vbase+a+j) for j < cnt
              <i> DB cnt -> r1;r2;...      =  cnt Deletes *)
           let cmp = cmp_of hw.(1) in
           let sizes = List.map int_of_string (List.tl (List.tl (Array.to_list hw))) in
           bump by_impl ("big_" ^ hw.(0) ^ "_" ^ hw.(1)) 1;
           let sp = ref (Some (List.map (fun _ -> Some []) sizes)) in
           let held = ref 0 in
           let opno = ref 0 in
           List.iter (fun opres ->
               incr opno; incr ops;
               if !sp <> None then begin
                 let op, res = match split_on opres "->" with
                   | [a; b] -> (trim a, trim b) | [a] -> (trim a, "?") | _ -> (opres, "?") in
                 let toks = Array.of_list (List.filter (fun s -> s <> "") (split_on op " ")) in
                 let i = int_of_string toks.(0) in
                 let k = toks.(1) in
                 let arg j = int_of_string toks.(j) in
                 let mism kind what =
                   emit kind (Printf.sprintf "MISMATCH line=%d op=%d kind=%s what=%s %s %s: %s" !lineno !opno kind hw.(0) hw.(1)
                                (if String.length op > 60 then String.sub op 0 60 else op) what) in
                 let feed kk a r =
                   (* one operation with the implementation's result r *)
                   match !sp with
                   | None -> ()
                   | Some p ->
                     if r = "skip" then ()
                     else if r = "?" then
                       (match a with
                        | Insert _ | DeleteAll -> (match check_pstep cmp eqv eqe p (nat_of_int i, a) ONone with Some p' -> sp := Some p' | None -> sp := None)
                        | Delete -> sp := None          (* unknown answer: the bag can no longer be followed *)
                        | _ -> ())
                     else begin
                       let io = parse_out kk r in
                       (match a, io with Insert _, ONone -> incr held | Delete, OEntry (Some _) -> (incr deletes; incr big_deletes; decr held) | _ -> ());
                       if !held > !max_size then max_size := !held;
                       match check_pstep cmp eqv eqe p (nat_of_int i, a) io with
                       | Some p' -> sp := Some p'
                       | None ->
                         sp := None;
                         mism "api" (Printf.sprintf "implementation answered %s with %d entries held, which the bag specification does not allow (%s)"
                                       r !held
                                       (match a, List.nth_opt p i with
                                        | (Delete | Peek), Some (Some b) when b <> [] ->
                                          let best = List.fold_left (fun m (k2, _) -> if int_of_z_sign (cmp k2 m) < 0 then k2 else m) (fst (List.hd b)) b in
                                          Printf.sprintf "the extremal held key is %d" best
                                        | _ -> "see the history"))
                     end in
                 match k with
                 | "DUMP" -> ()
                 | "V" -> incr dumps; if res = "f" then mism "fidelity" "the package's verify() answers false (proved true in every reachable state)"
                 | "IB" ->
                   let st = arg 2 and cnt = arg 3 and mult = arg 4 and md = arg 5 and vb = arg 6 in
                   if res = "PANIC" || res = "HANG" then feed "I" (Insert (0, 0)) res
                   else for j = 0 to cnt - 1 do
                       feed "I" (Insert (((st + j) * mult) mod md, vb + st + j)) (if res = "?" then "?" else "-")
                     done
                 | "DB" ->
                   let cnt = arg 2 in
                   if res = "?" then feed "D" Delete "?"
                   else begin
                     let rs = split_on res ";" in
                     if List.length rs <> cnt then feed "D" Delete "PANIC"
                     else List.iter (fun r -> feed "D" Delete (trim r)) rs
                   end
                 | _ ->
                   let a = match k with
                     | "I" -> Insert (arg 2, arg 3) | "D" -> Delete | "P" -> Peek | "X" -> DeleteAll
                     | "S" -> Size | "E" -> IsEmpty | "CK" -> ContainsKey (arg 2) | "CV" -> ContainsValue (arg 2)
                     | _ -> failwith ("bad op in acceptor-only case " ^ op) in
                   feed k a res
               end) body;
           incr big_cases
         end else begin
           let impl = match hw.(0) with "BIN" -> Binary | "BNM" -> Binomial | _ -> Fibonacci in
           let cmp = cmp_of hw.(1) in
           let sizes = List.map int_of_string (List.tl (List.tl (Array.to_list hw))) in
           bump by_impl (hw.(0) ^ "_" ^ hw.(1)) 1;
           if List.length sizes > !max_pool then max_pool := List.length sizes;
           let mp = ref (p_init impl (List.map nat_of_int sizes)) in
           let sp = ref (Some (List.map (fun _ -> Some []) sizes)) in   (* spec state; None after an api mismatch *)
           let in_sync = ref true in                                     (* model still equals implementation *)
           let events = ref 0 in
           let opno = ref 0 in
           let nops = List.length body in
           if nops > !max_ops then max_ops := nops;
           List.iter (fun opres ->
               incr opno; incr ops;
               if !sp <> None then begin
                 let op, res = match split_on opres "->" with
                   | [a; b] -> (trim a, trim b) | [a] -> (trim a, "?") | _ -> (opres, "?") in
                 let toks = Array.of_list (List.filter (fun s -> s <> "") (split_on op " ")) in
                 let i = int_of_string toks.(0) in
                 let k = toks.(1) in
                 let arg j = int_of_string toks.(j) in
                 let live_model = (match List.nth_opt !mp i with Some (Some h) -> Some h | _ -> None) in
                 let mism kind what =
                   emit kind (Printf.sprintf "MISMATCH line=%d op=%d kind=%s what=%s %s %s: %s" !lineno !opno kind hw.(0) hw.(1) op what) in
                 match k with
                 | "DUMP" | "V" ->
                   incr dumps;
                   (match live_model with
                    | Some h when !in_sync && res <> "?" && res <> "skip" ->
                      let m = if k = "DUMP" then dump_heap h else if h_verify cmp h then "t" else "f" in
                      if res <> m then begin
                        mism "fidelity" (Printf.sprintf "implementation %s, model %s" res m);
                        in_sync := false
                      end
                    | _ -> ())
                 | _ ->
                   let a = match k with
                     | "I" -> Insert (arg 2, arg 3) | "D" -> Delete | "P" -> Peek | "X" -> DeleteAll
                     | "S" -> Size | "E" -> IsEmpty | "CK" -> ContainsKey (arg 2) | "CV" -> ContainsValue (arg 2)
                     | "M" -> Merge (nat_of_int (arg 2)) | _ -> failwith ("bad op " ^ op) in
                   let hop = (nat_of_int i, a) in
                   (* statistics from the model state before the step *)
                   (match live_model, a with
                    | Some h, Delete ->
                      incr deletes;
                      if heap_size h >= 3 then (incr events; incr big_deletes)
                    | Some h, Merge j ->
                      (match List.nth_opt !mp (int_of_nat j) with
                       | Some (Some h2) when heap_size h > 0 && heap_size h2 > 0 -> incr merges; incr events
                       | _ -> ())
                    | _ -> ());
                   let cap0 = (match live_model with Some h -> heap_cap h | None -> 0) in
                   let (mp', mo) = p_step cmp eqv !mp hop in
                   (match List.nth_opt mp' i with
                    | Some (Some h) ->
                      if heap_size h > !max_size then max_size := heap_size h;
                      if cap0 > 0 && heap_cap h > cap0 then (incr grow; incr events);
                      if cap0 > 0 && heap_cap h < cap0 then (incr shrink; incr events)
                    | _ -> ());
                   if mo = OSkip then begin
                     (* outside the property's domain: nothing is compared, neither side moves *)
                     incr skipped;
                     if res <> "?" && res <> "skip" then
                       mism "fidelity" (Printf.sprintf "the harness executed an out-of-scope operation (result %s)" res)
                   end else begin
                     mp := mp';
                     if res <> "?" then begin
                       let io = parse_out k res in
                       (match !sp with
                        | Some p ->
                          (* ties: how many held entries share the answered key *)
                          (match io, List.nth_opt p i with
                           | OEntry (Some (kk, _)), Some (Some b) ->
                             if List.length (List.filter (fun (k2, _) -> k2 = kk) b) >= 2 then incr ties
                           | _ -> ());
                          (match check_pstep cmp eqv eqe p hop io with
                           | Some p' -> sp := Some p'
                           | None ->
                             sp := None;
                             mism "api" (Printf.sprintf "implementation answered %s, which the bag specification does not allow here; the proved model answers %s"
                                           res (show_out mo)))
                        | None -> ());
                       if !sp <> None && !in_sync && io <> mo then begin
                         mism "fidelity" (Printf.sprintf "implementation %s, model %s (both allowed by the specification)" res (show_out mo));
                         in_sync := false
                       end
                     end else begin
                       (* no recorded result: advance the specification with the model's answer *)
                       match !sp with
                       | Some p -> (match check_pstep cmp eqv eqe p hop mo with
                           | Some p' -> sp := Some p'
                           | None -> sp := None;
                             mism "api" (Printf.sprintf "model answer %s rejected by the specification" (show_out mo)))
                       | None -> ()
                     end
                   end
               end
             ) body;
           if !events >= 1 then begin
             let key = Digest.string (head ^ "|" ^ String.concat "|" (List.map (fun o -> trim (List.hd (split_on o "->"))) body)) in
             Hashtbl.replace nontrivial key ()
           end;
           if !samples < 4 && !events >= 1 && nops <= 60 then begin
             incr samples;
             let l = if String.length line > 400 then String.sub line 0 400 ^ " ..." else line in
             Printf.printf "SAMPLE %s\n" l
           end
         end
       end
     done
   with End_of_file -> ());
  print_string (Buffer.contents api_buf); print_string (Buffer.contents fid_buf);
  Printf.printf "STAT cases=%d\nSTAT ops=%d\nSTAT nontrivial=%d\n" !cases !ops (Hashtbl.length nontrivial);
  Printf.printf "STAT max_heap_size=%d\nSTAT max_pool=%d\nSTAT max_ops_per_case=%d\n" !max_size !max_pool !max_ops;
  Printf.printf "STAT binary_grow_resizes=%d\nSTAT binary_shrink_resizes=%d\nSTAT merges_of_nonempty_heaps=%d\n" !grow !shrink !merges;
  Printf.printf "STAT deletes=%d\nSTAT deletes_on_3_or_more=%d\nSTAT answers_with_tied_extremal_key=%d\n" !deletes !big_deletes !ties;
  Printf.printf "STAT acceptor_only_large_cases=%d\n" !big_cases;
  Printf.printf "STAT layout_and_verify_comparisons=%d\nSTAT maxdegree_points=%d\nSTAT out_of_scope_ops_ignored=%d\n" !dumps !maxdeg !skipped;
  Hashtbl.iter (fun k v -> Printf.printf "STAT cases_%s=%d\n" k v) by_impl
