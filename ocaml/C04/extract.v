(* Extraction of the C04 model (heaps) and of the executable bag-specification acceptor.
   ExtrOcamlBasic only: nat, Z, positive stay Coq datatypes. *)
Require Extraction.
Require Import ExtrOcamlBasic.
From Algo.C04 Require Import Model Spec.
Extraction Language OCaml.
Extraction "model.ml" p_step p_init h_new h_verify check_pstep max_degree_z max_degree.
