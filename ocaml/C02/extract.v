(* Extraction of the C02/C03 hash-table model.  ExtrOcamlBasic only: nat, N, positive stay Coq datatypes. *)
Require Extraction.
Require Import ExtrOcamlBasic.
Require Import Algo.C02.Model.
Require Import Algo.C02.Spec.
Extraction Language OCaml.
Extraction "model.ml" create put get delete delete_all size is_empty all equal s_get s_put s_rem s_equal.
