(* C02/C03 driver: replays traced hash-table cases on the extracted model and reports differences.

   header:  <chain|linear|quadratic|double> cap=<c> min=<a>/<b> max=<a>/<b> hf=<name> H=<k>:<h>,<k>:<h>,...
            (two tables 0 and 1 are created with these settings; H lists the hash value of every key used)
   ops (X = 0|1):  PX k v -> -     GX k -> v|none     DX k -> v|none     CX -> -  (DeleteAll)
                   SX -> size      ZX -> t|f          AX -> k:v,k:v,.. (iteration order)
                   EX -> t|f  (tX.Equal(t(1-X)))      XX -> m=.. n=.. t=.. <layout>   (VerifHashDump)
   any result may be HANG / PANIC.  Property-level observables (kind=api): P/G/D/S/Z/E results, A as a
   multiset, HANG/PANIC.  Fidelity: A's order and the dump, under the identity shuffle. *)
open Model

let rec pos_of_int n = if n = 1 then XH else if n land 1 = 0 then XO (pos_of_int (n lsr 1)) else XI (pos_of_int (n lsr 1))
let n_of_int n = if n = 0 then N0 else Npos (pos_of_int n)
let rec nat_of_int n = let rec go acc k = if k <= 0 then acc else go (S acc) (k - 1) in go O n
let int_of_nat n = let rec go acc = function O -> acc | S m -> go (acc + 1) m in go 0 n

(* decimal uint64 -> N, through OCaml's unsigned parsing *)
let n_of_u64_string s =
  let v = Int64.of_string ("0u" ^ s) in
  let rec go (v : int64) : positive option =
    (* unsigned shift decomposition *)
    if Int64.equal v 0L then None
    else
      let rest = go (Int64.shift_right_logical v 1) in
      let bit = Int64.logand v 1L <> 0L in
      match rest, bit with
      | None, true -> Some XH
      | None, false -> None
      | Some p, true -> Some (XI p)
      | Some p, false -> Some (XO p) in
  match go v with None -> N0 | Some p -> Npos p

let split_on s sep = Str.split (Str.regexp_string sep) s
let trim = String.trim
let ident (l : nat list) = l

let after_eq tok = match String.index_opt tok '=' with Some i -> String.sub tok (i + 1) (String.length tok - i - 1) | None -> ""
let parse_lf s = match split_on s "/" with
  | [a; b] -> { lf_num = nat_of_int (int_of_string a); lf_den = nat_of_int (int_of_string b) }
  | _ -> failwith ("bad load factor " ^ s)

let dump_soft es =
  let b = Buffer.create 256 and empty = ref 0 in
  let flush () = if !empty > 0 then (Buffer.add_string b (Printf.sprintf "_%d " !empty); empty := 0) in
  List.iter (function
    | None -> incr empty
    | Some e -> flush (); Buffer.add_string b (Printf.sprintf "%d:%d%s " e.e_k e.e_v (if e.e_d then "x" else ""))) es;
  flush (); trim (Buffer.contents b)

let dump (t : (int, int) table) : string =
  match t with
  | TSC t ->
    let b = Buffer.create 256 and empty = ref 0 in
    let flush () = if !empty > 0 then (Buffer.add_string b (Printf.sprintf "_%d " !empty); empty := 0) in
    List.iter (function
      | [] -> incr empty
      | ch -> flush (); Buffer.add_string b (String.concat "," (List.map (fun (k, v) -> Printf.sprintf "%d:%d" k v) ch));
              Buffer.add_char b ' ') t.sc_b;
    flush ();
    Printf.sprintf "m=%d n=%d t=-1 %s" (int_of_nat t.sc_m) (int_of_nat t.sc_n) (trim (Buffer.contents b))
  | TLP t ->
    let b = Buffer.create 256 and empty = ref 0 in
    let flush () = if !empty > 0 then (Buffer.add_string b (Printf.sprintf "_%d " !empty); empty := 0) in
    List.iter (function
      | None -> incr empty
      | Some (k, v) -> flush (); Buffer.add_string b (Printf.sprintf "%d:%d " k v)) t.lp_e;
    flush ();
    Printf.sprintf "m=%d n=%d t=-1 %s" (int_of_nat t.lp_m) (int_of_nat t.lp_n) (trim (Buffer.contents b))
  | TQP t -> Printf.sprintf "m=%d n=%d t=%d %s" (int_of_nat t.qp_m) (int_of_nat t.qp_n) (int_of_nat t.qp_t) (dump_soft t.qp_e)
  | TDH t -> Printf.sprintf "m=%d n=%d t=%d %s" (int_of_nat t.dh_m) (int_of_nat t.dh_n) (int_of_nat t.dh_t) (dump_soft t.dh_e)

let cap_of (t : (int, int) table) = match t with
  | TSC t -> int_of_nat t.sc_m | TLP t -> int_of_nat t.lp_m | TQP t -> int_of_nat t.qp_m | TDH t -> int_of_nat t.dh_m
let tomb_of (t : (int, int) table) = match t with
  | TQP t -> int_of_nat t.qp_t | TDH t -> int_of_nat t.dh_t | _ -> 0

let show_res f = function Ok a -> f a | Panic -> "PANIC" | Hang -> "HANG"
let show_opt = function Some v -> string_of_int v | None -> "none"
let show_all l = String.concat "," (List.map (fun (k, v) -> Printf.sprintf "%d:%d" k v) l)
let sort_all s = String.concat "," (List.sort compare (split_on s ","))

let () =
  let cases = ref 0 and nops = ref 0 and nontrivial = Hashtbl.create 4096 in
  let stat = Hashtbl.create 32 in
  let bump k d = Hashtbl.replace stat k (d + try Hashtbl.find stat k with Not_found -> 0) in
  let smax k v = Hashtbl.replace stat k (max v (try Hashtbl.find stat k with Not_found -> 0)) in
  let lineno = ref 0 and samples = ref 0 in
  (try
    while true do
      let line = input_line stdin in
      if String.length line > 0 && line.[0] <> '#' then begin
        incr lineno; incr cases;
        let parts = List.map trim (split_on line "|") in
        let head = List.hd parts and body = List.tl parts in
        let toks = List.filter (fun s -> s <> "") (split_on head " ") in
        let kind_s = List.hd toks in
        if kind_s = "hashdet" then begin
          (* determinism probes of the library's hash functions: every result must be ok *)
          bump "cases_hashdet" 1;
          let opno = ref 0 in
          List.iter (fun opres ->
            incr opno; incr nops;
            match split_on opres "->" with
            | [a; b] when trim b <> "ok" ->
              Printf.printf "MISMATCH line=%d op=%d kind=api what=hash function %s is not a function of its argument: %s\n" !lineno !opno (trim a) (trim b)
            | _ -> ()) body
        end else
        if kind_s = "client" then begin
          (* a library-internal user of the quadratic table (grammar.Productions): no model; every operation
             must return, and Get must answer like a map from heads to body sets *)
          bump "cases_client" 1;
          let present = Hashtbl.create 64 and opno = ref 0 and evs = ref 0 in
          let acts : (int * int * int, int list) Hashtbl.t = Hashtbl.create 64 in
          let opsig = Buffer.create 256 in
          List.iter (fun opres ->
            incr opno; incr nops;
            let op, res = match split_on opres "->" with
              | [a; b] -> (trim a, trim b) | [a] -> (trim a, "?") | _ -> (opres, "?") in
            Buffer.add_string opsig op; Buffer.add_char opsig ';';
            let f = Array.of_list (List.filter (fun s -> s <> "") (split_on op " ")) in
            let i = (try int_of_string f.(1) with _ -> 0) in
            let ckind = (match toks with _ :: k :: _ -> k | _ -> "productions") in
            let expect = match ckind, f.(0) with
              | "productions", "A" -> Hashtbl.replace present i (); "ok"
              | "productions", ("R" | "X") -> if Hashtbl.mem present i then incr evs; Hashtbl.remove present i; "ok"
              | "productions", "G" -> if Hashtbl.mem present i then "1" else "0"
              | "firstfollow", "B" -> if i > 40 then incr evs; "ok"
              | "firstfollow", "C" -> incr evs; "ok"
              | "firstfollow", "F" -> "1"
              | "firstfollow", "W" -> "0"
              | "lrtable", "N" -> "ok"
              | "lrtable", "A" ->
                (* cell (0,s,a) holds the set of distinct shift targets added so far *)
                let key = (0, i, int_of_string f.(2)) and x = int_of_string f.(3) in
                let cur = (try Hashtbl.find acts key with Not_found -> []) in
                let cur' = if List.mem x cur then cur else x :: cur in
                Hashtbl.replace acts key cur'; incr evs;
                if List.length cur' = 1 then "t" else "f"
              | "lrtable", "S" -> Hashtbl.replace acts (1, i, int_of_string f.(2)) [int_of_string f.(3)]; "ok"
              | "lrtable", "Q" ->
                (match (try Hashtbl.find acts (0, i, int_of_string f.(2)) with Not_found -> []) with
                 | [x] -> string_of_int x | _ -> "err")
              | "lrtable", "G" ->
                (match (try Hashtbl.find acts (1, i, int_of_string f.(2)) with Not_found -> []) with
                 | [x] -> string_of_int x | _ -> "err")
              | _ -> "?" in
            if res <> "?" && res <> expect then
              Printf.printf "MISMATCH line=%d op=%d kind=api what=client %s %s: implementation %s, expected %s\n" !lineno !opno ckind op res expect
          ) body;
          if !evs >= 1 then Hashtbl.replace nontrivial (0, Digest.string (Buffer.contents opsig)) ()
        end else
        let kd = match kind_s with "chain" -> Chain | "linear" -> Linear | "quadratic" -> Quadratic | "double" -> Double
                                   | s -> failwith ("bad kind " ^ s) in
        let cap = ref 0 and minlf = ref { lf_num = O; lf_den = S O } and maxlf = ref { lf_num = S O; lf_den = S O } in
        let hf = ref "?" in
        let htab : (int, n) Hashtbl.t = Hashtbl.create 64 in
        List.iter (fun tok ->
          if String.length tok > 4 && String.sub tok 0 4 = "cap=" then cap := int_of_string (after_eq tok)
          else if String.length tok > 4 && String.sub tok 0 4 = "min=" then minlf := parse_lf (after_eq tok)
          else if String.length tok > 4 && String.sub tok 0 4 = "max=" then maxlf := parse_lf (after_eq tok)
          else if String.length tok > 3 && String.sub tok 0 3 = "hf=" then hf := after_eq tok
          else if String.length tok > 2 && String.sub tok 0 2 = "H=" then
            List.iter (fun kh -> match split_on kh ":" with
              | [k; h] -> Hashtbl.replace htab (int_of_string k) (n_of_u64_string h)
              | _ -> ()) (split_on (after_eq tok) ",")) (List.tl toks);
        let hash k = try Hashtbl.find htab k with Not_found -> N0 in
        let eqb (a : int) (b : int) = a = b in
        let big = List.mem "big=1" toks in
        if big then begin
          (* big tables: property-level comparison against the extracted abstract map (Spec.v: s_get, s_put,
             s_rem, s_equal) only; no layout comparison *)
          bump "cases_big" 1; bump ("cases_" ^ kind_s) 1; bump ("cases_hf_" ^ !hf) 1;
          let sp = [| ([] : (int * int) list); [] |] in
          let opno = ref 0 and dead = ref false and evs = ref 0 in
          let opsig = Buffer.create 256 in
          List.iter (fun opres ->
            if not !dead then begin
            incr opno; incr nops;
            let op, res = match split_on opres "->" with
              | [a; b] -> (trim a, trim b) | [a] -> (trim a, "?") | _ -> (opres, "?") in
            Buffer.add_string opsig op; Buffer.add_char opsig ';';
            let f = Array.of_list (List.filter (fun s -> s <> "") (split_on op " ")) in
            if op = "N" then begin
              Printf.printf "MISMATCH line=%d op=%d kind=api what=%s construction: implementation %s, expected a table\n" !lineno !opno kind_s res;
              dead := true
            end else begin
            let c = f.(0).[0] and x = Char.code f.(0).[1] - 48 in
            let arg i = int_of_string f.(i) in
            let expect = match c with
              | 'P' -> sp.(x) <- s_put eqb sp.(x) (arg 1) (arg 2); "-"
              | 'G' -> show_opt (s_get eqb sp.(x) (arg 1))
              | 'D' -> let o = s_get eqb sp.(x) (arg 1) in
                       if o <> None then incr evs; sp.(x) <- s_rem eqb sp.(x) (arg 1); show_opt o
              | 'C' -> sp.(x) <- []; "-"
              | 'S' -> string_of_int (List.length sp.(x))
              | 'Z' -> if sp.(x) = [] then "t" else "f"
              | 'A' -> sort_all (show_all sp.(x))
              | 'E' -> if s_equal eqb (fun (a : int) b -> a = b) sp.(x) sp.(1 - x) then "t" else "f"
              | _ -> "?" in
            let res' = if c = 'A' && res <> "?" && res <> "HANG" && res <> "PANIC" then sort_all res else res in
            if res <> "?" && expect <> "?" && res' <> expect then
              Printf.printf "MISMATCH line=%d op=%d kind=api what=%s %s: implementation %s, abstract map %s\n" !lineno !opno kind_s op
                (if String.length res > 200 then String.sub res 0 200 ^ "..." else res)
                (if String.length expect > 200 then String.sub expect 0 200 ^ "..." else expect);
            if res = "HANG" || res = "PANIC" then dead := true
            end end) body;
          if !evs >= 1 then Hashtbl.replace nontrivial (Hashtbl.hash (kind_s, !cap, !hf, 1, 1), Digest.string (Buffer.contents opsig)) ()
        end else begin
        bump ("cases_" ^ kind_s) 1; bump ("cases_hf_" ^ !hf) 1;
        let mk () = create kd (nat_of_int !cap) in
        let tabs = [| mk (); mk () |] in
        let dead = ref false in
        let events = ref 0 in
        let opno = ref 0 in
        let opsig = Buffer.create 256 in
        let mism kind what =
          Printf.printf "MISMATCH line=%d op=%d kind=%s what=%s %s\n" !lineno !opno kind kind_s what in
        List.iter (fun opres ->
          if not !dead then begin
          incr opno; incr nops;
          let op, res = match split_on opres "->" with
            | [a; b] -> (trim a, trim b) | [a] -> (trim a, "?") | _ -> (opres, "?") in
          Buffer.add_string opsig op; Buffer.add_char opsig ';';
          let f = Array.of_list (List.filter (fun s -> s <> "") (split_on op " ")) in
          if op = "N" then begin
            (* the constructor failed in the implementation *)
            bump "constructions_rejected" 1;
            (match tabs.(0) with
             | Ok _ -> mism "api" (Printf.sprintf "construction: implementation %s, the proved model accepts these options" res)
             | Panic -> if res <> "PANIC" then mism "api" (Printf.sprintf "construction: implementation %s, proved model PANIC" res)
             | Hang -> mism "api" (Printf.sprintf "construction: implementation %s, proved model HANG" res));
            dead := true
          end else
          let c = f.(0).[0] and x = Char.code f.(0).[1] - 48 in
          let arg i = int_of_string f.(i) in
          match tabs.(x), tabs.(1 - x) with
          | (Panic | Hang), _ ->
            mism "api" (Printf.sprintf "%s: implementation %s, but the constructor of the proved model failed" op res);
            dead := true
          | Ok t, other ->
            let m0 = cap_of t and t0 = tomb_of t and n0 = int_of_nat (size t) in
            let expect, fidelity_expect =
              match c with
              | 'P' ->
                (match put eqb hash !maxlf ident t (arg 1) (arg 2) with
                 | Ok t' ->
                   let m1 = cap_of t' in
                   if m1 > m0 then (bump "resize_up" 1; incr events)
                   else if tomb_of t' < t0 - 1 then (bump "rehash_in_place" 1; incr events)
                   else if tomb_of t' = t0 - 1 then (bump "revivals" 1; incr events);
                   smax "max_m" m1; smax "max_n" (int_of_nat (size t'));
                   tabs.(x) <- Ok t'; "-", None
                 | Panic -> dead := true; "PANIC", None
                 | Hang -> dead := true; "HANG", None)
              | 'G' -> show_res show_opt (get eqb hash t (arg 1)), None
              | 'D' ->
                (match delete eqb hash !minlf !maxlf ident t (arg 1) with
                 | Ok (t', o) ->
                   if cap_of t' < m0 then (bump "resize_down" 1; incr events);
                   if o <> None then (bump "delete_hits" 1; if n0 > 1 then incr events);
                   smax "max_tombstones" (tomb_of t');
                   tabs.(x) <- Ok t'; show_opt o, None
                 | Panic -> dead := true; "PANIC", None
                 | Hang -> dead := true; "HANG", None)
              | 'C' -> tabs.(x) <- Ok (delete_all t); "-", None
              | 'S' -> string_of_int (int_of_nat (size t)), None
              | 'Z' -> (if is_empty t then "t" else "f"), None
              | 'A' -> let a = show_all (all ident t) in sort_all a, Some a
              | 'E' ->
                (match other with
                 | Ok t2 -> show_res (fun b -> if b then "t" else "f") (equal eqb (fun (a : int) b -> a = b) hash ident ident t t2)
                 | _ -> "?"), None
              | 'X' -> "", Some (dump t)
              | _ -> "?", None in
            if res <> "?" then begin
              (match c with
               | 'A' ->
                 if res = "HANG" || res = "PANIC" || sort_all res <> expect then
                   mism "api" (Printf.sprintf "%s: implementation yields {%s}, proved model {%s}" op (if String.length res > 300 then String.sub res 0 300 ^ "..." else res) (if String.length expect > 300 then String.sub expect 0 300 ^ "..." else expect))
                 else (match fidelity_expect with
                     | Some a when a <> res -> mism "fidelity" (Printf.sprintf "%s: same pairs, different iteration order under the identity shuffle" op)
                     | _ -> ())
               | 'X' ->
                 (match fidelity_expect with
                  | Some a when a <> res ->
                    let cut s = if String.length s > 400 then String.sub s 0 400 ^ "..." else s in
                    mism "fidelity" (Printf.sprintf "%s: implementation state [%s], model state [%s]" op (cut res) (cut a))
                  | _ -> ())
               | _ ->
                 if expect <> "?" && res <> expect then
                   mism "api" (Printf.sprintf "%s: implementation %s, proved model %s" op res expect));
              if res = "HANG" || res = "PANIC" then dead := true
            end
          end
        ) body;
        if !events >= 1 then
          Hashtbl.replace nontrivial (Hashtbl.hash (kind_s, !cap, !hf, after_eq (List.nth toks 2), after_eq (List.nth toks 3)), Digest.string (Buffer.contents opsig)) ();
        if !samples < 4 && !events >= 2 then begin
          incr samples;
          let l = if String.length line > 500 then String.sub line 0 500 ^ " ..." else line in
          Printf.printf "SAMPLE %s\n" l
        end
        end
      end
    done
  with End_of_file -> ());
  Printf.printf "STAT cases=%d\nSTAT ops=%d\nSTAT nontrivial=%d\n" !cases !nops (Hashtbl.length nontrivial);
  Hashtbl.iter (fun k v -> Printf.printf "STAT %s=%d\n" k v) stat
