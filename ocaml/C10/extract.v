(* Extraction of the C10 + C12 models (one driver serves both properties).
   ExtrOcamlBasic only: nat stays a Coq datatype. *)
Require Extraction.
Require Import ExtrOcamlBasic.
From Algo.C10 Require Import Model.
From Algo.C12 Require Import Model.
Extraction Language OCaml.
Extraction "model.ml" verify nodup_prods id_oracle analyse first_str_go follow_go cell_prods get_entry
  Parse_bt ParseAndBuildAST_bt yield.
