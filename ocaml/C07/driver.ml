(* C07 driver: replays traced sorting cases on the extracted model and reports differences.

   case line:   <C|I|U|S> | e <element> -> - | ... | <Algorithm> [args] -> <observed output> | ...
     C  comparison sorts on tagged keys; element "e <key> <tag>"; the comparator is 3*(k1-k2),
        it ignores the tag; output "k:t,k:t,..." ("-" when empty)
     I  LSDInt/MSDInt; element "e <16 hex digits, two's complement>"
     U  LSDUint/MSDUint; element "e <16 hex digits>"
     S  LSDString w / MSDString / Quick3WayString / VQuick3WayString; element "e x<hex bytes>"
   Every algorithm op runs on a fresh copy of the elements listed before it.

   kind=api      the property-level observable differs from the proved model: the key sequence
                 of the output (sortedness), the multiset of elements (permutation), the rank-k key
                 of Select, the sorted slice of a radix sort, a panic/hang.
   kind=fidelity only the tie order / an internal function (partition, merge) / an input outside
                 the property's domain (LSDString on strings that do not all have width w) differs. *)
open Model

let rec pos_of_int n = if n = 1 then XH else if n land 1 = 0 then XO (pos_of_int (n lsr 1)) else XI (pos_of_int (n lsr 1))
let z_of_int n = if n = 0 then Z0 else if n > 0 then Zpos (pos_of_int n) else Zneg (pos_of_int (-n))
let rec int_of_pos = function XH -> 1 | XO p -> 2 * int_of_pos p | XI p -> 2 * int_of_pos p + 1
let int_of_z = function Z0 -> 0 | Zpos p -> int_of_pos p | Zneg p -> - (int_of_pos p)

(* 64-bit patterns <-> Z, via Int64 (unsigned interpretation of the bits when [signed] is false) *)
let rec pos_of_u64 (v : int64) : positive =
  if Int64.equal v 1L then XH
  else
    let rest = pos_of_u64 (Int64.shift_right_logical v 1) in
    if Int64.equal (Int64.logand v 1L) 0L then XO rest else XI rest
let z_of_bits ~signed (v : int64) : z =
  if Int64.equal v 0L then Z0
  else if signed && Int64.compare v 0L < 0 then
    (if Int64.equal v Int64.min_int then Zneg (pos_of_u64 v) (* 2^63 as an unsigned pattern *)
     else Zneg (pos_of_u64 (Int64.neg v)))
  else Zpos (pos_of_u64 v)
let rec u64_of_pos = function
  | XH -> 1L
  | XO p -> Int64.shift_left (u64_of_pos p) 1
  | XI p -> Int64.logor (Int64.shift_left (u64_of_pos p) 1) 1L
let bits_of_z = function Z0 -> 0L | Zpos p -> u64_of_pos p | Zneg p -> Int64.neg (u64_of_pos p)
let hex64 v = Printf.sprintf "%016Lx" v

let split_on s sep = Str.split (Str.regexp_string sep) s
let trim = String.trim

let str_of_hex h =            (* "x6162" -> [97;98] as Z list *)
  let n = (String.length h - 1) / 2 in
  List.init n (fun i -> z_of_int (int_of_string ("0x" ^ String.sub h (1 + 2 * i) 2)))
let hex_of_str s = "x" ^ String.concat "" (List.map (fun b -> Printf.sprintf "%02x" (int_of_z b)) s)

let join = function [] -> "-" | l -> String.concat "," l
let unjoin s = if s = "-" || s = "" then [] else String.split_on_char ',' s

(* the comparators of the harness (header C, Cd, C1, Cr, Cb); the model only tests the sign *)
let cmp_for head (k1, _) (k2, _) =
  let d = k1 - k2 in
  z_of_int (match head with
    | "Cd" -> d
    | "C1" -> compare k1 k2
    | "Cr" -> k2 - k1
    | "Cb" -> if d < 0 then - (1 + d * d) else if d > 0 then 1 + d * d else 0
    | _ -> 3 * d)
let is_c head = String.length head > 0 && head.[0] = 'C'
let show_kt (k, t) = Printf.sprintf "%d:%d" k t
let parse_kt s = match String.split_on_char ':' s with [k; t] -> (int_of_string k, int_of_string t) | _ -> (max_int, max_int)

let show_res show = function Ok l -> join (List.map show l) | Panic -> "PANIC" | Hang -> "HANG"

let counters : (string, int) Hashtbl.t = Hashtbl.create 64
let bump ?(by = 1) k = Hashtbl.replace counters k (by + try Hashtbl.find counters k with Not_found -> 0)
let setmax k v = Hashtbl.replace counters k (max v (try Hashtbl.find counters k with Not_found -> 0))

let rnd_of_draws draws =
  let arr = Array.of_list draws in
  fun (i : z) -> let i = int_of_z i in if i >= 0 && i < Array.length arr then z_of_int arr.(i) else Z0

let parse_draws s = List.map int_of_string (unjoin s)

let () =
  let cases = ref 0 and nontrivial = Hashtbl.create 4096 and lineno = ref 0 and samples = ref 0 in
  (* api mismatches are printed as they occur, fidelity mismatches after them: the check plugin
     examines only the first few mismatching cases of a batch, and a property-level failure must
     not be hidden behind tie-order differences *)
  let deferred = Buffer.create 1024 in
  let mismatch line op kind what =
    if kind = "api" then Printf.printf "MISMATCH line=%d op=%d kind=%s what=%s\n" line op kind what
    else if Buffer.length deferred < 200000 then
      Buffer.add_string deferred (Printf.sprintf "MISMATCH line=%d op=%d kind=%s what=%s\n" line op kind what) in
  (try
    while true do
      let line = input_line stdin in
      if String.length line > 0 && line.[0] <> '#' then begin
        incr lineno; incr cases;
        let parts = List.map trim (split_on line "|") in
        let head = List.hd parts and body = List.tl parts in
        bump ("cases_" ^ head);
        let elems_c = ref [] and elems_z = ref [] and elems_s = ref [] in
        let opno = ref 0 in
        let sigbuf = Buffer.create 256 in
        Buffer.add_string sigbuf head;
        let nelem = ref 0 and algs = ref 0 in
        List.iter (fun opres ->
          incr opno;
          let op, res = match split_on opres "->" with
            | [a; b] -> (trim a, trim b) | [a] -> (trim a, "?") | _ -> (opres, "?") in
          Buffer.add_char sigbuf '|'; Buffer.add_string sigbuf op;
          let toks = Array.of_list (List.filter (fun s -> s <> "") (String.split_on_char ' ' op)) in
          let arg i = if i < Array.length toks then toks.(i) else "" in
          if toks.(0) = "e" then begin
            incr nelem;
            (match head with
             | h when is_c h -> elems_c := !elems_c @ [(int_of_string (arg 1), int_of_string (arg 2))]
             | "I" -> elems_z := !elems_z @ [z_of_bits ~signed:true (Int64.of_string ("0x" ^ arg 1))]
             | "U" -> elems_z := !elems_z @ [z_of_bits ~signed:false (Int64.of_string ("0x" ^ arg 1))]
             | _ -> elems_s := !elems_s @ [str_of_hex (arg 1)])
          end else if toks.(0) = "win" then
            (* slice layout on the Go side (a window of a larger backing array); arrays are values in the
               model, so nothing changes here *)
            bump "window_layouts"
          else begin
            incr algs;
            bump ("ops_" ^ toks.(0));
            let report kind what =
              mismatch !lineno !opno kind (Printf.sprintf "%s %s (n=%d): %s" head op !nelem what) in
            if String.length res >= 7 && String.sub res 0 7 = "OUTSIDE" then
              report "api" (Printf.sprintf "implementation changed memory outside the slice it was given (%s): the enclosing slice is no longer the original around a sorted permutation" res)
            else if res <> "?" then
            match head with
            | h when is_c h ->
              let cmp_kt = cmp_for head in
              let a = !elems_c in
              let n = List.length a in
              let keys l = List.map fst l in
              let msort l = List.sort compare l in
              (* full comparison of a deterministic sort *)
              let sort_check ?(exact = true) (m : (int * int) list res) =
                let ms = show_res show_kt m in
                if res = ms then ()
                else match m with
                  | Ok ml when res <> "PANIC" && res <> "HANG" ->
                    let il = List.map parse_kt (unjoin res) in
                    if keys il <> keys ml then
                      report "api" (Printf.sprintf "implementation %s, proved model %s (output keys are not the sorted keys)" res ms)
                    else if msort il <> msort a then
                      report "api" (Printf.sprintf "implementation %s is not a permutation of the input" res)
                    else if exact then
                      report "fidelity" (Printf.sprintf "implementation %s, model %s (same keys, different tie order)" res ms)
                  | _ -> report "api" (Printf.sprintf "implementation %s, proved model %s" res ms) in
              (match toks.(0) with
               | "Selection" -> sort_check (selection cmp_kt a)
               | "Insertion" -> sort_check (insertion cmp_kt a)
               | "Shell" -> sort_check (shell cmp_kt a)
               | "Merge" -> sort_check (merge cmp_kt (0, -1) a)
               | "MergeRec" -> sort_check (mergeRec cmp_kt (0, -1) a)
               | "Quick3Way" -> sort_check (quick3Way cmp_kt a)
               | "Heap" -> sort_check (heap cmp_kt (0, -1) a)
               | "VQuick" -> sort_check (quickCore cmp_kt a)
               | "VQuickRand" -> sort_check (quick cmp_kt (rnd_of_draws (parse_draws (arg 1))) a)
               | "Quick" -> sort_check ~exact:false (quick cmp_kt (fun _ -> Z0) a)
               | "Shuffle" ->
                 let m = shuffle (rnd_of_draws (parse_draws (arg 1))) a in
                 let ms = show_res show_kt m in
                 if res <> ms then begin
                   match m with
                   | Ok _ when res <> "PANIC" && res <> "HANG" ->
                     let il = List.map parse_kt (unjoin res) in
                     if msort il <> msort a then report "api" (Printf.sprintf "implementation %s is not a permutation of the input" res)
                     else report "fidelity" (Printf.sprintf "implementation %s, model %s (a permutation, but not the one these draws give)" res ms)
                   | _ -> report "api" (Printf.sprintf "implementation %s, proved model %s" res ms)
                 end
               | "Select" | "VSelect" ->
                 let k = int_of_string (arg 1) in
                 if k >= 0 && k < n then begin
                   let m = select cmp_kt (fun _ -> Z0) a (z_of_int k) in
                   match m with
                   | Ok (_, x) ->
                     if res = "PANIC" || res = "HANG" then report "api" (Printf.sprintf "implementation %s, proved model %s" res (show_kt x))
                     else begin
                       let ix = parse_kt res in
                       if fst ix <> fst x then
                         report "api" (Printf.sprintf "implementation returned %s, the element of rank %d has key %d" res k (fst x))
                       else if not (List.mem ix a) then
                         report "api" (Printf.sprintf "implementation returned %s which is not an element of the input" res)
                     end
                   | _ -> report "api" (Printf.sprintf "model does not return on a valid rank: %s" (match m with Panic -> "PANIC" | _ -> "HANG"))
                 end else bump "select_out_of_domain"
               | "VPartition" ->
                 let lo = int_of_string (arg 1) and hi = int_of_string (arg 2) in
                 let ms = match partition cmp_kt a (z_of_int lo) (z_of_int hi) with
                   | Ok (l, j) -> Printf.sprintf "%d;%s" (int_of_z j) (join (List.map show_kt l))
                   | Panic -> "PANIC" | Hang -> "HANG" in
                 if res <> ms then report "fidelity" (Printf.sprintf "implementation %s, model %s" res ms)
               | "VMerge" ->
                 let lo = int_of_string (arg 1) and mid = int_of_string (arg 2) and hi = int_of_string (arg 3) in
                 let aux = List.map (fun _ -> (0, -1)) a in
                 let ms = match merge_run cmp_kt a aux (z_of_int lo) (z_of_int mid) (z_of_int hi) with
                   | Ok (l, _) -> join (List.map show_kt l)
                   | Panic -> "PANIC" | Hang -> "HANG" in
                 if res <> ms then report "fidelity" (Printf.sprintf "implementation %s, model %s" res ms)
               | _ -> ())
            | "I" | "U" ->
              let a = !elems_z in
              let m = match toks.(0) with
                | "LSDInt" -> lSDInt a | "MSDInt" -> mSDInt a
                | "LSDUint" -> lSDUint a | "MSDUint" -> mSDUint a
                | "Native" -> Ok (ref_sort Z.leb a)   (* slices.Sort: the spec-level order is Go's native order *)
                | _ -> Ok a in
              let ms = show_res (fun v -> hex64 (bits_of_z v)) m in
              if res <> ms then report "api" (Printf.sprintf "implementation %s, proved model (= the sorted slice) %s" res ms)
            | _ ->
              let a = !elems_s in
              let in_domain = ref true in
              let m = match toks.(0) with
                | "MSDString" -> mSDString a
                | "Native" -> Ok (ref_sort str_leb a)
                | "VQuick3WayString" -> quick3WayStringCore a
                | "Quick3WayString" -> quick3WayString (fun _ -> Z0) a
                | "LSDString" ->
                  let w = int_of_string (arg 1) in
                  if not (List.for_all (fun s -> List.length s = w) a) then (in_domain := false; bump "lsdstring_out_of_domain");
                  lSDString a (z_of_int w)
                | _ -> Ok a in
              let ms = show_res hex_of_str m in
              if res <> ms then
                report (if !in_domain then "api" else "fidelity")
                  (Printf.sprintf "implementation %s, proved model (= the sorted slice) %s" res ms)
          end
        ) body;
        setmax "max_n" !nelem;
        bump ~by:!nelem "elements";
        if !nelem > 16 then bump "cases_n_above_cutoff";
        if !nelem >= 14 && !nelem <= 18 then bump "cases_n_14_to_18";
        (* non-trivial: at least two elements, not already in order, at least one algorithm run *)
        let unsorted =
          let rec inv cmp = function a :: (b :: _ as t) -> cmp a b > 0 || inv cmp t | _ -> false in
          match head with
          | h when is_c h -> inv (fun x y -> int_of_z (cmp_for head x y)) !elems_c
          | "I" -> inv (fun x y -> compare (bits_of_z x) (bits_of_z y)) !elems_z
          | "U" -> inv (fun x y -> Int64.unsigned_compare (bits_of_z x) (bits_of_z y)) !elems_z
          | _ -> inv (fun x y -> compare (List.map int_of_z x) (List.map int_of_z y)) !elems_s in
        if unsorted && !algs > 0 then begin
          Hashtbl.replace nontrivial (Digest.string (Buffer.contents sigbuf)) ();
          if !samples < 4 && !nelem >= 3 then begin
            incr samples;
            let l = if String.length line > 300 then String.sub line 0 300 ^ " ..." else line in
            Printf.printf "SAMPLE %s\n" l
          end
        end
      end
    done
  with End_of_file -> ());
  print_string (Buffer.contents deferred);
  Printf.printf "STAT cases=%d\nSTAT nontrivial=%d\n" !cases (Hashtbl.length nontrivial);
  Hashtbl.iter (fun k v -> Printf.printf "STAT %s=%d\n" k v) counters
