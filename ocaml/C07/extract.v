(* Extraction of the C07 model.  ExtrOcamlBasic only: nat, Z, positive stay Coq datatypes. *)
Require Extraction.
Require Import ExtrOcamlBasic.
From Algo.C07 Require Import Model ProofsRef.
Extraction Language OCaml.
Extraction "model.ml"
  Selection Insertion Shell Merge MergeRec QuickCore Quick partition merge_run SelectCore Select
  Quick3Way Heap Shuffle
  LSDString LSDInt LSDUint MSDString MSDInt MSDUint Quick3WayStringCore Quick3WayString
  ref_sort str_leb Z.leb.
