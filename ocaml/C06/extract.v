(* Extraction of the C06 spec and models.  ExtrOcamlBasic only: nat, N, Z, positive stay Coq datatypes. *)
Require Extraction.
Require Import ExtrOcamlBasic.
From Algo.C06 Require Import Spec Model ModelPat PatInv.
Extraction Language OCaml.
Extraction "model.ml" star s_step b_new b_step b_verify p_new p_step p_verify p_inv_check.
