(* C06 driver: replays traced trie cases on the extracted spec (sorted map) and on the extracted
   models (binary trie, Patricia trie) and reports differences.

   For every op three answers exist: the implementation's (from the trace), the specification's
   ([Model.s_step], the abstract sorted map the property is stated against) and the model's
   (the Gallina transcription of the Go code: [b_step] / [p_step]).
     implementation <> specification on a property observable -> kind=api  (a failing input of C06)
     implementation =  specification but <> model             -> kind=fidelity (the model drifted)
   An api difference that has the exact shape of a recorded, unrepaired Patricia defect AND is
   reproduced by the faithful model gets kind=api.<sig> so that the shrinker keeps that very shape;
   checks/C06.py matches those against KNOWN_FINDINGS.txt.  Unclassified differences are printed
   first. *)
open Model

let rec pos_of_int n = if n = 1 then XH else if n land 1 = 0 then XO (pos_of_int (n lsr 1)) else XI (pos_of_int (n lsr 1))
let n_of_int n = if n = 0 then N0 else Npos (pos_of_int n)
let z_of_int n = if n = 0 then Z0 else if n > 0 then Zpos (pos_of_int n) else Zneg (pos_of_int (-n))
let rec int_of_pos = function XH -> 1 | XO p -> 2 * int_of_pos p | XI p -> 2 * int_of_pos p + 1
let int_of_n = function N0 -> 0 | Npos p -> int_of_pos p
let int_of_z = function Z0 -> 0 | Zpos p -> int_of_pos p | Zneg p -> - (int_of_pos p)

let split_on s sep = Str.split_delim (Str.regexp_string sep) s
let trim = String.trim

let bytes_tbl = Array.init 256 n_of_int
let key_of_hex h =
  if h = "_" then [] else begin
    let n = String.length h / 2 in
    List.init n (fun i -> bytes_tbl.(int_of_string ("0x" ^ String.sub h (2 * i) 2)))
  end
let hex_of_key k =
  if k = [] then "_" else String.concat "" (List.map (fun b -> Printf.sprintf "%02x" (int_of_n b)) k)

let show_kv (k, v) = hex_of_key k ^ ":" ^ string_of_int v
let show_out = function
  | OUnit -> "-"
  | OVal None -> "none"
  | OVal (Some v) -> string_of_int v
  | OKV None -> "none"
  | OKV (Some e) -> show_kv e
  | ONum z -> string_of_int (int_of_z z)
  | OList [] -> "[]"
  | OList l -> String.concat "," (List.map show_kv l)
  | OPanic -> "PANIC"
  | OHang -> "HANG"

let sorted_items s = if s = "[]" then [] else List.sort compare (split_on s ",")

let rec strip_nul k = match List.rev k with N0 :: r -> strip_nul (List.rev r) | _ -> k
let rec is_prefix_l p k = match p, k with [], _ -> true | x :: p', y :: k' -> x = y && is_prefix_l p' k' | _ -> false

(* binary trie dump in the format of trie.VerifDump *)
let dump_bin (t : int bstate) =
  let b = Buffer.create 256 in
  Buffer.add_string b (Printf.sprintf "size=%d " (int_of_z t.bsize));
  let rec go = function
    | Nil -> Buffer.add_char b '.'
    | Node (c, v, l, r) ->
      (match v with
       | Some x -> Buffer.add_string b (Printf.sprintf "(%02x:%d " (int_of_n c) x)
       | None -> Buffer.add_string b (Printf.sprintf "(%02x:- " (int_of_n c)));
      go l; Buffer.add_char b ' '; go r; Buffer.add_char b ')' in
  go t.broot; Buffer.contents b


(* Patricia dump in the format of trie.VerifDump: ids in pre-order along downward links *)
let rec int_of_nat = function O -> 0 | S n -> 1 + int_of_nat n
let dump_pat (t : int pstate) =
  let h = Array.of_list t.pheap in
  let b = Buffer.create 256 in
  Buffer.add_string b (Printf.sprintf "size=%d" (int_of_z t.psize));
  (match t.proot with
   | None -> Buffer.add_string b " root=-"
   | Some r ->
     Buffer.add_string b " root=0";
     let ids = Hashtbl.create 16 and order = ref [] in
     let rec number i =
       if not (Hashtbl.mem ids i) && i < Array.length h && Hashtbl.length ids < 1 lsl 20 then begin
         Hashtbl.replace ids i (Hashtbl.length ids);
         order := i :: !order;
         let n = h.(i) in
         let down = function
           | Some j -> let j = int_of_nat j in
             if j < Array.length h && int_of_z h.(j).n_bp > int_of_z n.n_bp then number j
           | None -> () in
         down n.n_left; down n.n_right
       end in
     number (int_of_nat r);
     let refs = function
       | None -> "-"
       | Some j -> (match Hashtbl.find_opt ids (int_of_nat j) with Some id -> string_of_int id | None -> "?") in
     List.iter (fun i ->
       let n = h.(i) in
       Buffer.add_string b (Printf.sprintf " %d:%d:%s:%d:%s:%s" (Hashtbl.find ids i) (int_of_z n.n_bp)
         (String.concat "" (List.map (fun x -> Printf.sprintf "%02x" (int_of_n x)) n.n_key)) n.n_val (refs n.n_left) (refs n.n_right)))
       (List.rev !order));
  Buffer.contents b

type mm = { line : int; opno : int; kind : string; what : string; len : int }

let () =
  let cases = ref 0 and nops = ref 0 and nontrivial = Hashtbl.create 4096 in
  let by_impl = Hashtbl.create 3 and by_op = Hashtbl.create 32 in
  let bump tbl k = Hashtbl.replace tbl k (1 + try Hashtbl.find tbl k with Not_found -> 0) in
  let max_size = ref 0 and max_keylen = ref 0 and max_hist = ref 0 in
  let put_new = ref 0 and put_over = ref 0 and del_hit = ref 0 and del_miss = ref 0 in
  let del_prefix_rel = ref 0 and absent_arg = ref 0 and present_arg = ref 0 and hi_bytes = ref 0 in
  let nonempty_list = ref 0 and wild = ref 0 and inv_checks = ref 0 in
  let lineno = ref 0 and samples = ref 0 in
  let mms : mm list ref = ref [] in
  (try
    while true do
      let line = input_line stdin in
      if String.length line > 7 && String.sub line 0 7 = "PENDING" then incr lineno
      else if String.length line > 0 && line.[0] <> '#' then begin
        incr lineno; incr cases;
        let parts = List.map trim (split_on line "|") in
        let impl_s = List.hd (split_on (List.hd parts) " ") and body = List.tl parts in
        let pat = impl_s = "PAT" in
        bump by_impl impl_s;
        let spec = ref ([] : (n list * int) list) in
        let bst = ref (b_new : int bstate) in
        let pst = ref (p_new : int pstate) in
        let effective = ref 0 and saw_prefix_rel = ref false in
        let opno = ref 0 and stop = ref false in
        let opsig = Buffer.create 64 in
        let report kind what =
          mms := { line = !lineno; opno = !opno; kind; what; len = String.length line } :: !mms in
        List.iter (fun opres ->
          if not !stop && opres <> "" then begin
          incr opno; incr nops;
          let op, res = match split_on opres "->" with
            | [a; b] -> (trim a, trim b) | [a] -> (trim a, "?") | a :: _ -> (trim a, "?") | [] -> (opres, "?") in
          let toks = Array.of_list (List.filter (fun s -> s <> "") (split_on op " ")) in
          let k i = key_of_hex toks.(i) in
          bump by_op toks.(0);
          let held kk = List.exists (fun (k', _) -> k' = kk) !spec in
          let arg_stat kk =
            max_keylen := max !max_keylen (List.length kk);
            if List.exists (fun b -> int_of_n b >= 128) kk then incr hi_bytes;
            if held kk then incr present_arg else incr absent_arg in
          let ev = match toks.(0) with
            | "P" -> arg_stat (k 1); Some (EPut (k 1, int_of_string toks.(2)))
            | "G" -> arg_stat (k 1); Some (EGet (k 1))
            | "D" -> arg_stat (k 1); Some (EDelete (k 1))
            | "DMIN" -> Some EDeleteMin | "DMAX" -> Some EDeleteMax | "DALL" -> Some EDeleteAll
            | "SZ" -> Some ESize | "MIN" -> Some EMin | "MAX" -> Some EMax
            | "FL" -> arg_stat (k 1); Some (EFloor (k 1))
            | "CE" -> arg_stat (k 1); Some (ECeiling (k 1))
            | "LP" -> arg_stat (k 1); Some (ELongestPrefixOf (k 1))
            | "SEL" -> Some (ESelect (z_of_int (int_of_string toks.(1))))
            | "RK" -> arg_stat (k 1); Some (ERank (k 1))
            | "RG" -> Some (ERange (k 1, k 2)) | "RS" -> Some (ERangeSize (k 1, k 2))
            | "ALL" -> Some EAll
            | "MA" -> if List.mem star (k 1) then incr wild; Some (EMatch (k 1))
            | "WP" -> arg_stat (k 1); Some (EWithPrefix (k 1))
            | _ -> None in
          match ev with
          | None ->
            (* hook observables: fidelity only *)
            let expect = match toks.(0) with
              | "VF" -> if pat then (match p_verify !pst with ROk true -> "t" | ROk false -> "f" | RPanic -> "PANIC" | RHang -> "HANG") else (if b_verify !bst then "t" else "f")
              | "DUMP" -> if pat then dump_pat !pst else dump_bin !bst
              | _ -> "?" in
            if res <> "?" && expect <> "?" && res <> expect then
              report "fidelity" (Printf.sprintf "%s %s: implementation %s, model %s" impl_s op res expect)
          | Some e ->
            let empty_key = (match e with EPut ([], _) | EGet [] | EDelete [] -> true | _ -> false) in
            if empty_key then () (* outside the property: not replayed *)
            else begin
            let size0 = List.length !spec in
            (match e with
             | EDelete kk | EPut (kk, _) ->
               if List.exists (fun (k', _) -> k' <> kk && (is_prefix_l kk k' || is_prefix_l k' kk)) !spec
               then (saw_prefix_rel := true; if (match e with EDelete _ -> held kk | _ -> false) then incr del_prefix_rel)
             | _ -> ());
            (match e with
             | EPut (kk, _) -> if held kk then incr put_over else incr put_new
             | EDelete kk -> if held kk then incr del_hit else incr del_miss
             | _ -> ());
            let spec0 = !spec in
            let (spec', so) = s_step !spec e in
            let mo =
              if pat then (let (p', o) = p_step !pst e in pst := p'; o)
              else (let (b', o) = b_step !bst e in bst := b'; o) in
            (* the Patricia query theorems (PatInv.v) hold in every state passing p_inv_check; that
               mutators preserve it is not proved, so it is evaluated after every mutator *)
            if pat && (match e with EPut _ | EDelete _ | EDeleteMin | EDeleteMax | EDeleteAll -> true | _ -> false) then begin
              incr inv_checks;
              if not (p_inv_check !pst) then
                report "fidelity" (Printf.sprintf "%s %s: the model state after this mutator fails p_inv_check (premise of the Patricia query theorems)" impl_s op)
            end;
            spec := spec';
            let size1 = List.length !spec in
            max_size := max !max_size size1;
            let mutator = (match e with EPut _ | EDelete _ | EDeleteMin | EDeleteMax | EDeleteAll -> true | _ -> false) in
            if mutator then begin
              Buffer.add_string opsig op; Buffer.add_char opsig ';';
              if size1 <> size0 || (match e with EPut _ -> true | _ -> false) then incr effective
            end;
            (match so with OList (_ :: _) -> incr nonempty_list | _ -> ());
            let ss = show_out so and ms = show_out mo in
            if res <> "?" then begin
              let set_op = (toks.(0) = "MA" || toks.(0) = "WP") in
              let api_equal = if set_op then sorted_items res = sorted_items ss else res = ss in
              if not api_equal then begin
                (* the implementation disagrees with the specification *)
                let faithful = (res = ms) in
                let kind =
                  if not pat || not faithful then "api"
                  else match e with
                    | EWithPrefix _ -> "api.pat-withprefix"
                    | ELongestPrefixOf s ->
                      (match so with
                       | OKV (Some (sk, _)) when res = "none" && sk <> s -> "api.pat-longestprefixof"
                       | _ ->
                         (* answers a held key that is a prefix only after zero padding *)
                         (match mo with
                          | OKV (Some (mk, _)) when not (is_prefix_l mk s) && is_prefix_l (strip_nul mk) (strip_nul s @ [N0; N0; N0; N0; N0; N0; N0; N0]) && strip_nul mk <> mk -> "api.pat-trailing-nul"
                          | _ -> "api"))
                    | EPut (kk, _) ->
                      if res = "PANIC" && List.exists (fun (k', _) -> k' <> kk && strip_nul k' = strip_nul kk) spec0
                      then "api.pat-trailing-nul" else "api"
                    | _ -> "api" in
                report kind (Printf.sprintf "%s %s: implementation %s, specification %s, model %s" impl_s op res ss ms);
                if mutator then stop := true
              end else if res <> ms then
                report "fidelity" (Printf.sprintf "%s %s: implementation %s (= specification), model %s" impl_s op res ms)
            end
            end
          end
        ) body;
        max_hist := max !max_hist !opno;
        if !effective >= 3 && !saw_prefix_rel then Hashtbl.replace nontrivial (impl_s ^ Buffer.contents opsig) ();
        if !samples < 3 && !effective >= 3 && !saw_prefix_rel && String.length line < 4000 then begin
          incr samples;
          let l = if String.length line > 400 then String.sub line 0 400 ^ " ..." else line in
          Printf.printf "SAMPLE %s\n" l
        end
      end
    done
  with End_of_file -> ());
  (* unclassified api first, then fidelity, then one (the shortest case) per known-candidate kind *)
  let all = List.rev !mms in
  let pr m = Printf.printf "MISMATCH line=%d op=%d kind=%s what=%s\n" m.line m.opno m.kind m.what in
  List.iter (fun m -> if m.kind = "api" then pr m) all;
  List.iter (fun m -> if m.kind = "fidelity" then pr m) all;
  let best = Hashtbl.create 8 in
  List.iter (fun m ->
    if m.kind <> "api" && m.kind <> "fidelity" then
      let shape = m.kind ^ " " ^ (match split_on m.what " " with _ :: o :: _ -> o | _ -> "") in
      match Hashtbl.find_opt best shape with
      | Some b when b.len <= m.len -> ()
      | _ -> Hashtbl.replace best shape m) all;
  (* known shapes are exhibited by the corpus (small batches, cheap to shrink); in the big generated
     batches, where they occur by the thousand, they are only counted (the known_shape STAT counters) *)
  if !cases <= 64 then Hashtbl.iter (fun _ m -> pr m) best;
  let count kind = List.length (List.filter (fun m -> m.kind = kind) all) in
  Printf.printf "STAT cases=%d\nSTAT ops=%d\nSTAT nontrivial=%d\nSTAT max_size=%d\nSTAT max_key_len=%d\nSTAT max_ops_per_case=%d\n"
    !cases !nops (Hashtbl.length nontrivial) !max_size !max_keylen !max_hist;
  Printf.printf "STAT put_new=%d\nSTAT put_overwrite=%d\nSTAT delete_present=%d\nSTAT delete_absent=%d\nSTAT delete_of_prefix_or_extension_of_held_key=%d\n"
    !put_new !put_over !del_hit !del_miss !del_prefix_rel;
  Printf.printf "STAT query_arg_present=%d\nSTAT query_arg_absent=%d\nSTAT args_with_byte_ge_0x80=%d\nSTAT list_results_nonempty=%d\nSTAT match_patterns_with_wildcard=%d\n"
    !present_arg !absent_arg !hi_bytes !nonempty_list !wild;
  Printf.printf "STAT patricia_states_passing_p_inv_check=%d\n" !inv_checks;
  Printf.printf "STAT known_shape_pat_withprefix=%d\nSTAT known_shape_pat_longestprefixof=%d\nSTAT known_shape_pat_trailing_nul=%d\n"
    (count "api.pat-withprefix") (count "api.pat-longestprefixof") (count "api.pat-trailing-nul");
  Hashtbl.iter (fun k v -> Printf.printf "STAT cases_%s=%d\n" k v) by_impl;
  Hashtbl.iter (fun k v -> Printf.printf "STAT op_%s=%d\n" k v) by_op
