(* C10 / C12 driver: replays traced grammar-analysis and predictive-parser cases on the extracted
   model and reports differences.  Besides the proved model it carries an independently coded
   characterisation (nullable by marking, FIRST by left-corner reachability, FOLLOW by follow-graph
   reachability, membership by a span table), itself cross-checked on small grammars by
   brute-force enumeration of bounded sentential forms.  Any disagreement of the Go results with
   the model or with the characterisation on a property-level observable is kind=api. *)
open Model

let nat_of_int n = let rec go acc k = if k <= 0 then acc else go (S acc) (k - 1) in go O n
let rec int_of_nat = function O -> 0 | S n -> 1 + int_of_nat n
let split_on s sep = Str.split_delim (Str.regexp_string sep) s
let trim = String.trim

(* ---------------------------------------------------------------- grammars as ints *)
type isym = T of int | N of int
type igram = { nt : int; nn : int; st : int; ps : (int * isym list) array }

let parse_sym f =
  let i = int_of_string (String.sub f 1 (String.length f - 1)) in
  if f.[0] = 't' then T i else N i

let parse_syms s = if s = "" || s = "e" then [] else List.map parse_sym (split_on s ",")

let parse_header h =
  match List.filter (fun x -> x <> "") (split_on h " ") with
  | "G" :: a :: b :: c :: p :: ([] | [ "names=same" ] | [ "names=concat" ]) ->
    let ps = if p = "-" then [] else
        List.map (fun q -> match split_on q ">" with
            | [ hd; bd ] -> (int_of_string hd, parse_syms bd)
            | [ hd ] -> (int_of_string hd, [])
            | _ -> failwith ("bad production " ^ q)) (split_on p ";") in
    { nt = int_of_string a; nn = int_of_string b; st = int_of_string c; ps = Array.of_list ps }
  | _ -> failwith ("bad header " ^ h)

let msym = function T i -> Tm (nat_of_int i) | N i -> Nt (nat_of_int i)
let mprod (h, b) = { head = nat_of_int h; body = List.map msym b }
let range n = List.init n (fun i -> i)
let mgram g = { terms = List.map nat_of_int (range g.nt); nonterms = List.map nat_of_int (range g.nn);
                prods = List.map mprod (Array.to_list g.ps); start = nat_of_int g.st }

let join_ints none xs = if xs = [] then none else String.concat "." (List.map string_of_int xs)
let sorted_nats l = List.sort_uniq compare (List.map int_of_nat l)

(* ---------------------------------------------------------------- independent characterisation *)
let ind_nullable g =
  let nu = Array.make (max g.nn 1) false in
  let ch = ref true in
  while !ch do
    ch := false;
    Array.iter (fun (h, b) ->
        if h < g.nn && not nu.(h) && List.for_all (function N j -> j < g.nn && nu.(j) | T _ -> false) b then
          (nu.(h) <- true; ch := true)) g.ps
  done; nu

(* left corners: A -> X when A -> v X d with v nullable *)
let ind_first_sets g nu =
  let adj = Array.make (max g.nn 1) [] in
  Array.iter (fun (h, b) ->
      let rec go = function
        | [] -> ()
        | (T _ as x) :: _ -> adj.(h) <- x :: adj.(h)
        | (N j as x) :: r -> adj.(h) <- x :: adj.(h); if j < g.nn && nu.(j) then go r in
      if h < g.nn then go b) g.ps;
  Array.init (max g.nn 1) (fun a ->
      let seen = Array.make (max g.nn 1) false and acc = ref [] in
      let rec dfs x = if not seen.(x) then begin
          seen.(x) <- true;
          List.iter (function T t -> if not (List.mem t !acc) then acc := t :: !acc
                            | N j -> if j < g.nn then dfs j) adj.(x) end in
      if a < g.nn then dfs a; List.sort compare !acc)

let rec ind_first_str g nu fs = function
  | [] -> ([], true)
  | T t :: _ -> ([ t ], false)
  | N j :: r -> if nu.(j) then let (ts, e) = ind_first_str g nu fs r in (List.sort_uniq compare (fs.(j) @ ts), e)
    else (fs.(j), false)

(* follow graph: direct followers, and B inherits from A when A -> a B b with b nullable *)
let ind_follow_sets g nu fs =
  let direct = Array.make (max g.nn 1) [] and inh = Array.make (max g.nn 1) [] in
  Array.iter (fun (h, b) ->
      let rec go = function
        | [] -> ()
        | T _ :: r -> go r
        | N j :: r ->
          let (ts, e) = ind_first_str g nu fs r in
          direct.(j) <- ts @ direct.(j);
          if e then inh.(j) <- h :: inh.(j);
          go r in
      go b) g.ps;
  Array.init (max g.nn 1) (fun a ->
      let seen = Array.make (max g.nn 1) false and acc = ref [] and endm = ref false in
      let rec dfs x = if not seen.(x) then begin
          seen.(x) <- true;
          if x = g.st then endm := true;
          acc := direct.(x) @ !acc;
          List.iter dfs inh.(x) end in
      if a < g.nn then dfs a; (List.sort_uniq compare !acc, !endm))

let ind_reachable g =
  let seen = Array.make (max g.nn 1) false in
  let rec dfs x = if x < g.nn && not seen.(x) then begin
      seen.(x) <- true;
      Array.iter (fun (h, b) -> if h = x then List.iter (function N j -> dfs j | T _ -> ()) b) g.ps end in
  dfs g.st; seen

(* membership: span.(A).(i).(j) <-> N A derives w[i..j) ; least fixpoint by iteration *)
let ind_member g (w : int array) =
  let n = Array.length w in
  let span = Array.init (max g.nn 1) (fun _ -> Array.make_matrix (n + 1) (n + 1) false) in
  let ch = ref true in
  while !ch do
    ch := false;
    Array.iter (fun (h, b) ->
        for i = 0 to n do
          (* positions reachable after matching a prefix of the body from i *)
          let cur = ref [ i ] in
          List.iter (fun x ->
              let nxt = ref [] in
              List.iter (fun p ->
                  match x with
                  | T t -> if p < n && w.(p) = t && not (List.mem (p + 1) !nxt) then nxt := (p + 1) :: !nxt
                  | N a -> for q = p to n do
                      if a < g.nn && span.(a).(p).(q) && not (List.mem q !nxt) then nxt := q :: !nxt done) !cur;
              cur := !nxt) b;
          List.iter (fun j -> if not span.(h).(i).(j) then (span.(h).(i).(j) <- true; ch := true)) !cur
        done) g.ps
  done;
  g.st < g.nn && span.(g.st).(0).(n)

(* brute force: all sentential forms reachable from a form by single steps (any position),
   bounded length and count.  exact = the whole reachable space was explored. *)
let brute g (start : isym list) maxlen maxcount =
  let seen = Hashtbl.create 256 and q = Queue.create () and exact = ref true in
  let push f = if List.length f > maxlen then exact := false
    else if not (Hashtbl.mem seen f) then
      (if Hashtbl.length seen >= maxcount then exact := false else (Hashtbl.replace seen f (); Queue.push f q)) in
  push start;
  while not (Queue.is_empty q) do
    let f = Queue.pop q in
    let rec steps pre = function
      | [] -> ()
      | (T _ as x) :: r -> steps (x :: pre) r
      | (N a as x) :: r ->
        Array.iter (fun (h, b) -> if h = a then push (List.rev_append pre (b @ r))) g.ps;
        steps (x :: pre) r in
    steps [] f
  done;
  (Hashtbl.fold (fun f () acc -> f :: acc) seen [], !exact)

let brute_first g alpha =
  let (forms, exact) = brute g alpha 6 1500 in
  let ts = ref [] and e = ref false in
  List.iter (function [] -> e := true | T t :: _ -> if not (List.mem t !ts) then ts := t :: !ts | _ -> ()) forms;
  (List.sort compare !ts, !e, exact)

let brute_follow g =
  let (forms, exact) = brute g [ N g.st ] 6 2500 in
  let fo = Array.make (max g.nn 1) [] and en = Array.make (max g.nn 1) false in
  List.iter (fun f ->
      let rec go = function
        | N a :: (T t :: _ as r) -> if not (List.mem t fo.(a)) then fo.(a) <- t :: fo.(a); go r
        | [ N a ] -> en.(a) <- true
        | _ :: r -> go r
        | [] -> () in go f) forms;
  (Array.map (List.sort compare) fo, en, exact)

(* ---------------------------------------------------------------- printing model values *)
let prod_index (mg : gram) p =
  let rec go i = function [] -> -2 | q :: r -> if prod_eqb p q then i else go (i + 1) r in go 0 mg.prods

let show_set_flag ts flag yes = join_ints "-" ts ^ "/" ^ (if flag then yes else "-")

let show_tree mg t =
  let b = Buffer.create 256 in
  let rec go = function
    | Leaf (a, l) -> Buffer.add_string b (Printf.sprintf "t%d:%d" (int_of_nat a) (int_of_nat l))
    | Node (a, p, ch) ->
      Buffer.add_string b (Printf.sprintf "(n%d#%d" (int_of_nat a) (prod_index mg p));
      List.iter (fun c -> Buffer.add_char b ' '; go c) ch;
      Buffer.add_char b ')' in
  go t; Buffer.contents b

let show_yield y = if y = [] then "-" else
    String.concat "." (List.map (fun (a, l) -> Printf.sprintf "%d:%d" (int_of_nat a) (int_of_nat l)) y)

(* inputs longer than this run on the model without lexemes (unary numerals), and the
   implementation's answer is compared with its lexemes stripped; the check "yield = input with
   the lexemes 0..n-1" on the implementation's tree stays exact *)
let big_input = 300
let strip_lexemes s = Str.global_replace (Str.regexp ":[0-9?]+") "" s
let shorten s = if String.length s > 300 then String.sub s 0 300 ^ " ...[" ^ string_of_int (String.length s) ^ " chars]" else s

let parse_tokens s = if s = "e" || s = "" then [] else List.map int_of_string (split_on s ".")

(* ---------------------------------------------------------------- per-grammar context
   (recomputed when an ADDP / DELP / ADDT op edits the grammar of the case) *)
type ctx = { g : igram; mg : gram; valid : bool; an : analysis option; bt : (table * bool) option;
             nu : bool array Lazy.t; fs : int list array Lazy.t; fo : (int list * bool) array Lazy.t;
             all_reach : bool Lazy.t; small : bool; bfollow : (int list array * bool array * bool) Lazy.t }

let make_ctx g =
  let mg = mgram g in
  let valid = verify mg && nodup_prods mg.prods in
  let an = if valid then analyse mg (id_oracle mg) else None in
  let nu = lazy (ind_nullable g) in
  let fs = lazy (ind_first_sets g (Lazy.force nu)) in
  let fo = lazy (ind_follow_sets g (Lazy.force nu) (Lazy.force fs)) in
  let reach = lazy (ind_reachable g) in
  { g; mg; valid; an; nu; fs; fo;
    bt = (match an with Some a -> Some (a.an_table, a.an_conflict) | None -> None);
    all_reach = lazy (let r = Lazy.force reach in List.for_all (fun i -> r.(i)) (range g.nn));
    small = g.nn <= 2 && g.nt <= 2 && Array.length g.ps <= 4 && Array.for_all (fun (_, b) -> List.length b <= 3) g.ps;
    bfollow = lazy (brute_follow g) }

(* ---------------------------------------------------------------- main loop *)
let stats : (string, int) Hashtbl.t = Hashtbl.create 64
let bump ?(by = 1) k = Hashtbl.replace stats k (by + try Hashtbl.find stats k with Not_found -> 0)
let setmax k v = if v > (try Hashtbl.find stats k with Not_found -> 0) then Hashtbl.replace stats k v

let () =
  let lineno = ref 0 and samples = ref 0 in
  let nontrivial = Hashtbl.create 1024 in
  let fuel_for n = nat_of_int (max 20000 (60 * (n + 10))) in
  (try
     while true do
       let line = input_line stdin in
       if String.length line > 0 && line.[0] <> '#' then begin
         incr lineno; bump "cases";
         let parts = List.map trim (split_on line "|") in
         let head = List.hd parts and body = List.tl parts in
         let ctx = ref (make_ctx (parse_header head)) in
         let opno = ref 0 in
         let mismatch kind fmt =
           Printf.ksprintf (fun s -> Printf.printf "MISMATCH line=%d op=%d kind=%s what=%s\n" !lineno !opno kind s) fmt in
         (let g = !ctx.g in
          setmax "max_nonterminals" g.nn; setmax "max_terminals" g.nt; setmax "max_productions" (Array.length g.ps));
         (match List.filter (fun x -> x <> "") (split_on head " ") with
          | [ _; _; _; _; _; "names=same" ] -> bump "cases_shared_names"
          | [ _; _; _; _; _; "names=concat" ] -> bump "cases_concat_names"
          | _ -> ());
         if !ctx.g.nt >= 20 then bump "wide_grammars";
         let accepted = ref 0 and rejected = ref 0 and did_parse = ref false in
         let fi_count = ref 0 and brute_on = ref true in
         if !ctx.valid && !ctx.an = None then begin
           opno := 0; mismatch "api" "model: a fixpoint loop ran out of fuel on %s (theorems say it cannot)" head end;
         List.iter (fun opres ->
             incr opno; bump "ops";
             let { g; mg; an; bt; nu; fs; fo; all_reach; small; bfollow; _ } = !ctx in
             let op, res = match split_on opres "->" with
               | [ a; b ] -> (trim a, trim b) | [ a ] -> (trim a, "?") | _ -> (opres, "?") in
             let toks = Array.of_list (List.filter (fun x -> x <> "") (split_on op " ")) in
             let api_eq what expect =
               if res <> "?" && res <> expect then
                 mismatch "api" "%s: implementation %s, proved model %s on %s" what res expect head in
             let ind_eq what expect =
               if res <> "?" && res <> expect then
                 mismatch "api" "%s: implementation %s, independent characterisation %s on %s" what res expect head in
             if res = "HANG" then mismatch "api" "%s never returned (watchdog) on %s" op head
             else
             match toks.(0), an with
             | "V", _ -> api_eq "Verify" (if verify mg then "ok" else "err")
             | "RE", _ -> brute_on := false
             | ("ADDP" | "DELP"), _ ->
               bump "op_edit"; brute_on := false;
               let (h, b) = match split_on toks.(1) ">" with
                 | [ hd; bd ] -> (int_of_string hd, parse_syms bd) | _ -> failwith ("bad production " ^ toks.(1)) in
               let l = Array.to_list g.ps in
               let present = List.mem (h, b) l in
               let l' = if toks.(0) = "ADDP" then (if present then l else l @ [ (h, b) ])
                 else List.filter (fun p -> p <> (h, b)) l in
               ctx := make_ctx { g with ps = Array.of_list l' }
             | "ADDT", _ -> bump "op_edit"; brute_on := false; ctx := make_ctx { g with nt = g.nt + 1 }
             | _, None -> bump "ops_skipped_invalid_grammar"
             | "NUL", Some a ->
               bump "op_NUL";
               api_eq "NullableNonTerminals" (join_ints "-" (sorted_nats a.an_nullable));
               let nu = Lazy.force nu in
               ind_eq "NullableNonTerminals" (join_ints "-" (List.filter (fun i -> nu.(i)) (range g.nn)));
               if small && !brute_on then begin
                 List.iter (fun i ->
                     let (_, e, exact) = brute_first g [ N i ] in
                     bump "brute_runs"; if exact then bump "brute_exact";
                     if res <> "?" && res <> "PANIC" then begin
                       let claimed = List.mem i (parse_tokens (if res = "-" then "e" else res)) in
                       if e && not claimed then
                         mismatch "api" "N%d derives the empty string (found by enumeration) but is not in NullableNonTerminals %s on %s" i res head;
                       if exact && claimed && not e then
                         mismatch "api" "N%d is in NullableNonTerminals %s but derives no empty string (exhaustive enumeration) on %s" i res head
                     end) (range g.nn) end
             | "FI", Some a ->
               bump "op_FI"; incr fi_count;
               let alpha = parse_syms toks.(1) in
               setmax "max_alpha_len" (List.length alpha);
               let expect = match first_str_go mg a.an_first (List.map msym alpha) [] with
                 | Ok (ts, e) -> show_set_flag (sorted_nats ts) e "e"
                 | Panic -> "PANIC" in
               if expect = "PANIC" then bump "first_panics_expected";
               api_eq ("FIRST(" ^ toks.(1) ^ ")") expect;
               let in_grammar = List.for_all (function T t -> t < g.nt | N j -> j < g.nn) alpha in
               if in_grammar then begin
                 let nu = Lazy.force nu and fs = Lazy.force fs in
                 let (ts, e) = ind_first_str g nu fs alpha in
                 ind_eq ("FIRST(" ^ toks.(1) ^ ")") (show_set_flag ts e "e");
                 if small && !brute_on && List.length alpha <= 2 && (List.length alpha <= 1 || !fi_count mod 5 = 0) && res <> "?" && res <> "PANIC" then begin
                   let (bts, be, exact) = brute_first g alpha in
                   bump "brute_runs"; if exact then bump "brute_exact";
                   let want = show_set_flag bts be "e" in
                   let (rts, re) = match split_on res "/" with
                     | [ x; y ] -> (parse_tokens (if x = "-" then "e" else x), y = "e") | _ -> ([], false) in
                   if not (List.for_all (fun t -> List.mem t rts) bts) || (be && not re) then
                     mismatch "api" "FIRST(%s): implementation %s misses members found by enumeration %s on %s" toks.(1) res want head;
                   if exact && res <> want then
                     mismatch "api" "FIRST(%s): implementation %s, exhaustive enumeration of sentential forms %s on %s" toks.(1) res want head
                 end
               end
             | "FO", Some a ->
               bump "op_FO";
               let i = int_of_string (String.sub toks.(1) 1 (String.length toks.(1) - 1)) in
               let expect = match follow_go mg a.an_follow (nat_of_int i) with
                 | Ok (ts, e) -> show_set_flag (sorted_nats ts) e "$"
                 | Panic -> "PANIC" in
               api_eq ("FOLLOW(N" ^ string_of_int i ^ ")") expect;
               if i < g.nn then begin
                 let (ts, e) = (Lazy.force fo).(i) in
                 ind_eq ("FOLLOW(N" ^ string_of_int i ^ ")") (show_set_flag ts e "$");
                 if small && !brute_on && res <> "?" && res <> "PANIC" then begin
                   let (bf, be, exact) = Lazy.force bfollow in
                   bump "brute_runs"; if exact then bump "brute_exact";
                   let want = show_set_flag bf.(i) be.(i) "$" in
                   let (rts, re) = match split_on res "/" with
                     | [ x; y ] -> (parse_tokens (if x = "-" then "e" else x), y = "$") | _ -> ([], false) in
                   if not (List.for_all (fun t -> List.mem t rts) bf.(i)) || (be.(i) && not re) then
                     mismatch "api" "FOLLOW(N%d): implementation %s misses members found by enumeration %s on %s" i res want head;
                   if exact && Lazy.force all_reach && res <> want then
                     mismatch "api" "FOLLOW(N%d): implementation %s, exhaustive enumeration of sentential forms %s (all non-terminals reachable) on %s" i res want head
                 end
               end
             | "LL1", Some a ->
               bump "op_LL1";
               let k = int_of_nat a.an_ll1_errors in
               let expect = if k = 0 then "ok" else "err:" ^ string_of_int k in
               if k = 0 then bump "ll1_ok" else bump "ll1_err";
               let cls s = if String.length s >= 3 && String.sub s 0 3 = "err" then "err" else s in
               if res <> "?" && cls res <> cls expect then
                 mismatch "api" "IsLL1: implementation %s, proved model %s on %s" res expect head
               else if res <> "?" && res <> expect then
                 mismatch "fidelity" "IsLL1 error count: implementation %s, model %s on %s" res expect head;
               (* the property: a table conflict always comes with an IsLL1 error *)
               if a.an_conflict && res = "ok" then
                 mismatch "api" "IsLL1 reports no error although the predictive table has a conflict on %s" head
             | ("TBL" | "MTBL"), Some a ->
               if toks.(0) = "MTBL" then bump "op_MTBL";
               bump "op_TBL";
               if a.an_conflict then bump "table_conflict" else bump "table_ok";
               api_eq "BuildParsingTable" (if a.an_conflict then "conflict" else "ok")
             | "CELL", Some a ->
               bump "op_CELL";
               let i = int_of_string (String.sub toks.(1) 1 (String.length toks.(1) - 1)) in
               let la = if toks.(2) = "$" then None else Some (nat_of_int (int_of_string (String.sub toks.(2) 1 (String.length toks.(2) - 1)))) in
               let ps = List.sort compare (List.map (prod_index mg) (cell_prods a.an_table (nat_of_int i) la)) in
               let sync = match get_entry a.an_table (nat_of_int i, la) with Some e -> e.e_sync | None -> false in
               let expect = show_set_flag ps sync "s" in
               if res <> "?" && res <> expect then
                 mismatch "fidelity" "M[N%d,%s]: implementation %s, model %s on %s" i toks.(2) res expect head
             | ("P" | "MP" | "RP"), Some a ->
               bump ("op_" ^ toks.(0)); did_parse := true;
               let w = parse_tokens toks.(1) in
               setmax "max_input_len" (List.length w);
               let big = List.length w > big_input in
               if big then bump "deep_inputs";
               let fuel = fuel_for (List.length w) in
               let mw = List.mapi (fun i t -> (nat_of_int t, if big then O else nat_of_int i)) w in
               let idxs ps = join_ints "-" (List.map (prod_index mg) ps) in
               let expect = match parse_bt bt mg.start fuel mw with
                 | PAccept ps -> incr accepted; bump "parse_accept"; "acc;" ^ idxs ps
                 | PReject (e, ps) -> incr rejected; bump "parse_reject";
                   (match e with EUnexpectedTerminal -> "rej:T;" | EUnacceptable -> "rej:U;"
                                | EExtraInput -> bump "parse_reject_extra_input"; "rej:X;") ^ idxs ps
                 | PTableError -> bump "parse_table_error"; "tblerr"
                 | PPanic -> "PANIC" | PHang -> "HANG" in
               let cls s = if String.length s >= 3 then String.sub s 0 3 else s in
               if res <> "?" then begin
                 if cls res <> cls expect then
                   mismatch "api" "Parse %s: implementation %s, proved model %s on %s" (shorten toks.(1)) (shorten res) (shorten expect) (shorten head)
                 else if cls res = "acc" && res <> expect then
                   mismatch "api" "Parse %s accepted with production sequence %s, proved model %s on %s" (shorten toks.(1)) (shorten res) (shorten expect) (shorten head)
                 else if res <> expect then
                   mismatch "fidelity" "Parse %s: implementation %s, model %s on %s" (shorten toks.(1)) (shorten res) (shorten expect) (shorten head);
                 (* independent: verdict against the span-table recogniser; derivation check *)
                 if not a.an_conflict && List.for_all (fun t -> t < g.nt) w && (cls res = "acc" || cls res = "rej") then begin
                   if List.length w <= 60 then begin
                     (* the span table is quadratic in the input length *)
                     let inl = ind_member g (Array.of_list w) in
                     bump "membership_checks";
                     if inl && cls res = "rej" then
                       mismatch "api" "Parse %s rejected a sentence of the grammar (independent recogniser) on %s" toks.(1) head;
                     if (not inl) && cls res = "acc" then
                       mismatch "api" "Parse %s accepted a string that is not a sentence (independent recogniser) on %s" toks.(1) head
                   end;
                   if cls res = "acc" then begin
                     match split_on res ";" with
                     | [ _; seq ] ->
                       let seq = parse_tokens (if seq = "-" then "e" else seq) in
                       (* replay: the consumed terminal prefix is checked against the input as it appears *)
                       let wa = Array.of_list w in
                       let form = ref [ N g.st ] and ok = ref true and pos = ref 0 in
                       let rec strip () = match !form with
                         | T t :: r -> if !pos < Array.length wa && wa.(!pos) = t then (incr pos; form := r; strip ()) else ok := false
                         | _ -> () in
                       List.iter (fun pi ->
                           if !ok then begin
                             strip ();
                             if pi < 0 || pi >= Array.length g.ps then ok := false else
                               let (h, b) = g.ps.(pi) in
                               match !form with
                               | N a :: r when a = h -> form := b @ r
                               | _ -> ok := false end) seq;
                       if !ok then strip ();
                       if not (!ok && !form = [] && !pos = Array.length wa) then
                         mismatch "api" "Parse %s: the emitted productions %s are not a leftmost derivation of the input on %s" (shorten toks.(1)) (shorten res) (shorten head)
                     | _ -> ()
                   end
                 end
               end
             | ("A" | "MA"), Some a ->
               bump ("op_" ^ toks.(0)); did_parse := true;
               let w = parse_tokens toks.(1) in
               let big = List.length w > big_input in
               let fuel = fuel_for (List.length w) in
               let mw = List.mapi (fun i t -> (nat_of_int t, if big then O else nat_of_int i)) w in
               let expect = match parseAndBuildAST_bt bt mg.start fuel mw with
                 | PAccept (Some t) -> "acc;" ^ show_yield (yield t) ^ ";" ^ show_tree mg t
                 | PAccept None -> "acc;BROKEN"
                 | PReject _ -> "rej"
                 | PTableError -> "tblerr"
                 | PPanic -> "PANIC" | PHang -> "HANG" in
               let cls s = if String.length s >= 3 then String.sub s 0 3 else s in
               if res <> "?" then begin
                 if cls res <> cls expect then
                   mismatch "api" "ParseAndBuildAST %s: implementation %s, proved model %s on %s" (shorten toks.(1)) (shorten res) (shorten expect) (shorten head)
                 else if cls res = "acc" then begin
                   let want_yield = if w = [] then "-" else String.concat "." (List.mapi (fun i t -> Printf.sprintf "%d:%d" t i) w) in
                   (match split_on res ";" with
                    | _ :: y :: _ when y = want_yield -> ()
                    | _ -> mismatch "api" "ParseAndBuildAST %s: the yield of the tree %s is not the input on %s" (shorten toks.(1)) (shorten res) (shorten head));
                   if (if big then strip_lexemes res <> strip_lexemes expect else res <> expect) then
                     mismatch "fidelity" "ParseAndBuildAST %s: implementation tree %s, model %s on %s" (shorten toks.(1)) (shorten res) (shorten expect) (shorten head)
                 end
               end
             | _ -> if res <> "?" then mismatch "api" "unknown op %s" op
           ) body;
         (let { g; an; all_reach; _ } = !ctx in
          match an with
          | Some a ->
            if a.an_nullable <> [] then bump "grammars_with_nullable";
            if not (Lazy.force all_reach) then bump "grammars_with_unreachable";
            let propagated = List.exists (fun (x, o) -> match o with
                | Some t -> not (Array.exists (fun (h, b) -> h = int_of_nat x && (match b with T u :: _ -> u = int_of_nat t | _ -> false)) g.ps)
                | None -> false) a.an_first in
            let nt =
              if !did_parse then (not a.an_conflict) && !accepted > 0 && !rejected > 0
              else a.an_nullable <> [] || propagated in
            if nt then begin
              Hashtbl.replace nontrivial head ();
              if !samples < 3 then begin
                incr samples;
                Printf.printf "SAMPLE %s\n" (if String.length line > 300 then String.sub line 0 300 ^ " ..." else line)
              end
            end
          | None -> ())
       end
     done
   with End_of_file -> ());
  Printf.printf "STAT nontrivial=%d\n" (Hashtbl.length nontrivial);
  if not (Hashtbl.mem stats "cases") then Printf.printf "STAT cases=0\n";
  Hashtbl.iter (fun k v -> Printf.printf "STAT %s=%d\n" k v) stats
