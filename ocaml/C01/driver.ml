(* C01 / C15 driver: replays traced ordered-symbol-table cases on the extracted model
   (Model.step) and reports differences.  The same source serves both properties:
     driver            (or -prop C01)  sorted-map observables are kind=api, shape/layout is fidelity
     driver -prop C15                  Height(), balance and colour invariants of the implementation's
                                       own shape (from its traversals and the hook dump) are kind=api
   ocaml/C15/driver.ml is a copy of ocaml/C01/driver.ml. *)
open Model

let rec pos_of_int n = if n = 1 then XH else if n land 1 = 0 then XO (pos_of_int (n lsr 1)) else XI (pos_of_int (n lsr 1))
let z_of_int n = if n = 0 then Z0 else if n > 0 then Zpos (pos_of_int n) else Zneg (pos_of_int (-n))
let rec int_of_pos = function XH -> 1 | XO p -> 2 * int_of_pos p | XI p -> 2 * int_of_pos p + 1
let int_of_z = function Z0 -> 0 | Zpos p -> int_of_pos p | Zneg p -> - (int_of_pos p)
let rec nat_of_int n = if n <= 0 then O else S (nat_of_int (n - 1))
let rec int_of_nat = function O -> 0 | S n -> 1 + int_of_nat n

let split_on s sep = Str.split_delim (Str.regexp_string sep) s
let trim = String.trim
let ios s = int_of_string (trim s)

let prop = ref "C01"

let pred id : z -> z -> bool = fun kz vz ->
  let k = int_of_z kz and v = int_of_z vz in
  match id with
  | 0 -> false
  | 1 -> true
  | 2 -> k land 1 = 0
  | 3 -> k >= 5
  | 4 -> v mod 3 = 0
  | 5 -> (k + v) land 1 = 1
  | 6 -> k land 3 = 0
  | _ -> if id >= 1000 then k < id - 1000 else k < 4

let order_of_int = function
  | 0 -> VLR | 1 -> VRL | 2 -> LVR | 3 -> RVL | 4 -> LRV | 5 -> RLV | 6 -> Ascending | 7 -> Descending
  | _ -> OtherOrder

let impl_of = function "BST" -> BST | "AVL" -> AVL | _ -> RB
let cmp_of = function
  | "desc" -> cmp_desc | "diff" -> cmp_diff | "rdiff" -> cmp_rdiff | "diff3" -> cmp_diff3 | "half" -> cmp_half
  | _ -> cmp_asc
let eqv (a : z) (b : z) = (a = b)

let kv_s (k, v) = string_of_int (int_of_z k) ^ ":" ^ string_of_int (int_of_z v)
let list_s l = if l = [] then "[]" else String.concat "," (List.map kv_s l)
let okv_s = function None -> "none" | Some p -> kv_s p

let out_s = function
  | OUnit -> "-"
  | OBool b -> if b then "t" else "f"
  | OInt z -> string_of_int (int_of_z z)
  | OVal None -> "none"
  | OVal (Some v) -> string_of_int (int_of_z v)
  | OKV o -> okv_s o
  | OList l -> list_s l
  | OLists (a, b) -> list_s a ^ ";" ^ list_s b
  | OListN (l, n) -> list_s l ^ ";calls=" ^ string_of_int (int_of_nat n)

let parse_hist h : (z, z) mut list =
  if h = "-" || h = "" then [] else
  List.map (fun m ->
    if m = "Dm" then MDeleteMin else if m = "DM" then MDeleteMax else if m = "DA" then MDeleteAll
    else if m.[0] = 'P' then
      (match split_on (String.sub m 1 (String.length m - 1)) ":" with
       | [k; v] -> MPut (z_of_int (ios k), z_of_int (ios v)) | _ -> failwith ("bad hist " ^ m))
    else MDelete (z_of_int (ios (String.sub m 1 (String.length m - 1))))) (split_on h ",")

(* pre-order dump of a model tree in the format of the harness hook *)
let dump_s t =
  let b = Buffer.create 256 in
  let rec go = function
    | Leaf -> ()
    | Node (l, k, v, s, h, c, r) ->
      if Buffer.length b > 0 then Buffer.add_char b ',';
      Buffer.add_string b (Printf.sprintf "%d:%d:%d:%d:%c:%c%c" (int_of_z k) (int_of_z v) (int_of_z s) (int_of_z h)
        (if c then 'r' else 'b') (if l = Leaf then '-' else 'L') (if r = Leaf then '-' else 'R'));
      go l; go r in
  go t;
  if Buffer.length b = 0 then "[]" else Buffer.contents b

let parse_list s : (z * z) list =
  if s = "[]" || s = "" then [] else
  List.map (fun e -> match split_on e ":" with
    | [k; v] -> (z_of_int (ios k), z_of_int (ios v)) | _ -> failwith ("bad pair " ^ e)) (split_on s ",")

(* rebuild a tree from the hook dump (pre-order with L/R flags) *)
let parse_dump s : (z, z) tree =
  if s = "[]" || s = "" then Leaf else begin
    let items = ref (split_on s ",") in
    let rec go () =
      match !items with
      | [] -> failwith "dump: truncated"
      | it :: rest ->
        items := rest;
        (match split_on it ":" with
         | [k; v; sz; h; c; lr] ->
           let l = if lr.[0] = 'L' then go () else Leaf in
           let r = if lr.[1] = 'R' then go () else Leaf in
           Node (l, z_of_int (ios k), z_of_int (ios v), z_of_int (ios sz), z_of_int (ios h), c = "r", r)
         | _ -> failwith ("dump: bad node " ^ it)) in
    let t = go () in
    if !items <> [] then failwith "dump: trailing nodes";
    t
  end

let field s name =
  (* h=..;vlr=..;lvr=..;dump=.. *)
  let parts = split_on s ";" in
  let pre = name ^ "=" in
  let n = String.length pre in
  match List.filter (fun p -> String.length p >= n && String.sub p 0 n = pre) parts with
  | p :: _ -> String.sub p n (String.length p - n)
  | [] -> failwith ("K: no field " ^ name)

(* which queries are determined by the abstract sorted map (C01 api) *)
let is_api_query op0 toks =
  match op0 with
  | "P" | "D" | "Dm" | "DM" | "DA" | "Sz" | "E" | "G" | "Mn" | "Mx" | "F" | "C" | "Sel" | "R" | "Rg" | "RS"
  | "All" | "AS" | "Any" | "Allm" | "Sm" | "Pm" | "Eq" | "RgK" | "SmK" | "PmK" | "Chk" | "Scr" | "SW" | "SWP" -> true
  | "T" | "TS" -> (match ios toks.(1) with 2 | 3 | 6 | 7 -> true | _ -> false)
  | _ -> false

let () =
  let args = Array.to_list Sys.argv in
  let rec pa = function
    | "-prop" :: p :: rest -> prop := p; pa rest
    | _ :: rest -> pa rest
    | [] -> () in
  pa (List.tl args);
  let c15 = (!prop = "C15") in
  let cases = ref 0 and nops = ref 0 and nontrivial = Hashtbl.create 4096 in
  let stat = Hashtbl.create 64 in
  let bump k n = Hashtbl.replace stat k (n + try Hashtbl.find stat k with Not_found -> 0) in
  let bmax k n = Hashtbl.replace stat k (max n (try Hashtbl.find stat k with Not_found -> 0)) in
  let lineno = ref 0 and samples = ref 0 in
  (try
    while true do
      let line = input_line stdin in
      if String.length line > 0 && line.[0] <> '#' then begin
        incr lineno; incr cases;
        let parts = List.map trim (split_on line "|") in
        let head = List.hd parts and body = List.tl parts in
        let impl_s, cmp_s = Scanf.sscanf head "%s %s" (fun a b -> (a, b)) in
        let impl = impl_of impl_s and cmp = cmp_of cmp_s in
        bump ("cases_" ^ impl_s) 1; bump ("cases_cmp_" ^ cmp_s) 1;
        let st = ref (Leaf : (z, z) tree) in
        let dead = ref false in
        let kept = ref ([] : string list) in   (* answers the harness keeps and re-reads: they cannot change *)
        let opno = ref 0 in
        let reported_api = ref false and reported_fid = ref false in
        let effective = ref 0 and maxsize = ref 0 in
        let msig = Buffer.create 64 in
        let report kind what =
          let r = if kind = "api" then reported_api else reported_fid in
          if not !r then begin
            r := true;
            Printf.printf "MISMATCH line=%d op=%d kind=%s what=%s\n" !lineno !opno kind what
          end in
        List.iter (fun opres ->
          incr opno; incr nops;
          if not !dead then begin
          let op, res = match split_on opres "->" with
            | [a; b] -> (trim a, trim b) | [a] -> (trim a, "?") | _ -> (opres, "?") in
          if op <> "" then begin
          let toks = Array.of_list (List.filter (fun s -> s <> "") (split_on op " ")) in
          let zi i = z_of_int (ios toks.(i)) in
          let op0 = toks.(0) in
          let run_op (o : (z, z) op) =
            match step cmp eqv impl !st o with
            | Ok (t', x) -> st := t'; out_s x
            | Panic -> dead := true; "PANIC"
            | Hang -> dead := true; "HANG" in
          let is_mut = (match op0 with "P" | "D" | "Dm" | "DM" | "DA" -> true | _ -> false) in
          let before = if is_mut then !st else Leaf in
          let expect =
            match op0 with
            | "P" -> run_op (M (MPut (zi 1, zi 2)))
            | "D" -> run_op (M (MDelete (zi 1)))
            | "Dm" -> run_op (M MDeleteMin)
            | "DM" -> run_op (M MDeleteMax)
            | "DA" -> run_op (M MDeleteAll)
            | "Sz" -> run_op (Q QSize)
            | "E" -> run_op (Q QIsEmpty)
            | "H" -> run_op (Q QHeight)
            | "G" -> run_op (Q (QGet (zi 1)))
            | "Mn" -> run_op (Q QMin)
            | "Mx" -> run_op (Q QMax)
            | "F" -> run_op (Q (QFloor (zi 1)))
            | "C" -> run_op (Q (QCeiling (zi 1)))
            | "Sel" -> run_op (Q (QSelect (zi 1)))
            | "R" -> run_op (Q (QRank (zi 1)))
            | "Rg" -> run_op (Q (QRange (zi 1, zi 2)))
            | "RS" -> run_op (Q (QRangeSize (zi 1, zi 2)))
            | "SW" ->
              (match selectMatch cmp impl (pred (ios toks.(1))) !st with
               | Ok t' -> st := t'; list_s (inorder t')
               | Panic -> dead := true; "PANIC" | Hang -> dead := true; "HANG")
            | "SWP" ->
              let (m, u) = partitionMatch cmp impl (pred (ios toks.(1))) !st in
              (match (if ios toks.(2) = 1 then u else m) with
               | Ok t' -> st := t'; list_s (inorder t')
               | Panic -> dead := true; "PANIC" | Hang -> dead := true; "HANG")
            | "RgK" -> let e = run_op (Q (QRange (zi 1, zi 2))) in kept := e :: !kept; e
            | "SmK" -> let e = run_op (Q (QSelectMatch (pred (ios toks.(1))))) in kept := e :: !kept; e
            | "PmK" -> let e = run_op (Q (QPartitionMatch (pred (ios toks.(1))))) in kept := e :: !kept; e
            | "Chk" -> if !kept = [] then "-" else String.concat "/" (List.rev !kept)
            | "Scr" -> kept := []; "-"
            | "All" -> run_op (Q QAll)
            | "T" -> run_op (Q (QTraverse (order_of_int (ios toks.(1)))))
            | "TS" -> run_op (Q (QTraverseStop (order_of_int (ios toks.(1)), nat_of_int (ios toks.(2)))))
            | "AS" -> run_op (Q (QTraverseStop (Ascending, nat_of_int (ios toks.(1)))))   (* All() is _traverse(Ascending) *)
            | "Any" -> run_op (Q (QAnyMatch (pred (ios toks.(1)))))
            | "Allm" -> run_op (Q (QAllMatch (pred (ios toks.(1)))))
            | "Fm" -> run_op (Q (QFirstMatch (pred (ios toks.(1)))))
            | "Sm" -> run_op (Q (QSelectMatch (pred (ios toks.(1)))))
            | "Pm" -> run_op (Q (QPartitionMatch (pred (ios toks.(1)))))
            | "Eq" -> run_op (Q (QEqual (parse_hist (if Array.length toks > 1 then toks.(1) else "-"))))
            | "EqO" ->
              (* a table of another implementation is unequal by type assertion; of the same
                 implementation with the same content it is equal *)
              if impl_of toks.(1) <> impl || (toks.(1) <> impl_s) then "f"
              else run_op (Q (QEqual (List.map (fun (k, v) -> MPut (k, v)) (inorder !st))))
            | "K" ->
              "h=" ^ string_of_int (int_of_z (height0 impl !st)) ^ ";vlr=" ^ list_s (trav_list VLR !st)
              ^ ";lvr=" ^ list_s (trav_list LVR !st) ^ ";dump=" ^ dump_s !st
            | _ -> "?" in
          if is_mut && not !dead then begin
            (* effective = the number of keys changed (cached size, O(1)), or the table was emptied *)
            let n0 = int_of_z (size0 before) and n = int_of_z (size0 !st) in
            let changed = (n <> n0) in
            if changed then incr effective;
            if n > !maxsize then maxsize := n;
            Buffer.add_string msig op; Buffer.add_char msig ';';
            bump ("mut_" ^ op0) 1;
            if op0 = "D" then bump (if changed then "delete_present" else "delete_absent") 1
          end else if not is_mut then bump "queries" 1;
          (* ---- C15: invariants of the implementation's own shape ---- *)
          if op0 = "K" && res <> "?" && res <> "PANIC" && res <> "HANG" then begin
            bump "shape_checks" 1;
            (try
              let h = ios (field res "h") in
              let vlr = parse_list (field res "vlr") and lvr = parse_list (field res "lvr") in
              let dt = parse_dump (field res "dump") in
              let n = List.length lvr in
              bmax "max_size" n; bmax "max_height" h;
              let kind = if c15 then "api" else "fidelity" in
              (match shape_from_traversals cmp vlr lvr with
               | None -> report kind (Printf.sprintf "%s %s: pre-order and in-order traversals of the implementation are not the traversals of one tree" impl_s op)
               | Some sh ->
                 let rh = int_of_z (shape_height sh) in
                 if rh <> h then
                   report kind (Printf.sprintf "%s Height() = %d but the longest root-to-leaf path of the shape given by Traverse(VLR)+Traverse(LVR) has %d nodes" impl_s h rh);
                 if impl = AVL && not (shape_balanced sh) then
                   report kind (Printf.sprintf "%s shape has a node whose subtree heights differ by more than one (n=%d)" impl_s n);
                 if impl = RB && rh > int_of_z (rb_height_bound (z_of_int n)) then
                   report kind (Printf.sprintf "%s height %d exceeds 2*log2(n+1) for n=%d" impl_s rh n);
                 if shape_of dt <> sh then
                   report "fidelity" (Printf.sprintf "%s hook dump and public traversals describe different shapes" impl_s));
              if impl = AVL && not (avl_check dt) then
                report kind (Printf.sprintf "%s cached heights differ from real heights or a balance factor is outside -1..1 (hook dump)" impl_s);
              if impl = RB && not (rb_check dt) then
                report kind (Printf.sprintf "%s colour invariant broken: %s (hook dump)" impl_s
                  (if isRed dt then "red root" else if not (rb_colors_ok dt) then "right-leaning red link or two red links in a row"
                   else "paths with different numbers of black links"));
              if not (sizes_check dt) then
                report "fidelity" (Printf.sprintf "%s cached subtree sizes are inconsistent (hook dump)" impl_s)
            with Failure m -> report "fidelity" ("unparsable K result: " ^ m))
          end;
          (* ---- implementation vs model ---- *)
          if res <> "?" && res <> expect then begin
            let what = Printf.sprintf "%s %s %s: implementation %s, proved model %s" impl_s cmp_s op
                (if String.length res > 300 then String.sub res 0 300 ^ "..." else res)
                (if String.length expect > 300 then String.sub expect 0 300 ^ "..." else expect) in
            if res = "PANIC" || res = "HANG" then begin
              report "api" what; dead := true
            end else if c15 then
              report "fidelity" what
            else if op0 = "Fm" then begin
              (* the property does not fix which match is returned: api only if the answer is not
                 a held matching pair, or none although one exists *)
              let p = pred (ios toks.(1)) in
              let abs = inorder !st in
              let valid =
                if res = "none" then not (List.exists (fun (k, v) -> p k v) abs)
                else List.exists (fun e -> kv_s e = res && p (fst e) (snd e)) abs in
              report (if valid then "fidelity" else "api") what
            end else
              report (if is_api_query op0 toks then "api" else "fidelity") what
          end
          end end
        ) body;
        bmax "max_table_size" !maxsize;
        let nt = !effective >= 2 && !maxsize >= 2 in
        if nt then Hashtbl.replace nontrivial (head ^ Buffer.contents msig) ();
        if !samples < 3 && nt && !lineno mod 97 = 5 then begin
          incr samples;
          let l = if String.length line > 400 then String.sub line 0 400 ^ " ..." else line in
          Printf.printf "SAMPLE %s\n" l
        end
      end
    done
  with End_of_file -> ());
  Printf.printf "STAT cases=%d\nSTAT ops=%d\nSTAT nontrivial=%d\n" !cases !nops (Hashtbl.length nontrivial);
  Hashtbl.iter (fun k v -> Printf.printf "STAT %s=%d\n" k v) stat
