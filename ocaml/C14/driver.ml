(* C14 driver: replays traced graph cases on the extracted model, runs the proved checkers and the
   independent references on the implementation's outputs, and reports differences.
   kind=api      : the implementation's answer violates the property (fails a proved-sound checker,
                   disagrees with a proved model observable or with an independent reference value)
   kind=fidelity : only tie-breaking / order / out-of-domain behaviour differs from the model. *)
open Model

let rec nat_of_int n = let rec go n acc = if n <= 0 then acc else go (n - 1) (S acc) in go n O
let rec int_of_nat = function O -> 0 | S n -> 1 + int_of_nat n
let int_of_nat n = let rec go n acc = match n with O -> acc | S m -> go m (acc + 1) in go n 0
let rec pos_of_int n = if n = 1 then XH else if n land 1 = 0 then XO (pos_of_int (n lsr 1)) else XI (pos_of_int (n lsr 1))
let z_of_int n = if n = 0 then Z0 else if n > 0 then Zpos (pos_of_int n) else Zneg (pos_of_int (-n))
let rec int_of_pos = function XH -> 1 | XO p -> 2 * int_of_pos p | XI p -> 2 * int_of_pos p + 1
let int_of_z = function Z0 -> 0 | Zpos p -> int_of_pos p | Zneg p -> - (int_of_pos p)

let split_on s sep = Str.split_delim (Str.regexp_string sep) s
let trim = String.trim

let dotted (l : int list) = if l = [] then "_" else String.concat "." (List.map string_of_int l)
let undotted s = if s = "_" || s = "" then [] else List.map int_of_string (split_on s ".")
let ints l = List.map int_of_nat l
let nats l = List.map nat_of_int l

let strat_of = function "DFS" -> SDFS | "DFSi" -> SDFSi | _ -> SBFS

(* canonical renaming of component ids by first occurrence *)
let canon ids =
  let h = Hashtbl.create 16 in
  List.map (fun x -> match Hashtbl.find_opt h x with Some y -> y | None -> let y = Hashtbl.length h in Hashtbl.add h x y; y) ids

(* Components() recomputed from ids: group i lists the vertices with id i in increasing order *)
let groups cnt ids =
  let a = Array.make (max cnt 0) [] in
  List.iteri (fun v i -> if i >= 0 && i < cnt then a.(i) <- v :: a.(i)) ids;
  Array.to_list (Array.map List.rev a)

(* native Kruskal (reference for graphs too large for the extracted unary-nat version) *)
let native_kruskal n (es : (int * int * int) list) =
  let parent = Array.init (max n 1) (fun i -> i) in
  let rec find x = if parent.(x) = x then x else (let r = find parent.(x) in parent.(x) <- r; r) in
  List.fold_left (fun acc (a, b, w) ->
      let ra = find a and rb = find b in
      if ra = rb then acc else (parent.(ra) <- rb; acc + w))
    0 (List.stable_sort (fun (_, _, w1) (_, _, w2) -> compare w1 w2) es)

let is_perm n l = List.length l = n && List.sort compare l = List.init n (fun i -> i)

let edge_str (e : edge) = Printf.sprintf "%d.%d.%d" (int_of_nat (e_a e)) (int_of_nat (e_b e)) (int_of_z (e_w e))
let edges_str es = if es = [] then "_" else String.concat "," (List.map edge_str es)
let parse_edge s : edge = match split_on s "." with
  | [a; b; w] -> ((nat_of_int (int_of_string a), nat_of_int (int_of_string b)), z_of_int (int_of_string w))
  | _ -> failwith ("bad edge " ^ s)
let parse_edges s = if s = "_" || s = "" then [] else List.map parse_edge (split_on s ",")

let parse_new s : (int * int * int) list =
  if s = "_" || s = "" then [] else
  List.map (fun t -> match split_on t "," with
      | [a; b] -> (int_of_string a, int_of_string b, 0)
      | [a; b; w] -> (int_of_string a, int_of_string b, int_of_string w)
      | _ -> failwith "bad NEW edge") (split_on s ";")

let stats : (string, int) Hashtbl.t = Hashtbl.create 64
let bump k = Hashtbl.replace stats k (1 + try Hashtbl.find stats k with Not_found -> 0)
let bumpn k n = Hashtbl.replace stats k (n + try Hashtbl.find stats k with Not_found -> 0)
let smax k n = Hashtbl.replace stats k (max n (try Hashtbl.find stats k with Not_found -> 0))

let big = 64   (* checkers / Floyd-Warshall only for n <= big *)
let huge_n = 2100   (* beyond: native validation only *)

let () =
  let cases = ref 0 and ops = ref 0 and nontrivial = Hashtbl.create 4096 in
  let lineno = ref 0 and samples = ref 0 in
  (try
    while true do
      let line = input_line stdin in
      if String.length line > 0 && line.[0] <> '#' then begin
        incr lineno; incr cases;
        let parts = List.map trim (split_on line "|") in
        let head = List.hd parts and body = List.tl parts in
        let kind, n = Scanf.sscanf head "%s %d" (fun a b -> (a, b)) in
        bump ("cases_" ^ kind); smax "max_n" n;
        let directed = (kind = "D" || kind = "WD") in
        let g = ref (new_graph directed (nat_of_int n)) in
        let nedges = ref 0 and nqueries = ref 0 and selfloops = ref 0 and zerow = ref 0 in
        let seen_edges = Hashtbl.create 16 and parallel = ref 0 in
        let native_edges = ref [] and native_set = ref (Hashtbl.create 16) in
        let held : (string * graph * (int * int * int) list * (int * int * int, unit) Hashtbl.t) list ref = ref [] in
        let label = ref "" in
        let fw_cache = ref None and fwu_cache = ref None in
        let paths_cache = Hashtbl.create 16 in
        let paths_of_c sg s = match Hashtbl.find_opt paths_cache (sg, s) with
          | Some p -> p | None -> let p = paths_of !g sg (nat_of_int s) in Hashtbl.replace paths_cache (sg, s) p; p in
        let fw unit_ =
          let c = if unit_ then fwu_cache else fw_cache in
          match !c with Some m -> m | None ->
            let m = Array.of_list (List.map (fun row -> Array.of_list (List.map (function None -> -1 | Some z -> int_of_z z) row))
                                     (floyd_warshall !g unit_)) in
            c := Some m; m in
        let opno = ref 0 in
        let opsig = Buffer.create 256 in
        let mism kind_ op fmt = Printf.ksprintf (fun s ->
          Printf.printf "MISMATCH line=%d op=%d kind=%s what=%s %d: %s%s: %s\n" !lineno !opno kind_ kind n !label op s) fmt in
        (* graphs beyond [huge_n] vertices are validated natively (the unary-nat model would be too slow):
           independent BFS for reachability and fewest-edges distances, native path / event / order checks *)
        let hugeg = n > huge_n in
        let nadj : int list array option ref = ref None in
        let adjacency () = match !nadj with Some a -> a | None ->
          let a = Array.make (max n 1) [] in
          List.iter (fun (x, y, _) -> a.(x) <- y :: a.(x); if not directed then a.(y) <- x :: a.(y)) !native_edges;
          nadj := Some a; a in
        let is_edge x y = x >= 0 && x < n && y >= 0 && y < n && List.mem y (adjacency ()).(x) in
        let bfs_cache = Hashtbl.create 4 in
        let bfs s = match Hashtbl.find_opt bfs_cache s with Some d -> d | None ->
          let a = adjacency () in
          let d = Array.make (max n 1) (-1) in
          if s >= 0 && s < n then begin
            let q = Queue.create () in
            d.(s) <- 0; Queue.add s q;
            while not (Queue.is_empty q) do
              let v = Queue.pop q in
              List.iter (fun w -> if d.(w) < 0 then begin d.(w) <- d.(v) + 1; Queue.add w q end) a.(v)
            done
          end;
          Hashtbl.replace bfs_cache s d; d in
        let handle_huge toks op res =
          let arg i = int_of_string toks.(i) in
          let is_panic = String.length res >= 5 && String.sub res 0 5 = "PANIC" in
          let add a b w =
            if a >= 0 && a < n && b >= 0 && b < n then begin
              incr nedges; native_edges := (a, b, w) :: !native_edges; Hashtbl.replace !native_set (a, b, w) () end in
          let valid_path s v path sg =
            let d = bfs s in
            match path with
            | [] -> Some "empty path"
            | a :: _ ->
              let rec chain = function x :: (y :: _ as t) -> is_edge x y && chain t | _ -> true in
              if a <> s || List.nth path (List.length path - 1) <> v then Some "does not go from s to v"
              else if not (chain path) then Some "uses a non-edge"
              else if sg = "BFS" && List.length path - 1 <> d.(v) then
                Some (Printf.sprintf "has %d edges, the minimum (independent BFS) is %d" (List.length path - 1) d.(v))
              else None in
          try (match toks.(0) with
          | "E" -> add (arg 1) (arg 2) (if Array.length toks > 3 then arg 3 else 0); nadj := None; Hashtbl.reset bfs_cache;
            if res <> "-" && res <> "?" then mism "api" op "AddEdge reported %s" res
          | "NEW" ->
            native_edges := []; native_set := Hashtbl.create 16; nedges := 0;
            List.iter (fun (a, b, w) -> add a b w) (parse_new (if Array.length toks > 1 then toks.(1) else "_"));
            nadj := None; Hashtbl.reset bfs_cache; bump "graphs_built_by_constructor"
          | _ when res = "?" -> ()
          | _ when is_panic || res = "HANG" -> mism "api" op "implementation %s" res
          | "PLEN" ->
            incr nqueries; bump ("q_PLEN_" ^ toks.(1));
            let s = arg 2 in let d = bfs s in
            let ls = Array.of_list (undotted res) in
            if Array.length ls <> n then mism "api" op "wrong number of answers (%d)" (Array.length ls) else begin
              let bad = ref (-1) in
              Array.iteri (fun v l ->
                if !bad < 0 then begin
                  let ok = if toks.(1) = "BFS" then l = d.(v)
                    else (l >= 0) = (d.(v) >= 0) && l >= d.(v) && l < n in
                  if not ok then bad := v end) ls;
              if !bad >= 0 then
                mism "api" op "To(%d): path with %d edges (-1 = none), independent BFS says %s" !bad ls.(!bad)
                  (if d.(!bad) < 0 then "unreachable" else Printf.sprintf "reachable, fewest edges %d" d.(!bad))
            end;
            Array.iter (fun x -> if x >= 0 then bump "targets_reachable" else bump "targets_unreachable") d
          | "PATH" ->
            incr nqueries; bump ("q_PATH_" ^ toks.(1));
            let s = arg 2 and v = arg 3 in let d = bfs s in
            if (res <> "-") <> (d.(v) >= 0) then
              mism "api" op "implementation %s but v is %sreachable (independent BFS)" (if String.length res > 60 then String.sub res 0 60 ^ "..." else res) (if d.(v) < 0 then "un" else "")
            else if res <> "-" then
              (match valid_path s v (undotted res) toks.(1) with
               | Some why -> mism "api" op "the returned path %s" why
               | None -> ())
          | "TRAV" ->
            incr nqueries; bump ("q_TRAV_" ^ toks.(1));
            let s = arg 2 in let d = bfs s in
            let evs = if res = "_" then [] else split_on res "," in
            let pre = ref [] and post = ref [] and nedge = ref 0 and badedge = ref false in
            List.iter (fun t ->
              let body = String.sub t 1 (String.length t - 1) in
              match t.[0] with
              | 'p' -> pre := int_of_string body :: !pre
              | 'q' -> post := int_of_string body :: !post
              | _ -> (match split_on body "." with
                      | [a; b] -> incr nedge; if not (is_edge (int_of_string a) (int_of_string b)) then badedge := true
                      | _ -> badedge := true)) evs;
            let reach = List.filter (fun v -> d.(v) >= 0) (List.init n (fun v -> v)) in
            if List.sort compare !pre <> reach || List.sort compare !post <> reach then
              mism "api" op "visited %d (pre) / %d (post) vertices, %d are reachable (independent BFS)" (List.length !pre) (List.length !post) (List.length reach)
            else if !badedge || !nedge <> max 0 (List.length reach - 1) then
              mism "api" op "edge events are not a spanning tree of the reachable part"
          | "ORD" ->
            incr nqueries; bump ("q_ORD_" ^ toks.(1));
            (match split_on res ";" with
             | [pre; post; rpost; prank; qrank] ->
               let pre = undotted pre and post = undotted post and rpost = undotted rpost in
               let prank = Array.of_list (undotted prank) and qrank = Array.of_list (undotted qrank) in
               let ok = is_perm n pre && is_perm n post && rpost = List.rev post
                        && Array.length prank = n && Array.length qrank = n
                        && List.for_all (fun x -> x) (List.mapi (fun i v -> prank.(v) = i) pre)
                        && List.for_all (fun x -> x) (List.mapi (fun i v -> qrank.(v) = i) post) in
               if not ok then mism "api" op "orders are not permutations with consistent ranks"
             | _ -> mism "api" op "malformed answer")
          | "CC" ->
            incr nqueries; bump "q_CC";
            (match split_on res ";" with
             | [cnt; ids; _] ->
               let ids = Array.of_list (undotted ids) in
               let comp = Array.make (max n 1) (-1) and c = ref 0 in
               for v = 0 to n - 1 do
                 if comp.(v) < 0 then begin
                   let d = bfs v in Hashtbl.remove bfs_cache v;
                   Array.iteri (fun u x -> if x >= 0 && u < n then comp.(u) <- !c) d; incr c end
               done;
               if Array.length ids <> n || int_of_string cnt <> !c
                  || canon (Array.to_list ids) <> canon (Array.to_list (Array.sub comp 0 n)) then
                 mism "api" op "component ids/count differ from the independent component labelling (%d components)" !c
             | _ -> mism "api" op "malformed answer")
          | _ -> bump "ops_skipped_on_huge_graph")
          with Failure _ | Invalid_argument _ | Not_found ->
            mism "api" op "unparsable answer: %s" (if String.length res > 200 then String.sub res 0 200 else res) in
        let rec handle op res =
          if hugeg then handle_huge (Array.of_list (List.filter (fun s -> s <> "") (split_on op " "))) op res else
          let toks = Array.of_list (List.filter (fun s -> s <> "") (split_on op " ")) in
          let arg i = int_of_string toks.(i) in
          (* a negative vertex is out of range exactly like a too large one *)
          let vtx i = let a = arg i in if a < 0 then nat_of_int (n + 1000) else nat_of_int a in
          let is_panic = String.length res >= 5 && String.sub res 0 5 = "PANIC" in
          let small = n <= big in
          if res = "?" then begin
            (* corpus / replay lines without results: only maintain the graph *)
            if toks.(0) = "E" then g := add_edge !g ((vtx 1, vtx 2), z_of_int (if Array.length toks > 3 then arg 3 else 0))
            else if toks.(0) = "NEW" then
              g := List.fold_left (fun acc (a, b, w) -> add_edge acc ((nat_of_int (if a < 0 then n + 1000 else a), nat_of_int (if b < 0 then n + 1000 else b)), z_of_int w))
                     (new_graph directed (nat_of_int n)) (parse_new (if Array.length toks > 1 then toks.(1) else "_"))
          end else
          try (match toks.(0) with
          | "E" ->
            let w = if Array.length toks > 3 then arg 3 else 0 in
            if arg 1 >= 0 && arg 1 < n && arg 2 >= 0 && arg 2 < n then begin
              incr nedges;
              native_edges := (arg 1, arg 2, w) :: !native_edges; Hashtbl.replace !native_set (arg 1, arg 2, w) ();
              if arg 1 = arg 2 then incr selfloops;
              if w = 0 && (kind = "WU" || kind = "WD") then incr zerow;
              let key = if directed then (arg 1, arg 2) else (min (arg 1) (arg 2), max (arg 1) (arg 2)) in
              if Hashtbl.mem seen_edges key then incr parallel else Hashtbl.add seen_edges key ()
            end else bump "edges_out_of_range_ignored";
            g := add_edge !g ((vtx 1, vtx 2), z_of_int w);
            fw_cache := None; fwu_cache := None; Hashtbl.reset paths_cache;
            if res <> "-" then mism "api" op "AddEdge reported %s" res
          | "TRAV" ->
            incr nqueries; bump ("q_TRAV_" ^ toks.(1));
            (match traverse_events !g (strat_of toks.(1)) (vtx 2) with
             | Ok (vis, ev) ->
               let m = if ev = [] then "_" else String.concat "," (List.map (function
                   | EPre v -> "p" ^ string_of_int (int_of_nat v)
                   | EPost v -> "q" ^ string_of_int (int_of_nat v)
                   | EEdge (v, w) -> Printf.sprintf "e%d.%d" (int_of_nat v) (int_of_nat w)) ev) in
               if res <> m then begin
                 (* property level: the pre-visited vertices are exactly the reachable ones, each once *)
                 let pre = List.filter_map (fun t -> if String.length t > 1 && t.[0] = 'p' then int_of_string_opt (String.sub t 1 (String.length t - 1)) else None)
                     (if res = "_" then [] else split_on res ",") in
                 let reach = List.filter_map (fun x -> x) (List.mapi (fun i b -> if b then Some i else None) vis) in
                 if is_panic || res = "HANG" then mism "api" op "implementation %s, proved model terminates" res
                 else if List.sort compare pre <> reach then
                   mism "api" op "visited set {%s} is not the reachable set {%s} (proved for the model)" (dotted (List.sort compare pre)) (dotted reach)
                 else mism "fidelity" op "same visited set, different event order: implementation %s, model %s" res m
               end
             | _ -> mism "api" op "model hang/panic (fuel theorem violated?)")
          | "PATHS" | "PATH" ->
            incr nqueries; bump ("q_" ^ toks.(0) ^ "_" ^ toks.(1));
            let sg = strat_of toks.(1) in
            let s = arg 2 in
            let targets, results =
              if toks.(0) = "PATHS" then (List.init n (fun i -> i), if res = "_" then [] else split_on res ";")
              else ([arg 3], [res]) in
            (match paths_of_c sg (int_of_nat (vtx 2)) with
             | Ok p ->
               if (is_panic || res = "HANG") && toks.(0) = "PATHS" then mism "api" op "implementation %s (the proved model terminates)" res
               else if List.length results <> List.length targets then mism "api" op "wrong number of answers: %s" res
               else
               List.iter2 (fun v r ->
                 let mv = if v < 0 then nat_of_int (n + 1000) else nat_of_int v in
                 match paths_to p mv with
                 | Panic -> if not is_panic then mism "fidelity" op "To(%d) out of range: implementation %s, model panics" v r
                 | Hang -> mism "api" op "model hang on To(%d)" v
                 | Ok m ->
                   let ms = match m with None -> "-" | Some l -> dotted (ints l) in
                   (match m with None -> bump "targets_unreachable" | Some _ -> bump "targets_reachable");
                   if String.length r >= 5 && String.sub r 0 5 = "PANIC" || r = "HANG" then
                     mism "api" op "To(%d): implementation %s, proved model %s" v r ms
                   else begin
                     (* api: reachability (proved for the model; Floyd-Warshall as independent reference) *)
                     let ref_reach = if small && s >= 0 && s < n then Some ((fw true).(s).(v) >= 0) else None in
                     let impl_has = r <> "-" in
                     if impl_has <> (m <> None) then
                       mism "api" op "To(%d): implementation %s but v is %sreachable from s (proved model: %s)" v r (if m = None then "un" else "") ms
                     else if (match ref_reach with Some b -> b <> impl_has | None -> false) then
                       mism "api" op "To(%d): implementation %s disagrees with Floyd-Warshall reachability" v r
                     else if impl_has then begin
                       let path = undotted r in
                       if not (check_path !g (nat_of_int s) mv (nats path)) then
                         mism "api" op "To(%d): %s is not a path from %d to %d (proved checker)" v r s v
                       else if sg = SBFS && (match m with Some l -> List.length l <> List.length path | None -> false) then
                         mism "api" op "To(%d): BFS path %s has %d edges, the minimum is %d (proved model)" v r (List.length path - 1)
                           (match m with Some l -> List.length l - 1 | None -> 0)
                       else if sg = SBFS && small && (fw true).(s).(v) <> List.length path - 1 then
                         mism "api" op "To(%d): BFS path %s is longer than the Floyd-Warshall hop distance %d" v r (fw true).(s).(v)
                       else if r <> ms then
                         mism "fidelity" op "To(%d): valid path %s, model path %s" v r ms
                     end
                   end) targets results
             | _ -> mism "api" op "model hang/panic")
          | "ORD" ->
            incr nqueries; bump ("q_ORD_" ^ toks.(1));
            (match orders_of !g (strat_of toks.(1)) with
             | Ok o ->
               let m = String.concat ";" [dotted (ints (pre_order o)); dotted (ints (post_order o)); dotted (ints (reverse_post_order o));
                                          dotted (ints o.o_prerank); dotted (ints o.o_postrank)] in
               if res <> m then begin
                 if is_panic || res = "HANG" then mism "api" op "implementation %s" res else
                 match split_on res ";" with
                 | [pre; post; rpost; prank; qrank] ->
                   let pre = undotted pre and post = undotted post and rpost = undotted rpost in
                   let prank = Array.of_list (undotted prank) and qrank = Array.of_list (undotted qrank) in
                   let ok = is_perm n pre && is_perm n post && rpost = List.rev post
                            && Array.length prank = n && Array.length qrank = n
                            && List.for_all (fun x -> x) (List.mapi (fun i v -> prank.(v) = i) pre)
                            && List.for_all (fun x -> x) (List.mapi (fun i v -> qrank.(v) = i) post) in
                   if ok then mism "fidelity" op "consistent orders but not the model's: implementation %s, model %s" res m
                   else mism "api" op "orders are not permutations with consistent ranks: %s" res
                 | _ -> mism "api" op "malformed %s" res
               end
             | _ -> mism "api" op "model hang/panic")
          | "CC" | "SCC" ->
            incr nqueries; bump ("q_" ^ toks.(0));
            let scc = toks.(0) = "SCC" in
            (match (if scc then strongly_connected_components !g else connected_components !g) with
             | Ok c ->
               let mids = ints (snd c) in
               let m = Printf.sprintf "%d;%s;%s" (int_of_nat (fst c)) (dotted mids)
                   (let cs = if small then List.map ints (components c) else groups (int_of_nat (fst c)) mids in
                    if cs = [] then "_" else String.concat "/" (List.map dotted cs)) in
               smax "max_components" (int_of_nat (fst c));
               if int_of_nat (fst c) > 1 then bump "graphs_with_several_components";
               if small then begin
                 bump "checker_runs_on_model_output";
                 if not (check_scc !g (snd c)) then mism "fidelity" op "MODEL output %s fails the proved checker" m
               end;
               if is_panic || res = "HANG" then mism "api" op "implementation %s, model %s" res m else
               (match split_on res ";" with
                | [cnt; ids; cs] ->
                  let ids = undotted ids in
                  let cnt = int_of_string cnt in
                  let distinct = List.length (List.sort_uniq compare ids) in
                  let comps_ok =
                    let cl = if cs = "_" then [] else List.map undotted (split_on cs "/") in
                    List.length cl = cnt && List.for_all (fun i -> i >= 0 && i < cnt) ids && cl = groups cnt ids in
                  if List.length ids <> n then mism "api" op "wrong id count: %s" res
                  else if small && (bump "checker_runs_on_impl_output"; not (check_scc !g (nats ids))) then
                    mism "api" op "ids %s do not characterise %s reachability (proved checker); model %s" (dotted ids) (if scc then "mutual" else "undirected") (dotted mids)
                  else if (not scc) && canon ids <> canon mids then
                    mism "api" op "ids %s induce a different partition than the proved model's %s" (dotted ids) (dotted mids)
                  else if cnt <> distinct || not comps_ok then
                    mism "api" op "count/Components() inconsistent with the ids: %s" res
                  else if res <> m then
                    mism "fidelity" op "same partition, different numbering: implementation %s, model %s" res m
                | _ -> mism "api" op "malformed %s" res)
             | _ -> mism "api" op "model hang/panic")
          | "CYC" ->
            incr nqueries; bump "q_CYC";
            (match directed_cycle !g with
             | Ok m ->
               let ms = match m with None -> "-" | Some l -> dotted (ints l) in
               (match m with None -> bump "graphs_acyclic" | Some _ -> bump "graphs_cyclic");
               (match m with Some l -> if not (check_cycle !g l) then mism "fidelity" op "MODEL cycle %s fails the proved checker" ms | None -> ());
               if is_panic || res = "HANG" then mism "api" op "implementation %s, model %s" res ms
               else if (res <> "-") <> (m <> None) then
                 mism "api" op "implementation %s but the graph is %s (proved model: %s)" res (if m = None then "acyclic" else "cyclic") ms
               else if res <> "-" && not (check_cycle !g (nats (undotted res))) then
                 mism "api" op "%s is not a cycle of the graph (proved checker)" res
               else if res <> ms then mism "fidelity" op "genuine cycle %s, model found %s" res ms
             | _ -> mism "api" op "model hang/panic")
          | "TOPO" ->
            incr nqueries; bump "q_TOPO";
            (match topological !g with
             | Ok m ->
               let ms = match m with None -> "-" | Some (o, r) -> dotted (ints o) ^ ";" ^ dotted (ints r) in
               (match m with Some (o, _) -> if small && not (check_topo !g o) then mism "fidelity" op "MODEL order %s fails the proved checker" ms | None -> ());
               if is_panic || res = "HANG" || res = "INCONSISTENT" then mism "api" op "implementation %s, model %s" res ms
               else if (res <> "-") <> (m <> None) then
                 mism "api" op "implementation %s but the graph is %s (proved model: %s)" res (if m = None then "cyclic" else "acyclic") ms
               else if res <> "-" then begin
                 match split_on res ";" with
                 | [o; r] ->
                   let o = undotted o and r = Array.of_list (undotted r) in
                   let topo_ok =
                     if small then check_topo !g (nats o)
                     else is_perm n o &&
                          (let pos = Array.make n 0 in List.iteri (fun i v -> pos.(v) <- i) o;
                           List.for_all (fun (a, b, _) -> pos.(a) < pos.(b)) !native_edges) in
                   if not topo_ok then mism "api" op "order %s is not a topological order (%s)" (dotted o) (if small then "proved checker" else "native check")
                   else if Array.length r <> n || not (List.for_all (fun x -> x) (List.mapi (fun i v -> r.(v) = i) o)) then
                     mism "api" op "Rank inconsistent with Order: %s" res
                   else if res <> ms then mism "fidelity" op "valid topological order %s, model %s" res ms
                 | _ -> mism "api" op "malformed %s" res
               end
             | _ -> mism "api" op "model hang/panic")
          | "MST" ->
            incr nqueries; bump "q_MST";
            (match minimum_spanning_tree !g with
             | Ok (mes, mw) ->
               let kw = if small then int_of_z (snd (kruskal !g)) else native_kruskal n (List.rev !native_edges) in
               if int_of_z mw <> kw then mism "fidelity" op "MODEL Prim weight %d differs from Kruskal %d" (int_of_z mw) kw;
               if small then begin
                 bump "checker_runs_on_model_output";
                 if not (check_msf !g mes) then mism "fidelity" op "MODEL forest %s fails the proved checker check_msf" (edges_str mes)
               end;
               if is_panic || res = "HANG" then mism "api" op "implementation %s" res else
               (match split_on res ";" with
                | [es; w] ->
                  let ies = (try parse_edges es with _ -> [((O, O), Z0); ((O, O), Z0)]) in
                  let sum = List.fold_left (fun a e -> a + int_of_z (e_w e)) 0 ies in
                  if w <> string_of_int sum then mism "api" op "Weight() %s is not the sum %d of Edges() %s" w sum es
                  else if small && (bump "checker_runs_on_impl_output"; not (check_msf !g ies)) then
                    mism "api" op "Edges() %s is not a minimum spanning forest (proved checker check_msf: graph edges, acyclic, cycle property for every graph edge); Kruskal weight %d" es kw
                  else if sum <> kw then
                    mism "api" op "forest weight %d, minimum (Kruskal reference) %d: %s" sum kw es
                  else if es = edges_str mes then bump "mst_same_edges_as_model" else bump "mst_other_minimum_forest_than_model"
                | _ -> mism "api" op "malformed %s" res)
             | _ -> mism "api" op "model hang")
          | "SPT" ->
            incr nqueries; bump "q_SPT";
            (match shortest_path_tree !g (vtx 1) with
             | Panic -> if not is_panic then mism "fidelity" op "source out of range: implementation %s, model panics" res
             | Hang -> mism "api" op "model hang"
             | Ok t ->
               let src = arg 1 in
               let mdist = List.map (function None -> -1 | Some z -> int_of_z z) t.sp_dist in
               let mout = if small then List.init n (fun v -> match path_to t (nat_of_int v) with Ok x -> x | _ -> None) else [] in
               if small then begin
                 bump "checker_runs_on_model_output";
                 if not (check_spt !g (vtx 1) mout) then mism "fidelity" op "MODEL shortest-path tree fails the proved checker"
               end;
               if is_panic || res = "HANG" then mism "api" op "implementation %s" res else begin
                 let rs = if res = "_" then [] else split_on res ";" in
                 if List.length rs <> n then mism "api" op "wrong number of answers" else begin
                   (* native parse: (dist, [(from,to,w)]) *)
                   let nout = List.map (fun r -> if r = "-" then None else
                                           match split_on r ":" with
                                           | [d; es] -> Some (int_of_string d,
                                                              if es = "_" then [] else
                                                                List.map (fun e -> match split_on e "." with
                                                                    | [a; b; w] -> (int_of_string a, int_of_string b, int_of_string w)
                                                                    | _ -> (-1, -1, -1)) (split_on es ","))
                                           | _ -> Some (-2, [])) rs in
                   let bad = ref false in
                   if small then begin
                     let iout = List.map (function None -> None
                                                 | Some (d, es) -> Some (List.map (fun (a, b, w) -> ((nat_of_int a, nat_of_int b), z_of_int w)) es, z_of_int d)) nout in
                     bump "checker_runs_on_impl_output";
                     if List.exists (function Some (_, es) -> List.exists (fun (a, b, _) -> a < 0 || b < 0) es | None -> false) nout
                        || not (check_spt !g (vtx 1) iout) then begin
                       bad := true;
                       mism "api" op "PathTo answers fail the proved checker (dist s = 0, every edge relaxed, every path real with exactly that weight): %s" res
                     end;
                     let d = (fw false).(src) in
                     List.iteri (fun v o ->
                       let id = match o with None -> -1 | Some (z, _) -> z in
                       if not !bad && id <> d.(v) then begin
                         bad := true;
                         mism "api" op "dist(%d) = %d, Floyd-Warshall reference %d" v id d.(v)
                       end) nout;
                     List.iter2 (fun o mo ->
                       if (match o, mo with Some (_, p), Some (q, _) -> edges_str q <> (if p = [] then "_" else String.concat "," (List.map (fun (a, b, w) -> Printf.sprintf "%d.%d.%d" a b w) p)) | _ -> false)
                       then bump "spt_other_shortest_path_than_model") nout mout
                   end else begin
                     (* large graphs: native validation of every path (real edges, chained from s to v, weight = dist) *)
                     List.iteri (fun v o -> match o with
                       | None -> ()
                       | Some (d, es) ->
                         let rec chain a sum = function
                           | [] -> a = v && sum = d
                           | (x, y, w) :: t -> x = a && Hashtbl.mem !native_set (x, y, w) && chain y (sum + w) t in
                         if not !bad && not (chain src 0 es) then begin
                           bad := true; mism "api" op "PathTo(%d) is not a path from %d of weight %d" v src d end) nout
                   end;
                   List.iteri (fun v (o, md) ->
                     let dd = function None -> -1 | Some (z, _) -> z in
                     if not !bad && dd o <> md then begin
                       bad := true; mism "api" op "dist(%d) = %d, model %d" v (dd o) md end;
                     (match o with None -> bump "spt_targets_unreachable" | Some _ -> bump "spt_targets_reachable"))
                     (List.combine nout mdist)
                 end
               end)
          | "NEW" ->
            let es = parse_new (if Array.length toks > 1 then toks.(1) else "_") in
            bump "graphs_built_by_constructor"; bumpn "constructor_edges" (List.length es);
            g := new_graph directed (nat_of_int n);
            native_edges := []; native_set := Hashtbl.create 16;
            List.iter (fun (a, b, w) ->
              if a >= 0 && a < n && b >= 0 && b < n then begin
                incr nedges;
                native_edges := (a, b, w) :: !native_edges; Hashtbl.replace !native_set (a, b, w) ();
                if a = b then incr selfloops;
                if w = 0 && (kind = "WU" || kind = "WD") then incr zerow;
                let key = if directed then (a, b) else (min a b, max a b) in
                if Hashtbl.mem seen_edges key then incr parallel else Hashtbl.add seen_edges key ()
              end;
              g := add_edge !g ((nat_of_int (if a < 0 then n + 1000 else a), nat_of_int (if b < 0 then n + 1000 else b)), z_of_int w)) es;
            fw_cache := None; fwu_cache := None; Hashtbl.reset paths_cache;
            if res <> "-" then mism "api" op "constructor reported %s" res
          | "ADJ" ->
            bump "q_ADJ";
            let weighted = (kind = "WU" || kind = "WD") in
            let rows = List.init n (fun v ->
              if weighted then List.map edge_str (adj_edges !g (nat_of_int v))
              else List.map string_of_int (ints (adjv !g (nat_of_int v)))) in
            let row_str r = if r = [] then "_" else String.concat (if weighted then "," else ".") r in
            let m = String.concat ";" (string_of_int (List.length !native_edges) :: List.map row_str rows) in
            if res <> m then begin
              if is_panic || res = "HANG" then mism "api" op "implementation %s" res else
              let parts = split_on res ";" in
              let irows = List.map (fun r -> if r = "_" then [] else split_on r (if weighted then "," else ".")) (List.tl parts) in
              let norm rs = List.map (List.sort compare) rs in
              if List.hd parts <> string_of_int (List.length !native_edges) || norm irows <> norm rows then
                mism "api" op "the adjacency lists are not those of the given edge list: implementation %s, model %s" res m
              else mism "fidelity" op "same adjacency sets, different order: implementation %s, model %s" res m
            end
          | "HOLD" ->
            bump "held_result_objects";
            let hop = String.concat " " (List.tl (Array.to_list toks)) in
            held := !held @ [(hop, !g, !native_edges, Hashtbl.copy !native_set)];
            if res <> "-" then handle hop res
          | "USE" ->
            bump "retention_probes";
            (match List.nth_opt !held (arg 1) with
             | None -> if res <> "NA" then mism "fidelity" op "no such held object, implementation %s" res
             | Some (hop, hg, hne, hns) ->
               (* check the earlier object against the graph as it was when the object was created *)
               let sg = !g and sne = !native_edges and sns = !native_set in
               g := hg; native_edges := hne; native_set := hns;
               fw_cache := None; fwu_cache := None; Hashtbl.reset paths_cache;
               label := Printf.sprintf "%s (result object created earlier, read after later queries) = " op;
               handle hop res;
               label := "";
               g := sg; native_edges := sne; native_set := sns;
               fw_cache := None; fwu_cache := None; Hashtbl.reset paths_cache)
          | _ -> ())
          with Failure _ | Invalid_argument _ | Not_found | Scanf.Scan_failure _ ->
            mism "api" op "unparsable / non-integer answer: %s" (if String.length res > 200 then String.sub res 0 200 else res)
        in
        List.iter (fun opres ->
          incr opno; incr ops;
          let op, res = match split_on opres "->" with
            | [a; b] -> (trim a, trim b) | [a] -> (trim a, "?") | _ -> (opres, "?") in
          Buffer.add_string opsig op; Buffer.add_char opsig ';';
          handle op res
        ) body;
        if !selfloops > 0 then bump "graphs_with_self_loops";
        if !parallel > 0 then bump "graphs_with_parallel_edges";
        if !zerow > 0 then bump "graphs_with_zero_weight_edges";
        if n >= 1020 then bump "graphs_across_block_size_1024";
        if hugeg then bump "graphs_5000_to_9000_vertices_native_bfs";
        bumpn "edges" !nedges;
        bump (Printf.sprintf "n_%s" (if n <= 4 then string_of_int n else if n <= 12 then "5_12" else if n <= 40 then "13_40" else "big"));
        if !nedges >= 2 && !nqueries >= 1 then Hashtbl.replace nontrivial (Digest.string (head ^ Buffer.contents opsig)) ();
        if !samples < 3 && !nedges >= 3 && String.length line < 3000 then begin
          incr samples;
          let l = if String.length line > 400 then String.sub line 0 400 ^ " ..." else line in
          Printf.printf "SAMPLE %s\n" l
        end
      end
    done
  with End_of_file -> ());
  Printf.printf "STAT cases=%d\nSTAT ops=%d\nSTAT nontrivial=%d\n" !cases !ops (Hashtbl.length nontrivial);
  Hashtbl.iter (fun k v -> Printf.printf "STAT %s=%d\n" k v) stats
