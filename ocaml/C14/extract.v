(* Extraction of the C14 model and checkers.  ExtrOcamlBasic only: nat, Z, positive stay Coq datatypes. *)
Require Extraction.
Require Import ExtrOcamlBasic.
From Algo.C14 Require Import Model Checkers.
Extraction Language OCaml.
Extraction "model.ml" new_graph add_edge adjv traverse_events paths_of paths_to orders_of pre_order post_order
  reverse_post_order connected_components strongly_connected_components components directed_cycle topological
  minimum_spanning_tree shortest_path_tree path_to
  check_path check_cycle check_topo check_scc check_cc check_spt check_msf reach_from floyd_warshall kruskal weight_of.
