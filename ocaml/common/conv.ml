(* Conversions between OCaml ints and the extracted Coq numerals (positive/Z/N/nat).
   #include-d textually (cat) in front of each driver so that it sees the driver's Model. *)
