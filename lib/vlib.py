"""Shared machinery for /verif/bin/check: Coq build + lint + obligation counting,
extraction/OCaml build, Go harness build, trace/replay protocol, shrinking,
known findings, evidence files.  Python 3 stdlib only."""
import fcntl, hashlib, json, os, re, subprocess, sys, time, glob, shutil

ROOT = os.path.dirname(os.path.dirname(os.path.abspath(__file__)))
COQ = os.path.join(ROOT, "coq")
BUILD = os.path.join(ROOT, "build")
REPO = os.environ.get("VERIF_REPO", "/repo")
GOENV = dict(GOFLAGS="-mod=mod", GOPROXY="off", GOSUMDB="off", GOTOOLCHAIN="local",
             CGO_ENABLED=os.environ.get("CGO_ENABLED", "0"))

FORBIDDEN = re.compile(
    r"\b(Admitted|admit|Axiom|Axioms|Parameter|Parameters|Conjecture|Conjectures|Admit Obligations|"
    r"bypass_check|type-in-type|impredicative-set)\b|Unset\s+Guard|Unset\s+Positivity|Unset\s+Universe")
STMT = re.compile(r"^\s*(?:Local\s+|Global\s+|#\[[^\]]*\]\s*)*(Theorem|Lemma|Corollary|Example|Fact|Proposition|Remark)\s+([A-Za-z_][\w']*)", re.M)
QED = re.compile(r"\b(Qed|Defined)\s*\.")


def log(*a):
    print(*a, file=sys.stderr, flush=True)


def sh(cmd, cwd=None, timeout=3600, env=None, stdin=None, stdout_path=None):
    e = dict(os.environ)
    e.update(GOENV)
    if env:
        e.update(env)
    out_f = open(stdout_path, "wb") if stdout_path else subprocess.PIPE
    try:
        p = subprocess.run(cmd, cwd=cwd, env=e, shell=isinstance(cmd, str), stdin=stdin,
                           stdout=out_f, stderr=subprocess.PIPE if stdout_path else subprocess.STDOUT,
                           timeout=timeout)
        rc = p.returncode
        out = (p.stderr if stdout_path else p.stdout) or b""
    except subprocess.TimeoutExpired as ex:
        rc = 124
        out = ((ex.stderr if stdout_path else ex.stdout) or b"") + b"\n[timeout]"
    finally:
        if stdout_path:
            out_f.close()
    return rc, out.decode("utf-8", "replace")


class Lock:
    def __init__(self, name):
        os.makedirs(BUILD, exist_ok=True)
        self.path = os.path.join(BUILD, name + ".lock")

    def __enter__(self):
        self.f = open(self.path, "w")
        fcntl.flock(self.f, fcntl.LOCK_EX)
        return self

    def __exit__(self, *a):
        fcntl.flock(self.f, fcntl.LOCK_UN)
        self.f.close()


# ---------------------------------------------------------------- Coq

def strip_comments(src):
    out, depth, i, n = [], 0, 0, len(src)
    instr = False
    while i < n:
        c2 = src[i:i + 2]
        if depth == 0 and src[i] == '"':
            instr = not instr
            out.append(src[i]); i += 1; continue
        if instr:
            out.append(src[i]); i += 1; continue
        if c2 == "(*":
            depth += 1; i += 2; continue
        if c2 == "*)" and depth > 0:
            depth -= 1; i += 2; continue
        if depth == 0:
            out.append(src[i])
        elif src[i] == "\n":
            out.append("\n")
        i += 1
    return "".join(out)


def coq_files():
    fs = sorted(glob.glob(os.path.join(COQ, "theories", "**", "*.v"), recursive=True))
    return [os.path.relpath(f, COQ) for f in fs]


def coq_project():
    """(Re)generate _CoqProject and the Makefile when the set of .v files changed."""
    want = "-Q theories Algo\n-arg -w -arg -notation-overridden,-deprecated-hint-without-locality,-deprecated-instance-without-locality\n" + "\n".join(coq_files()) + "\n"
    cp = os.path.join(COQ, "_CoqProject")
    have = open(cp).read() if os.path.exists(cp) else ""
    if have != want or not os.path.exists(os.path.join(COQ, "Makefile")):
        open(cp, "w").write(want)
        rc, out = sh("coq_makefile -f _CoqProject -o Makefile", cwd=COQ)
        if rc != 0:
            raise RuntimeError("coq_makefile failed: " + out)


def coq_make(targets=None, timeout=3000, jobs=16):
    """Full .vo build (never -vos) of the given targets (paths relative to coq/, .vo)."""
    with Lock("coq"):
        coq_project()
        tg = " ".join(targets) if targets else ""
        rc, out = sh("timeout %d make -j%d %s" % (timeout, jobs, tg), cwd=COQ, timeout=timeout + 30)
    return rc, out


def coq_closure(vfile):
    """All project .v files vfile depends on (inclusive), via coqdep -sort."""
    rc, out = sh("coqdep -Q theories Algo -sort %s" % vfile, cwd=COQ)
    fs = []
    for tok in out.split():
        tok = tok.strip()
        if tok.endswith(".v") and os.path.exists(os.path.join(COQ, tok)):
            fs.append(os.path.normpath(tok))
    if os.path.normpath(vfile) not in fs:
        fs.append(os.path.normpath(vfile))
    return fs


def coq_lint(files):
    """Forbidden constructs anywhere in the given files (comments stripped)."""
    bad = []
    for f in files:
        src = strip_comments(open(os.path.join(COQ, f)).read())
        for m in FORBIDDEN.finditer(src):
            ln = src.count("\n", 0, m.start()) + 1
            bad.append("%s:%d: %s" % (f, ln, m.group(0)))
        # Variable/Hypothesis/Context outside a Section declare axioms
        depth = 0
        for ln, line in enumerate(src.split("\n"), 1):
            s = line.strip()
            if re.match(r"^(Section|Module Type)\s+\w+", s):
                depth += 1
            elif re.match(r"^End\s+\w+\s*\.", s) and depth > 0:
                depth -= 1
            elif depth == 0 and re.match(r"^(Variable|Variables|Hypothesis|Hypotheses|Context)\b", s):
                bad.append("%s:%d: %s outside Section" % (f, ln, s.split()[0]))
    return bad


def coq_obligations(files):
    """Count statements (Theorem/Lemma/...) and closed proofs (Qed/Defined) in files."""
    names, closed = [], 0
    for f in files:
        src = strip_comments(open(os.path.join(COQ, f)).read())
        names += [m.group(2) for m in STMT.finditer(src)]
        closed += len(QED.findall(src))
    return names, closed


def coq_failing_theorem(make_out):
    """Best effort: name the file/line of the first coqc error and the enclosing statement."""
    m = re.search(r'File "\./?([^"]+)", line (\d+)', make_out)
    if not m:
        return None, None, make_out[-1500:]
    f, ln = m.group(1), int(m.group(2))
    name = None
    try:
        lines = open(os.path.join(COQ, f)).read().split("\n")
        for i in range(min(ln, len(lines)) - 1, -1, -1):
            mm = STMT.match(lines[i]) or re.match(r"^\s*(Definition|Fixpoint|Instance|Program\s+\w+|Equations)\s+([\w']+)", lines[i])
            if mm:
                name = mm.group(2)
                break
    except OSError:
        pass
    idx = make_out.find(m.group(0))
    return f, name, make_out[idx: idx + 1500]


def coq_assumptions(prop_v):
    """Recompile the property file alone and capture its Print Assumptions output."""
    with Lock("coq"):
        rc, out = sh("timeout 900 coqc -Q theories Algo -w -notation-overridden %s" % prop_v, cwd=COQ, timeout=930)
    if rc != 0:
        return rc, out, []
    axioms = []
    blocks = re.split(r"\n(?=Closed under the global context|Axioms:)", "\n" + out)
    closed = out.count("Closed under the global context")
    for b in blocks:
        if b.startswith("Axioms:"):
            for line in b.split("\n")[1:]:
                m = re.match(r"^([A-Za-z_][\w'.]*)\s*:", line)
                if m:
                    axioms.append(m.group(1))
    return rc, out, sorted(set(axioms)), closed


# ---------------------------------------------------------------- OCaml / Go builds

def ocaml_build(prop, extra_pkgs=""):
    """Run ocaml/<prop>/extract.v (extraction, ExtrOcamlBasic only) and link driver.ml."""
    d = os.path.join(ROOT, "ocaml", prop)
    exe = os.path.join(BUILD, prop.lower() + "_model")
    with Lock("ocaml_" + prop):
        srcs = [os.path.join(d, "extract.v"), os.path.join(d, "driver.ml")] + \
               [os.path.join(COQ, f) for f in coq_closure_of_extract(d)]
        if os.path.exists(exe) and all(os.path.getmtime(s) <= os.path.getmtime(exe) for s in srcs if os.path.exists(s)):
            return 0, "up to date", exe
        rc, out = sh("timeout 900 coqc -Q %s Algo extract.v" % os.path.join(COQ, "theories"), cwd=d, timeout=930)
        if rc != 0:
            return rc, out, exe
        for junk in glob.glob(os.path.join(d, "extract.vo*")) + glob.glob(os.path.join(d, "extract.glob")) + glob.glob(os.path.join(d, ".extract.aux")):
            os.remove(junk)
        rc, out2 = sh("ocamlfind ocamlopt -O3 -w -a -package str%s -linkpkg model.mli model.ml driver.ml -o %s 2>&1 || "
                      "ocamlfind ocamlopt -w -a -package str%s -linkpkg model.mli model.ml driver.ml -o %s" % (extra_pkgs, exe, extra_pkgs, exe), cwd=d, timeout=900)
        return rc, out + out2, exe


def coq_closure_of_extract(d):
    src = open(os.path.join(d, "extract.v")).read()
    fs = []
    for m in re.finditer(r"Algo\.([\w.]+)", src):
        p = os.path.join("theories", *m.group(1).split(".")) + ".v"
        if os.path.exists(os.path.join(COQ, p)):
            fs += coq_closure(p)
    return sorted(set(fs))


def repo_tag():
    """'' for /repo itself; a short hash for a scratch worktree given by VERIF_REPO (mutation self-tests)."""
    return "" if os.path.realpath(REPO) == "/repo" else "_" + hashlib.sha1(os.path.realpath(REPO).encode()).hexdigest()[:8]


def go_build(cmd, tags="verif", race=False):
    """Build harness/cmd/<cmd> against the current working tree of /repo (or of VERIF_REPO)."""
    h = os.path.join(ROOT, "harness")
    exe = os.path.join(BUILD, cmd + repo_tag() + ("_race" if race else "") + "_trace")
    with Lock("go"):
        modflag = ""
        if repo_tag():
            md = os.path.join(BUILD, "gomod" + repo_tag())
            os.makedirs(md, exist_ok=True)
            gm = open(os.path.join(h, "go.mod")).read().replace("=> /repo", "=> " + os.path.realpath(REPO))
            open(os.path.join(md, "go.mod"), "w").write(gm)
            shutil.copy(os.path.join(REPO, "go.sum"), os.path.join(md, "go.sum"))
            modflag = "-modfile=" + os.path.join(md, "go.mod")
        else:
            try:
                shutil.copy(os.path.join(REPO, "go.sum"), os.path.join(h, "go.sum"))
            except OSError:
                pass
        env = {"CGO_ENABLED": "1"} if race else None
        rc, out = sh("timeout 900 go build %s %s -tags %s -o %s ./cmd/%s" % (modflag, "-race" if race else "", tags, exe, cmd), cwd=h, timeout=930, env=env)
    return rc, out, exe


# ---------------------------------------------------------------- known findings

def known_findings(prop):
    """Entries of KNOWN_FINDINGS.txt for prop: list of (sig, text).  'fixed:' lines suppress nothing."""
    res = []
    p = os.path.join(ROOT, "KNOWN_FINDINGS.txt")
    if not os.path.exists(p):
        return res
    for line in open(p):
        line = line.strip()
        m = re.match(r"^known:\s+property=(\w+)\s+sig=(\S+)\s+(.*)$", line)
        if m and m.group(1) == prop:
            res.append((m.group(2), m.group(3)))
    return res


# ---------------------------------------------------------------- evidence / verdict

class Run:
    def __init__(self, prop, tier, seed):
        self.prop, self.tier, self.seed = prop, tier, seed
        self.t0 = time.time()
        self.violations = []       # (replay_path, no_input)
        self.known_printed = set()
        self.cov = {"evaluations": 0, "distinct_nontrivial": 0, "rule": "", "samples": [],
                    "obligations": 0, "discharged": 0, "checker_cmd": "", "trusted_base": []}
        self.assumptions = []

    def violation(self, replay_obj, no_input=False, tag=None):
        rdir = os.path.join(ROOT, "replays") if not repo_tag() else os.path.join(BUILD, "replays" + repo_tag())
        os.makedirs(rdir, exist_ok=True)
        name = "%s-%s-%d%s.json" % (self.prop, self.tier, self.seed, ("-" + tag) if tag else "")
        path = os.path.join(rdir, name)
        k = 1
        while any(path == v[0] for v in self.violations):
            k += 1
            path = os.path.join(rdir, name.replace(".json", "-%d.json" % k))
        replay_obj = dict(replay_obj)
        replay_obj.setdefault("property", self.prop)
        replay_obj.setdefault("seed", self.seed)
        replay_obj.setdefault("tier", self.tier)
        with open(path, "w") as f:
            json.dump(replay_obj, f, indent=1)
        self.violations.append((path, no_input))
        print("VIOLATION property=%s replay=%s%s" % (self.prop, path, " no-failing-input-found" if no_input else ""), flush=True)

    def known(self, sig, text):
        if sig not in self.known_printed:
            self.known_printed.add(sig)
            print("KNOWN-FINDING: property=%s %s" % (self.prop, text), flush=True)

    def finish(self):
        ev = {
            "property_id": self.prop, "tier": self.tier, "seed": self.seed, "level": "proof",
            "coverage": self.cov, "assumptions": self.assumptions,
            "wall_s": round(time.time() - self.t0, 2), "violations": len(self.violations),
        }
        evd = os.path.join(ROOT, "evidence") if not repo_tag() else os.path.join(BUILD, "evidence" + repo_tag())
        os.makedirs(evd, exist_ok=True)
        with open(os.path.join(evd, self.prop + ".json"), "w") as f:
            json.dump(ev, f, indent=1)
        return 1 if self.violations else 0


# ---------------------------------------------------------------- the standard proof + correspondence check

def proof_stage(run, prop_v, extra_closure=()):
    """Build the property's theorem file and everything it depends on; lint; count obligations;
    capture Print Assumptions.  Returns True when every obligation is discharged."""
    files = coq_closure(prop_v)
    for e in extra_closure:
        files = sorted(set(files) | set(coq_closure(e)))
    bad = coq_lint(files)
    names, closed = coq_obligations(files)
    run.cov["obligations"] = len(names)
    run.cov["checker_cmd"] = "coq_makefile -f _CoqProject -o Makefile && make -j16 %s (coqc 8.16.1, full .vo build) ; coqc %s for Print Assumptions" % (prop_v + "o", prop_v)
    run.cov["proof_files"] = files
    if bad:
        run.cov["discharged"] = 0
        run.cov["lint"] = bad
        run.violation({"kind": "lint", "forbidden": bad,
                       "broken": "development contains forbidden constructs"}, no_input=True, tag="lint")
        return False
    rc, out = coq_make([prop_v + "o"] + [e + "o" for e in extra_closure])
    if rc != 0:
        f, name, msg = coq_failing_theorem(out)
        run.cov["discharged"] = 0
        run.cov["broken_obligation"] = {"file": f, "statement": name, "coqc": msg}
        run.broken = {"kind": "proof-obligation", "file": f, "theorem": name, "coqc_error": msg}
        return False
    r = coq_assumptions(prop_v)
    if r[0] != 0:
        run.cov["discharged"] = 0
        run.broken = {"kind": "proof-obligation", "file": prop_v, "theorem": None, "coqc_error": r[1][-1500:]}
        return False
    _, out, axioms, closed_ctx = r
    run.cov["discharged"] = len(names) if closed >= len(names) else closed
    run.cov["property_theorems"] = [n for n in coq_obligations([prop_v])[0]]
    run.cov["print_assumptions"] = {"closed_under_global_context": closed_ctx, "axioms": axioms}
    if run.tier == "thorough" and not os.environ.get("VERIF_NO_COQCHK"):
        mod = "Algo." + prop_v[len("theories/"):-2].replace("/", ".")
        with Lock("coq"):
            rcc, outc = sh("timeout 3000 coqchk -silent -o -Q theories Algo %s" % mod, cwd=COQ, timeout=3030)
        m = re.search(r"\* Axioms:(.*?)\n\s*\n\* Constants", outc, re.S)
        run.cov["coqchk"] = {"cmd": "coqchk -silent -o -Q theories Algo " + mod, "exit": rcc,
                             "axioms": " ".join(m.group(1).split()) if m else outc[-600:]}
        if rcc != 0:
            run.cov["discharged"] = 0
            run.broken = {"kind": "coqchk", "error": outc[-1500:]}
            return False
    run.cov["trusted_base"] = [
        "Coq 8.16.1 kernel via coqc (vm_compute used; native_compute not used)",
        "axioms reported by Print Assumptions under the property theorems: %s" % (", ".join(axioms) if axioms else "none (Closed under the global context)"),
        "extraction: ExtrOcamlBasic only (no Extract Constant / Extract Inductive of our own); OCaml 4.13.1; hand-written ocaml/%s/driver.ml" % run.prop,
        "Go harness harness/cmd/%s (generators, canonicalisation) built from /repo's working tree with -tags verif" % run.prop.lower(),
    ]
    return True


def parse_driver_output(out):
    """Driver protocol: lines 'MISMATCH line=<n> op=<k> kind=<api|fidelity> what=<...>' ,
    'STAT key=value' , 'SAMPLE <text>' , 'NONTRIVIAL <hash>'."""
    mism, stats, samples = [], {}, []
    for line in out.split("\n"):
        if line.startswith("MISMATCH "):
            d = {}
            head, _, what = line[9:].partition(" what=")
            for kv in head.split():
                k, _, v = kv.partition("=")
                d[k] = v
            d["what"] = what
            mism.append(d)
        elif line.startswith("STAT "):
            k, _, v = line[5:].partition("=")
            try:
                stats[k.strip()] = int(v)
            except ValueError:
                stats[k.strip()] = v.strip()
        elif line.startswith("SAMPLE "):
            samples.append(line[7:])
    return mism, stats, samples


def run_pair(trace_exe, model_exe, args, tag, timeout=1800, model_args=""):
    """harness args > trace file ; model < trace file.  Returns (trace_path, harness_rc, harness_err, driver_rc, driver_out)."""
    d = os.path.join(BUILD, "run" + repo_tag())
    os.makedirs(d, exist_ok=True)
    tp = os.path.join(d, tag + ".trace")
    rc1, err = sh("%s %s" % (trace_exe, args), timeout=timeout, stdout_path=tp)
    rc2, out = sh("%s %s < %s" % (model_exe, model_args, tp), timeout=timeout)
    return tp, rc1, err, rc2, out


def split_case(line):
    parts = [p.strip() for p in line.rstrip("\n").split("|")]
    return parts[0], parts[1:]


def strip_results(op):
    return op.split("->")[0].strip()


def shrink(trace_exe, model_exe, line, still_fails=None, budget=400, model_args="", seconds=150):
    """Delta-debug the op list of one failing case line.  The harness re-executes a case given
    on a --replay file (observed results are recomputed by the implementation)."""
    head, ops = split_case(line)
    ops = [strip_results(o) for o in ops]
    d = os.path.join(BUILD, "run" + repo_tag())
    os.makedirs(d, exist_ok=True)
    uid = hashlib.sha1((line + str(os.getpid())).encode()).hexdigest()[:10]
    rp = os.path.join(d, "shrink-%s.case" % uid)
    tp = os.path.join(d, "shrink-%s.trace" % uid)

    def fails(cand):
        with open(rp, "w") as f:
            f.write(head + " | " + " | ".join(cand) + "\n")
        rc1, err = sh("%s --replay %s" % (trace_exe, rp), timeout=120, stdout_path=tp)
        rc2, out = sh("%s %s < %s" % (model_exe, model_args, tp), timeout=120)
        mism, _, _ = parse_driver_output(out)
        if rc1 != 0 and not mism:
            # implementation crashed / hung before the trace could be completed
            mism = [{"line": "1", "op": "?", "kind": "api", "what": "harness exit %d: %s" % (rc1, err[-300:])}]
        if still_fails:
            mism = [m for m in mism if still_fails(m)]
        return mism

    cur = ops
    t_end = time.time() + seconds      # wall-clock cap: hanging cases cost one watchdog deadline per attempt
    m0 = fails(cur)
    if not m0:
        return line, None
    n = 2
    steps = 0
    while len(cur) >= 2 and steps < budget and time.time() < t_end:
        chunk = max(1, len(cur) // n)
        reduced = False
        for i in range(0, len(cur), chunk):
            cand = cur[:i] + cur[i + chunk:]
            steps += 1
            if time.time() > t_end:
                break
            if cand and fails(cand):
                cur = cand
                n = max(n - 1, 2)
                reduced = True
                break
        if not reduced:
            if chunk == 1:
                break
            n = min(n * 2, len(cur))
    mm = fails(cur)
    with open(tp) as f:
        final = f.readline().rstrip("\n")
    for p in (rp, tp):
        try:
            os.remove(p)
        except OSError:
            pass
    return final, (mm[0] if mm else m0[0])


# ---------------------------------------------------------------- standard check = proofs + correspondence

def std_check(run, cfg):
    """cfg keys:
      prop_v        coq/theories/Properties/Cxx.v (relative to coq/)
      cmd           harness/cmd/<cmd>
      batches       fn(tier, seed) -> list of (tag, harness-args)
      signatures    {sig: fn(case_line, mismatch) -> bool}   (only sigs listed in KNOWN_FINDINGS.txt are honoured)
      rule          text for coverage.rule
      model_args    optional args for the model driver
      max_report    how many mismatching cases to shrink/report per batch (default 3)
    """
    prop = run.prop
    run.broken = None
    proof_ok = proof_stage(run, cfg["prop_v"], cfg.get("extra_closure", ()))
    rc, out, model_exe = ocaml_build(prop)
    if rc != 0:
        # extraction fails when the model no longer compiles: that is a broken obligation, too
        if run.broken is None:
            run.broken = {"kind": "model-build", "error": out[-1500:]}
        proof_ok = False
        model_exe = None
    rc, out, trace_exe = go_build(cfg["cmd"])
    if rc != 0:
        print("BROKEN-CHECK property=%s: harness does not build against /repo: %s" % (prop, out[-2000:]), flush=True)
        run.cov["explanation"] = "harness build failed"
        run.finish()
        return 2
    known = dict(known_findings(prop))
    sigs = cfg.get("signatures", {})
    api_failures = 0
    fidelity = []
    dist = {}
    samples = []
    evals = nontriv = 0
    if model_exe:
        batches = []
        cdir = os.path.join(ROOT, "corpus", prop)
        for cf in sorted(glob.glob(os.path.join(cdir, "*.case"))):
            batches.append(("corpus-" + os.path.basename(cf)[:-5], "--replay " + cf))
        batches += cfg["batches"](run.tier, run.seed)
        for tag, args in batches:
            tp, rc1, err, rc2, dout = run_pair(trace_exe, model_exe, args, prop + "-" + tag,
                                               timeout=cfg.get("timeout", 1800), model_args=cfg.get("model_args", ""))
            mism, stats, smp = parse_driver_output(dout)
            if rc2 != 0 and not mism:
                print("BROKEN-CHECK property=%s: model driver failed on batch %s: %s" % (prop, tag, dout[-1500:]), flush=True)
                run.finish()
                return 2
            if rc1 != 0:
                # the implementation crashed or hung inside the harness: the last traced case is the culprit
                mism = mism or [{"line": "last", "op": "?", "kind": "api",
                                 "what": "harness exit %d (crash/hang in implementation): %s" % (rc1, err[-400:])}]
            evals += stats.get("cases", 0)
            nontriv += stats.get("nontrivial", 0)
            for k, v in stats.items():
                if isinstance(v, int):
                    dist[k] = max(dist.get(k, 0), v) if k.startswith("max_") else dist.get(k, 0) + v
            samples += smp[:2]
            if not mism:
                continue
            # property-level (api) mismatches first: only the first few mismatching cases are shrunk
            mism.sort(key=lambda m: 0 if m.get("kind", "api").startswith("api") else 1)
            lines = open(tp, errors="replace").read().split("\n")
            lines = [l for l in lines if l.strip() and not l.startswith("#")]
            seen_lines = set()
            for m in mism:
                if len(seen_lines) >= cfg.get("max_report", 3):
                    break
                ln = m.get("line", "last")
                if ln in seen_lines:
                    continue
                seen_lines.add(ln)
                idx = len(lines) - 1 if ln == "last" else int(ln) - 1
                case = lines[idx] if 0 <= idx < len(lines) else ""
                kind = m.get("kind", "api")
                if cfg.get("shrink", True) and case:
                    small, m2 = shrink(trace_exe, model_exe, case, model_args=cfg.get("model_args", ""),
                                       still_fails=(lambda x, k=kind: x.get("kind", "api") == k))
                    if m2:
                        case, m = small, m2
                sig = None
                for s, fn in sigs.items():
                    try:
                        if s in known and fn(case, m):
                            sig = s
                            break
                    except Exception:
                        pass
                if sig:
                    run.known(sig, known[sig])
                    continue
                if kind == "fidelity":
                    fidelity.append({"batch": tag, "case": case, "mismatch": m})
                    continue
                api_failures += 1
                run.violation({"kind": "implementation-vs-proved-model", "batch": tag, "harness_args": args,
                               "case": case, "mismatch": m,
                               "replay_cmd": "bin/check %s --replay <this file>" % prop,
                               "meaning": "the model is proved to satisfy the property on this observable; "
                                          "the implementation in /repo returned something else on this history"},
                              tag=tag)
    if api_failures == 0 and fidelity:
        f = fidelity[0]
        run.violation({"kind": "correspondence-broken", "correspondence": "%s model vs /repo (fidelity observable)" % prop,
                       "batch": f["batch"], "case": f["case"], "mismatch": f["mismatch"],
                       "note": "model and implementation differ on an internal/fidelity observable only; "
                               "no property-level failing input found"}, no_input=True, tag="fidelity")
    if not proof_ok and api_failures == 0:
        b = run.broken or {"kind": "proof-obligation"}
        b = dict(b)
        b["note"] = "obligation no longer checks; the generators of this tier found no failing input"
        run.violation(b, no_input=True, tag="proof")
    run.cov["evaluations"] = evals
    run.cov["distinct_nontrivial"] = nontriv
    run.cov["rule"] = cfg.get("rule", "")
    run.cov["samples"] = samples[:6]
    run.cov["distribution"] = dist
    run.cov["traces_validated_against_impl"] = evals
    run.assumptions = cfg.get("assumptions", [])
    return run.finish()


def std_replay(prop, cfg, path):
    """Re-execute the case stored in a replay file against /repo and the model."""
    obj = json.load(open(path))
    case = obj.get("case")
    if not case:
        print("replay file has no concrete case (broken obligation):", json.dumps(obj)[:2000])
        return 1
    rc, out, model_exe = ocaml_build(prop)
    rc2, out2, trace_exe = go_build(cfg["cmd"])
    if rc or rc2:
        print(out, out2)
        return 2
    d = os.path.join(BUILD, "run" + repo_tag()); os.makedirs(d, exist_ok=True)
    cp = os.path.join(d, prop + "-replay.case")
    head, ops = split_case(case)
    open(cp, "w").write(head + " | " + " | ".join(strip_results(o) for o in ops) + "\n")
    tp, rc1, err, rc3, dout = run_pair(trace_exe, model_exe, "--replay " + cp, prop + "-replay", model_args=cfg.get("model_args", ""))
    print(open(tp).read())
    print(dout)
    mism, _, _ = parse_driver_output(dout)
    return 1 if (mism or rc1) else 0
