CFG = {
    "prop_v": "theories/Properties/C04.v",
    "cmd": "c04",
    "batches": lambda tier, seed: [("exhaustive", "-mode exhaustive -tier %s" % tier),
                                   ("shapes", "-mode shapes -tier %s" % tier),
                                   ("random", "-mode random -tier %s" % tier),
                                   ("big", "-mode big -tier %s" % tier)],
    "signatures": {},
    "rule": "exhaustive: every history of exactly L steps (quick L=6, one heap: Insert key 1 / Insert key 2 with fresh values / Delete / DeleteAll; "
            "three keys without DeleteAll, L=5; binomial/Fibonacci two keys without DeleteAll, L=8; two mergeable heaps, L=4: the same on both (DeleteAll included) plus Merge in both directions; binary heap additionally with initial sizes 1..4) x 3 implementations "
            "x 6 comparators (the library's +-1 min and max comparators and magnitude comparators a-b, b-a, 3(a-b), 3(b-a); full depth under min and 3(b-a), one step less under the others), with the full battery Size/IsEmpty/Peek/ContainsKey 1,2,3/ContainsValue held,absent/verify()/layout dump after every step; "
            "shapes: binary heap fill-and-drain across every resize boundary for initial sizes 0..6, merges of heaps of sizes a,b (carry chains, three trees of one order) "
            "then drain, 2^k+1 inserts + Delete (one tree of degree k, k <= 9 quick / 12 thorough) with ascending/descending/equal/random keys, float64 maxDegree(n) against the exact definition, Merge histories (receiver plain / cleared-and-refilled / after a Delete / queried x argument never used / filled / cleared by DeleteAll / cleared-and-refilled / drained by Deletes / drained-and-cleared / queried / after one Delete / result of an earlier Merge, then possibly cleared or drained; argument keys better, worse or tying; full battery incl. ContainsValue of every value ever inserted on the receiver BEFORE any Delete, then Delete, battery, drain); random: pools of 1..8 heaps, up to 1200 (thorough 2000) steps, duplicate-heavy key ranges "
            "{1,2,3,5,16,64,1000}, ascending/descending/equal/saw-tooth shapes, Merge (argument cleared/drained/queried right before it, receiver queried right after it), DeleteAll, final drain. "
            "big: heaps of 3200 and 6000 entries (permutation or duplicate-heavy keys, fill then drain) and hovering with interleaved insert/delete runs around the sizes "
            "2207, 3571, 5778 (phi^16..phi^18, where maxDegree() steps 16->17->18->19), all three heaps, bulk operations of <= 250 inserts/deletes, judged by the extracted "
            "bag-specification acceptor only (no exact model at this size). "
            "A case is non-trivial when the model saw a Delete on a heap of >= 3 entries, a Merge of two non-empty heaps or a resize of the binary heap's array; "
            "distinct = distinct (header, op list).",
    "assumptions": [
        "Go int arithmetic does not overflow (sizes < 2^62; 2*j and len*2 stay far below)",
        "float64 int(math.Log(n)/math.Log(phi))+1 equals the exact 1+max{d | phi^d <= n} used by the model for every n < L_35 = 20633239 (swept on every run: all n <= 20000 quick / 10^6 thorough, and +-2 around phi^d below 2*10^7); from n = L_35 on, float64 rounding deviates by one at isolated Lucas numbers (first upwards at L_35; first downwards at L_42 = 599074578, where the table still has 42 > log2 n slots) - sizes no run reaches",
        "a heap passed to Merge is not used afterwards (its nodes are shared with the receiver); self-merge and Merge across implementations are outside the property",
        "keys and values are Go ints; comparators: generic.NewCompareFunc / NewReverseCompareFunc (+-1) and a-b, b-a, 3(a-b), 3(b-a) (magnitudes, legal under the negative/zero/positive contract; no overflow for the key ranges used); the model is run with the same comparator value for value; the theorems hold for every comparator satisfying TotalOrder and every eqVal",
    ],
}


def main(run):
    """std_check with a capped shrinker: a failing case with thousands of entries cannot be reduced below the
    size at which the defect shows, and every replay of it costs about a second."""
    import vlib
    orig = vlib.shrink

    def capped(trace_exe, model_exe, line, still_fails=None, budget=400, model_args=""):
        big = line.split(" ", 1)[0].endswith("*") or line.count("|") > 3000
        return orig(trace_exe, model_exe, line, still_fails=still_fails, budget=(40 if big else budget), model_args=model_args)

    vlib.shrink = capped
    try:
        return vlib.std_check(run, CFG)
    finally:
        vlib.shrink = orig
