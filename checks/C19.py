"""C19 — two-buffer input reader (lexer/input).

Before the standard proof + correspondence check the translator harness/cmd/gen-c19 regenerates
coq/theories/Gen/C19_Tables.v (the first[256] / acceptRanges tables and the constants of
lexer/input/utf8.go) from the repository under test; when the text changed, `make` rebuilds every
theorem that depends on it, in particular utf8_tables_correct.  bin/setup calls pregen() too."""
import os, re, sys
sys.path.insert(0, os.path.join(os.path.dirname(os.path.dirname(os.path.abspath(__file__))), "lib"))
import vlib

GEN = os.path.join(vlib.COQ, "theories", "Gen", "C19_Tables.v")


def pregen(repo=None):
    """Regenerate Gen/C19_Tables.v from <repo>/lexer/input/utf8.go.  Returns True when the text changed."""
    repo = repo or vlib.REPO
    rc, out, exe = vlib.go_build("gen-c19")
    if rc != 0:
        raise RuntimeError("translator does not build: " + out[-1500:])
    os.makedirs(vlib.BUILD, exist_ok=True)
    tmp = os.path.join(vlib.BUILD, "C19_Tables%s.v.new" % vlib.repo_tag())
    rc, out = vlib.sh("%s -repo %s -o %s" % (exe, repo, tmp), timeout=120)
    if rc != 0:
        raise RuntimeError("translator failed on %s/lexer/input/utf8.go: %s" % (repo, out[-1500:]))
    new = open(tmp).read()
    os.remove(tmp)
    old = open(GEN).read() if os.path.exists(GEN) else None
    if new != old:
        with vlib.Lock("coq"):
            os.makedirs(os.path.dirname(GEN), exist_ok=True)
            with open(GEN, "w") as f:
                f.write(new)
        return True
    return False


def _src(case_line):
    m = re.search(r"\bsrc=([0-9a-fA-F]*)", case_line)
    return bytes.fromhex(m.group(1)) if m else b""


def sig_nul(case_line, mism):
    """D19d: the source contains byte 0x00 and the implementation differs from what the property requires."""
    return 0 in _src(case_line) and "[spec]" in mism.get("what", "")


def sig_truncated(case_line, mism):
    """The source ends inside a multi-byte sequence; Next answers io.EOF where the property requires an error
    for ill-formed input."""
    what = mism.get("what", "")
    if "[spec] N: implementation EOF, the property requires INV" not in what:
        return False
    src = _src(case_line)
    if 0 in src:
        return False
    try:
        src.decode("utf-8")
        return False
    except UnicodeDecodeError as e:
        return e.reason == "unexpected end of data" and e.end == len(src)


def _batches(tier, seed, broken=False):
    b = [("exhaustive", "-mode exhaustive -tier %s" % tier),
         ("straddle", "-mode straddle -tier %s" % tier),
         ("random", "-mode random -tier %s" % tier),
         ("invalid", "-mode invalid -tier %s" % tier),
         ("utf8", "-mode utf8 -tier %s" % tier)]
    if broken and tier != "thorough":
        # an obligation no longer checks (e.g. a regenerated table entry): search harder for a failing input
        b = [("utf8-full", "-mode utf8 -tier thorough")] + b
    return b


CFG = {
    "prop_v": "theories/Properties/C19.v",
    "cmd": "c19",
    "batches": _batches,
    "signatures": {"nul-sentinel": sig_nul, "truncated-tail-eof": sig_truncated},
    "max_report": 4,
    "rule": "a case = buffer size n, reader oracle, source bytes, history of Next/Retract/Lexeme/Skip. "
            "exhaustive: every source of <= 6 runes over {a, newline, e-acute}: stream under 5 readers x n=1..4, random lexer-like "
            "histories, and for sources of <= 3 runes every history of the token grammar (scan 1..3, retract 0..2, Lexeme|Skip); "
            "straddle: 2/3/4-byte runes with every split across the 1st/2nd/3rd half boundary and at the end of the source, n=1..6(9), "
            "look-ahead-and-retract on every rune; random: n in 1..9,16,31,64, sources of about k*n-1, k*n, k*n+1 and 2kn bytes, random "
            "decision lists (short reads, stalls, EOF with data); invalid: valid prefix + ill-formed sequence + ASCII; utf8: every 1- and "
            "2-byte sequence and boundary 3/4-byte sequences decoded by Next. Every result is compared with the extracted model (exact) and "
            "with the extracted specification (property level). Non-trivial = at least one half was reloaded and at least one rune was "
            "returned; distinct = distinct (header, op list).",
    "assumptions": [
        "the io.Reader behaves as an oracle of Algo.C19.Model.read: per Read call it hands over 0..len(p) of the remaining bytes, "
        "reports io.EOF with the last bytes or on a later call, and stalls ((0,nil)) only finitely often; no other error is returned",
        "list.Stack is a LIFO stack (property C18); Go int arithmetic does not overflow (offsets < 2^62)",
        "the source contains no byte 0x00 (known finding nul-sentinel) for the theorems C19_stream / C19_lexemes / C19_invalid",
    ],
}


def main(run):
    gen_error = None
    try:
        pregen()
    except Exception as ex:  # the tables cannot be regenerated: the Gen obligation cannot be re-checked
        gen_error = str(ex)
    # the model must be compiled even when a proof about it no longer checks
    vlib.coq_make(["theories/C19/Model.vo", "theories/C19/Spec.vo"])
    cfg = dict(CFG)
    cfg["batches"] = lambda tier, seed: _batches(tier, seed, broken=bool(getattr(run, "broken", None)) or bool(gen_error))
    rc = vlib.std_check(run, cfg)
    if gen_error and rc == 0:
        run.violation({"kind": "translator", "broken": "Gen/C19_Tables.v could not be regenerated from lexer/input/utf8.go",
                       "error": gen_error,
                       "note": "the generators of this tier found no failing input"}, no_input=True, tag="gen")
        rc = run.finish()
    if vlib.repo_tag():
        # a scratch worktree may have left mutated tables behind: put back those of /repo
        try:
            pregen("/repo")
        except Exception:
            pass
    return rc
