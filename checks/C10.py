CFG = {
    "prop_v": "theories/Properties/C10.v",
    "cmd": "c10",
    "batches": lambda tier, seed: [("exhaustive", "-mode c10-exhaustive -tier %s" % tier),
                                   ("random", "-mode c10-random -tier %s" % tier)],
    "signatures": {},
    "rule": "exhaustive: every grammar (Verify() ok) over <=2 terminals and <=2 non-terminals with <=3..4 productions of body length <=2..3; "
            "random: <=4 terminals, <=7 non-terminals, five styles (uniform, epsilon-chains, LL(1)-biased, with unreachable/unproductive "
            "non-terminals, left recursion and unit cycles).  Per grammar: NullableNonTerminals, FIRST(alpha) for every alpha up to length 3 (2 for the "
            "largest family; body suffixes and random longer strings for random grammars; strings with symbols outside the grammar), FOLLOW(A) for every A, "
            "IsLL1, BuildParsingTable and every table cell, everything recomputed three more times (random hash-table iteration order); each result is "
            "compared as a set with the proved model, with an independently coded reachability characterisation and, on small grammars, with brute-force "
            "enumeration of bounded sentential forms.  A case is non-trivial when the grammar has a nullable non-terminal or a FIRST member that is "
            "not the leading terminal of one of the non-terminal's own productions; distinct = distinct grammars.  A third of the grammars use non-terminal NAMES whose concatenations are ambiguous (names=concat: A, AA, AAA ...), and for those FIRST is asked for colliding strings ([N0,N0] / [N1], [N0,N1] / [N1,N0] / [N2] / [N0,N0,N0]) in both orders on one FIRST function.  Wide grammars (20-70 terminals, one non-terminal with 20-40 alternatives) get the same battery under the watchdog. Half of the grammars give terminal i and non-terminal i the same NAME (symbols differ by Go type only); every case ends with in-place edits of its one grammar object (Productions.Add/Remove, Terminals.Add) after each of which NullableNonTerminals, FIRST, FOLLOW, IsLL1 and BuildParsingTable are recomputed on that object and compared with the model of the edited grammar.",
    "assumptions": ["terminals/non-terminals are modelled as natural numbers; the endmarker is not a terminal of the grammar (as grammar.Endmarker's documentation assumes)",
                    "the three fixpoint loops run on fuel in the model; C10_terminates proves the fuel is never exhausted",
                    "Go's randomised iteration order is an oracle of the model (one production order per pass and per loop); the theorems hold for every oracle that enumerates exactly the productions, the extracted model runs with the identity oracle, and the harness recomputes every result four times per grammar under Go's real random order"],
}
