CFG = {
    "prop_v": "theories/Properties/C18.v",
    "cmd": "c18",
    "batches": lambda tier, seed: [("exhaustive", "-mode exhaustive -tier %s" % tier),
                                   ("dup", "-mode dup -tier %s" % tier),
                                   ("literal", "-mode literal -tier %s" % tier),
                                   ("refill", "-mode refill -tier %s" % tier),
                                   ("big", "-mode big -tier %s" % tier),
                                   ("random", "-mode random -tier %s" % tier)],
    "signatures": {},
    "max_report": 1,
    "rule": "Structures: list.Queue / list.Stack (block sizes 1,2,3,4,5,64; big: 17,20,33,48,100 and 1000 in thorough; random: all of these but 1000, and 7,8) and list.SoftQueue, int payloads, "
            "EqualFunc in {==, equal mod 3, <= (asymmetric: pins the argument order equal(stored, searched); Contains differences under it are kind=fidelity)}. "
            "Every soft-queue battery starts with an aliasing probe W: take Values(), overwrite every cell of the returned slice with a sentinel, reverse it, append into its spare capacity, keep it; "
            "all observers that follow (Values, Contains, Peek, Dequeue) must be unaffected, and the next probe checks that the queue did not write into the slice it handed out earlier "
            "(Values() is the only function of list/ that returns a slice; Queue/Stack return elements by value). "
            "Every battery also takes a representation snapshot through the verif hook (cursors, blocks incl. stale cells, stale rear pointer), compared as kind=fidelity. "
            "exhaustive: every history of exactly n mutators (quick n=11, thorough n=13) over {add a fresh value, remove} with the full observer battery "
            "(Size, IsEmpty, Peek, Contains of 0 = the zero value of unwritten cells, of every value added so far and of the next one; Values for the soft queue) "
            "after EVERY step (so every shorter history and every interleaving of observers is covered as a prefix), then drained past empty and refilled; "
            "dup: every history of n mutators (5/7) over {add 0, add 1, add 2, remove} under each EqualFunc with the battery after every step; "
            "literal: every history of length n (5/7) over the property's own alphabet enqueue x | dequeue | peek | contains x, x in {1,2}; "
            "refill: for every block size, add a, remove a|a-1|a-2, refill r, drain, refill nodeSize+1, drain, for all a,r in 0..2*nodeSize+2 "
            "(the cursor is left at every offset of a block, including exactly on the boundary = the D18 situation); "
            "big: block sizes that are neither tiny nor powers of two (a physical block length different from nodeSize shows): runs of 2*nodeSize+50 fresh values, "
            "Contains sweep over every value ever added, complete drain checking every value, partial drains down to 0|1|nodeSize-1|nodeSize|nodeSize+1 live values and continuation, "
            "refill patterns around nodeSize and 2*nodeSize; "
            "random: long phase-structured histories (grow / shrink / oscillate / drain to empty) crossing block boundaries in both directions. "
            "A queue/stack case is non-trivial when the model state shows at least one block allocation on a non-empty structure or refill after a boundary drain "
            "AND at least one block release (front cursor advanced to the next block / to nil, top cursor dropped to the lower block); "
            "a soft-queue case when it has >=2 enqueues and >=1 successful dequeue; distinct = distinct (header, op list).",
    "assumptions": ["Go int arithmetic does not overflow (sizes and indices stay far below 2^62)",
                    "make([]T, n) succeeds for the block sizes used (no out-of-memory)",
                    "the EqualFunc is a pure total function (the theorems assume no other law: not reflexivity, not symmetry)",
                    "the model's Contains loops run on fuel (cells of the heap / of the stack blocks); the refinement theorems prove the fuel is never exhausted"],
}
