CFG = {
    "prop_v": "theories/Properties/C18.v",
    "cmd": "c18",
    "batches": lambda tier, seed: [("exhaustive", "-mode exhaustive -tier %s" % tier),
                                   ("dup", "-mode dup -tier %s" % tier),
                                   ("literal", "-mode literal -tier %s" % tier),
                                   ("refill", "-mode refill -tier %s" % tier),
                                   ("random", "-mode random -tier %s" % tier)],
    "signatures": {},
    "rule": "",
    "assumptions": [],
}
