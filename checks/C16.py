CFG = {
    "prop_v": "theories/Properties/C16.v",
    "cmd": "c16",
    "batches": lambda tier, seed: [("hist", "-mode hist -tier %s" % tier),
                                   ("algebra", "-mode algebra -tier %s" % tier),
                                   ("mixed", "-mode mixed -tier %s" % tier),
                                   ("random", "-mode random -tier %s" % tier),
                                   ("power", "-mode power -tier %s" % tier),
                                   ("free", "-mode free -tier %s" % tier)],
    "signatures": {},
    "rule": "hist: every history of length <= 4 over {add x, rem x, clr, add 2 0, rem 1 2 1 | x in 0..2} for the unordered, stable and "
            "sorted set (sorted: five comparators — natural and reversed order returning -1/0/1, and a-b, 3*(a-b), b-a returning magnitudes), each followed by the full query battery (Size/IsEmpty/All/String/"
            "Contains with 0..3 arguments/AnyMatch/AllMatch/FirstMatch over 5 predicates) and a clone-then-mutate-both-sides probe; "
            "algebra: all 27 triples of implementations x all triples of preparation histories (member orders, spare capacity left by "
            "in-place removals) with Union/Intersection/Difference of arity 0..3 (aliased operands included), every live object re-read "
            "after each call, results and operands mutated afterwards and re-read, backing arrays checked for sharing; random: universes "
            "4..120, pools of up to 14 objects, all operations, plus sets of several hundred members grown and shrunk in place; power: Powerset n<=7 / Partitions n<=6 on sets with and without spare "
            "capacity; mixed: sorted sets with their own comparators in all 25 pairings and in triples, against each other and against the unordered/stable set: Equal/IsSubset/IsSuperset both ways, Union/Intersection/Difference with every receiver, deduplication in a set of sets (a.Equal(b)); free: the same random and power generators under the real (seeded) shuffle, order-independent observables only. "
            "A case is non-trivial when it appends in place into capacity left behind by an earlier in-place removal, or calls "
            "Union/Intersection/Difference, or Powerset/Partitions with n>=2; distinct = distinct (header, op list).",
    "assumptions": ["all sets share one equality (Go int); every sorted set has its own comparator (natural or reversed order, results -1/0/1 or of arbitrary magnitude) consistent with it — the theorems quantify over an arbitrary family of strict total orders, one per sorted set; the model looks only at the sign of a comparator result, as CompareFunc's contract allows",
                    "range loops over s.members / All() are modelled as reading the sequence once: in this package the set that is iterated is never the set that the loop body mutates (the mutated set is always a fresh clone); the heap-layer frame theorems show the two readings coincide",
                    "Powerset/Partitions are modelled on set values: every set they create is mutated only before it is stored in another set (by inspection); the per-operation heap-to-value simulation is proved (C16_no_operand_modified, C16_heap_refines_values)",
                    "the fallback branch of the modelled equality closures set_eq/part_eq (a.Equal(b) as a total boolean) is never taken: vequal returns Ok on every pair of values (vequal_total)",
                    "Go's append growth is an arbitrary policy with grow(cap, need) >= need in the theorems and doubling in the extracted run; capacities are not compared",
                    "(low+high)/2 does not overflow (fewer than 2^62 members)"],
    "timeout": 1800,
}
