CFG = {
    "prop_v": "theories/Properties/C11.v",
    "cmd": "c11",
    "extra_closure": ("theories/C11/ModelLR1.v",),
    "batches": lambda tier, seed: [("classic", "-mode classic -tier %s" % tier),
                                   ("exhaustive", "-mode exhaustive -tier %s" % tier),
                                   ("random", "-mode random -tier %s" % tier),
                                   ("boundary", "-mode boundary -tier %s" % tier),
                                   ("prec", "-mode prec -tier %s" % tier)],
    "signatures": {},
    "rule": "per reduced grammar: SLR, LALR and canonical LR construction under recover+watchdog, verdict and table compared (up to state renumbering) with the modelled SLR / LALR (merge by core) / LR(1) constructions; every table built is "
            "dumped and checked with the extracted certificates table_ok/term_ok; every token string up to the length bound "
            "(6 for <=2 terminals, 5 for 3, 4 for 4; members and non-members) is parsed through every entry point and callback configuration (Parse(nil,nil), Parse(tokenF,nil), Parse(nil,prodF), Parse(tokenF,prodF), ParseAndBuildAST, ParseAndEvaluate: verdicts, productions and tokens must agree) and "
            "compared with the extracted driver run on the same table, with the extracted membership oracle, with rm_check "
            "and the AST yield; plus up to 10 longer sentences per grammar with leftmost-derivation witnesses (lm_check) and one-token corruptions of them. classic: textbook grammars on the SLR/LALR/LR(1)/non-LR boundaries incl. the D11a/D11b witnesses; "
            "exhaustive: all reduced grammars over {S},{S,A} x {a,b} with <=2 productions and a seeded 1/40 sample with 3; "
            "boundary: seeded 1-2 step edits (add/drop/change/wrap/delete) of the SLR/LALR/LR(1) separating grammars; random: <=4 non-terminals, <=4 terminals, <=8 productions with epsilon bodies; prec: E -> E op E | ( E ) | id for "
            "<=3 operators x every ordered partition into levels x every associativity, plus families whose conflicting productions have two different terminals (ternary E?E:E, dangling else, mixfix E[E]E, two-token operator) x every declaration over their first and last terminals, parser compared with the table resolved by the modelled ResolveConflicts; cells with 3-4 actions (two/three reduces on production handles plus a shift) x every order of separate levels, each case built 6 times (25 thorough) so that different iteration orders of the action set are seen. "
            "A case is non-trivial when at least one table was built and the strings tried contain both an accepted and a rejected one; "
            "distinct = distinct (grammar, precedence, op count).",
    "assumptions": ["terminals/non-terminals are single letters mapped to nat indices; the endmarker is the lookahead None",
                    "the model's driver runs on fuel 20000 per parse (term_ok gives the bound that is proved sufficient)",
                    "completeness (every sentence accepted), SLR=>LALR=>LR(1) and agreement of the constructions are decided per instance "
                    "against the extracted oracle lang_upto on all strings up to the bound: a search for failing inputs, not a proof"],
}
