"""C09 — normal forms are reached, results verify, inputs are never mutated.
Shares harness (cmd/c08), driver (ocaml/C08/driver.ml, mode c09) and the check loop of checks/C08.py."""
import importlib.util, os

_spec = importlib.util.spec_from_file_location("chk_c08", os.path.join(os.path.dirname(os.path.abspath(__file__)), "C08.py"))
_c08 = importlib.util.module_from_spec(_spec)
_spec.loader.exec_module(_c08)


def sig_d09b(case, m):
    w = m.get("what", "")
    return w.startswith("LF: post-condition left_factored fails") and ("class=no-singleton-group" in w or "class=fresh-head" in w)


def sig_d09c(case, m):
    w = m.get("what", "")
    return "result fails Verify(): no production rule for" in w and "class=no-nonempty-yield" in w


CFG = dict(_c08.CFG)
CFG.update({
    "prop": "C09",
    "prop_v": "theories/Properties/C09.v",
    "model_mode": "c09",
    "signatures": {"D09b-leftfactor-group-test": sig_d09b,
                   "D09c-no-production-rule": sig_d09c,
                   "fresh-name-exhaustion": _c08.sig_out_of_names},
    "rule": _c08.RULE + " C09 evaluates on every grammar RETURNED BY THE GO CODE the extracted post-condition checker of the transformation "
                        "(no_empty_except_fresh_start, no_unit, all_reachable, no_cycle, no_left_recursion, left_factored, is_cnf + start not on a "
                        "right-hand side, solitary terminals, bodies <= 2), the model's verify, compares Verify()/IsCNF() with them, and requires "
                        "g.Equal(clone) after every call including predictive.BuildParsingTable and the four LR grammar constructors.",
})


def main(run):
    return _c08.check(run, CFG)


def replay(path):
    return _c08.do_replay(CFG, path)
