"""C09 — normal forms are reached, results verify, inputs are never mutated.
Shares harness (cmd/c08), driver (ocaml/C08/driver.ml, mode c09) and the check loop of checks/C08.py."""
import importlib.util, os

_spec = importlib.util.spec_from_file_location("chk_c08", os.path.join(os.path.dirname(os.path.abspath(__file__)), "C08.py"))
_c08 = importlib.util.module_from_spec(_spec)
_spec.loader.exec_module(_c08)


def sig_d09b(case, m):
    w = m.get("what", "")
    return w.startswith("LF: post-condition left_factored fails") and ("class=no-singleton-group" in w or "class=fresh-head" in w)


def sig_d09c(case, m):
    w = m.get("what", "")
    return "result fails Verify(): no production rule for" in w and "class=no-nonempty-yield" in w


CFG = dict(_c08.CFG)
CFG.update({
    "prop": "C09",
    "prop_v": "theories/Properties/C09.v",
    "model_mode": "c09",
    "batches": lambda tier, seed: [("exhaustive", "-frame -mode exhaustive -tier %s" % tier),
                                   ("adversarial", "-frame -mode adversarial -tier %s" % tier),
                                   ("random", "-frame -mode random -tier %s" % tier)],
    "signatures": {"D09b-leftfactor-group-test": sig_d09b,
                   "D09c-no-production-rule": sig_d09c,
                   "fresh-name-exhaustion": _c08.sig_out_of_names},
    "rule": _c08.RULE + " C09 evaluates on every grammar RETURNED BY THE GO CODE the extracted post-condition checker of the transformation "
                        "(no_empty_except_fresh_start, no_unit, all_reachable, no_cycle, no_left_recursion, left_factored, is_cnf + start not on a "
                        "right-hand side, solitary terminals, bodies <= 2), the model's verify, compares Verify()/IsCNF() with them, and requires "
                        "equality, after every call, with a copy of the grammar built independently from the case text (it shares no backing array with the receiver, unlike Clone()), for the seven transformations, predictive.BuildParsingTable, the four LR grammar constructors and simple/lookahead/canonical.BuildParsingTable; one third of the receivers hold bodies that are prefix slices of a longer body's array or have spare capacity.",
})


def main(run):
    return _c08.check(run, CFG)


def replay(path):
    return _c08.do_replay(CFG, path)
