"""C20 — independent instances never race.

Three parts on every run:
  (a) the generic Coq theorems about interleavings (coq/theories/C20, Properties/C20.v);
  (b) the premise, REGENERATED from the Go sources: harness/cmd/gen-c20 inventories every package-level
      variable of vlib.REPO and writes coq/theories/Gen/C20_Globals.v; the obligation
      C20_no_unsync_shared_state (vm_compute over that file + C20/Reviewed.v) is then re-checked by coqc;
  (c) the race search: harness/cmd/c20 built with -race, k goroutines on private instances over
      GOMAXPROCS in {2,4,16}, digests compared with the sequential run.  A DATA RACE report (stacks
      included) or a digest difference is a failing schedule; it is what turns a broken obligation into
      a VIOLATION with a replay.

pregen() regenerates the Gen file (bin/setup calls it before building Coq)."""
import glob, json, os, re, shutil, sys
sys.path.insert(0, os.path.join(os.path.dirname(os.path.dirname(os.path.abspath(__file__))), "lib"))
import vlib

PROP = "C20"
PROP_V = "theories/Properties/C20.v"
C20_FILES = ["C20/Model.v", "C20/Interleave.v", "C20/Locks.v", "C20/SeqRun.v", "C20/Inventory.v", "C20/Reviewed.v",
             "Gen/C20_Globals.v", "C20/Main.v", "Properties/C20.v"]
GORACE = "halt_on_error=1 atexit_sleep_ms=0 exitcode=66 history_size=2"

RULE = ("one case = one round: k goroutines (quick 4, thorough 8) started behind a barrier, each running a workload "
        "twice on instances it builds itself, calling every exported method family (hash tables and sets with own hash "
        "functions incl. *Match/Powerset/Partitions/algebra; ordered tables and both tries incl. Floor/Ceiling/Select/Rank/"
        "Range/Match/WithPrefix/LongestPrefixOf/Traverse; heaps and indexed heaps incl. Contains*/Merge/ChangeKey; all sorts "
        "and radix sorts, union-find; lists, (weighted) graphs with all algorithms, input reader; FIRST/FOLLOW, all CFG "
        "transformations, predictive/SLR/LALR/LR(1) tables, Parse/ParseAndBuildAST/ParseAndEvaluate; automata incl. "
        "ToDFA/Minimize/Isomorphic/CombineDFA/Concat; the exported Hash*/Eq*/Cmp* helpers), under "
        "GOMAXPROCS 2, 4 and 16, harness built with -race; rounds alternate: same workload with different contents, "
        "same workload with identical contents, random mix. Every goroutine's digest is compared with the digest of "
        "the same workload run alone; iterator VALUES (All/AllByHead/Transitions of sets, tables, tries, grammar sets, automata) are "
        "kept and re-run several times (complete, early exit, nested in themselves and around a second iterator) and every complete "
        "run must yield the same multiset; a panic escaping a workload, an INCONSISTENT iterator or a non-reproducible sequential "
        "digest is a failure by itself. distinct_nontrivial = distinct (GOMAXPROCS, workload#instance per goroutine) "
        "assignments; every round is non-trivial (>= 2 goroutines working concurrently). When the obligation is broken the "
        "workloads of the package named by the non-benign inventory entry run first, alone (batches cold-directed, race-directed), "
        "sync-free workloads (hashtables-nosync, sets-nosync, hashfuncs: no call takes a package-level lock, so no incidental happens-before edge can "
        "hide a race) among them, and an escalation pass with the thorough tier's budgets runs before a broken obligation is "
        "reported with no failing schedule. "
        "`cold` cases: the harness re-executes itself so that each workload is the FIRST thing a fresh process does (k goroutines "
        "behind the barrier, reference digests only afterwards): first-use races of lazily initialised package-level state exist only then.")

ASSUMPTIONS = [
    "MODELLED, NOT VERIFIED: an operation's footprint is its receiver's reachable heap, its arguments and the listed "
    "package-level variables, accessed the way the translator's evidence says (program_disciplined in C20_main)",
    "MODELLED, NOT VERIFIED: the Go memory model (data-race-free programs are sequentially consistent); the model is "
    "sequentially consistent interleaving of atomic actions with mutexes",
    "the translator harness/cmd/gen-c20 (go/parser + go/types, syntactic rules R1-R6) is trusted: inventory complete for "
    "non-test files compiled without the verif tag, classification conservative (what no rule decides is `unclassified`)",
    "state inside the Go standard library is covered only by a table in gen-c20: every stateful package-level function / "
    "variable of a package outside the module that non-test code refers to is listed (std:math/rand Intn = locked global "
    "source, fmt, time, io.EOF ...); anything not in the table is `unclassified`",
    "the race detector only observes the schedules that occurred; it is a search for a failing schedule, not a proof",
]


# which workloads exercise a package (used to direct the search when the obligation names a variable)
ALL_WL = ["hashtables", "ordered", "sets", "tries", "heaps", "sorts", "first-follow", "transforms", "predictive", "slr",
          "lalr", "lr1", "helpers", "misc", "automata", "hashtables-nosync", "sets-nosync", "hashfuncs"]
PKG_WL = {
    "trie": ["tries"], "symboltable": ["hashtables-nosync", "hashtables", "ordered", "helpers"], "set": ["sets-nosync", "sets", "first-follow"],
    "heap": ["heaps"], "sort": ["sorts"], "radixsort": ["sorts"], "unionfind": ["sorts"], "list": ["misc", "slr"],
    "graph": ["misc"], "lexer/input": ["misc"], "lexer": ["misc", "predictive", "slr"], "dot": ["heaps", "tries", "ordered", "automata", "misc", "slr", "predictive"],
    "hash": ["hashfuncs", "helpers", "hashtables", "hashtables-nosync", "first-follow", "automata"], "automata": ["automata", "helpers"],
    "grammar": ["first-follow", "transforms", "helpers", "predictive", "slr"], "errors": ["first-follow", "slr", "predictive"],
    "parser": ["predictive", "slr", "lalr", "lr1"], "parser/predictive": ["predictive"], "parser/lr": ["slr", "lalr", "lr1", "helpers"],
    "parser/lr/simple": ["slr"], "parser/lr/lookahead": ["lalr"], "parser/lr/canonical": ["lr1"], "generic": ALL_WL,
}


def _directed_workloads(bad_globals):
    """Workloads of the packages named by the non-benign entries of the inventory (std: entries: the referencing packages)."""
    wls = []
    for g in bad_globals:
        pkgs = [g["package"]]
        if g["package"].startswith("std:"):
            pkgs = g.get("pos", "").replace("referenced from ", "").split(",")
        for pk in pkgs:
            for w in PKG_WL.get(pk.strip(), []):
                if w not in wls:
                    wls.append(w)
    return wls


def _paths():
    tag = vlib.repo_tag()
    if not tag:
        return dict(tag="", gen=os.path.join(vlib.COQ, "theories", "Gen", "C20_Globals.v"),
                    json=os.path.join(vlib.BUILD, "run", "C20-globals.json"), scratch=None)
    sc = os.path.join(vlib.BUILD, "c20" + tag)
    return dict(tag=tag, gen=os.path.join(sc, "theories", "Gen", "C20_Globals.v"),
                json=os.path.join(vlib.BUILD, "run" + tag, "C20-globals.json"), scratch=sc)


def regenerate():
    """Build the translator and regenerate the inventory from vlib.REPO.  Returns (rc, output, paths)."""
    p = _paths()
    rc, out, exe = vlib.go_build("gen-c20")
    if rc != 0:
        return rc, "translator does not build: " + out, p
    os.makedirs(os.path.dirname(p["gen"]), exist_ok=True)
    os.makedirs(os.path.dirname(p["json"]), exist_ok=True)
    with vlib.Lock("c20gen" + p["tag"]):
        rc, out = vlib.sh("%s -root %s -out %s -json %s" % (exe, vlib.REPO, p["gen"], p["json"]), timeout=600)
    return rc, out, p


def pregen():
    rc, out, _ = regenerate()
    if rc != 0:
        raise RuntimeError(out[-2000:])


def _scratch_proofs(run, p):
    """Mutation self-tests (VERIF_REPO): compile C20's files plus the inventory of the scratch tree in a
    private directory so that the committed Gen file is left alone."""
    sc = p["scratch"]
    for f in C20_FILES:
        if f.startswith("Gen/"):
            continue
        dst = os.path.join(sc, "theories", f)
        os.makedirs(os.path.dirname(dst), exist_ok=True)
        shutil.copy(os.path.join(vlib.COQ, "theories", f), dst)
    files = ["theories/" + f for f in C20_FILES]
    names, closed = vlib.coq_obligations([f for f in files if not f.startswith("theories/Gen/")])
    run.cov["obligations"] = len(names)
    run.cov["checker_cmd"] = "coqc -Q theories Algo <file> for " + " ".join(files) + " (scratch copy, coqc 8.16.1)"
    run.cov["proof_files"] = files
    for f in files:
        rc, out = vlib.sh("timeout 900 coqc -Q theories Algo -w -notation-overridden %s" % f, cwd=sc, timeout=930)
        if rc != 0:
            fl, name, msg = None, None, out[-1500:]
            m = re.search(r'File "\./?([^"]+)", line (\d+)', out)
            if m:
                fl = m.group(1)
                try:
                    lines = open(os.path.join(sc, fl)).read().split("\n")
                    for i in range(min(int(m.group(2)), len(lines)) - 1, -1, -1):
                        mm = vlib.STMT.match(lines[i])
                        if mm:
                            name = mm.group(2)
                            break
                except OSError:
                    pass
            run.cov["discharged"] = 0
            run.broken = {"kind": "proof-obligation", "file": fl or f, "theorem": name, "coqc_error": msg}
            return False
    run.cov["discharged"] = len(names)
    run.cov["print_assumptions"] = {"closed_under_global_context": out.count("Closed under the global context"), "axioms": []}
    return True


def _inventory(p):
    try:
        return json.load(open(p["json"]))
    except Exception:
        return {"globals": [], "counts": {}}


def _because(bad_globals):
    """One line per inventory entry the translator's rules do not accept (a reviewed `unclassified` entry is still benign)."""
    return ["%s.%s (%s, %s): %s - %s" % (g["package"], g["name"], g.get("pos", ""), g["kind"], g["classification"], g["evidence"])
            for g in bad_globals if not (g["classification"] == "unclassified" and g["package"] == "internal/parsertest")]


def _pools_involved(inv, text):
    """Pools of the inventory whose Get/Put functions occur in the race report / differing workload output."""
    out = []
    for g in inv.get("globals", []):
        ev = g.get("evidence", "")
        if not ev.startswith("synchronised (pool)"):
            continue
        fns = re.findall(r"(?:Get|Put) in ([^;]*)", ev)
        names = [f.strip().split(".")[-1].replace("$closure", "") for part in fns for f in part.split(",") if f.strip()]
        if any(n and re.search(r"\b%s\b" % re.escape(n), text) for n in names) or g["package"] in text:
            out.append("%s.%s (%s): %s" % (g["package"], g["name"], g.get("pos", ""), ev))
    return out


def _race_reports(err):
    """Split the race detector's stderr into reports."""
    reps = []
    for blk in err.split("=================="):
        if "WARNING: DATA RACE" in blk:
            reps.append(blk.strip())
    return reps


def _race_summary(rep):
    """Top library frames of the two conflicting accesses."""
    out, head, frame = [], None, None
    for line in rep.split("\n") + [""]:
        if re.match(r"^(Read|Write|Previous read|Previous write|Atomic|Previous atomic)\b.* by ", line):
            head, frame = line.split(" by ")[0], None
        elif head and frame is None:
            m = re.match(r"^\s+(github\.com/moorara/algo/.+?)\(\)\s*$", line)
            if m:
                frame = m.group(1)
                out.append("%s ... in %s" % (head, frame))
            elif not line.strip():
                out.append("%s ... in ?" % head)
                head = None
    return out[:4]


def _run_race(exe, args, tag, timeout):
    d = os.path.join(vlib.BUILD, "run" + vlib.repo_tag())
    os.makedirs(d, exist_ok=True)
    tp = os.path.join(d, "C20-" + tag + ".trace")
    rc, err = vlib.sh("%s %s" % (exe, args), timeout=timeout, stdout_path=tp, env={"GORACE": GORACE})
    out = open(tp, errors="replace").read()
    return rc, out, err


def _failing(rc, out, err):
    return rc != 0 or "DATA RACE" in err or "-> DIFF" in out or "-> HANG" in out


def _last_case(out):
    """The failing round: one with DIFF/HANG results, else the round that was running when the process stopped."""
    lines = out.split("\n")
    bad = [l for l in lines if (l.startswith("race ") or l.startswith("cold ")) and ("DIFF" in l or "HANG" in l)]
    if bad:
        return bad[-1]
    started = [l[8:].replace(" -> ok", "") for l in lines if l.startswith("# START race ") or l.startswith("# START cold ")]
    return started[-1] if started else ""


def _shrink(exe, case, err):
    """Smallest reproduction: two goroutines running ONE workload each on own instances, else the pair, else the round.
    A `cold` case (first round of a fresh process) is reproduced by fresh processes, too."""
    wls = []
    for part in case.split("|")[1:]:
        f = part.split("->")[0].split()
        if len(f) == 2 and f[0] == "wl" and f[1] not in wls:
            wls.append(f[1])
    m = re.search(r"procs=(\d+)", case)
    procs = m.group(1) if m else "4"
    d = os.path.join(vlib.BUILD, "run" + vlib.repo_tag())
    if case.startswith("cold"):
        cands = ["cold procs=%s k=2 rounds=8 | wl %s" % (procs, w) for w in wls]
        fallback = re.sub(r"rounds=\d+", "rounds=8", case)
    else:
        cands = ["race procs=%s k=2 rounds=6 | wl %s | wl %s" % (procs, w, w) for w in wls]
        cands += ["race procs=%s k=2 rounds=6 | wl %s | wl %s" % (procs, a, b) for i, a in enumerate(wls) for b in wls[i + 1:]]
        fallback = case
    for n, c in enumerate(cands[:24]):
        cp = os.path.join(d, "C20-shrink-%d.case" % os.getpid())
        open(cp, "w").write(c + "\n")
        for attempt in range(2):
            rc, out, e2 = _run_race(exe, "--replay " + cp, "shrink", 300)
            if _failing(rc, out, e2):
                os.remove(cp)
                return c, e2 or err
        os.remove(cp)
    return fallback, err


def main(run):
    run.broken = None
    tier = run.tier
    # (b) regenerate the premise
    rc, out, p = regenerate()
    if rc != 0:
        print("BROKEN-CHECK property=C20: the inventory cannot be regenerated from %s: %s" % (vlib.REPO, out[-2000:]), flush=True)
        run.cov["explanation"] = "translator failed"
        run.finish()
        return 2
    inv = _inventory(p)
    bad_globals = [g for g in inv.get("globals", []) if g["classification"] in ("unsynchronised-mutable", "unclassified")]
    # (a)+(b) proofs and the obligation
    if p["scratch"]:
        proof_ok = _scratch_proofs(run, p)
    else:
        proof_ok = vlib.proof_stage(run, PROP_V)
    if proof_ok:
        run.cov["trusted_base"] = [
            "Coq 8.16.1 kernel via coqc (vm_compute used for C20_no_unsync_shared_state; native_compute not used)",
            "axioms under the property theorems: none (Closed under the global context)",
            "translator harness/cmd/gen-c20 (Go standard library only) and its rules R1-R6; hand-reviewed list coq/theories/C20/Reviewed.v",
            "Go race detector (runtime/race) and the harness harness/cmd/c20 for the schedule search",
        ]
    # (c) the race search
    rc, out, exe = vlib.go_build("c20", race=True)
    if rc != 0:
        print("BROKEN-CHECK property=C20: race harness does not build against %s: %s" % (vlib.REPO, out[-2000:]), flush=True)
        run.cov["explanation"] = "harness build failed"
        run.finish()
        return 2
    batches = []
    for cf in ([] if os.environ.get("VERIF_C20_NO_CORPUS") else sorted(glob.glob(os.path.join(vlib.ROOT, "corpus", PROP, "*.case")))):  # (env: development only, to calibrate the generated search alone)
        batches.append(("corpus-" + os.path.basename(cf)[:-5], "--replay " + cf, 600))
    # Two kinds of search: `cold*` = every workload as the FIRST thing of a fresh process (k goroutines behind the barrier;
    # lazy first-use initialisation of package-level state races only then), `race*` = one long-lived process, many rounds.
    dw = [] if proof_ok else _directed_workloads(bad_globals)
    if tier == "thorough":
        if dw:
            batches.append(("cold-directed", "-mode coldsweep -reps 12 -budget 90 -procs 2,4,16 -k 8 -wl %s" % ",".join(dw), 600))
            batches.append(("race-directed", "-mode race -tier thorough -budget 120 -wl %s" % ",".join(dw), 900))
        batches.append(("cold", "-mode coldsweep -reps 6 -budget 120 -procs 2,4,16 -k 8", 900))
        batches.append(("race", "-mode race -tier thorough -budget 360", 1200))
    elif proof_ok:
        batches.append(("cold", "-mode coldsweep -reps 1 -budget 12 -procs 4,16,2", 300))
        batches.append(("race", "-mode race -tier quick -budget 16", 600))
    else:
        # A broken obligation buys a longer search for the schedule that exhibits it, and directs it: the non-benign
        # entries name their package, so the workloads of that package run first, alone.
        if dw:
            batches.append(("cold-directed", "-mode coldsweep -reps 4 -budget 20 -procs 4,16,2 -wl %s" % ",".join(dw), 300))
            batches.append(("race-directed", "-mode race -tier quick -budget 25 -wl %s" % ",".join(dw), 600))
        batches.append(("cold", "-mode coldsweep -reps 2 -budget 20 -procs 4,16,2", 300))
        batches.append(("race", "-mode race -tier quick -budget %d" % (30 if dw else 60), 600))
        # Escalation (reached only when everything above found no schedule, e.g. on a heavily loaded machine where the
        # goroutines rarely overlap): the thorough-tier directed search, before giving up with no-failing-input-found.
        if dw:
            batches.append(("race-directed-long", "-mode race -tier thorough -budget 150 -wl %s" % ",".join(dw), 900))
            batches.append(("cold-directed-long", "-mode coldsweep -reps 12 -budget 90 -procs 2,4,16 -k 8 -wl %s" % ",".join(dw), 600))
        else:
            batches.append(("race-long", "-mode race -tier thorough -budget 180", 900))
    evals = nontriv = 0
    dist, samples = {}, []
    found = False
    known = dict(vlib.known_findings(PROP))
    for tag, args, to in batches:
        rc, out, err = _run_race(exe, args, tag, to)
        _, stats, _ = vlib.parse_driver_output(out)
        evals += stats.get("cases", 0)
        nontriv += stats.get("nontrivial", 0)
        for k, v in stats.items():
            if isinstance(v, int):
                dist[k] = max(dist.get(k, 0), v) if k.startswith("max_") else dist.get(k, 0) + v
        samples += [l[:160] for l in out.split("\n") if l.startswith("race ") or l.startswith("cold ")][:2]
        if not _failing(rc, out, err):
            continue
        if rc not in (0, 3, 4, 66) and "DATA RACE" not in err and "DIFF" not in out:
            print("BROKEN-CHECK property=C20: race harness failed (exit %d): %s" % (rc, err[-1500:]), flush=True)
            run.finish()
            return 2
        case = _last_case(out)
        if tag.startswith("corpus-") and not case:
            case = ([l for l in open(args.split()[-1]).read().split("\n") if l.startswith("race ") or l.startswith("cold ")] or [""])[0]
        case, err2 = _shrink(exe, case, err)
        reps = _race_reports(err2) or _race_reports(err)
        diffs = [l[2:] for l in out.split("\n") if l.startswith("# DIFF")][:5]
        found = True
        run.violation({
            "kind": "data-race" if reps else "result-differs-from-sequential-run",
            "batch": tag, "harness_args": args, "case": case,
            "race_report": (reps[0][:6000] if reps else None),
            "racing_frames": _race_summary(reps[0]) if reps else [],
            "digest_differences": diffs,
            "non_benign_globals": bad_globals,
            "pools_in_the_racing_code": _pools_involved(inv, (reps[0] if reps else "") + "\n".join(diffs) + " " + case),
            "broken_obligation": run.broken,
            "obligation_broken_because": _because(bad_globals) if not proof_ok else [],
            "replay_cmd": "bin/check C20 --replay <this file>   (re-runs the case under -race; schedule-dependent, repeated up to 5 times)",
            "meaning": "goroutines that only work on instances they created themselves raced on state shared inside the library "
                       "(or produced results that differ from the sequential run)",
        }, tag=tag)
        break
    if not proof_ok and not found:
        b = dict(run.broken or {"kind": "proof-obligation"})
        b["non_benign_globals"] = bad_globals
        b["obligation_broken_because"] = _because(bad_globals)
        b["note"] = ("the premise C20_no_unsync_shared_state (or a proof it depends on) no longer checks against the regenerated "
                     "inventory; the race search of this tier found no failing schedule")
        run.violation(b, no_input=True, tag="proof")
    run.cov["evaluations"] = evals
    run.cov["distinct_nontrivial"] = nontriv
    run.cov["rule"] = RULE
    run.cov["samples"] = samples[:6]
    dist.update({"inventory_" + k.replace("-", "_"): v for k, v in inv.get("counts", {}).items()})
    dist["inventory_packages"] = inv.get("packages", 0)
    run.cov["distribution"] = dist
    run.cov["traces_validated_against_impl"] = evals
    run.cov["inventory"] = [{"package": g["package"], "name": g["name"], "kind": g["kind"],
                             "classification": g["classification"]} for g in inv.get("globals", [])]
    run.assumptions = ASSUMPTIONS
    return run.finish()


def replay(path):
    obj = json.load(open(path))
    case = obj.get("case")
    if not case:
        print("replay file has no concrete schedule (broken obligation):", json.dumps(obj)[:3000])
        return 1
    rc, out, exe = vlib.go_build("c20", race=True)
    if rc != 0:
        print(out)
        return 2
    d = os.path.join(vlib.BUILD, "run" + vlib.repo_tag())
    os.makedirs(d, exist_ok=True)
    cp = os.path.join(d, "C20-replay.case")
    head, ops = vlib.split_case(case)
    open(cp, "w").write(head + " | " + " | ".join(vlib.strip_results(o) for o in ops) + "\n")
    for attempt in range(5):
        rc, out, err = _run_race(exe, "--replay " + cp, "replay", 600)
        print(out)
        if _failing(rc, out, err):
            print(err[:8000])
            return 1
    print("no race and no differing result in 5 attempts")
    return 0
