CFG = {
    "prop_v": "theories/Properties/C13.v",
    "cmd": "c13",
    "batches": lambda tier, seed: [("shapes", "-mode shapes -tier %s" % tier),
                                   ("random", "-mode random -tier %s" % tier),
                                   ("exhaustive", "-mode exhaustive -tier %s" % tier)],
    # D13a: the driver evaluates the signature predicate on the (shrunk) case and tags the mismatch:
    # operation = Concat and (some operand has an accepting start state, or an operand after the first
    # has a transition into its start state while the operand before it has a transition out of a final state).
    "signatures": {
        "d13a-concat-start-final-merge":
            lambda case, m: m.get("kind") == "api" and m.get("what", "").startswith("concat ")
                            and "[sig:d13a-concat-start-final-merge]" in m.get("what", ""),
    },
    "max_report": 4,
    "rule": "every case = 1..3 operand automata (all NFAs or all DFAs, built through NewNFA/NewDFA + Add) and a list of operations; "
            "for every operation the Go result's Accept vector on all 127 words over {a,b} of length <= 6 (plus a^7..a^80 for the long chains) "
            "is compared with the language equation evaluated on the ORIGINAL Go operands' Accept vectors (api), the operands' Accept with the proved model's (api), "
            "the result's structure with the model's result, state numbers included (fidelity), Minimize's state count with the Myhill-Nerode count when the input is trim (api), "
            "Isomorphic(A, injectively renamed copy) = true (api). exhaustive: all DFAs with <= 2 states and all NFAs with 1 state over {a,b} (every start, final set), "
            "3-state DFAs / 2-state NFAs exhaustive in thorough and sampled in quick, 3-state NFAs sampled; random: <= 8 states, epsilon moves, empty-target Adds, "
            "contiguous / shifted / sparse ids, accepting start states, transitions into the start state, unreachable and dead states, 1..3 operands; "
            "about a third of the random operands and 300 staged automata per run are built with queries/conversions interleaved between the Adds (Symbols, States, String, Accept, ToDFA/ToNFA, Star/Union or Minimize/Eliminate/Reindex, Isomorphic(clone), Equal/Transitions/CombineDFA), new symbols and states being added afterwards; "
            "independence probes (alias <op>): after Clone / ToDFA / ToNFA / Star / Union / Concat / Minimize / EliminateDeadStates / ReindexStates / CombineDFA the result is extended (Adds on existing (state,symbol) pairs, a new symbol, a new state) and every operand re-read, then each operand is extended and the result re-read: Accept vector and structure of the other side must not move (api); "
            "shapes: chains of 60..70 states with shuffled sparse ids, a 127-state binary tree (BFS queue crosses its block size), trim DFAs for minimality, "
            "Concat on its sound domain with three operands, Dragon-book fixtures. "
            "A case is non-trivial when some operand has >= 2 states, a transition, and both accepts and rejects a tested word; distinct = distinct (header, op list).",
    "assumptions": ["state ids are non-negative (DFA.Next reserves -1 for 'no transition') and symbol 0 is epsilon, never an input symbol",
                    "list.Queue is a FIFO (after the repair of D18, /repo 713e226); Go map iteration order does not influence any result (only sets are built from maps)",
                    "EliminateDeadStates' recursive dfs is modelled by an explicit stack: same visited set",
                    "fuel of the model loops (all proved sufficient: C13_accept_nfa, C13_todfa, C13_minimize, C13_eliminate_dead_states, C13_reindex_states): epsilon-closure |T|+|Q|+3, subset construction 2^(|Q|+1)+1, partition refinement 2(|Q|+1)^2+3, reverse reachability 2|Q|+5, BFS |Q|+3",
                    "Concat is compared on every operand tuple; outside the proved domain (csafe) a language mismatch carries the D13a signature and is the known finding, inside it is a violation"],
}
