"""C08 — CFG transformations preserve the generated language.
Own main(run) (also used by checks/C09.py): identical to vlib.std_check except for the
treatment of the mismatch list of a batch.  std_check looks at the first mismatch of the first
few mismatching lines only; known findings of C09 (D09b, D09c) occur on a large share of the
random grammars and would hide a genuine violation later in the same batch or on the same line.
Here every mismatch is classified first: the ones matching a signature that is listed in
KNOWN_FINDINGS.txt are reported once per signature (after shrinking) as KNOWN-FINDING, all others
are shrunk (the shrinker keeps only mismatches that match no known signature) and reported."""
import glob, os, re, sys
import vlib

RULE = ("exhaustive: every grammar with start S, <=2 alternatives per non-terminal and short bodies over 1-2 non-terminals "
        "and 1-2 terminals (complete for one non-terminal with bodies <=3, strided samples of the 2- and 3-non-terminal spaces), "
        "random: 1-6 non-terminals (some already carrying a prime/subscript suffix), 1-3 terminals, 1-4 alternatives, bodies up to 8 "
        "symbols with weighted epsilon / unit / left-recursive / common-prefix alternatives; adversarial: long bodies nullable at every "
        "position, unit cycles, indirect left recursion chains, nested common prefixes, epsilon-only / unit-only / purely left-recursive "
        "non-terminals, long mixed bodies, two or three distinct factorable prefixes per head plus singleton alternatives, terminals spelled like non-terminals (also like suffixed names) at body position 0 and elsewhere, the endmarker declared or used as a terminal of the caller's grammar; random grammars also take up to 6 alternatives, terminal names that coincide with non-terminal names, and the endmarker as a terminal (half of the time together with the distinct ordinary terminal $, which has the same Name()), non-terminals named like a quoted terminal or $; non-terminal names that concatenate ambiguously (A, B, AB, BA, ABA); adversarial also: a single-production non-terminal starting with an earlier one and used by a later one (ELR), all-nullable bodies over such names, wide grammars with 14-16 / 32-34 / 67-69 heads; one third of the receivers hold bodies that share backing arrays or have spare capacity; every grammar passes Verify(); each gets NULLABLE, DEL, UNIT, UNREACH, CYCLES, ELR, LF, "
        "START, TERM, BIN, CNF and the parser constructors. A case is non-trivial when at least one transformation returned a grammar "
        "different from its input; distinct = distinct (grammar, op list).")


def sig_out_of_names(case, m):
    return "PANIC:out-of-names" in m.get("what", "")


CFG = {
    "prop": "C08",
    "prop_v": "theories/Properties/C08.v",
    "cmd": "c08",
    "model_mode": "c08",
    "batches": lambda tier, seed: [("exhaustive", "-mode exhaustive -tier %s" % tier),
                                   ("adversarial", "-mode adversarial -tier %s" % tier),
                                   ("random", "-mode random -tier %s" % tier)],
    "signatures": {"fresh-name-exhaustion": sig_out_of_names},
    "rule": RULE + " C08 compares, for every returned grammar, the set of all terminal strings of length <= 6 (7 in the thorough tier) "
                   "with that of the input, both computed by the extracted, Coq-verified bounded_lang.",
    "assumptions": [
        "the bounded language comparison (strings up to length 6/7) is a search for failing inputs, not a proof; the proof is about the model",
        "OrderNonTerminals is not modelled: the model of EliminateLeftRecursion takes the order observed from the real code (theorems hold for every order)",
        "Go iterates its hash tables in random order; the model iterates in list order; production sets are compared up to a renaming of fresh non-terminals",
        "LeftFactor: the Go pass may also visit heads it has just inserted (hash-table iteration during insertion); when the model's result still has "
        "a factorable group the production sets are not compared (fidelity), only the property-level observables are",
        "EliminateLeftRecursion is exercised only on inputs whose cycle-free form has <= 40 productions (exponential size otherwise)",
    ],
}


def classify(cfg, known, case, m):
    for s, fn in cfg.get("signatures", {}).items():
        try:
            if s in known and fn(case, m):
                return s
        except Exception:
            pass
    return None


def check(run, cfg):
    prop = run.prop
    run.broken = None
    proof_ok = vlib.proof_stage(run, cfg["prop_v"], cfg.get("extra_closure", ()))
    rc, out, model_exe = vlib.ocaml_build(prop)
    if rc != 0:
        if run.broken is None:
            run.broken = {"kind": "model-build", "error": out[-1500:]}
        proof_ok = False
        model_exe = None
    rc, out, trace_exe = vlib.go_build(cfg["cmd"])
    if rc != 0:
        print("BROKEN-CHECK property=%s: harness does not build against /repo: %s" % (prop, out[-2000:]), flush=True)
        run.cov["explanation"] = "harness build failed"
        run.finish()
        return 2
    known = dict(vlib.known_findings(prop))
    margs = "%s %s" % (cfg["model_mode"], run.tier)
    api_failures, fidelity, dist, samples = 0, [], {}, []
    evals = nontriv = 0
    known_seen = {}
    if model_exe:
        batches = []
        cdir = os.path.join(vlib.ROOT, "corpus", prop)
        for cf in sorted(glob.glob(os.path.join(cdir, "*.case"))):
            batches.append(("corpus-" + os.path.basename(cf)[:-5], "--replay " + cf))
        batches += cfg["batches"](run.tier, run.seed)
        for tag, args in batches:
            tp, rc1, err, rc2, dout = vlib.run_pair(trace_exe, model_exe, args, prop + "-" + tag, timeout=1800, model_args=margs)
            mism, stats, smp = vlib.parse_driver_output(dout)
            if rc2 != 0 and not mism:
                print("BROKEN-CHECK property=%s: model driver failed on batch %s: %s" % (prop, tag, dout[-1500:]), flush=True)
                run.finish()
                return 2
            if rc1 != 0:
                mism = mism + [{"line": "last", "op": "?", "kind": "api",
                                "what": "harness exit %d (crash/hang in implementation): %s" % (rc1, err[-400:])}]
            evals += stats.get("cases", 0)
            nontriv += stats.get("nontrivial", 0)
            for k, v in stats.items():
                if isinstance(v, int):
                    dist[k] = max(dist.get(k, 0), v) if k.startswith("max_") else dist.get(k, 0) + v
            samples += smp[:2]
            if not mism:
                continue
            lines = [l for l in open(tp, errors="replace").read().split("\n") if l.strip() and not l.startswith("#")]

            def case_of(m):
                ln = m.get("line", "last")
                idx = len(lines) - 1 if ln == "last" else int(ln) - 1
                return lines[idx] if 0 <= idx < len(lines) else ""

            reported_lines = set()
            for m in mism:
                case = case_of(m)
                sig = classify(cfg, known, case, m)
                if sig:
                    known_seen[sig] = known_seen.get(sig, 0) + 1
                    if sig not in run.known_printed:
                        small, m2 = vlib.shrink(trace_exe, model_exe, case, model_args=margs,
                                                still_fails=lambda x, s=sig: classify(cfg, known, "", x) == s) if case else (case, None)
                        run.known(sig, known[sig] + (" [this run: %s ; %s]" % (small[:300], (m2 or m).get("what", "")[:200])))
                    continue
                key = (m.get("line"), m.get("kind"))
                if key in reported_lines or len(reported_lines) >= cfg.get("max_report", 3):
                    continue
                reported_lines.add(key)
                kind = m.get("kind", "api")
                if case:
                    small, m2 = vlib.shrink(trace_exe, model_exe, case, model_args=margs,
                                            still_fails=lambda x, k=kind: x.get("kind", "api") == k and classify(cfg, known, "", x) is None)
                    if m2:
                        case, m = small, m2
                if kind == "fidelity":
                    fidelity.append({"batch": tag, "case": case, "mismatch": m})
                    continue
                api_failures += 1
                run.violation({"kind": "implementation-vs-proved-model", "batch": tag, "harness_args": args,
                               "case": case, "mismatch": m, "model_args": margs,
                               "replay_cmd": "bin/check %s --replay <this file>" % prop,
                               "meaning": "the model is proved to satisfy the property on this observable; "
                                          "the implementation in /repo returned something else on this input"},
                              tag=tag)
    if api_failures == 0 and fidelity:
        f = fidelity[0]
        run.violation({"kind": "correspondence-broken", "correspondence": "%s model vs /repo (fidelity observable)" % prop,
                       "batch": f["batch"], "case": f["case"], "mismatch": f["mismatch"],
                       "note": "model and implementation differ on an internal/fidelity observable only "
                               "(production set up to renaming, suffix lists, Verify/IsCNF agreement); no property-level failing input found"},
                      no_input=True, tag="fidelity")
    if not proof_ok and api_failures == 0:
        b = dict(run.broken or {"kind": "proof-obligation"})
        b["note"] = "obligation no longer checks; the generators of this tier found no failing input"
        run.violation(b, no_input=True, tag="proof")
    for s, n in known_seen.items():
        dist["known_finding_" + s.replace("-", "_") + "_mismatches"] = n
    run.cov["evaluations"] = evals
    run.cov["distinct_nontrivial"] = nontriv
    run.cov["rule"] = cfg.get("rule", "")
    run.cov["samples"] = samples[:6]
    run.cov["distribution"] = dist
    run.cov["traces_validated_against_impl"] = evals
    run.assumptions = cfg.get("assumptions", [])
    return run.finish()


def do_replay(cfg, path):
    c = dict(cfg)
    c["model_args"] = "%s quick" % cfg["model_mode"]
    return vlib.std_replay(cfg["prop"], c, path)


def main(run):
    return check(run, CFG)


def replay(path):
    return do_replay(CFG, path)
