CFG = {
    "prop_v": "theories/Properties/C01.v",
    "cmd": "c01",
    "batches": lambda tier, seed: [("exhaustive", "-mode exhaustive -tier %s" % tier),
                                   ("interleave", "-mode interleave -tier %s" % tier),
                                   ("scale", "-mode scale -tier %s" % tier),
                                   ("selections", "-mode selections -tier %s" % tier),
                                   ("random", "-mode random -tier %s" % tier)],
    "signatures": {},
    "max_report": 1,       # one shrunk replay per batch (shrinking a hang costs a watchdog deadline per step)
    "model_args": "-prop C01",
    "rule": "exhaustive: every history over the alphabet Put k (4 keys) | Delete k | DeleteMin | DeleteMax | DeleteAll up to the "
            "length bound x {BST, AVL, Red-Black} x {ascending, reverse, a-b, b-a, 3*(a-b)} comparators (the difference-valued ones return "
            "magnitudes other than 1: only the sign may be used; plus a non-antisymmetric preorder on shorter histories); every prefix is a case; the first time an implementation reaches a state "
            "it gets the full battery (Size IsEmpty Height Min Max All, Get/Floor/Ceiling/Rank on present, absent and boundary keys, "
            "Select -1..n+1, Range/RangeSize on all ordered and inverted probe pairs, the 9 traversal orders, the public Traverse in every order and All() with visitors that stop after 0..n+1 pairs (visited prefix and number of visitor calls compared), "
            "Any/All/First/Select/PartitionMatch with 8 predicates, Equal against equal / differing / other-implementation siblings); "
            "interleave: every mutator history of exactly 4 (quick) / 5 (thorough) letters over 3 keys on ONE long-lived instance with a "
            "compact battery (Get/Floor/Ceiling/Rank on present and absent keys, Min Max Select RangeSize Range SelectMatch ...) immediately "
            "before and after every mutator, DeleteAll and re-use after it included; retention probes: returned Range slices and "
            "SelectMatch/PartitionMatch collections are kept, re-read after later queries and mutations (an answer already given cannot "
            "change) and finally overwritten, after which the table is queried again; "
            "scale: 120 / 400 keys (thorough up to 1000) inserted in sorted / reverse / zig-zag / random order, then every kind of query near both ends and "
            "in the middle under the CPU-time watchdog; selections: the history continues ON the table returned by SelectMatch / PartitionMatch "
            "(selection sizes 1..100) with the queries after every step; "
            "random: universes up to 64 keys, up to 400 steps, sorted / reverse / zig-zag / random insertion prefixes, churn with "
            "interleaved random queries (absent keys included), DeleteMin / DeleteMax / alternating drains. "
            "A case is non-trivial when at least two mutators changed the number of keys and the table reached two or more keys; "
            "distinct = distinct (implementation, comparator, mutator list).",
    "assumptions": ["Go int arithmetic does not overflow (sizes and ranks are below 2^31)",
                    "comparators are deterministic and satisfy the TotalOrder laws of C01/Spec.v (total preorder; only the sign is used)",
                    "the red-black delete family of the model runs on fuel nodes+1 (proved sufficient: C01_refines shows no Hang)"],
}
