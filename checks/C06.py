import os, sys
import re

def _pat(case):
    # the harness announces every Patricia case as "PENDING PAT | ..." before running it
    head = case.split("|")[0].split()
    return head[:1] == ["PAT"] or head[:2] == ["PENDING", "PAT"]

def _mm_op(m):
    # "PAT WP 61: implementation ..."
    mo = re.match(r"^PAT\s+(\S+)", m.get("what", ""))
    return mo.group(1) if mo else None

def sig_withprefix(case, m):
    return _pat(case) and m.get("kind") == "api.pat-withprefix" and _mm_op(m) == "WP"

def sig_longestprefixof(case, m):
    return (_pat(case) and m.get("kind") == "api.pat-longestprefixof" and _mm_op(m) == "LP"
            and "implementation none," in m.get("what", ""))

def sig_trailing_nul(case, m):
    # the shrunk history puts a key ending in 0x00
    puts = re.findall(r"\|\s*P\s+([0-9a-f]+)\s", case)
    return (_pat(case) and m.get("kind") == "api.pat-trailing-nul" and _mm_op(m) in ("P", "LP")
            and any(k.endswith("00") for k in puts))

NSHARDS = 15   # thorough tier: the exhaustive enumeration is cut into shards so that no trace exceeds ~150 MB


def _batches(tier):
    if tier == "thorough":
        ex = [("exhaustive-%02d" % i, "-mode exhaustive -tier thorough -shard %d -nshards %d" % (i, NSHARDS))
              for i in range(NSHARDS)]
    else:
        ex = [("exhaustive", "-mode exhaustive -tier quick")]
    return ex + [(mode, "-mode %s -tier %s" % (mode, tier)) for mode in ("ab", "abstar", "bytes", "nul", "adversarial", "long")]


CFG = {
    "prop_v": "theories/Properties/C06.v",
    "cmd": "c06",
    "batches": lambda tier, seed: _batches(tier),
    "signatures": {
        "pat-withprefix": sig_withprefix,
        "pat-longestprefixof": sig_longestprefixof,
        "pat-trailing-nul": sig_trailing_nul,
    },
    "max_report": 4,
    "rule": "every case runs on both tries. exhaustive: every history up to the length bound over Put/Delete of the 6 shortest keys "
            "of {a,b} (and of a/ab/aba/b chains) + DeleteMin/DeleteMax/DeleteAll, each followed by the full battery (Size, All, Min, Max, "
            "verify, structure dump, and Get/Floor/Ceiling/Rank/WithPrefix/LongestPrefixOf for every key of the universe, their proper "
            "prefixes, extensions and neighbours, Select -1..n, Range/RangeSize over argument pairs, Match for patterns with 0-2 wildcards); "
            "ab / abstar: random histories over {a,b}^<=4 and {a,b,*}^<=3 with queries interleaved; bytes: arbitrary bytes incl. 00 7f 80 ff "
            "with dense prefix relations; nul: the same with keys ending in 0x00; adversarial: prefix ladders and the full 256-fan; "
            "long: keys of 7/8/9/15/16/17/24/33 bytes in clusters sharing every prefix length and first differing at every bit offset, "
            "eight one-bit variants per byte around the 8-byte block borders, prefix chains of one long key, word pairs; "
            "keys of 63/64/65/66/96/130 bytes differing in one character at positions 0, 31, 62..65, len-2, len-1 with Match patterns "
            "of the same lengths (wildcards at those positions: single, pairs, all) and prefix/order queries. "
            "A case is non-trivial when it has >= 3 effective mutations and at least one Put/Delete of a key that is a proper prefix or "
            "extension of a held key; distinct = distinct (implementation, mutator sequence).",
    "assumptions": ["Go int arithmetic does not overflow (sizes, ranks and bit positions stay below 2^31)",
                    "values are ints; the model is polymorphic in the value type",
                    "the Patricia model's loops run on fuel length(heap)+2; exhaustion would be reported as HANG and compared with the implementation"],
}


def main(run):
    """std_check, but a finished batch's trace is deleted when the next batch starts (and the last one at
    the end) if it is big, so that the thorough tier never keeps more than one shard on disk."""
    sys.path.insert(0, os.path.join(os.path.dirname(os.path.dirname(os.path.abspath(__file__))), "lib"))
    import vlib
    orig = vlib.run_pair
    prev = {"path": None}

    def drop():
        p = prev["path"]
        if p and os.path.exists(p) and os.path.getsize(p) > (32 << 20):
            os.remove(p)

    def run_pair(trace_exe, model_exe, args, tag, **kw):
        drop()
        r = orig(trace_exe, model_exe, args, tag, **kw)
        prev["path"] = r[0]
        return r

    vlib.run_pair = run_pair
    try:
        return vlib.std_check(run, CFG)
    finally:
        vlib.run_pair = orig
        if run.tier == "thorough":
            drop()
