CFG = {
    "prop_v": "theories/Properties/C05.v",
    "cmd": "c05",
    "batches": lambda tier, seed: [("exhaustive", "-mode exhaustive -tier %s" % tier),
                                   ("random", "-mode random -tier %s" % tier),
                                   ("cascade", "-mode cascade -tier %s" % tier),
                                   ("large", "-mode large -tier %s" % tier),
                                   ("maxdeg", "-mode maxdeg -tier %s" % tier)],
    "signatures": {},
    "rule": "3 implementations (indexed binary/binomial/Fibonacci) x 5 comparators (library -1/0/1 min and max; magnitude-returning a-b, 3(a-b), b-a). exhaustive: every history over "
            "{Insert, ChangeKey, DeleteIndex (valid indices and -1, cap, cap+3), Delete, DeleteAll} up to the length bound at "
            "capacity 3 (keys 1..3) and capacity 1, plus valid-index alphabets at capacity 3 and the sparse index set {1,3} at "
            "capacity 4; each followed by the full query battery (Size, IsEmpty, Peek, layout, ContainsIndex/PeekIndex for all "
            "i in -1..cap+3, ContainsKey, ContainsValue) and a drain by Delete. random: capacities 1..10 (and 13..40), sparse "
            "index pools, 1/14 invalid indices, duplicate-heavy and wide key ranges, mixed / fill-then-churn / delete-heavy "
            "phases up to 200 steps. cascade: fill, one Delete, then key decreases below the minimum / DeleteIndex of deep nodes "
            "(marks, cascading cuts, promote/demote chains); thinning: one big tree (2^k+1 inserts + Delete, k=3..6), then DeleteIndex / decrease of "
            "the deepest nodes at depth >= 2 read from the hook layout of a scratch Fibonacci heap, Deletes interleaved (degree bound). "
            "large: nearly full big heaps - capacities 15, 31, 63, 127, 255, 500, 1000 (thorough also 511, 1023, 2000), a random 80-100 % of the "
            "indices filled, then 1500..20000 steps (30000 thorough) of 85 % key-lowering ChangeKey (random decrease, or below the current extremum), "
            "10 % Delete + re-Insert of the freed index, 5 % DeleteIndex + re-Insert, sampled Peek/Size/PeekIndex/ContainsKey, final query sweep and full drain; "
            "all three heaps on the same history, one of the five comparators drawn per capacity; capacities above 300 are refereed by the extracted specification only (PANIC/HANG and every "
            "answer the index map forbids are api; the exact model/layout comparison is skipped there, counter cases_spec_only). maxdeg: indexedFibonacci.maxDegree (float) against the model's exact value for "
            "n <= 30000, around every Fibonacci/Lucas number and random n <= 10^6 (all n <= 10^6 in the thorough tier). Every result is refereed by the extracted specification "
            "(api) and compared exactly with the extracted model incl. the hook layout (fidelity). A case is non-trivial when "
            "at least two successful ChangeKey/DeleteIndex happened on a heap holding >= 3 entries; distinct = distinct case lines.",
    "assumptions": ["keys and values are Go ints below 2^62 (no arithmetic is done on them); comparator is "
                    "generic.NewCompareFunc[int] or NewReverseCompareFunc[int], value equality is ==",
                    "the model reaches a node through its unique index label where the Go code follows nodes[i]; "
                    "nodes[] is reduced to its non-nil flags (the hook dump checks nodes[index] == node on every layout)",
                    "math.Log(n)/math.Log(phi) of indexedFibonacci.maxDegree is modelled by the exact value "
                    "1 + max{d | phi^d <= n} (C05_max_degree_bound is proved about that value); agreement of the float "
                    "expression is swept for n <= 10^6 by the maxdeg batch, not proved"],
}
