CFG = {
    "prop_v": "theories/Properties/C15.v",
    "cmd": "c01",
    "batches": lambda tier, seed: [("exhaustive", "-mode exhaustive -full=false -tier %s" % tier),
                                   ("shapes", "-mode shapes -tier %s" % tier),
                                   ("avlshapes", "-mode avlshapes -tier %s" % tier),
                                   ("selections", "-mode selections -tier %s" % tier),
                                   ("churn", "-mode churn -tier %s" % tier)],
    "signatures": {},
    "max_report": 1,       # one shrunk replay per batch (shrinking a hang costs a watchdog deadline per step)
    "model_args": "-prop C15",
    "rule": "after every mutator (exhaustive short histories over 4 keys x 3 implementations x up to 6 comparators, among them a-b, b-a and 3*(a-b) whose results are never +-1) and periodically in long "
            "histories (sorted / reverse-sorted / zig-zag / random insertions of up to 300 (quick) or 3000 (thorough) keys followed by "
            "DeleteMin / DeleteMax / alternating / keyed drains; random churn over up to 64 keys) the harness records Height(), "
            "Traverse(VLR), Traverse(LVR) and the hook dump (cached size, height, colour per node). The driver rebuilds the shape from "
            "the two public traversals with the extracted, proved rebuild function and checks Height() = longest path, AVL balance on "
            "real heights, cached = real heights (also: avlshapes = adversarial AVL shapes at scale — minimal (Fibonacci), sparse-spine and key-rich "
            "subtrees of heights 5-9 on both sides of a node, realised by level-order Put, then Delete of the two-children node / its "
            "successor / predecessor / successor's parent / DeleteMin / DeleteMax; selections = the history continues ON the result of "
            "SelectMatch / PartitionMatch for selection sizes 1..100 (quick) with DeleteMin runs, Puts below the minimum, Delete in the upper "
            "half then Put in the lower half), red-black colour invariants, black balance and height <= 2*log2(n+1); the model tree "
            "is compared field by field as a fidelity observable. Non-trivial: two or more mutators that changed the number of keys, and two or more keys reached.",
    "assumptions": ["the hook VerifTreeDump reports the fields of the nodes faithfully (add-only file export_verif_trees.go)",
                    "Go int arithmetic does not overflow"],
}
