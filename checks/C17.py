CFG = {
    "prop_v": "theories/Properties/C17.v",
    "cmd": "c17",
    "batches": lambda tier, seed: [("exhaustive", "-mode exhaustive -tier %s" % tier),
                                   ("random", "-mode random -tier %s" % tier),
                                   ("big", "-mode big -tier %s" % tier)],
    "signatures": {},
    "rule": "exhaustive: every Union sequence up to the length bound over n<=4 (arguments from -1..n, i.e. invalid ones included) "
            "x 3 implementations, each followed by the full battery Count / Find p / IsConnected p q for all p,q in -1..n; "
            "big: n in {257,1000,4096,4101,5003,...} (not multiples of small powers of two) with unions through the last elements, long chains, self unions and the degenerate constructors n=0,1; random: n<=64, chain/star/uniform union shapes with invalid arguments mixed in, queries interleaved. "
            "A case is non-trivial when at least two unions were effective (merged two classes); distinct = distinct (impl,n,union list).",
    "assumptions": ["Go int arithmetic does not overflow for n < 2^62 (indices are compared, never added)",
                    "the model's Find loop runs on fuel n; C17_find proves the fuel is never exhausted"],
}
