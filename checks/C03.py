def _batches(tier, seed):
    return [("churn", "-mode churn -tier %s" % tier),
            ("adversarial", "-mode adversarial -tier %s" % tier),
            ("clients", "-mode clients -tier %s" % tier)]


CFG = {
    "prop_v": "theories/Properties/C03.v",
    "cmd": "c02",
    "batches": _batches,
    "signatures": {},
    "rule": "every operation of every case runs under a watchdog (progress-based, 500 ms per operation): HANG is a result value and the "
            "proved model never returns Hang. churn: the table is first grown `level` times (level 0..3 quick, 0..8 thorough), then "
            "3*capacity+40 rounds of Put/Delete of fresh keys in three styles (one or two keys in flight, lookups of the deleted and of an "
            "absent key), with lookups of resident keys, under hash families {fnv, id, const, mod3, class} and default/larger/tighter options, "
            "for all four tables; adversarial: fills across the growth threshold under a constant hash with lookups of absent colliding keys, "
            "delete/revive, threshold oscillation; clients: library-internal users of the quadratic table under the watchdog with a small oracle each — grammar.Productions under "
            "Add/Remove/RemoveAll churn of fresh heads with Get lookups; FIRST/FOLLOW tables via ComputeFIRST/ComputeFOLLOW on chain grammars with 20-300 "
            "symbols; lr.ParsingTable under AddACTION/SetGOTO/ACTION/GOTO churn over up to 200 states x 120 symbols. Non-trivial: at least one structural event on the model side (growth, shrink, "
            "in-place rehash, revival, successful Delete); distinct = distinct (configuration, op list).",
    "assumptions": ["a 500 ms watchdog deadline separates non-termination from slow operations (tables below 10^4 slots)",
                    "float32 load-factor comparisons equal the exact rational comparisons of the model",
                    "the harness installs the identity shuffle; the model runs with the identity oracle"],
    "timeout": 900,
}
