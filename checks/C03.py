def _batches(tier, seed):
    return [("churn", "-mode churn -tier %s" % tier),
            ("adversarial", "-mode adversarial -tier %s" % tier),
            ("clients", "-mode clients -tier %s" % tier)]


CFG = {
    "prop_v": "theories/Properties/C03.v",
    "cmd": "c02",
    "batches": _batches,
    "signatures": {},
    "rule": "every operation of every case runs under a watchdog (progress-based, 500 ms per operation): HANG is a result value and the "
            "proved model never returns Hang. churn: the table is first grown `level` times (level 0..3 quick, 0..8 thorough), then "
            "3*capacity+40 rounds of Put/Delete of fresh keys in three styles (one or two keys in flight, lookups of the deleted and of an "
            "absent key), with lookups of resident keys, under hash families {fnv, id, const, mod3, class} and default/larger/tighter options, "
            "for all four tables; adversarial: fills across the growth threshold under a constant hash with lookups of absent colliding keys, "
            "delete/revive, threshold oscillation; initial capacities whose growth/shrink targets lie next to squares of primes (59, 131, 229, 241, thorough: 239, 263, ...) "
            "filled to the limit of every size reached under one-class hash functions with absent-key Get/Delete after every Put; capacities the constructor must reject (121, 169, 289, 961, ...); clients: library-internal users of the quadratic table under the watchdog with a small oracle each, random and adversarial — key names are chosen through the public hash functions (HashNonTerminal, HashSymbol, HashState, HashTerminal) so that one whole quadratic probe cycle of the client's table (16 of 31 slots, 34 of 67 after one growth) is filled with live or soft-deleted entries while an absent key of that class is looked up / added / removed — grammar.Productions under "
            "Add/Remove/RemoveAll churn of fresh heads with Get lookups; FIRST/FOLLOW tables via ComputeFIRST/ComputeFOLLOW on chain grammars with 20-300 "
            "symbols; lr.ParsingTable under AddACTION/SetGOTO/ACTION/GOTO churn over up to 200 states x 120 symbols. Non-trivial: at least one structural event on the model side (growth, shrink, "
            "in-place rehash, revival, successful Delete); distinct = distinct (configuration, op list).",
    "assumptions": ["a 500 ms watchdog deadline separates non-termination from slow operations (tables below 10^4 slots)",
                    "float32 load-factor comparisons equal the exact rational comparisons of the model",
                    "the harness installs the identity shuffle; the model runs with the identity oracle"],
    "timeout": 900,
}


# the directed search on a table-size disagreement is shared with C02 (see checks/C02.py)
import importlib.util, os

_spec = importlib.util.spec_from_file_location("chk_c02", os.path.join(os.path.dirname(os.path.abspath(__file__)), "C02.py"))
_c02 = importlib.util.module_from_spec(_spec)
_spec.loader.exec_module(_c02)


def main(run):
    return _c02.check_with_directed_search(run, CFG)
