def _batches(tier, seed):
    return [("exhaustive", "-mode exhaustive -tier %s" % tier),
            ("adversarial", "-mode adversarial -tier %s" % tier),
            ("random", "-mode random -tier %s" % tier)]


CFG = {
    "prop_v": "theories/Properties/C02.v",
    "cmd": "c02",
    "batches": _batches,
    "signatures": {},
    "rule": "4 tables (chain, linear, quadratic, double) x hash families {fnv, id, const, const7, mod3, class (one probe class at "
            "every capacity), class5, high} x options {zero-valued (constructor defaults), explicit defaults, larger valid capacities, "
            "tighter load factors, and pairs with maxLF < 2*minLF (e.g. chain 4/6, open addressing 1/4 - 3/8, 3/8 - 1/2) for which the table rebuilt by a "
            "shrink grows again while entries are re-inserted (nested resize; inside the theorems' domain since the generic re-insertion lemmas)}. exhaustive: every history over {Put k, Delete k, DeleteAll} on 3 keys up to the length bound, from "
            "an empty table and from a table prefilled to just below its first growth, Size/Get after every step and the full battery "
            "(Size, IsEmpty, Get of every key and an absent one, All, layout dump, Equal in both directions against a rebuilt sibling, a perturbed one (changed value, missing key, extra key) and siblings of the same size with a different key set whose differing entries carry the zero value) at the end; key 0 and value 0 occur in every batch; "
            "adversarial: fill across the growth threshold with absent-key lookups, delete-and-revive every key, oscillation across "
            "grow/shrink thresholds, operations on empty tables, capacities next to squares of primes filled to the limit under one-class hashes, "
            "capacities the constructor must reject; on a fidelity disagreement about the table size m a directed search (same history under a constant hash, "
            "then fill-to-the-limit with absent-key Get/Delete; then one growth from primes just below m/2) looks for a property-level failure; random: phase-structured churn (grow, shrink, revive, put-then-delete) "
            "mirrored on a sibling table, up to 2500 (quick) / 5000 (thorough) steps. "
            "large tables (initial capacities 2^13..2^16 / primes of that size, a few hundred keys, shrinks and growths across the 4096/8192/65536 slot boundaries, "
            "FNV and high-bits-only hashes; compared with the extracted abstract map of Spec.v only); tables keyed by string and by []int of mixed lengths using the "
            "library's own hash functions (keys encoded injectively into integers); a determinism probe of every exported hash.HashFuncFor... "
            "A case is non-trivial when the model side saw at least one structural event (growth, shrink, in-place rehash, tombstone "
            "revival, or a successful Delete from a table holding 2+ keys); distinct = distinct (configuration, op list).",
    "assumptions": ["float32 load-factor comparisons equal the exact rational comparisons of the model (dyadic bounds, m < 2^22); swept by the correspondence",
                    "iteration order: the harness installs the identity shuffle (hook VerifIdentityShuffle) and the model runs with the identity oracle; "
                    "theorems quantify over every permutation oracle",
                    "Go int/uint64 arithmetic does not overflow (i*i, i*h2, 2*m) for tables below 2^31 slots",
                    "keys are ints with eqKey = (==), or strings / []int encoded injectively into ints; the model is parametric in K, V, eqKey, hash",
                    "tables with 2048+ initial slots are compared with the extracted abstract map (s_get, s_put, s_rem, s_equal of Spec.v) on property-level observables only"],
    "timeout": 900,
}


# ---------------------------------------------------------------- directed search on a table-size disagreement
# When model and implementation disagree only on a fidelity observable and that observable is the number of
# slots m (layout dump), the size policy of the implementation has drifted (isPrime, smallestPrimeLargerThan,
# thresholds).  A wrong size is exactly what can break termination (a composite size shortens the quadratic
# probe cycle), so before reporting `no-failing-input-found` the history is replayed with every key hashed to
# one probe class and the table is then filled to the limit of the disputed size, with Get/Delete of absent
# colliding keys after every Put, under the watchdog.  A hang or a wrong answer found this way is reported as
# the failing input.
import os, re, sys

sys.path.insert(0, os.path.join(os.path.dirname(os.path.dirname(os.path.abspath(__file__))), "lib"))
import vlib


def _directed_case(case, mismatch):
    what = mismatch.get("what", "")
    mm = re.search(r"implementation state \[m=(\d+) .*model state \[m=(\d+) ", what)
    if not mm or mm.group(1) == mm.group(2):
        return None
    impl_m = int(mm.group(1))
    head, ops = vlib.split_case(case)
    ops = [vlib.strip_results(o) for o in ops]
    try:
        k = int(mismatch.get("op", len(ops)))
    except ValueError:
        k = len(ops)
    prefix = [o for o in ops[:k] if o and o != "N"]
    mx = re.search(r"\bX([01])\b", ops[k - 1] if 0 < k <= len(ops) else "X0")
    x = mx.group(1) if mx else "0"
    keys = set()
    for o in prefix:
        f = o.split()
        if len(f) >= 2 and f[0][0] in "PGD":
            keys.add(int(f[1]))
    fill = min(max(impl_m, 64), 4000)
    fresh = [9000000 + j for j in range(fill)]
    absent = [9500000 + j for j in range(fill)]
    newops = list(prefix)
    for j in range(fill):
        newops += ["P%s %d %d" % (x, fresh[j], j), "G%s %d" % (x, absent[j]), "D%s %d" % (x, absent[j])]
        if j % 32 == 0:
            newops.append("S%s" % x)
    allkeys = sorted(keys | set(fresh) | set(absent))
    toks = [t for t in head.split() if not t.startswith("H=") and not t.startswith("hf=")]
    toks.append("hf=const")
    toks.append("H=" + ",".join("%d:0" % kk for kk in allkeys))
    return " ".join(toks) + " | " + " | ".join(newops)


def directed_search(prop, cfg, obj):
    """obj: the correspondence-broken violation object of std_check. Returns a failing-input object or None."""
    case, mismatch = obj.get("case"), obj.get("mismatch") or {}
    if not case:
        return None
    rc, out, model_exe = vlib.ocaml_build(prop)
    rc2, out2, trace_exe = vlib.go_build(cfg["cmd"])
    if rc or rc2:
        return None
    d = os.path.join(vlib.BUILD, "run" + vlib.repo_tag())
    os.makedirs(d, exist_ok=True)
    line = _directed_case(case, mismatch)
    if line is None:
        # the reported fidelity mismatch is not a layout dump (e.g. iteration order): replay the history with a
        # dump of both tables after every operation and look for the first disagreement on m
        head, ops = vlib.split_case(case)
        probe = []
        for o in [vlib.strip_results(o) for o in ops]:
            if o and o != "N":
                probe += [o, "X0", "X1"]
        pp = os.path.join(d, prop + "-sizeprobe.case")
        open(pp, "w").write(head + " | " + " | ".join(probe) + "\n")
        tp0, _, _, _, dout0 = vlib.run_pair(trace_exe, model_exe, "--replay " + pp, prop + "-sizeprobe", timeout=600)
        mism0, _, _ = vlib.parse_driver_output(dout0)
        traced0 = [l for l in open(tp0, errors="replace").read().split("\n") if l.strip() and not l.startswith("#")]
        for m0 in mism0:
            if traced0:
                line = _directed_case(traced0[0], m0)
                if line is not None:
                    mismatch = m0
                    break
    if line is None:
        return None
    cp = os.path.join(d, prop + "-directed.case")
    open(cp, "w").write(line + "\n")
    tp, rc1, err, rc3, dout = vlib.run_pair(trace_exe, model_exe, "--replay " + cp, prop + "-directed", timeout=600)
    mism, _, _ = vlib.parse_driver_output(dout)
    api = [m for m in mism if m.get("kind", "api") == "api"]
    traced = [l for l in open(tp, errors="replace").read().split("\n") if l.strip() and not l.startswith("#")]
    failing = traced[0] if traced else line
    if not api and rc1 == 0:
        # second stage: the options of the disputed history may leave the probe cycle of that size unsaturated.
        # Reach the disputed size by one growth from a prime capacity just below half of it, with the default
        # options and a constant hash, and fill to the limit.
        mm = re.search(r"implementation state \[m=(\d+) ", mismatch.get("what", ""))
        kind = case.split()[0]
        if not mm or kind not in ("quadratic", "double"):
            return None
        impl_m = int(mm.group(1))

        def is_prime(n):
            return n > 1 and all(n % q for q in range(2, int(n ** 0.5) + 1))

        cands = [c for c in range(impl_m // 2, max(30, impl_m // 2 - 60), -1) if is_prime(c)][:8]
        lines = []
        for c in cands:
            ks = list(range(impl_m + 8))
            ops = []
            for j in ks:
                ops += ["P0 %d %d" % (j, j), "G0 %d" % (9500000 + j), "D0 %d" % (9500000 + j)]
            allk = ks + [9500000 + j for j in ks]
            lines.append("%s cap=%d min=1/8 max=1/2 hf=const H=%s | %s"
                         % (kind, c, ",".join("%d:0" % k for k in allk), " | ".join(ops)))
        if not lines:
            return None
        open(cp, "w").write("\n".join(lines) + "\n")
        tp, rc1, err, rc3, dout = vlib.run_pair(trace_exe, model_exe, "--replay " + cp, prop + "-directed2", timeout=600)
        mism, _, _ = vlib.parse_driver_output(dout)
        api = [m for m in mism if m.get("kind", "api") == "api"]
        if not api and rc1 == 0:
            return None
        traced = [l for l in open(tp, errors="replace").read().split("\n") if l.strip() and not l.startswith("#")]
        if api:
            try:
                failing = traced[int(api[0].get("line", "1")) - 1]
            except (ValueError, IndexError):
                failing = traced[-1] if traced else lines[0]
        else:
            failing = traced[-1] if traced else lines[0]
    m = api[0] if api else {"line": "1", "op": "?", "kind": "api", "what": "harness exit %d: %s" % (rc1, err[-300:])}
    small, m2 = vlib.shrink(trace_exe, model_exe, failing, still_fails=lambda z: z.get("kind", "api") == "api", budget=150)
    if m2:
        failing, m = small, m2
    return {"kind": "implementation-vs-proved-model", "batch": "directed (size disagreement: %s)" % mismatch.get("what", "")[:160],
            "case": failing, "mismatch": m, "found_by": "directed search after a fidelity mismatch on the table size m",
            "replay_cmd": "bin/check %s --replay <this file>" % prop,
            "meaning": "implementation and model disagree on the table size; filling the table to the limit of the "
                       "implementation's size under a one-class hash function exhibits a property-level failure"}


def check_with_directed_search(run, cfg):
    orig = run.violation

    def hooked(replay_obj, no_input=False, tag=None):
        if no_input and replay_obj.get("kind") == "correspondence-broken":
            try:
                found = directed_search(run.prop, cfg, replay_obj)
            except Exception as ex:  # the directed search must never mask the original report
                vlib.log("directed search failed: %r" % (ex,))
                found = None
            if found:
                return orig(found, no_input=False, tag="directed")
        return orig(replay_obj, no_input=no_input, tag=tag)

    run.violation = hooked
    return vlib.std_check(run, cfg)


def main(run):
    return check_with_directed_search(run, CFG)
