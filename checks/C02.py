def _batches(tier, seed):
    return [("exhaustive", "-mode exhaustive -tier %s" % tier),
            ("adversarial", "-mode adversarial -tier %s" % tier),
            ("random", "-mode random -tier %s" % tier)]


CFG = {
    "prop_v": "theories/Properties/C02.v",
    "cmd": "c02",
    "batches": _batches,
    "signatures": {},
    "rule": "4 tables (chain, linear, quadratic, double) x hash families {fnv, id, const, const7, mod3, class (one probe class at "
            "every capacity), class5, high} x options {zero-valued (constructor defaults), explicit defaults, larger valid capacities, "
            "tighter load factors, and pairs with maxLF < 2*minLF (e.g. chain 4/6, open addressing 1/4 - 3/8, 3/8 - 1/2) for which the table rebuilt by a "
            "shrink grows again while entries are re-inserted (nested resize; outside the theorems' domain, covered by the correspondence only)}. exhaustive: every history over {Put k, Delete k, DeleteAll} on 3 keys up to the length bound, from "
            "an empty table and from a table prefilled to just below its first growth, Size/Get after every step and the full battery "
            "(Size, IsEmpty, Get of every key and an absent one, All, layout dump, Equal against a rebuilt and a perturbed sibling) at the end; "
            "adversarial: fill across the growth threshold with absent-key lookups, delete-and-revive every key, oscillation across "
            "grow/shrink thresholds, operations on empty tables; random: phase-structured churn (grow, shrink, revive, put-then-delete) "
            "mirrored on a sibling table, up to 2500 (quick) / 5000 (thorough) steps. "
            "A case is non-trivial when the model side saw at least one structural event (growth, shrink, in-place rehash, tombstone "
            "revival, or a successful Delete from a table holding 2+ keys); distinct = distinct (configuration, op list).",
    "assumptions": ["float32 load-factor comparisons equal the exact rational comparisons of the model (dyadic bounds, m < 2^22); swept by the correspondence",
                    "iteration order: the harness installs the identity shuffle (hook VerifIdentityShuffle) and the model runs with the identity oracle; "
                    "theorems quantify over every permutation oracle",
                    "Go int/uint64 arithmetic does not overflow (i*i, i*h2, 2*m) for tables below 2^31 slots",
                    "keys are ints with eqKey = (==); the model is parametric in K, V, eqKey, hash"],
    "timeout": 900,
}
