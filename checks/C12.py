CFG = {
    "prop_v": "theories/Properties/C12.v",
    "cmd": "c10",
    "batches": lambda tier, seed: [("exhaustive", "-mode c12-exhaustive -tier %s" % tier),
                                   ("random", "-mode c12-random -tier %s" % tier),
                                   ("deep", "-mode c12-deep -tier %s" % tier)],
    "signatures": {},
    "rule": "exhaustive: every grammar over <=2 terminals and <=2 non-terminals with <=3 productions x every token string up to length 4..7; "
            "random: LL(1)-biased and other random grammars (nullable non-terminals, unreachable/unproductive ones) x all token strings up to length 3..7 "
            "plus random sentences up to length 7, each also extended by extra tokens, doubled, truncated, perturbed, and a token outside the grammar.  "
            "Parse verdict, production callback sequence, ParseAndBuildAST tree and yield are compared with the proved model, the verdict also with an "
            "independent span-table recogniser and the production sequence with an independent leftmost-derivation replay.  Grammars with a table conflict get "
            "three inputs (Parse must return the table error).  A case is non-trivial when the table is conflict-free and at least one input is accepted and one rejected; "
            "distinct = distinct grammars.  A third of the grammars use non-terminal NAMES whose concatenations are ambiguous (names=concat: A, AA, AAA ...).  Wide grammars: one non-terminal with 20-40 alternatives starting with distinct terminals plus a nullable continuation over 20-70 terminals (table rows with many entries; a spinning lookup is cut by the watchdog and reported as HANG).  Deep batch: nesting depths 100/400/1000/3000 for E -> ( E ) | id and for the full expression grammar, right-recursive lists of 1000/5000 items, production bodies of 1100 symbols - Parse verdict, production sequence, ParseAndBuildAST tree and yield against the model (inputs over 300 tokens: the model runs without lexemes and tree shapes are compared with lexemes stripped; the yield-equals-input check on the Go tree stays exact). Half of the grammars give terminal i and non-terminal i the same NAME; every case ends with rounds on its ONE grammar object: parse with new parser objects (MP/MA), with one parser object re-used for all inputs (RP), edit the grammar in place through its public API (Productions.Add/Remove, Terminals.Add), rebuild the table and parse again, compared with the model of the edited grammar.",
    "assumptions": ["the lexer is modelled as the token list followed by io.EOF forever; callbacks never fail",
                    "the parser loop runs on fuel in the model (20000 steps in the driver); C12_terminates proves that a long enough run always finishes and C12_fuel_monotone that its result no longer changes; exhaustion in the driver would be reported as HANG"],
}
