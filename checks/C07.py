CFG = {
    "prop_v": "theories/Properties/C07.v",
    "cmd": "c07",
    "batches": lambda tier, seed: [("exhaustive", "-mode exhaustive -tier %s" % tier),
                                   ("random", "-mode random -tier %s" % tier)],
    "signatures": {},
    "rule": "one case = one input slice followed by every algorithm run on a fresh copy of it; in 5 of 8 cases the copy is a window of a larger backing array (whole[lo:hi], a prefix buf[:k], three-index slices with cap > len or cap == len) surrounded by guard elements, and besides the output every guard element must be unchanged (kind=api; arrays are values in the model, so the model side is unaffected by the layout). "
            "exhaustive: every slice of length <= 7 (thorough: 9) over keys {-1,0,1} tagged by position "
            "(the comparator ignores the tag; 3*(k1-k2) at full length, and k1-k2, -1/0/+1, reversed k2-k1, sign*(1+(k1-k2)^2) up to length 5 (7) and at random in the random batch, so that only the sign of the comparator may matter) x {Selection, Insertion, Shell, Merge, MergeRec, Quick3Way, Heap, unshuffled quick, "
            "Quick, quick after a scripted Shuffle, Shuffle, Select k for every k, partition, merge}; every slice of length <= 3 (4) over "
            "{MinInt64,-1,0,1,MaxInt64} x {LSDInt, MSDInt, LSDUint, MSDUint}; every slice of length <= 4 (5) over 6 short strings and "
            "<= 3 (4) over 8 two-byte strings with 0x00/0xff x {MSDString, Quick3WayString (+unshuffled core), LSDString}; every radix case also runs slices.Sort (op Native) against the specification-level sorted list. "
            "random: lengths 0-13, 14-18, 19-60 and 30-300 (both sides of the insertion cutoff 15); key shapes: uniform small/large range, "
            "ascending, descending, all equal, organ pipe, sawtooth, nearly sorted; integers: all 64-bit patterns, boundary values, one varying "
            "byte position (all eight), shared top bytes down to the last byte (deepest MSD recursion), extreme top/second-byte buckets (0x00,0x7f,0x80,0xff), column shapes (every byte position independently constant 0x00 / constant 0xff / constant other / varying, with a varying position above a constant one; a deterministic sweep over the constant position and short/long slices plus random ones), both signs; strings: fixed-width column shapes of the same kind, tiny alphabets, shared "
            "prefixes of length 0-40, prefixes of one string, all equal, fixed width, bytes 0x00/0xff/all 256. "
            "A case is non-trivial when its input has at least one adjacent inversion (the sort has to move an element); "
            "distinct = distinct (header, element list, op list).",
    "assumptions": ["Go int is 64 bits (bits.UintSize = 64) and index arithmetic does not overflow below 2^62 elements",
                    "math/rand is an oracle: the draw of Shuffle's iteration i is an arbitrary value in [0, n-i)",
                    "loops run on fuel in the model; the theorems show the fuel passed is never exhausted (no Hang) and no index is out of range (no Panic)",
                    "strings are byte sequences (every element in [0,256)); Go's native order on strings is bytewise lexicographic"],
    "timeout": 1500,
}
