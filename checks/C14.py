CFG = {
    "prop_v": "theories/Properties/C14.v",
    "cmd": "c14",
    "batches": lambda tier, seed: [("exhaustive", "-mode exhaustive -tier %s" % tier),
                                   ("random", "-mode random -tier %s" % tier),
                                   ("big", "-mode big -tier %s" % tier),
                                   ("ctor", "-mode ctor -tier %s" % tier),
                                   ("retain", "-mode retain -tier %s" % tier),
                                   ("huge", "-mode huge -tier %s" % tier)],
    "signatures": {},
    "max_report": 2,
    "rule": "A case is one graph (kind U/D/WU/WD, vertex count, AddEdge sequence) followed by queries: Paths(s,strategy).To(v) for all "
            "targets x sources x {DFS,DFSi,BFS}, Traverse with recording visitors, Orders, ConnectedComponents / "
            "StronglyConnectedComponents, DirectedCycle, Topological, MinimumSpanningTree, ShortestPathTree(s).PathTo(v). "
            "exhaustive: every multiset of <= 5 edges over <= 4 vertices incl. self-loops and parallel edges (weights from {0,1} or {0,1,2}; "
            "sampled in the quick tier, complete in thorough), edge order and end-point order shuffled; random: n <= 40, DAGs, near-DAGs, "
            "rings, islands, loop/parallel-heavy, out-of-range end points, weight regimes all-zero / all-equal / many ties / wide / 2^20; "
            "big: chains, stars, in-stars, reversed and double chains of 1020..1030 vertices (list block size 1024); "
            "ctor: for all four graph types the graph is built by the variadic constructor from a prefix of the edge list and extended by AddEdge "
            "(every split point), E() and every adjacency list re-read after every AddEdge (also a random prefix in the random mode); "
            "huge: 5000..9000 vertices for all four graph types (two fan levels + 3000-vertex path, lollipop = random blob + long path, grid, random graph with a "
            "long tail; BFS frontiers spanning several 1024-slot queue blocks followed by thin tails), BFS/DFSi path lengths for every target, single paths, "
            "Traverse, Orders, CC, validated natively by the driver with an independent BFS (reachability set, fewest-edges distance, real edges); "
            "weighted graphs use integer weights k and, in half of the cases, the exact float64 weights k*2^-40 / k*2^-60 / mixed k*2^-40 with k*2^-10 "
            "(the harness scales by an exact power of two and scales every printed weight/distance back, so the integer model predicts them exactly; "
            "no tolerance anywhere); "
            "retain: several result objects of ONE graph object (Paths for several sources/strategies, Orders, CC/SCC, DirectedCycle, Topological, "
            "MST, SPT) are kept, further queries and AddEdge calls follow, then the earlier objects are read (twice) and checked with the proved "
            "checkers against the graph as it was when each object was created; every op runs under a 3 s watchdog. "
            "Every implementation answer is validated by the extracted checkers (check_path, check_cycle, check_topo, check_scc, check_spt, "
            "check_msf: all proved sound) and against independent references (Floyd-Warshall hop counts and distances, Kruskal weight); exact "
            "equality with the model's tie-breaking is a fidelity observable (not compared for Prim/Dijkstra trees: abstract priority queue). "
            "Non-trivial = at least two valid edges and one query; distinct = digest of (kind, n, op list).",
    "assumptions": ["edge weights are integers in [0, 2^20], so every float64 sum/comparison in Prim/Dijkstra/Weight() is exact",
                    "math.MaxFloat64 in distTo is modelled as None (+infinity); exact for the weights above",
                    "list.Stack / list.Queue behave as LIFO / FIFO lists (C18's property; chains and stars across the block size 1024 are replayed on every run)",
                    "the indexed binary heap returns an entry of minimum key (C05's property); which one among equal keys is not modelled",
                    "Go recursion depth (recursive DFS) is not bounded by the model's fuel but by the goroutine stack (fine below ~10^6 vertices)",
                    "out-of-range arguments of Paths.To / ShortestPathTree (index panics) are outside the property; their mismatch would be kind=fidelity"],
}
