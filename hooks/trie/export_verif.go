//go:build verif

package trie

import (
	"fmt"
	"strings"
)

// VerifyInvariants exposes the unexported structural self-check of a trie.
func VerifyInvariants[V any](t Trie[V]) bool {
	return t.verify()
}

// VerifDump renders the internal structure of a trie in a canonical textual form.
//
// Binary trie:   size=<n> <node>   with <node> = "." for nil or "(<hex char>:<val or -> <left> <right>)".
// Patricia trie: size=<n> root=<id or -> followed by one "<id>:<bp>:<hex key>:<val>:<left id>:<right id>" per node,
// ids assigned in pre-order (node, left, right) along downward links starting at the root (id 0); "-" is nil.
func VerifDump[V any](t Trie[V]) string {
	var sb strings.Builder

	switch tt := t.(type) {
	case *binary[V]:
		fmt.Fprintf(&sb, "size=%d ", tt.size)
		var rec func(n *binaryNode[V])
		rec = func(n *binaryNode[V]) {
			if n == nil {
				sb.WriteString(".")
				return
			}
			if n.term {
				fmt.Fprintf(&sb, "(%02x:%v ", n.char, n.val)
			} else {
				fmt.Fprintf(&sb, "(%02x:- ", n.char)
			}
			rec(n.left)
			sb.WriteString(" ")
			rec(n.right)
			sb.WriteString(")")
		}
		rec(tt.root.left)

	case *patricia[V]:
		fmt.Fprintf(&sb, "size=%d", tt.size)
		if tt.root == nil {
			sb.WriteString(" root=-")
			break
		}
		sb.WriteString(" root=0")
		ids := map[*patriciaNode[V]]int{}
		var order []*patriciaNode[V]
		var number func(n *patriciaNode[V])
		number = func(n *patriciaNode[V]) {
			if _, ok := ids[n]; ok || len(order) > 1<<20 {
				return
			}
			ids[n] = len(order)
			order = append(order, n)
			if n.left != nil && n.left.bp > n.bp {
				number(n.left)
			}
			if n.right != nil && n.right.bp > n.bp {
				number(n.right)
			}
		}
		number(tt.root)
		ref := func(n *patriciaNode[V]) string {
			if n == nil {
				return "-"
			}
			if id, ok := ids[n]; ok {
				return fmt.Sprintf("%d", id)
			}
			return "?"
		}
		for id, n := range order {
			fmt.Fprintf(&sb, " %d:%d:%x:%v:%s:%s", id, n.bp, n.key.bits, n.val, ref(n.left), ref(n.right))
		}
	}

	return sb.String()
}
