//go:build verif

package set

import "math/rand"

// identitySource makes rand.Rand.Shuffle the identity permutation: Int63 is constantly
// 1<<63-1, so every draw j = Int31n(i+1) equals i and each swap(i, j) is a no-op.
type identitySource struct{}

func (identitySource) Int63() int64 { return 1<<63 - 1 }
func (identitySource) Seed(int64)   {}

// VerifSetShuffleSource replaces the package-level shuffle source (nil restores nothing;
// pass a source of your own). It exists only under the verif build tag.
func VerifSetShuffleSource(src rand.Source) {
	rmu.Lock()
	defer rmu.Unlock()
	r = rand.New(src)
}

// VerifIdentityShuffle makes All() iterate in slot order (deterministic).
func VerifIdentityShuffle() { VerifSetShuffleSource(identitySource{}) }
