//go:build verif

package symboltable

// VerifTreeNode is one node of an ordered symbol table (BST, AVL, Red-Black) with the
// cached fields that the public API does not expose. It exists only under the verif build tag.
type VerifTreeNode[K, V any] struct {
	Key      K
	Val      V
	Size     int  // cached subtree size
	Height   int  // cached subtree height (AVL only; 0 otherwise)
	Red      bool // colour of the link from the parent (Red-Black only)
	HasLeft  bool
	HasRight bool
}

// VerifTreeDump returns the kind ("bst", "avl", "rb") and the nodes of an ordered symbol table
// in pre-order (node, left subtree, right subtree). With HasLeft/HasRight the listing determines
// the shape of the tree. It returns ("", nil) for other implementations. Read-only.
func VerifTreeDump[K, V any](st OrderedSymbolTable[K, V]) (string, []VerifTreeNode[K, V]) {
	var out []VerifTreeNode[K, V]
	switch t := st.(type) {
	case *bst[K, V]:
		var walk func(n *bstNode[K, V])
		walk = func(n *bstNode[K, V]) {
			if n == nil {
				return
			}
			out = append(out, VerifTreeNode[K, V]{Key: n.key, Val: n.val, Size: n.size,
				HasLeft: n.left != nil, HasRight: n.right != nil})
			walk(n.left)
			walk(n.right)
		}
		walk(t.root)
		return "bst", out
	case *avl[K, V]:
		var walk func(n *avlNode[K, V])
		walk = func(n *avlNode[K, V]) {
			if n == nil {
				return
			}
			out = append(out, VerifTreeNode[K, V]{Key: n.key, Val: n.val, Size: n.size, Height: n.height,
				HasLeft: n.left != nil, HasRight: n.right != nil})
			walk(n.left)
			walk(n.right)
		}
		walk(t.root)
		return "avl", out
	case *redBlack[K, V]:
		var walk func(n *rbNode[K, V])
		walk = func(n *rbNode[K, V]) {
			if n == nil {
				return
			}
			out = append(out, VerifTreeNode[K, V]{Key: n.key, Val: n.val, Size: n.size, Red: n.color,
				HasLeft: n.left != nil, HasRight: n.right != nil})
			walk(n.left)
			walk(n.right)
		}
		walk(t.root)
		return "rb", out
	}
	return "", nil
}
