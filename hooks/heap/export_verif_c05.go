//go:build verif

package heap

import (
	"fmt"
	"strings"
)

// VerifC05Verify runs the unexported integrity check of an indexed heap.
func VerifC05Verify[K, V any](h IndexedHeap[K, V]) bool {
	return h.verify()
}

// VerifC05Dump prints the internal layout of an indexed heap (read-only).
//
//	binary:    B n;heap[1..n];pos[0..cap-1];held flags of kvs[0..cap-1]
//	binomial:  F n;forest   with tree = (index,key,order,0 children...) in sibling order, root list from head
//	fibonacci: F n;forest   with tree = (index,key,degree,mark children...) in ring order from the child pointer,
//	           root ring from ext; a ring that does not close within 1<<20 steps is cut with "!"
//
// It also checks that nodes[index] is the node carrying that index ("!map" is appended otherwise).
func VerifC05Dump[K, V any](h IndexedHeap[K, V]) string {
	var b strings.Builder
	switch t := h.(type) {
	case *indexedBinary[K, V]:
		fmt.Fprintf(&b, "B %d;", t.n)
		for k := 1; k <= t.n && k < len(t.heap); k++ {
			if k > 1 {
				b.WriteByte(',')
			}
			fmt.Fprintf(&b, "%d", t.heap[k])
		}
		b.WriteByte(';')
		for i, p := range t.pos {
			if i > 0 {
				b.WriteByte(',')
			}
			fmt.Fprintf(&b, "%d", p)
		}
		b.WriteByte(';')
		for _, kv := range t.kvs {
			if kv == nil {
				b.WriteByte('0')
			} else {
				b.WriteByte('1')
			}
		}
	case *indexedBinomial[K, V]:
		fmt.Fprintf(&b, "F %d;", t.n)
		ok := true
		var rec func(n *indexedBinomialNode[K, V])
		rec = func(n *indexedBinomialNode[K, V]) {
			for ; n != nil; n = n.sibling {
				if n.index < 0 || n.index >= len(t.nodes) || t.nodes[n.index] != n {
					ok = false
				}
				fmt.Fprintf(&b, "(%d,%v,%d,0", n.index, n.key, n.order)
				rec(n.child)
				b.WriteByte(')')
			}
		}
		rec(t.head)
		if !ok {
			b.WriteString("!map")
		}
	case *indexedFibonacci[K, V]:
		fmt.Fprintf(&b, "F %d;", t.n)
		ok := true
		steps := 0
		var rec func(n *indexedFibonacciNode[K, V])
		rec = func(start *indexedFibonacciNode[K, V]) {
			if start == nil {
				return
			}
			for n := start; ; {
				if steps++; steps > 1<<20 || n == nil {
					b.WriteByte('!')
					return
				}
				if n.index < 0 || n.index >= len(t.nodes) || t.nodes[n.index] != n {
					ok = false
				}
				m := 0
				if n.mark {
					m = 1
				}
				fmt.Fprintf(&b, "(%d,%v,%d,%d", n.index, n.key, n.degree, m)
				rec(n.child)
				b.WriteByte(')')
				if n = n.next; n == start {
					return
				}
			}
		}
		rec(t.ext)
		if !ok {
			b.WriteString("!map")
		}
	default:
		b.WriteString("?")
	}
	return b.String()
}
