//go:build verif

package heap

// VerifC05MaxDegree evaluates indexedFibonacci.maxDegree for a heap holding n entries.
func VerifC05MaxDegree(n int) int {
	h := &indexedFibonacci[int, int]{n: n}
	return h.maxDegree()
}
