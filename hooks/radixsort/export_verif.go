//go:build verif

package radixsort

// Verification hooks (add-only, compiled only with -tags verif).

// VerifQuick3WayString is Quick3WayString without the initial (globally seeded) shuffle.
func VerifQuick3WayString(a []string) {
	quick3WayString(a, 0, len(a)-1, 0)
}
