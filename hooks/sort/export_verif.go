//go:build verif

package sort

import (
	"math/rand"

	"github.com/moorara/algo/generic"
)

// Verification hooks (add-only, compiled only with -tags verif).
// Quick and Select shuffle with a time-seeded source; these entry points expose the
// deterministic cores and the same composition with a caller-supplied source.

// VerifQuick is Quick without the initial shuffle.
func VerifQuick[T any](a []T, cmp generic.CompareFunc[T]) {
	quick[T](a, 0, len(a)-1, cmp)
}

// VerifQuickRand is Quick with the caller's random source instead of a time-seeded one.
func VerifQuickRand[T any](a []T, cmp generic.CompareFunc[T], r *rand.Rand) {
	Shuffle[T](a, r)
	quick[T](a, 0, len(a)-1, cmp)
}

// VerifPartition exposes partition.
func VerifPartition[T any](a []T, lo, hi int, cmp generic.CompareFunc[T]) int {
	return partition[T](a, lo, hi, cmp)
}

// VerifMerge exposes merge on a fresh auxiliary slice.
func VerifMerge[T any](a []T, lo, mid, hi int, cmp generic.CompareFunc[T]) {
	aux := make([]T, len(a))
	merge[T](a, aux, lo, mid, hi, cmp)
}
