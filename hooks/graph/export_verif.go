//go:build verif

package graph

// Verification hooks (add-only, compiled only with -tags verif).
// The edge types have unexported fields and the package offers no constructor.

// VerifUndirectedEdge builds the weighted undirected edge {v, w, weight}.
func VerifUndirectedEdge(v, w int, weight float64) UndirectedEdge {
	return UndirectedEdge{v: v, w: w, weight: weight}
}

// VerifDirectedEdge builds the weighted directed edge {from, to, weight}.
func VerifDirectedEdge(from, to int, weight float64) DirectedEdge {
	return DirectedEdge{from: from, to: to, weight: weight}
}
